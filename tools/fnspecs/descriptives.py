"""cnvlib/descriptives.py + cnvlib/smoothing.py (C19): the scalar / elementwise statements of the robust estimators
and of the smoothers' parameter handling, translated statement-for-statement into Gen/FnDescriptives.v and
Gen/FnSmoothing.v.  numpy vector code is read per element (`d`, `w`, `mask` are one element of the arrays); reductions
(`.sum()`, `.mean()`, `.any()`, `len(..)`, an indexed element) enter as opaque typed inputs named by their source
expression.  Proofs/FnDescriptives.v ties every definition to the hand-written model (C19_source_* in Props/C19.v).

Not translatable with the present translator (reported, see the C19 report): chained comparisons (`0 < width < 1`,
`10 < n < 400`), integer powers other than 2 (`(1 - w_) ** 4`), a mask subscript of a non-name (`(w ** 2)[mask]`),
`np.nan` as a returned value, a `**kwargs` signature (the on_array / on_weighted_array wrappers), an `is None`
test that re-types an optional parameter by assignment (`if initial is None: initial = ...`), loops."""

_BILOC = dict(py_params=['a', 'initial'], closure=['c', 'epsilon'])

MODULES = {
    'FnDescriptives': ('cnvlib/descriptives.py', [
        # biweight_location.biloc_iter: w = d / max(c * mad, epsilon); mask = |w| < 1; w = (1 - w**2)**2   (per element)
        dict(name='biweight_location.biloc_iter', coq='fn_biloc_weight',
             params=[('d', 'Q'), ('mad', 'Q'), ('c', 'Q'), ('epsilon', 'Q')],
             fragment={'first': 'w = d / max(c * mad, epsilon)', 'last': 'w = (1 - w ** 2) ** 2'},
             returns=['mask', 'w'], ret=['B', 'Q'], **_BILOC),
        # ... weightsum = w[mask].sum(); if weightsum == 0: return initial; return initial + (d[mask]*w[mask]).sum()/weightsum
        dict(name='biweight_location.biloc_iter', coq='fn_biloc_update',
             params=[('w[mask].sum()', 'Q', 'wsum'), ('(d[mask] * w[mask]).sum()', 'Q', 'dwsum'), ('initial', 'Q')],
             fragment={'first': 'weightsum = w[mask].sum()', 'last': 'return initial + '},
             ret='Q', **_BILOC),
        # biweight_midvariance: w = d / max(c * mad, epsilon); mask = |w| < 1   (per element)
        dict(name='biweight_midvariance', coq='fn_bivar_weight',
             params=[('d', 'Q'), ('mad', 'Q'), ('c', 'Q'), ('epsilon', 'Q')],
             py_params=['a', 'initial', 'c', 'epsilon'],
             fragment={'first': 'w = d / max(c * mad, epsilon)', 'last': 'mask = np.abs(w) < 1'},
             returns=['w', 'mask'], ret=['Q', 'B']),
        # weighted_median: the midpoint, the rounding allowance, and the tie decision at the index found
        dict(name='weighted_median', coq='fn_wm_midpoint',
             params=[('weights.sum()', 'Q', 'wtot')], py_params=['a', 'weights'],
             fragment={'first': 'midpoint = ', 'last': 'midpoint = '}, returns=['midpoint'], ret='Q'),
        dict(name='weighted_median', coq='fn_wm_tolerance',
             params=[('len(a)', 'Z', 'n'), ('sys.float_info.epsilon', 'Q', 'eps'), ('cumulative_weight[-1]', 'Q', 'total')],
             py_params=['a', 'weights'],
             fragment={'first': 'tolerance = ', 'last': 'tolerance = '}, returns=['tolerance'], ret='Q'),
        dict(name='weighted_median', coq='fn_wm_pick',
             params=[('midpoint_idx', 'Z'), ('len(a)', 'Z', 'n'), ('cumulative_weight[midpoint_idx]', 'Q', 'cum'),
                     ('midpoint', 'Q'), ('tolerance', 'Q'),
                     ('a[midpoint_idx:midpoint_idx + 2].mean()', 'Q', 'pair_mean'), ('a[midpoint_idx]', 'Q', 'value')],
             py_params=['a', 'weights'],
             fragment={'first': 'if midpoint_idx < len(a) - 1', 'last': 'return a[midpoint_idx]'}, ret='Q'),
        # median_absolute_deviation / weighted_mad: if scale_to_sd: mad *= 1.4826; return mad
        dict(name='median_absolute_deviation', coq='fn_mad_scale',
             params=[('mad', 'Q'), ('scale_to_sd', 'B')], py_params=['a', 'scale_to_sd'],
             fragment={'first': 'if scale_to_sd', 'last': 'return mad'}, ret='Q'),
        dict(name='weighted_mad', coq='fn_wmad_scale',
             params=[('mad', 'Q'), ('scale_to_sd', 'B')], py_params=['a', 'weights', 'scale_to_sd'],
             fragment={'first': 'if scale_to_sd', 'last': 'return mad'}, ret='Q'),
        # mean_squared_error: if initial: a = a - initial   (per element)
        dict(name='mean_squared_error', coq='fn_mse_centre',
             params=[('a', 'Q'), ('initial', 'OQ')],
             fragment={'first': 'if initial', 'last': 'if initial'}, returns=['a'], ret='Q'),
        # q_n: return quartile / scale
        dict(name='q_n', coq='fn_qn_result',
             params=[('quartile', 'Q'), ('scale', 'Q')], py_params=['a'],
             fragment={'first': 'return quartile / scale', 'last': 'return quartile / scale'}, ret='Q'),
    ]),
    'FnSmoothing': ('cnvlib/smoothing.py', [
        # _width2wing: the three arithmetic pieces (the dispatch `0 < width < 1` is a chained comparison)
        dict(name='_width2wing', coq='fn_wing_frac',
             params=[('len(x)', 'Z', 'n'), ('width', 'Q')], py_params=['width', 'x', 'min_wing'],
             fragment={'first': 'wing = int(math.ceil(len(x) * width * 0.5))', 'last': 'wing = int(math.ceil('},
             returns=['wing'], ret='Z'),
        dict(name='_width2wing', coq='fn_wing_int',
             params=[('len(x)', 'Z', 'n'), ('width', 'Z')], py_params=['width', 'x', 'min_wing'],
             fragment={'first': 'width = min(width, len(x) - 1)', 'last': 'wing = int(width // 2)'},
             returns=['wing'], ret='Z'),
        dict(name='_width2wing', coq='fn_wing_clamp',
             params=[('wing', 'Z'), ('min_wing', 'Z'), ('len(x)', 'Z', 'n')], py_params=['width', 'x', 'min_wing'],
             fragment={'first': 'wing = max(wing, min_wing)', 'last': 'wing = min(wing, len(x) - 1)'},
             returns=['wing'], ret='Z'),
        # guess_window_size: width = 4 * sd * len(x) ** (4/5); max(3, int(round(width))); min(len(x), width)
        dict(name='guess_window_size', coq='fn_guess_width',
             params=[('sd', 'Q'), ('len(x) ** (4 / 5)', 'Q', 'pow45'), ('len(x)', 'Z', 'n')], py_params=['x', 'weights'],
             fragment={'first': 'width = 4 * sd * len(x) ** (4 / 5)', 'last': 'width = min(len(x), width)'},
             returns=['width'], ret='Z'),
        # savgol: the re-derivation of window width, polynomial order and iteration count from the wing obtained
        dict(name='savgol', coq='fn_savgol_params',
             params=[('total_wing', 'Z'), ('window_width', 'Z'), ('order', 'Z')],
             py_params=['x', 'total_width', 'weights', 'window_width', 'order', 'n_iter'],
             fragment={'first': 'total_width = 2 * total_wing + 1', 'last': 'n_iter = max(1, min('},
             returns=['window_width', 'order', 'n_iter'], ret=['Z', 'Z', 'Z']),
    ]),
    # biweight_location: ONE ITERATION of `for _i in range(max_iter):` -- result = biloc_iter(a, initial) (an opaque
    # input here; its statements are tied by FnDescriptives above), the convergence test, the re-centring
    # (Proofs/FnBilocLoop.v: C19_source_biloc_loop -- the step iterated max_iter times, stopping at the first `break`, IS
    #  Model/Descriptives.v biloc_loop)
    # mutations that break the tie: `<= epsilon` -> `< epsilon`; `initial = result` dropped; `abs(result - initial)` -> `abs(result)`
    'FnBilocLoop': ('cnvlib/descriptives.py', [
        dict(name='biweight_location', coq='fn_biloc_step', py_params=['a', 'initial', 'c', 'epsilon', 'max_iter'],
             loop=dict(first='for _i in range(max_iter)'),
             carried=[('initial', 'Q'), ('result', 'Q')],
             params=[('initial', 'Q'), ('result', 'Q'), ('epsilon', 'Q'), ('biloc_iter(a, initial)', 'Q', 'iter_value')],
             ret=['Q', 'Q']),
    ]),
}
