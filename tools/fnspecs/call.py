"""Scalar functions of cnvlib/call.py translated body-for-body into Gen/FnCall.v (copy-number path: C01, and
_reference_copies_pure for C02) and Gen/FnCallBaf.v (BAF path: C02).  Two generated modules, so that a change to (or a
refusal of) the BAF code does not touch the obligations of C01 and vice versa."""
MODULES = {
    'FnCall': ('cnvlib/call.py', [
        dict(name='_log2_ratio_to_absolute_pure', coq='fn_log2_ratio_to_absolute_pure',
             params=[('log2_ratio', 'Q'), ('ref_copies', 'Z')], ret='Q'),
        dict(name='_log2_ratio_to_absolute', coq='fn_log2_ratio_to_absolute',
             params=[('log2_ratio', 'Q'), ('ref_copies', 'Z'), ('expect_copies', 'Z'), ('purity', 'OQ')], ret='Q'),
        dict(name='_reference_copies_pure', coq='fn_reference_copies_pure',
             params=[('chrom', 'S'), ('ploidy', 'Z'), ('is_haploid_x_reference', 'B')], ret='Z'),
        # log2_ratios read per element: `absolutes` one value, the two row masks as boolean parameters
        # (Proofs/FnCall.v: C01_source_log2_ratios -- equals Model/Call.v `rescaled` in ratio space)
        dict(name='log2_ratios', coq='fn_log2_ratios',
             py_params=['cnarr', 'absolutes', 'ploidy', 'is_haploid_x_reference', 'diploid_parx_genome', 'min_abs_val',
                        'round_to_int'],
             params=[('absolutes', 'Q'), ('ploidy', 'Z'), ('is_haploid_x_reference', 'B'), ('min_abs_val', 'Q'),
                     ('round_to_int', 'B'),
                     ('cnarr.chr_x_filter(diploid_parx_genome).values', 'B', 'on_x'),
                     ('cnarr.chr_y_filter(diploid_parx_genome).values', 'B', 'on_y')], ret='Q'),
    ]),
    'FnCallBaf': ('cnvlib/call.py', [
        dict(name='rescale_baf', coq='fn_rescale_baf',
             params=[('purity', 'Q'), ('observed_baf', 'Q'), ('normal_baf', 'Q')], ret='Q'),
        # the allelic split of do_call (upper_baf ... the NaN masks), read per element
        # (Proofs/FnCallBaf.v: C02_source_alleles -- equals Model/Baf.v `alleles`)
        dict(name='do_call', coq='fn_alleles',
             py_params=['cnarr', 'variants', 'method', 'ploidy', 'purity', 'is_haploid_x_reference', 'is_sample_female',
                        'diploid_parx_genome', 'filters', 'thresholds'],
             fragment=dict(first='upper_baf = ', last="outarr['cn2'] = np.nan if"),
             params=[("outarr['baf']", 'OQ', 'baf'), ('absolutes', 'Q'), ("outarr['cn']", 'Z', 'cn')],
             returns=["outarr['cn1']", "outarr['cn2']"], ret=['OZ', 'OZ']),
    ]),
    # absolute_threshold's threshold scan, ONE ITERATION of `for cnum, thresh in enumerate(thresholds):` as a step
    # function of the loop variable cnum (result: new cnum, left-the-loop flag), plus the for/else fallback expression
    # and the NaN branch as fragments.  A module of its own, so that a refusal is attributed to the scan alone.
    # (Proofs/FnCallScan.v: C02_source_scan_step / C02_source_scan -- folding the step over enumerate(thresholds)
    #  equals Model/Threshold.v scan_row)
    'FnCallScan': ('cnvlib/call.py', [
        dict(name='_log2_ratio_to_absolute_pure', coq='fn_scan_abs_pure',
             params=[('log2_ratio', 'Q'), ('ref_copies', 'Z')], ret='Q'),
        dict(name='absolute_threshold', coq='fn_threshold_step',
             py_params=['cnarr', 'ploidy', 'thresholds', 'is_haploid_x_reference'],
             loop=dict(first='for cnum, thresh in enumerate(thresholds)', ignore_else=True),
             carried=[('cnum', 'Z')],
             params=[('cnum', 'Z'), ('thresh', 'Q'), ('row.log2', 'Q', 'log2'), ('ref_copies', 'Z'), ('ploidy', 'Z')],
             ret='Z'),
        # the for/else fallback: cnum = int(np.ceil(_log2_ratio_to_absolute_pure(row.log2, ref_copies)))
        dict(name='absolute_threshold', coq='fn_threshold_else',
             py_params=['cnarr', 'ploidy', 'thresholds', 'is_haploid_x_reference'],
             fragment=dict(first='cnum = int(np.', last='cnum = int(np.'),
             params=[('row.log2', 'Q', 'log2'), ('ref_copies', 'Z')], returns=['cnum'], ret='Z'),
        # (the NaN branch `if np.isnan(row.log2): logging.warning(...); absolutes[idx] = ref_copies; continue` does not
        #  fit: an expression statement (logging call) and a store to an integer-indexed array element inside the if --
        #  the translator answers "unsupported if-statement shape"; it stays with scan_row's `None => r` + correspondence)
    ]),
    # get_as_dframe_and_set_reference_and_expect_copies, per row: the two `np.repeat(ploidy, len(df))` defaults and the
    # masked `.loc[mask, column] = value` stores, each mask read as the row's own mask bit (chr_x_filter / chr_y_filter /
    # pary_filter of cnary.py are opaque booleans here; FnCnarySex ties those).  np.repeat(ploidy, len(df)) is, per row,
    # an opaque integer that the theorem instantiates with ploidy.
    # (Proofs/FnCallRefExpect.v: C01_source_ref_expect -- equals Model/Call.v ref_expect on every class of row)
    # mutations that break the tie: `ploidy // 2 if is_haploid_x_reference else ploidy` branches swapped; the PAR-Y
    # stores dropped; `0 if is_sample_female` -> `1 if ...`
    'FnCallRefExpect': ('cnvlib/call.py', [
        dict(name='get_as_dframe_and_set_reference_and_expect_copies', coq='fn_ref_expect',
             py_params=['cnarr', 'ploidy', 'is_haploid_x_reference', 'diploid_parx_genome', 'is_sample_female'],
             fragment=dict(first="df['reference'] = np.repeat(", last='if diploid_parx_genome is not None'),
             params=[('np.repeat(ploidy, len(df))', 'Z', 'ploidy_rep'), ('ploidy', 'Z'),
                     ('is_haploid_x_reference', 'B'), ('is_sample_female', 'B'),
                     ('cnarr.chr_x_filter(diploid_parx_genome)', 'B', 'x_mask'),
                     ('cnarr.chr_y_filter(diploid_parx_genome)', 'B', 'y_mask'),
                     ('diploid_parx_genome is not None', 'B', 'has_build'),
                     ('cnarr.pary_filter(diploid_parx_genome)', 'B', 'pary_mask')],
             returns=["df['reference']", "df['expect']"], ret=['Z', 'Z']),
    ]),
    # absolute_threshold: ONE ITERATION of the OUTER loop `for idx, row in enumerate(cnarr):` -- the NaN fallback (log line
    # dropped, absolutes[idx] = ref_copies, continue) and the store of the scanned copy number; the inner for/else scan is
    # an OPAQUE range here (its effect: cnum; FnCallScan ties its iteration and the else clause).
    # (Proofs/FnCallScanRow.v: C02_source_scan_row -- equals Model/Threshold.v scan_row)
    # mutations that break the tie: `absolutes[idx] = ref_copies` -> `= ploidy`; `np.isnan` test negated; `absolutes[idx] = cnum` -> `cnum + 1`
    'FnCallScanRow': ('cnvlib/call.py', [
        dict(name='_reference_copies_pure', coq='fn_scanrow_ref_pure',
             params=[('chrom', 'S'), ('ploidy', 'Z'), ('is_haploid_x_reference', 'B')], ret='Z'),
        dict(name='absolute_threshold', coq='fn_threshold_row',
             py_params=['cnarr', 'ploidy', 'thresholds', 'is_haploid_x_reference'],
             loop=dict(first='for idx, row in enumerate(cnarr)'),
             carried=[('absolutes[idx]', 'Z')],
             opaque=[dict(first='cnum = 0', last='for cnum, thresh in enumerate(thresholds)',
                          assigns=[('cnum', 'scanned')])],
             init=[('absolutes[idx]', 'Z', '0')],
             params=[('idx', 'Z'), ('row.chromosome', 'S', 'chromosome'), ('row.log2', 'OQ', 'log2'),
                     ('ploidy', 'Z'), ('is_haploid_x_reference', 'B'), ('scanned', 'Z')],
             ret='Z'),
    ]),
    # do_call: the DISPATCH between the calling paths, per row -- `if purity and purity < 1.0:` (clonal + clip, log2
    # rewritten, BAF rescaled when variants are given) / `elif method == "clonal":` (pure) / `if method == "threshold":`
    # (overrides).  The results of the called functions are opaque typed inputs keyed by their source text (each tied by a
    # module of its own); `absolutes` is unbound when no path computes it (method "none"): bound to 0 here and never read.
    # (Proofs/FnCallDispatch.v: C01_source_dispatch -- the choice is Model/Call.v use_purity, then the method)
    # mutations that break the tie: `purity < 1.0` -> `purity <= 1.0`; `elif method == "clonal"` -> `if ...`;
    # `if method == "threshold"` -> `elif ...`; `if variants:` (inside the purity branch) dropped
    'FnCallDispatch': ('cnvlib/call.py', [
        dict(name='do_call', coq='fn_dispatch',
             py_params=['cnarr', 'variants', 'method', 'ploidy', 'purity', 'is_haploid_x_reference', 'is_sample_female',
                        'diploid_parx_genome', 'filters', 'thresholds'],
             fragment=dict(first='if purity and purity < 1.0', last="if method == 'threshold'"),
             init=[('absolutes', 'Q', '(inject_Z 0)')],
             params=[('purity', 'OQ'), ('method', 'S'), ('variants', 'B'),
                     ("outarr['log2']", 'OQ', 'log2_in'), ("outarr['baf']", 'OQ', 'baf_in'),
                     ('absolute_clonal(outarr, ploidy, purity, is_haploid_x_reference, diploid_parx_genome, is_sample_female).clip(lower=0)',
                      'Q', 'clonal_clipped'),
                     ('log2_ratios(outarr, absolutes, ploidy, is_haploid_x_reference, diploid_parx_genome)', 'OQ', 'log2_rewritten'),
                     ("rescale_baf(purity, outarr['baf'])", 'OQ', 'baf_rescaled'),
                     ('absolute_pure(outarr, ploidy, is_haploid_x_reference)', 'Q', 'pure'),
                     ('absolute_threshold(outarr, ploidy, thresholds, is_haploid_x_reference)', 'Q', 'thresholded'),
                     ("['%g => %d' % (thr, i) for i, thr in enumerate(thresholds)]", 'LS', 'tokens_')],
             returns=['absolutes', "outarr['log2']", "outarr['baf']"], ret=['Q', 'OQ', 'OQ']),
    ]),
}
