"""Scalar functions of cnvlib/call.py translated body-for-body into Gen/FnCall.v."""
MODULES = {
    'FnCall': ('cnvlib/call.py', [
        dict(name='_log2_ratio_to_absolute_pure', coq='fn_log2_ratio_to_absolute_pure',
             params=[('log2_ratio', 'Q'), ('ref_copies', 'Z')], ret='Q'),
        dict(name='_log2_ratio_to_absolute', coq='fn_log2_ratio_to_absolute',
             params=[('log2_ratio', 'Q'), ('ref_copies', 'Z'), ('expect_copies', 'Z'), ('purity', 'OQ')], ret='Q'),
        dict(name='_reference_copies_pure', coq='fn_reference_copies_pure',
             params=[('chrom', 'S'), ('ploidy', 'Z'), ('is_haploid_x_reference', 'B')], ret='Z'),
        dict(name='rescale_baf', coq='fn_rescale_baf',
             params=[('purity', 'Q'), ('observed_baf', 'Q'), ('normal_baf', 'Q')], ret='Q'),
    ]),
}
