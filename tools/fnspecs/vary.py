"""C18: the elementwise / scalar code of cnvlib/vary.py, cnvlib/cmdutil.py (load_het_snps) and
skgenome/tabio/vcfio.py, translated body-for-body into Gen/FnVary.v, Gen/FnHet.v and Gen/FnVcfRead.v
(three generated modules: a refusal of one source file does not take the ties of the others with it).

  vary._tumor_boost                     fn_tumor_boost t n            (per element)
  vary._mirrored_baf                    fn_mirrored_baf vals above_half vals_median ; fn_mirror_direction vals_median
  vary.VariantArray.zygosity_from_freq  fn_zygosity_from_freq freq het_freq hom_freq   (per element)
  vary.VariantArray.heterozygous        fn_het_mask zygosity          (the row mask)
  cmdutil.load_het_snps                 fn_somatic_mask zyg n_zyg     (the T/N somatic mask)
  vcfio.read_vcf                        fn_alt_freq / fn_n_alt_freq count depth   (count / depth, then fillna)
  vcfio._extract_genotype               fn_zygosity n_distinct first_allele
  vcfio._get_alt_count                  fn_ad_alt len(AD) AD[1]       (the tuple branch)

The translator reads numpy code per element (`v[mask] = e`), but it has no reading for (1) positional
gather / scatter through an index array (`idx = np.nonzero(mask)[0]`, `x.take(idx)`, `out[idx] = e`), (2) masked
assignments inside a `for` loop (its desugaring does not enter loops), (3) `if / elif / else` chains that assign
(only two-way assignment-only ifs), (4) dict comprehensions (`fillna({col: 0.0 for col in ...})`).  As
tools/fnspecs/coverage.py does for the row tuple of region_depth_count, this spec closes those four gaps with
Python's `ast`, fail-closed: it checks that the statements have exactly the expected shape, rewrites them into ONE
conditional expression built from the SOURCE TEXT of their own sub-expressions (masks, formulas, literals), and hands
that text to the translator through `returns=`.  The elementwise reading that is applied (and checked) is:

    idx = np.nonzero(M)[0];  out[idx] = E(x.take(idx), ...)      ==   out = (E(x, ...) if M else out)
    z = np.repeat(c, n);  z[M1] = c1;  z[M2] = c2                ==   z = (c2 if M2 else (c1 if M1 else c))
    if A: v = a  elif B: v = b  else: v = c                      ==   v = (a if A else (b if B else c))
    table = table.fillna({col: c for col in table.columns[k:]})  ==   table[col] = table[col].fillna(c)  for col no. >= k

If a function no longer has the expected shape, the fragment is made unfindable and the translator refuses (a broken
tie for C18).  Not translated (reported): _get_alt_count as a whole and the depth chain of _extract_genotype (None /
tuple constants, isinstance, np.nan as a value, nested assignment chains), _safesum, _choose_samples / _parse_pedigrees /
_parse_records (loops, generators, dicts), baf_by_ranges / het_frac_by_ranges / into_ranges (pandas table code).

Loop ties added later (modules FnVcfGenotype, FnVcfAltCount, FnVcfRecords, FnVarySeries at the end of MODULES; theorems in
Proofs/FnVcfGenotype.v, FnVcfRecords.v, FnVarySeries.v, restated at the end of Props/C18.v): _extract_genotype and
_get_alt_count are now translated as WHOLE functions (if / elif chains of assignments, np.nan as a declared optional
input), _parse_records' two loops as step functions (the try block and the row tuple are opaque ranges), the INFO-only
genotype as a fragment, into_ranges' series2value as a whole function.  Still not tied: _safesum, _choose_samples /
_parse_pedigrees (dict / list code), the row tuple of _parse_records (tuples of mixed types, `row += (...)`: pinned by
tools/genspecs), baf_by_ranges' table pipeline (heterozygous(), add_columns, into_ranges: pandas table code).

Mutations tried on a scratch copy (each breaks the named Proofs file, i.e. an obligation of C18; none survives):
  FnVcfGenotype  `depth = _safesum(sample["AD"])` -> `... + 1` ; `len(gts) > 1` -> `> 2` ; `gts.pop() == 0` -> `!= 0` ;
                 `if "DP" in sample:` -> `if "DP" in sample and sample["DP"]:`
  FnVcfAltCount  `len(sample["AD"]) > 1` -> `> 2` ; the single-entry AD `alt_count = 0.0` -> `np.nan`
  FnVcfRecords   `alt == "<NON_REF>"` -> `"<*>"` ; `and len(set(record.filter) - {...})` -> `and not len(...)` ;
                 `skip_reject and record.filter` -> `record.filter` ; the `continue` after `cnt_reject += 1` removed ;
                 INFO-only `zygosity = 0.0` -> `0.5`
  FnVarySeries   `len(ser) == 1` -> `== 2` ; `return default` -> `return summary_func(ser)`"""
import ast, os, sys

VARY = 'cnvlib/vary.py'
CMDUTIL = 'cnvlib/cmdutil.py'
VCFIO = 'skgenome/tabio/vcfio.py'


def _repo():
    for name in ('py2v_fn', '__main__'):
        m = sys.modules.get(name)
        if m is not None and hasattr(m, 'REPO') and hasattr(m, 'FnTranslator'):
            return m.REPO
    return os.environ.get('CNVKIT_REPO', '/repo')


class Shape(Exception):
    pass


def _func(rel, qual):
    tree = ast.parse(open(os.path.join(_repo(), rel)).read())
    node = tree
    for part in qual.split('.'):
        found = None
        for ch in ast.walk(node):
            if ch is not node and isinstance(ch, (ast.FunctionDef, ast.ClassDef)) and ch.name == part:
                found = ch
                break
        if found is None:
            raise Shape('no definition %s in %s' % (qual, rel))
        node = found
    return node


def _body(fn):
    """statements of a function without its docstring"""
    b = list(fn.body)
    if b and isinstance(b[0], ast.Expr) and isinstance(b[0].value, ast.Constant) and isinstance(b[0].value.value, str):
        b = b[1:]
    return b


def _u(n):
    return ast.unparse(n)


def _names(n):
    return {x.id for x in ast.walk(n) if isinstance(x, ast.Name)}


def _assign(s, target_src=None):
    if not (isinstance(s, ast.Assign) and len(s.targets) == 1):
        raise Shape('not a single assignment: %s' % _u(s))
    if target_src is not None and _u(s.targets[0]) != target_src:
        raise Shape('expected an assignment to %s, found %s' % (target_src, _u(s)))
    return s.value


class _StripTake(ast.NodeTransformer):
    """x.take(idx) -> x  (idx must be the expected index array, x a plain name)"""

    def __init__(self, idx):
        self.idx = idx

    def visit_Call(self, n):
        n = self.generic_visit(n)
        if isinstance(n.func, ast.Attribute) and n.func.attr == 'take':
            if not (len(n.args) == 1 and not n.keywords and _u(n.args[0]) == self.idx and isinstance(n.func.value, ast.Name)):
                raise Shape('unexpected gather %s' % _u(n))
            return n.func.value
        return n


def _tumor_boost_expr():
    b = _body(_func(VARY, '_tumor_boost'))
    if len(b) != 7:
        raise Shape('_tumor_boost has %d statements' % len(b))
    _assign(b[0], 'lt_mask')
    if _names(b[0].value) != {'t_freqs', 'n_freqs'}:
        raise Shape('lt_mask does not depend on exactly t_freqs, n_freqs')
    for s, want in ((b[1], 'lt_idx = np.nonzero(lt_mask)[0]'), (b[2], 'gt_idx = np.nonzero(~lt_mask)[0]'),
                    (b[3], 'out = pd.Series(np.zeros_like(t_freqs))'), (b[6], 'return out')):
        if _u(s) != want:
            raise Shape('expected `%s`, found `%s`' % (want, _u(s)))
    parts = []
    for s, idx in ((b[4], 'lt_idx'), (b[5], 'gt_idx')):
        v = _assign(s, 'out[%s]' % idx)
        v = ast.fix_missing_locations(_StripTake(idx).visit(ast.parse(_u(v), mode='eval').body))
        if _names(v) - {'t_freqs', 'n_freqs'}:
            raise Shape('scattered value reads %s' % sorted(_names(v)))
        parts.append(_u(v))
    # out = zeros; out[lt] = E1; out[gt] = E2   (in this order), per element
    return '((%s) if ~lt_mask else ((%s) if lt_mask else 0.0))' % (parts[1], parts[0])


def _zygosity_from_freq_expr():
    fn = _func(VARY, 'VariantArray.zygosity_from_freq')
    loops = [s for s in _body(fn) if isinstance(s, ast.For)]
    if len(loops) != 1:
        raise Shape('zygosity_from_freq: expected one loop')
    lp = loops[0]
    if _u(lp.target) != '(freq_key, zyg_key)' or \
            _u(lp.iter) != "(('alt_freq', 'zygosity'), ('n_alt_freq', 'n_zygosity'))" or lp.orelse:
        raise Shape('zygosity_from_freq: loop header is `for %s in %s`' % (_u(lp.target), _u(lp.iter)))
    if not (len(lp.body) == 1 and isinstance(lp.body[0], ast.If) and _u(lp.body[0].test) == 'zyg_key in self'
            and not lp.body[0].orelse):
        raise Shape('zygosity_from_freq: loop body is not `if zyg_key in self:`')
    b = lp.body[0].body
    if len(b) < 4:
        raise Shape('zygosity_from_freq: %d statements under the if' % len(b))
    init = _assign(b[0], 'zyg')
    if not (isinstance(init, ast.Call) and _u(init.func) == 'np.repeat' and len(init.args) == 2 and not init.keywords
            and isinstance(init.args[0], ast.Constant) and _u(init.args[1]) == 'len(self)'):
        raise Shape('zyg is initialised by %s' % _u(init))
    if _u(b[1]) != 'vals = self[freq_key].values':
        raise Shape('expected `vals = self[freq_key].values`, found `%s`' % _u(b[1]))
    if _u(b[-1]) != 'self[zyg_key] = zyg':
        raise Shape('expected `self[zyg_key] = zyg`, found `%s`' % _u(b[-1]))
    expr = _u(init.args[0])
    for s in b[2:-1]:
        v = _assign(s)
        t = s.targets[0]
        if not (isinstance(t, ast.Subscript) and _u(t.value) == 'zyg' and isinstance(v, ast.Constant)):
            raise Shape('not a masked constant assignment to zyg: %s' % _u(s))
        if _names(t.slice) - {'vals', 'het_freq', 'hom_freq'}:
            raise Shape('mask reads %s' % sorted(_names(t.slice)))
        expr = '((%s) if (%s) else %s)' % (_u(v), _u(t.slice), expr)
    return expr


def _fillna_expr(col):
    """table[col].fillna(<v>) after checking that read_vcf fills every column from index k on and that `col` is
    created after the `columns` list (of at least k names) was laid out"""
    b = _body(_func(VCFIO, 'read_vcf'))
    cols = [s for s in b if isinstance(s, ast.Assign) and _u(s.targets[0]) == 'columns' and isinstance(s.value, ast.List)]
    if len(cols) != 1:
        raise Shape('read_vcf: expected one `columns = [...]`')
    hits = []
    for i, s in enumerate(b):
        if isinstance(s, ast.Assign) and _u(s.targets[0]) == 'table' and isinstance(s.value, ast.Call) \
                and _u(s.value.func) == 'table.fillna' and len(s.value.args) == 1 and isinstance(s.value.args[0], ast.DictComp):
            dc = s.value.args[0]
            g = dc.generators
            if not (len(g) == 1 and not g[0].ifs and _u(g[0].target) == 'col' and _u(dc.key) == 'col'
                    and isinstance(dc.value, ast.Constant) and isinstance(g[0].iter, ast.Subscript)
                    and _u(g[0].iter.value) == 'table.columns' and isinstance(g[0].iter.slice, ast.Slice)
                    and g[0].iter.slice.upper is None and g[0].iter.slice.step is None
                    and isinstance(g[0].iter.slice.lower, ast.Constant)):
                raise Shape('read_vcf: fillna argument is %s' % _u(dc))
            hits.append((i, _u(dc.value), g[0].iter.slice.lower.value))
    if len(hits) != 1:
        raise Shape('read_vcf: expected one table.fillna({...})')
    at, v, k = hits[0]
    if not (isinstance(k, int) and 0 <= k <= len(cols[0].value.elts)):
        raise Shape('read_vcf: fillna starts at column %r of %d' % (k, len(cols[0].value.elts)))
    # the frequency column must be assigned before the fillna statement (top level or under `if nid:`)
    found = False
    for s in b[:at]:
        for x in ([s] + (s.body if isinstance(s, ast.If) else [])):
            if isinstance(x, ast.Assign) and _u(x.targets[0]) == "table['%s']" % col:
                found = True
    if not found:
        raise Shape('read_vcf: %s is not assigned before fillna' % col)
    return "table['%s'].fillna(%s)" % (col, v)


def _zygosity_chain():
    """_extract_genotype: gts = set(sample['GT']); if len(gts) > 1: z = a  elif gts.pop() == 0: z = b  else: z = c"""
    b = _body(_func(VCFIO, '_extract_genotype'))
    for i, s in enumerate(b):
        if isinstance(s, ast.If) and len(s.body) == 1 and isinstance(s.body[0], ast.Assign) \
                and _u(s.body[0].targets[0]) == 'zygosity':
            if i == 0 or _u(b[i - 1]) != "gts = set(sample['GT'])":
                raise Shape('_extract_genotype: the zygosity chain does not follow `gts = set(sample[\'GT\'])`')
            if _names(s.test) != {'len', 'gts'}:
                raise Shape('_extract_genotype: first zygosity test is %s' % _u(s.test))
            if not (len(s.orelse) == 1 and isinstance(s.orelse[0], ast.If)):
                raise Shape('_extract_genotype: the zygosity chain has no elif')
            inner = s.orelse[0]
            for blk in (inner.body, inner.orelse):
                if not (len(blk) == 1 and isinstance(blk[0], ast.Assign) and _u(blk[0].targets[0]) == 'zygosity'):
                    raise Shape('_extract_genotype: a zygosity branch is not one assignment')
            if not isinstance(s.body[0].value, ast.Constant):
                raise Shape('_extract_genotype: heterozygous value is %s' % _u(s.body[0].value))
            return 'if ' + _u(inner.test), '((%s) if (%s) else zygosity)' % (_u(s.body[0].value), _u(s.test))
    raise Shape('_extract_genotype: no zygosity chain')


def _guard(build, first_ok):
    """(first, returns) of a fragment spec; on a shape failure the fragment cannot be found (translator refuses)"""
    try:
        return first_ok, [build()]
    except Exception as exc:  # noqa -- fail closed
        return '<shape check failed: %s>' % exc, ['0']


def _spec_tumor_boost():
    first, rets = _guard(_tumor_boost_expr, 'lt_mask = ')
    return dict(name='_tumor_boost', coq='fn_tumor_boost', params=[('t_freqs', 'Q'), ('n_freqs', 'Q')],
                fragment={'first': first, 'last': first}, returns=rets, ret='Q')


def _spec_zygosity_from_freq():
    first, rets = _guard(_zygosity_from_freq_expr, 'vals = ')
    return dict(name='VariantArray.zygosity_from_freq', coq='fn_zygosity_from_freq',
                py_params=['self', 'het_freq', 'hom_freq'],
                params=[('self[freq_key].values', 'Q', 'freq'), ('het_freq', 'Q'), ('hom_freq', 'Q')],
                fragment={'first': first, 'last': first}, returns=rets, ret='Q')


def _spec_alt_freq(col, coq, cnt, dep):
    first, rets = _guard(lambda: _fillna_expr(col), "table['%s'] = " % col)
    return dict(name='read_vcf', coq=coq,
                py_params=['infile', 'sample_id', 'normal_id', 'min_depth', 'skip_reject', 'skip_somatic'],
                params=[("table['%s']" % cnt, 'OQ', 'count'), ("table['%s']" % dep, 'OQ', 'depth')],
                fragment={'first': first, 'last': first}, returns=rets, ret='Q')


def _spec_zygosity():
    try:
        first, ret = _zygosity_chain()
    except Exception as exc:  # noqa -- fail closed
        first, ret = '<shape check failed: %s>' % exc, '0'
    return dict(name='_extract_genotype', coq='fn_zygosity', py_params=['sample', 'record'],
                params=[('len(gts)', 'Z', 'n_distinct'), ('gts.pop()', 'Z', 'first_allele')],
                fragment={'first': first, 'last': first}, returns=[ret], ret='Q')


MODULES = {
    'FnVary': (VARY, [
        _spec_tumor_boost(),
        # vals as an optional number: NaN propagates through `(vals - 0.5).abs()` and `0.5 +- shift`;
        # `above_half is None` is false for a given flag; vals.median() is an opaque input
        dict(name='_mirrored_baf', coq='fn_mirrored_baf',
             params=[('vals', 'OQ'), ('above_half', 'B'), ('vals.median()', 'Q', 'vals_median')], ret='OQ'),
        dict(name='_mirrored_baf', coq='fn_mirror_direction', py_params=['vals', 'above_half'],
             params=[('vals.median()', 'Q', 'vals_median')],
             fragment={'first': 'above_half = ', 'last': 'above_half = '}, returns=['above_half'], ret='B'),
        _spec_zygosity_from_freq(),
        dict(name='VariantArray.heterozygous', coq='fn_het_mask', py_params=['self'],
             params=[("self['n_zygosity' if 'n_zygosity' in self else 'zygosity']", 'Q', 'zygosity')],
             fragment={'first': 'zygosity = ', 'last': 'het_idx = '}, returns=['het_idx'], ret='B'),
    ]),
    'FnHet': (CMDUTIL, [
        dict(name='load_het_snps', coq='fn_somatic_mask',
             py_params=['vcf_fname', 'sample_id', 'normal_id', 'min_variant_depth', 'zygosity_freq', 'tumor_boost'],
             params=[("varr['zygosity']", 'Q', 'zyg'), ("varr['n_zygosity']", 'Q', 'n_zyg')],
             fragment={'first': 'somatic_idx = ', 'last': 'somatic_idx = '}, returns=['somatic_idx'], ret='B'),
    ]),
    'FnVcfRead': (VCFIO, [
        _spec_alt_freq('alt_freq', 'fn_alt_freq', 'alt_count', 'depth'),
        _spec_alt_freq('n_alt_freq', 'fn_n_alt_freq', 'n_alt_count', 'n_depth'),
        _spec_zygosity(),
        dict(name='_get_alt_count', coq='fn_ad_alt', py_params=['sample'],
             params=[("len(sample['AD'])", 'Z', 'ad_len'), ("sample['AD'][1]", 'Q', 'ad_1')],
             fragment={'first': "if len(sample['AD']) > 1", 'last': "if len(sample['AD']) > 1"},
             returns=['alt_count'], ret='Q'),
    ]),
    # ---- loop ties (LOOP_TIES_GUIDE): whole decision chains and loop iterations, translated statement by statement ----
    # _extract_genotype as a whole: the depth chain (FORMAT DP, else the AD sum, else INFO DP, else NaN), the zygosity
    # chain on the set of GT alleles, the alt count (_get_alt_count's result is an opaque input here; tied below).
    # Container tests / reads are opaque typed inputs keyed by their source text; a missing value ('.', None) and NaN are
    # None; `gts.pop() == 0` on a missing allele is False (None == 0).
    # (Proofs/FnVcfGenotype.v: C18_source_extract_genotype -- = Model/Vcf.v depth_of / zygosity_of / alt_count_of)
    'FnVcfGenotype': (VCFIO, [
        dict(name='_extract_genotype', coq='fn_extract_genotype', py_params=['sample', 'record'],
             params=[("'DP' in sample", 'B', 'has_dp'), ("sample['DP']", 'OZ', 'sample_dp'),
                     ("'AD' in sample", 'B', 'has_ad'), ("isinstance(sample['AD'], tuple)", 'B', 'ad_is_tuple'),
                     ("_safesum(sample['AD'])", 'Z', 'ad_sum'),
                     ("'DP' in record.info", 'B', 'has_info_dp'), ("record.info['DP']", 'OZ', 'info_dp'),
                     ('np.nan', 'OZ', 'nan'),
                     ("set(sample['GT'])", 'Z', 'gt_set'), ('len(gts)', 'Z', 'n_distinct'), ('gts.pop()', 'OZ', 'first_allele'),
                     ('_get_alt_count(sample)', 'OQ', 'alt_count_value')],
             ret=['OZ', 'Q', 'OQ']),
    ]),
    # _get_alt_count as a whole: AD (tuple: second entry, 0.0 when there is only one; scalar: itself), else CLCAD2[1],
    # else AO (tuple: its sum; scalar: itself when non-zero, else 0.0), else NaN.
    # (Proofs/FnVcfAltCount.v: C18_source_alt_count -- = Model/Vcf.v alt_count_of on pysam's samples: AD a tuple, no
    #  CLCAD2 / AO fields)
    'FnVcfAltCount': (VCFIO, [
        dict(name='_get_alt_count', coq='fn_get_alt_count', py_params=['sample'],
             params=[("sample.get('AD') not in (None, (None,))", 'B', 'ad_given'),
                     ("isinstance(sample['AD'], tuple)", 'B', 'ad_is_tuple'),
                     ("len(sample['AD'])", 'Z', 'ad_len'), ("sample['AD'][1]", 'OQ', 'ad_1'), ("sample['AD']", 'OQ', 'ad_scalar'),
                     ("sample.get('CLCAD2') not in (None, (None,))", 'B', 'clcad2_given'), ("sample['CLCAD2'][1]", 'OQ', 'clcad2_1'),
                     ("'AO' in sample", 'B', 'has_ao'), ("isinstance(sample['AO'], tuple)", 'B', 'ao_is_tuple'),
                     ("_safesum(sample['AO'])", 'Q', 'ao_sum'), ("sample['AO']", 'OQ', 'ao_scalar'),
                     ('np.nan', 'OQ', 'nan')],
             ret='OQ'),
    ]),
    # _parse_records: ONE ITERATION of `for record in records:` (the REJECT filter with its counter; the genotype block
    # -- a try statement -- and the inner loop are opaque ranges whose declared effects are parameters), ONE ITERATION of
    # the inner `for alt in record.alts:` (the <NON_REF> skip; the row tuple is an opaque range yielding the row id), the
    # INFO-only genotype of a record without samples (fragment).  (_get_end is tied through tools/fnspecs/formats.py
    # FnFormatsVcfio: C18_source_get_end.)
    # (Proofs/FnVcfRecords.v: C18_source_parse_step / C18_source_parse_records / C18_source_real_alts / C18_source_info_geno)
    'FnVcfRecords': (VCFIO, [
        dict(name='_parse_records', coq='fn_parse_step', py_params=['records', 'sample_id', 'normal_id', 'skip_reject'],
             loop=dict(first='for record in records'), carried=[('cnt_reject', 'Z')], yields=['Z'],
             opaque=[dict(first='if record.samples', last='if record.samples',
                          assigns=[('depth', 'geno_id'), ('zygosity', 'geno_id'), ('alt_count', 'geno_id'),
                                   ('n_depth', 'geno_id'), ('n_zygosity', 'geno_id'), ('n_alt_count', 'geno_id')]),
                     dict(first='for alt in record.alts', last='for alt in record.alts', yields='alt_rows')],
             params=[('cnt_reject', 'Z'), ('skip_reject', 'B'), ('record.filter', 'B', 'filter_nonempty'),
                     ('len(record.filter)', 'Z', 'n_filters'),
                     ("len(set(record.filter) - {'.', 'PASS', 'KEEP'})", 'Z', 'n_bad_filters'),
                     ("'SOMATIC' in record.info", 'B', 'has_somatic'), ("bool(record.info.get('SOMATIC'))", 'B', 'somatic_set'),
                     ('record.start', 'Z', 'record_start'), ('record.alts', 'B', 'alts_nonempty'), ('alt_rows', 'Y'),
                     ('geno_id', 'Z')],
             ret='Z'),
        dict(name='_parse_records', coq='fn_alt_step', py_params=['records', 'sample_id', 'normal_id', 'skip_reject'],
             loop=dict(first='for alt in record.alts'), carried=[], yields=['Z'],
             opaque=[dict(first='row = (', last='if normal_id', assigns=[('row', 'row_id')])],
             params=[('alt', 'S'), ('start', 'Z'), ('_get_end(start, alt, record.info)', 'Z', 'end_value'), ('row_id', 'Z')],
             ret='Y'),
        dict(name='_parse_records', coq='fn_info_geno', py_params=['records', 'sample_id', 'normal_id', 'skip_reject'],
             fragment=dict(first='depth = record.info.get(', last="if 'AF' in record.info"),
             params=[("'DP' in record.info", 'B', 'has_info_dp'), ("record.info.get('DP', 0.0)", 'Q', 'info_dp'),
                     ("'AF' in record.info", 'B', 'has_af'), ("record.info['AF']", 'Q', 'info_af')],
             returns=['depth', 'zygosity', 'alt_count'], ret=['Q', 'Q', 'Z']),
    ]),
    # intersect.into_ranges.series2value: the value of one range from the hits it overlaps (0: the default; 1: that
    # value as it is; else the summary function's) -- used by baf_by_ranges / het_frac_by_ranges through into_ranges.
    # (Proofs/FnVarySeries.v: C18_source_series2value -- = Model/VBaf.v s2v_gen / summary)
    'FnVarySeries': ('skgenome/intersect.py', [
        dict(name='into_ranges.series2value', coq='fn_series2value', py_params=['ser'],
             params=[('len(ser)', 'Z', 'n_hits'), ('default', 'OQ', 'default_value'), ('ser.iat[0]', 'OQ', 'first_hit'),
                     ('summary_func(ser)', 'OQ', 'summary_value')],
             ret='OQ'),
    ]),
}
