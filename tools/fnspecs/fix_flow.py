"""Control-flow ties of cnvlib/fix.py do_fix (property C04) [loop ties e3]: which corrections each of the two sample tables is
sent through, when the antitarget bins are merged in, and the order subtraction -> apply_weights -> center_all.  Theorems in
Proofs/FnFixFlow.v / FnFixTail.v, restated at the end of Props/C04.v (`C04_source_*`).  One generated module per tie.

FnFixFlow -- the two calls `load_adjust_coverages(<table>, reference, <skip_low>, <fix_gc>, <fix_edge>, <fix_rmask>,
  diploid_parx_genome, smoothing_window_fraction=smoothing_window_fraction)`: the four flag arguments of each call are located
  with `ast` (fail-closed: the calls must be the first two assignments of do_fix, `cnarr, ref_matched = ..(target_raw, reference, ..)`
  and `anti_cnarr, ref_anti = ..(antitarget_raw, reference, ..)`, seven positional arguments and the one keyword) and handed over
  through `returns=`.
  Tie (C04_source_load_flags): Model/Fix.v load_adjust for the target / antitarget table IS load_adjust with the generated
  flags (skip_low, fix_gc, fix_edge, fix_rmask) of the first / second call, and fix_pre runs exactly these two.
  Mutations (each breaks Proofs/FnFixFlow.v):
    first call `do_edge,\\n        False,` -> `do_edge,\\n        do_rmask,`      (rmask correction on the targets)
    second call `do_gc,\\n        False,\\n        do_rmask` -> `do_gc,\\n        do_edge,\\n        do_rmask`  (edge correction off-target)
    first call `True,` -> `False,`                                              (skip_low of the target table)
    second call `do_gc,` -> `False,`                                            (no GC correction off-target)

FnFixTail -- the rest of do_fix, from `if len(anti_cnarr):` to `cnarr.center_all(skip_low=True, ..)`: tables are opaque ids;
  `.add` / `.center_all` are in-place methods (spec key `inplace`: `x.m(a)` is `x = x.m(a)`), apply_weights a function input;
  the body of `if do_cluster:` is an opaque range (its effect: the two column keys); the per-row subtraction
  `cnarr.data["log2"] -= ref_matched[log2_key]` is tied by FnFixRows (C04_source_subtract_reference) -- here it is a dead
  per-row let, and the spec checks with `ast` that it stands directly before `cnarr = apply_weights(`.
  Tie (C04_source_do_fix_tail): under every reading of ids as tables in which the function inputs are the model's operations
  (gary.add = concatenate + sort, apply_weights, center_all on a weighted table), the generated tail applied to what the two
  load_adjust_coverages calls return IS Model/Fix.v fix_post of the subtracted table -- the antitargets are merged exactly
  when there are any, weights use the columns "log2" / "spread" when do_cluster is off, the final centring skips low bins.
  Mutations (each breaks Proofs/FnFixTail.v):
    `if len(anti_cnarr):` -> `if not len(anti_cnarr):`
    `cnarr.add(anti_cnarr)` -> `cnarr.add(cnarr)`
    `log2_key = "log2"` -> `log2_key = "spread"`
    `cnarr.center_all(skip_low=True,` -> `cnarr.center_all(skip_low=False,`
    `cnarr = apply_weights(cnarr, ref_matched, log2_key, spread_key)` -> `... (cnarr, ref_matched, spread_key, log2_key)`
"""
import ast, os, sys


def _repo():
    for name in ('py2v_fn', '__main__'):
        m = sys.modules.get(name)
        if m is not None and hasattr(m, 'REPO') and hasattr(m, 'FnTranslator'):
            return m.REPO
    return os.environ.get('CNVKIT_REPO', '/repo')


def _func(name):
    src = open(os.path.join(_repo(), 'cnvlib/fix.py')).read()
    for n in ast.walk(ast.parse(src)):
        if isinstance(n, ast.FunctionDef) and n.name == name:
            return n
    raise ValueError('no function %s' % name)


_DOFIX = ['target_raw', 'antitarget_raw', 'reference', 'diploid_parx_genome', 'do_gc', 'do_edge', 'do_rmask', 'do_cluster',
          'smoothing_window_fraction']


def _body():
    fn = _func('do_fix')
    return [s for s in fn.body if not (isinstance(s, ast.Expr) and (
        isinstance(s.value, ast.Constant) or ast.unparse(s.value).startswith('logging.')))]


def _rule_flags():
    body = _body()
    out = []
    for st, tgts, table in ((body[0], '(cnarr, ref_matched)', 'target_raw'), (body[1], '(anti_cnarr, ref_anti)', 'antitarget_raw')):
        if not (isinstance(st, ast.Assign) and len(st.targets) == 1 and ast.unparse(st.targets[0]) == tgts
                and isinstance(st.value, ast.Call) and ast.unparse(st.value.func) == 'load_adjust_coverages'):
            raise ValueError('expected `%s = load_adjust_coverages(...)`, found %s' % (tgts, ast.unparse(st)[:60]))
        c = st.value
        if len(c.args) != 7 or [k.arg for k in c.keywords] != ['smoothing_window_fraction'] \
                or ast.unparse(c.keywords[0].value) != 'smoothing_window_fraction':
            raise ValueError('load_adjust_coverages is no longer called with 7 positional arguments and smoothing_window_fraction=')
        if [ast.unparse(a) for a in (c.args[0], c.args[1], c.args[6])] != [table, 'reference', 'diploid_parx_genome']:
            raise ValueError('the table / reference / genome arguments changed: %s' % ast.unparse(c)[:80])
        out += [ast.unparse(a) for a in c.args[2:6]]
    lac = _func('load_adjust_coverages')
    if [a.arg for a in lac.args.args][2:6] != ['skip_low', 'fix_gc', 'fix_edge', 'fix_rmask']:
        raise ValueError('load_adjust_coverages no longer takes skip_low, fix_gc, fix_edge, fix_rmask as arguments 3..6')
    return out


def _flags_spec():
    try:
        flags, first = _rule_flags(), 'log2_key = '
    except Exception as exc:   # noqa -- fail closed
        flags, first = ['do_gc'] * 8, '<do_fix no longer has the expected shape: %s>' % exc
    return dict(name='do_fix', coq='fn_load_flags', py_params=_DOFIX,
                params=[('do_gc', 'B'), ('do_edge', 'B'), ('do_rmask', 'B')],
                fragment=dict(first=first, last=first), returns=flags, ret=['B'] * 8)


def _rule_tail():
    """do_fix after the two calls: if len(anti_cnarr): [cnarr.add(anti_cnarr); ref_matched.add(ref_anti)]; log2_key = ..;
    spread_key = ..; if do_cluster: ..; cnarr.data['log2'] -= ref_matched[log2_key]; cnarr = apply_weights(..);
    cnarr.center_all(..); return cnarr   -> (first anchor, last anchor, first / last statement of the do_cluster body)"""
    body = _body()[2:]
    kinds = [ast.If, ast.Assign, ast.Assign, ast.If, ast.AugAssign, ast.Assign, ast.Expr, ast.Return]
    if [type(s) for s in body] != kinds:
        raise ValueError('the statements after the two load_adjust_coverages calls changed: %s' % [type(s).__name__ for s in body])
    merge, k1, k2, cl, sub, aw, ca, ret = body
    if merge.orelse or cl.orelse or ast.unparse(cl.test) != 'do_cluster':
        raise ValueError('the merge / do_cluster ifs changed shape')
    if ast.unparse(sub) != "cnarr.data['log2'] -= ref_matched[log2_key]":
        raise ValueError('the statement before apply_weights is no longer the subtraction of the reference: %s' % ast.unparse(sub))
    if not ast.unparse(aw).startswith('cnarr = apply_weights('):
        raise ValueError('the statement after the subtraction is no longer cnarr = apply_weights(...)')
    if not ast.unparse(ca).startswith('cnarr.center_all(') or ast.unparse(ret) != 'return cnarr':
        raise ValueError('do_fix no longer ends with cnarr.center_all(...); return cnarr')
    inner = [s for s in cl.body if not (isinstance(s, ast.Expr) and ast.unparse(s.value).startswith('logging.'))]
    if not (isinstance(inner[0], ast.Assign) and isinstance(inner[-1], ast.If)):
        raise ValueError('the do_cluster branch is no longer an assignment ... an if')
    # (the translator's desugaring may rewrite the test of the last if: it is anchored by `if ` alone)
    return 'if ', 'cnarr = cnarr.center_all(', ast.unparse(inner[0]).split('\n')[0][:24], 'if '


def _tail_spec():
    try:
        first, last, c0, c1 = _rule_tail()
    except Exception as exc:   # noqa -- fail closed
        first = last = c0 = c1 = '<do_fix no longer has the expected shape: %s>' % exc
    return dict(name='do_fix', coq='fn_do_fix_tail', py_params=_DOFIX,
                params=[('cnarr', 'Z', 'cnarr_id'), ('ref_matched', 'Z', 'ref_id'), ('anti_cnarr', 'Z', 'anti_id'),
                        ('ref_anti', 'Z', 'ref_anti_id'), ('len(anti_cnarr)', 'Z', 'n_anti'), ('do_cluster', 'B'),
                        ('diploid_parx_genome', 'Z', 'build_id'),
                        ('clustered_log2_key', 'S'), ('clustered_spread_key', 'S'),
                        ("cnarr.data['log2']", 'Q', 'row_log2'), ('ref_matched[log2_key]', 'Q', 'row_ref_log2'),
                        ('.add', 'F:Z,Z>Z', 'add_fn'),
                        ('apply_weights', 'F:Z,Z,S,S>Z', 'weights_fn'),
                        ('.center_all', 'F:Z,skip_low=B,diploid_parx_genome=Z>Z', 'center_fn')],
                inplace=['.add', '.center_all'],
                opaque=[dict(first=c0, last=c1, assigns=[('log2_key', 'clustered_log2_key'), ('spread_key', 'clustered_spread_key')])],
                fragment=dict(first=first, last=last),
                returns=['cnarr', 'ref_matched', 'log2_key', 'spread_key'], ret=['Z', 'Z', 'S', 'S'])


MODULES = {
    'FnFixFlow': ('cnvlib/fix.py', [_flags_spec()]),
    'FnFixTail': ('cnvlib/fix.py', [_tail_spec()]),
}
