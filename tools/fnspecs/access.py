"""Function-body specs for cnvlib/access.py (property C13): one iteration of join_regions' inner loop."""
MODULES = {
    # join_regions: ONE ITERATION of `for start, end in coords:` as a step function of the carried pair
    # (prev_start, prev_end) and the loop's (start, end); the result also lists the regions the iteration yields.
    # min_gap_size is the value after `min_gap_size = min_gap_size or 0`.  The assertion gap > 0 is a recorded guard.
    # (Proofs/FnAccess.v: C13_source_join_step / C13_source_join -- folding the step over the rows of a chromosome and
    #  emitting the last carried pair equals Model/Access.v's join)
    'FnAccess': ('cnvlib/access.py', [
        dict(name='join_regions', coq='fn_join_step',
             py_params=['regions', 'min_gap_size'],
             loop=dict(first='for start, end in coords'),
             carried=[('prev_start', 'Z'), ('prev_end', 'Z')],
             yields=['S', 'Z', 'Z'],
             params=[('chrom', 'S'), ('min_gap_size', 'Z'), ('prev_start', 'Z'), ('prev_end', 'Z'),
                     ('start', 'Z'), ('end', 'Z')],
             ret=['Z', 'Z']),
    ]),
    # get_regions: ONE ITERATION of `for line in infile:` -- header / blank / all-N / N-free lines are translated; the
    # mixed line's array code (np.where, np.diff, the inner loop over the short blocks) is an OPAQUE range whose declared
    # effect -- the regions it yields and the run_start it leaves -- enters as two parameters (Model/Access.v computes them
    # from the characters).  String tests on the line are opaque booleans / numbers keyed by their source text.
    # (Proofs/FnAccessScan.v: C13_source_scan_step / C13_source_scan_lines)
    'FnAccessScan': ('cnvlib/access.py', [
        dict(name='log_this', coq='fn_log_this',
             params=[('chrom', 'S'), ('run_start', 'Z'), ('run_end', 'Z')], ret=['S', 'Z', 'Z']),
        dict(name='get_regions', coq='fn_scan_step', py_params=['fasta_fname'],
             loop=dict(first='for line in infile'),
             carried=[('chrom', 'S'), ('cursor', 'Z'), ('run_start', 'OZ')],
             yields=['S', 'Z', 'Z'],
             opaque=[dict(first='line_chars = np.array(', last='if n_indices[-1] + 1 < len(line_chars)',
                          assigns=[('run_start', 'mixed_run_start')], yields='mixed_yields')],
             params=[('chrom', 'S'), ('cursor', 'Z'), ('run_start', 'OZ'),
                     ("line.startswith('>')", 'B', 'is_header'),
                     ('line.split(None, 1)[0][1:]', 'S', 'header_name'),
                     ('line.rstrip()', 'S', 'stripped'),
                     ('not line', 'B', 'is_blank'),
                     ("'N' in line", 'B', 'has_n'),
                     ("all((c == 'N' for c in line))", 'B', 'all_n'),
                     ('len(line)', 'Z', 'line_len'),
                     ('mixed_yields', 'Y'), ('mixed_run_start', 'OZ')],
             ret=['S', 'Z', 'OZ']),
    ]),
}
