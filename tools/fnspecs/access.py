"""Function-body specs for cnvlib/access.py (property C13): one iteration of join_regions' inner loop."""
MODULES = {
    # join_regions: ONE ITERATION of `for start, end in coords:` as a step function of the carried pair
    # (prev_start, prev_end) and the loop's (start, end); the result also lists the regions the iteration yields.
    # min_gap_size is the value after `min_gap_size = min_gap_size or 0`.  The assertion gap > 0 is a recorded guard.
    # (Proofs/FnAccess.v: C13_source_join_step / C13_source_join -- folding the step over the rows of a chromosome and
    #  emitting the last carried pair equals Model/Access.v's join)
    'FnAccess': ('cnvlib/access.py', [
        dict(name='join_regions', coq='fn_join_step',
             py_params=['regions', 'min_gap_size'],
             loop=dict(first='for start, end in coords'),
             carried=[('prev_start', 'Z'), ('prev_end', 'Z')],
             yields=['S', 'Z', 'Z'],
             params=[('chrom', 'S'), ('min_gap_size', 'Z'), ('prev_start', 'Z'), ('prev_end', 'Z'),
                     ('start', 'Z'), ('end', 'Z')],
             ret=['Z', 'Z']),
    ]),
}
