"""Function-body specs for cnvlib/access.py (property C13): one iteration of join_regions' inner loop, one iteration of the
FASTA scanner, the contig-name rule (cnvlib/antitarget.py) and do_access' dispatch on skip_noncanonical.

Mutations of the last two, tried with tools/mut_fn.sh:
  FnAccessCanon     `return not re_noncanonical.search(name)` -> `return re_noncanonical.search(name)`   KILLED (source_is_canonical)
                    `.search(name)` -> `.match(name)`                          translator REFUSES (unsupported call: the opaque key is gone)
  FnAccessDispatch  `if skip_noncanonical:` -> `if not skip_noncanonical:`     KILLED (source_dispatch)
                    `fa_regions = drop_noncanonical_contigs(fa_regions)` -> `fa_regions = fa_regions`    KILLED
  FnAccessExclude   `access_regions.subtract(excluded)` -> `excluded.subtract(access_regions)`           KILLED (source_exclude_step)
                    `access_regions = access_regions.subtract(excluded)` -> `access_regions = excluded`  KILLED
"""
MODULES = {
    # join_regions: ONE ITERATION of `for start, end in coords:` as a step function of the carried pair
    # (prev_start, prev_end) and the loop's (start, end); the result also lists the regions the iteration yields.
    # min_gap_size is the value after `min_gap_size = min_gap_size or 0`.  The assertion gap > 0 is a recorded guard.
    # (Proofs/FnAccess.v: C13_source_join_step / C13_source_join -- folding the step over the rows of a chromosome and
    #  emitting the last carried pair equals Model/Access.v's join)
    'FnAccess': ('cnvlib/access.py', [
        dict(name='join_regions', coq='fn_join_step',
             py_params=['regions', 'min_gap_size'],
             loop=dict(first='for start, end in coords'),
             carried=[('prev_start', 'Z'), ('prev_end', 'Z')],
             yields=['S', 'Z', 'Z'],
             params=[('chrom', 'S'), ('min_gap_size', 'Z'), ('prev_start', 'Z'), ('prev_end', 'Z'),
                     ('start', 'Z'), ('end', 'Z')],
             ret=['Z', 'Z']),
    ]),
    # get_regions: ONE ITERATION of `for line in infile:` -- header / blank / all-N / N-free lines are translated; the
    # mixed line's array code (np.where, np.diff, the inner loop over the short blocks) is an OPAQUE range whose declared
    # effect -- the regions it yields and the run_start it leaves -- enters as two parameters (Model/Access.v computes them
    # from the characters).  String tests on the line are opaque booleans / numbers keyed by their source text.
    # (Proofs/FnAccessScan.v: C13_source_scan_step / C13_source_scan_lines)
    'FnAccessScan': ('cnvlib/access.py', [
        dict(name='log_this', coq='fn_log_this',
             params=[('chrom', 'S'), ('run_start', 'Z'), ('run_end', 'Z')], ret=['S', 'Z', 'Z']),
        dict(name='get_regions', coq='fn_scan_step', py_params=['fasta_fname'],
             loop=dict(first='for line in infile'),
             carried=[('chrom', 'S'), ('cursor', 'Z'), ('run_start', 'OZ')],
             yields=['S', 'Z', 'Z'],
             opaque=[dict(first='line_chars = np.array(', last='if n_indices[-1] + 1 < len(line_chars)',
                          assigns=[('run_start', 'mixed_run_start')], yields='mixed_yields')],
             params=[('chrom', 'S'), ('cursor', 'Z'), ('run_start', 'OZ'),
                     ("line.startswith('>')", 'B', 'is_header'),
                     ('line.split(None, 1)[0][1:]', 'S', 'header_name'),
                     ('line.rstrip()', 'S', 'stripped'),
                     ('not line', 'B', 'is_blank'),
                     ("'N' in line", 'B', 'has_n'),
                     ("all((c == 'N' for c in line))", 'B', 'all_n'),
                     ('len(line)', 'Z', 'line_len'),
                     ('mixed_yields', 'Y'), ('mixed_run_start', 'OZ')],
             ret=['S', 'Z', 'OZ']),
    ]),
    # is_canonical_contig_name (cnvlib/antitarget.py), the WHOLE function: `return not re_noncanonical.search(name)`.  The
    # search result (a Match object, always truthy, or None) is an opaque boolean "the pattern is found in the name"; the
    # pattern itself is tied by Gen.Patterns.re_noncanonical_src (C13_source_pattern).
    # (Proofs/FnAccessCanon.v: C13_source_is_canonical -- with the model's `noncanonical name` it is is_canonical_contig_name)
    # mutations (tools/mut_fn.sh): `return not re_noncanonical.search(name)` -> `return re_noncanonical.search(name)` KILLED
    # (type error in the generated definition's use); `.search(name)` -> `.match(name)` translator REFUSES (unknown call)
    'FnAccessCanon': ('cnvlib/antitarget.py', [
        dict(name='is_canonical_contig_name', coq='fn_is_canonical', py_params=['name'],
             params=[('re_noncanonical.search(name)', 'B', 'pattern_found')], ret='B'),
    ]),
    # do_access: the dispatch before the exclude loop (fragment `fa_regions = get_regions(fa_fname)` .. `if skip_noncanonical:
    # fa_regions = drop_noncanonical_contigs(fa_regions)`): WHICH table goes on.  Tables are opaque ids; the generator
    # drop_noncanonical_contigs is a function-typed input on ids.
    # (Proofs/FnAccessCanon.v: C13_source_dispatch -- under any reading of ids as tables in which the function input drops
    # the rows with a non-canonical name, the table that goes on is the model's drop_noncanonical skip)
    # mutations: `if skip_noncanonical:` -> `if not skip_noncanonical:` KILLED; `fa_regions = drop_noncanonical_contigs(fa_regions)`
    # -> `fa_regions = fa_regions` KILLED
    'FnAccessDispatch': ('cnvlib/access.py', [
        dict(name='do_access', coq='fn_access_dispatch',
             py_params=['fa_fname', 'exclude_fnames', 'min_gap_size', 'skip_noncanonical'],
             fragment=dict(first='fa_regions = get_regions(', last='if '),
             returns=['fa_regions'],
             params=[('get_regions(fa_fname)', 'Z', 'scanned_id'), ('skip_noncanonical', 'B'),
                     ('drop_noncanonical_contigs', 'F:Z>Z', 'drop_fn')],
             ret='Z'),
    ]),
    # do_access: ONE ITERATION of the exclude loop `for ex_fname in exclude_fnames: excluded = tabio.read(ex_fname, "bed3");
    # access_regions = access_regions.subtract(excluded)` -- the carried table after the iteration.  Tables are opaque ids;
    # the table read from the file is an opaque id keyed by its source text, `.subtract` a method-typed input on ids.
    # (Proofs/FnAccessExclude.v: C13_source_exclude_loop -- under any reading of ids as region lists in which .subtract is the
    # model's exclude_one, the step folded over the exclude files is Model/AccessPipe.v exclude_all)
    # mutations: `access_regions.subtract(excluded)` -> `excluded.subtract(access_regions)` KILLED; `access_regions = access_regions.subtract(excluded)`
    # -> `access_regions = excluded` KILLED
    'FnAccessExclude': ('cnvlib/access.py', [
        dict(name='do_access', coq='fn_exclude_step',
             py_params=['fa_fname', 'exclude_fnames', 'min_gap_size', 'skip_noncanonical'],
             loop=dict(first='for ex_fname in exclude_fnames'),
             carried=[('access_regions', 'Z')],
             params=[('access_regions', 'Z'), ("tabio.read(ex_fname, 'bed3')", 'Z', 'excluded_id'),
                     ('.subtract', 'F:Z,Z>Z', 'subtract_fn')],
             ret='Z'),
    ]),
}
