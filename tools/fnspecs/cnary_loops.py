"""Loop ties / function-body ties of cnvlib/cnary.py for property C15 (second batch; the first batch is cnary.py).
One generated module per tie; the theorems are in Proofs/Fn<Module>.v and restated at the end of Props/C15.v.

FnCnaryXFilter   parx_filter and chr_x_filter, whole functions read per row: the row's chromosome / start / end, the
                 table's X label, the four PAR bounds (the two `params.PSEUDO_AUTSOMAL_REGIONS[..][..]` pairs, unpacked as
                 `e[0]`, `e[1]`) are inputs; `diploid_parx_genome is not None` is a boolean input and the call
                 `self.parx_filter(genome_build=...)` a boolean input that the theorem instantiates with the generated
                 parx_filter itself                                           (C15_source_parx_filter, C15_source_chr_x_filter)
FnCnaryYFilter   pary_filter and chr_y_filter, likewise                       (C15_source_pary_filter, C15_source_chr_y_filter)
FnCnaryMood      compare_to_auto (nested in compare_sex_chromosomes), the WHOLE function: try / except ValueError / else around
                 scipy's median_test (translator construct `tries`: whether the guarded call raises is an input of type EXC),
                 `if stat == 0 and 0 in cont: stat = None`, the weighted / plain |difference of medians|
                                                                              (C15_source_mood_stat, C15_source_med_diff)
FnCnaryChrom     compare_chrom (nested), the WHOLE function: which shift goes to which call of compare_to_auto, the unpacking,
                 the ratio with the 0.01 floor and its fallback               (C15_source_male_lr)

Mutations tried on a scratch copy (tools/mut_fn.sh; KILLED = the named Proofs file no longer compiles, REFUSED = the
translator refuses the module, which the check reports as a broken tie):
  FnCnaryXFilter  `self.start >= par1_start` -> `>` KILLED ; `x &= ~self.parx_filter(..)` -> `x &= self.parx_filter(..)` KILLED ;
                  `x = self.chromosome == self.chr_x_label` -> `!=` KILLED
  FnCnaryYFilter  `y &= ~self.pary_filter(..)` -> `y |= ~...` KILLED ; PAR2Y looked up as "PAR2X" REFUSED (unsupported
                  expression Subscript: the keyed input is gone) ; `f = self.chromosome == self.chr_y_label` -> `chr_x_label`
                  REFUSED (unknown attribute self.chr_x_label)
  FnCnaryMood     `stat == 0 and 0 in cont` -> `or` KILLED ; `stat = None` -> `stat = 0.0` KILLED ; `abs(np.median(auto_l) -
                  np.median(vals))` without abs KILLED ; `if use_weight:` -> `if not use_weight:` KILLED ; `except ValueError`
                  -> `except TypeError` REFUSED (the handler catches TypeError, the spec declares ValueError)
  FnCnaryChrom    male call given `vals + female_shift` REFUSED (the keyed input is gone) ; `female_stat / max(male_stat, 0.01)`
                  -> `male_stat / max(female_stat, 0.01)` KILLED ; `is not None and` -> `or` REFUSED (argument of type OQ
                  where Q is expected)
"""

_ROW = [('self.chromosome', 'S', 'chromosome'), ('self.start', 'Z', 'start'), ('self.end', 'Z', 'end_')]


def _par_filter(name, coq, label, k1, k2):
    return dict(name='CopyNumArray.' + name, coq=coq, py_params=['self', 'genome_build'],
                params=_ROW + [('genome_build', 'S'), ('self.' + label, 'S', 'label'),
                               ("params.PSEUDO_AUTSOMAL_REGIONS[genome_build]['%s'][0]" % k1, 'Z', 'par1_lo'),
                               ("params.PSEUDO_AUTSOMAL_REGIONS[genome_build]['%s'][1]" % k1, 'Z', 'par1_hi'),
                               ("params.PSEUDO_AUTSOMAL_REGIONS[genome_build]['%s'][0]" % k2, 'Z', 'par2_lo'),
                               ("params.PSEUDO_AUTSOMAL_REGIONS[genome_build]['%s'][1]" % k2, 'Z', 'par2_hi')],
                ret='B')


def _chr_filter(name, coq, label, par_call):
    return dict(name='CopyNumArray.' + name, coq=coq, py_params=['self', 'diploid_parx_genome'],
                params=[('self.chromosome', 'S', 'chromosome'), ('self.' + label, 'S', 'label'),
                        ('diploid_parx_genome is not None', 'B', 'has_build'),
                        (par_call, 'B', 'in_par')],
                ret='B')


_MT = "median_test(auto_l, vals, ties='ignore', lambda_='log-likelihood')"
_CSC = 'CopyNumArray.compare_sex_chromosomes.'

MODULES = {
    'FnCnaryXFilter': ('cnvlib/cnary.py', [
        _par_filter('parx_filter', 'fn_parx_filter', 'chr_x_label', 'PAR1X', 'PAR2X'),
        _chr_filter('chr_x_filter', 'fn_chr_x_filter', 'chr_x_label', 'self.parx_filter(genome_build=diploid_parx_genome)'),
    ]),
    'FnCnaryYFilter': ('cnvlib/cnary.py', [
        _par_filter('pary_filter', 'fn_pary_filter', 'chr_y_label', 'PAR1Y', 'PAR2Y'),
        _chr_filter('chr_y_filter', 'fn_chr_y_filter', 'chr_y_label', 'self.pary_filter(genome_build=diploid_parx_genome)'),
    ]),
    # compare_to_auto, the WHOLE nested function: the try / except ValueError / else around scipy's median_test (whether
    # it raises is the input `raised`, its four results are inputs; `cont`, the 2x2 table, is only ever asked `0 in cont`,
    # an input of its own), the `stat == 0 and 0 in cont` rule, the weighted / plain difference of medians (the four
    # medians are inputs).  `stat` is unbound before the try: init None.
    'FnCnaryMood': ('cnvlib/cnary.py', [
        dict(name=_CSC + 'compare_to_auto', coq='fn_compare_to_auto', py_params=['vals', 'weights'],
             tries=[dict(first='stat, _p, _med, cont = median_test(', raises='ValueError', param='raised')],
             init=[('stat', 'OQ', 'None')],
             params=[('raised', 'EXC'), (_MT + '[0]', 'Q', 'mt_stat'), (_MT + '[1]', 'Q', 'mt_p'), (_MT + '[2]', 'Q', 'mt_med'),
                     (_MT + '[3]', 'LZ', 'mt_cont'), ('0 in cont', 'B', 'zero_cell'), ('use_weight', 'B'),
                     ('descriptives.weighted_median(auto_l, auto_w)', 'Q', 'wmed_auto'),
                     ('descriptives.weighted_median(vals, weights)', 'Q', 'wmed_vals'),
                     ('np.median(auto_l)', 'Q', 'med_auto'), ('np.median(vals)', 'Q', 'med_vals')],
             ret=['OQ', 'Q']),
    ]),
    # compare_chrom, the WHOLE nested function: the two calls of compare_to_auto (female shift first, male shift second;
    # each result unpacked as e[0], e[1]) and the ratio.  `a is not None and b is not None` narrows only its first name in
    # the translator, so male_stat is read as a number plus the boolean `male_stat is not None` (as in cnary.py's FnCnarySex).
    'FnCnaryChrom': ('cnvlib/cnary.py', [
        dict(name=_CSC + 'compare_chrom', coq='fn_compare_chrom_whole',
             py_params=['vals', 'weights', 'female_shift', 'male_shift'],
             params=[('compare_to_auto(vals + female_shift, weights)[0]', 'OQ', 'f_stat'),
                     ('compare_to_auto(vals + female_shift, weights)[1]', 'Q', 'f_med_diff'),
                     ('compare_to_auto(vals + male_shift, weights)[0]', 'Q', 'm_stat'),
                     ('compare_to_auto(vals + male_shift, weights)[1]', 'Q', 'm_med_diff'),
                     ('male_stat is not None', 'B', 'm_some')],
             ret='Q'),
    ]),
}
