"""Loop ties / function-body ties of cnvlib/cnary.py for property C15 (second batch; the first batch is cnary.py).
One generated module per tie; the theorems are in Proofs/Fn<Module>.v and restated at the end of Props/C15.v.

FnCnaryXFilter   parx_filter and chr_x_filter, whole functions read per row: the row's chromosome / start / end, the
                 table's X label, the four PAR bounds (the two `params.PSEUDO_AUTSOMAL_REGIONS[..][..]` pairs, unpacked as
                 `e[0]`, `e[1]`) are inputs; `diploid_parx_genome is not None` is a boolean input and the call
                 `self.parx_filter(genome_build=...)` a boolean input that the theorem instantiates with the generated
                 parx_filter itself                                           (C15_source_parx_filter, C15_source_chr_x_filter)
FnCnaryYFilter   pary_filter and chr_y_filter, likewise                       (C15_source_pary_filter, C15_source_chr_y_filter)

Mutations tried on a scratch copy (tools/mut_fn.sh; KILLED = the named Proofs file no longer compiles, REFUSED = the
translator refuses the module, which the check reports as a broken tie):
  FnCnaryXFilter  `self.start >= par1_start` -> `>` KILLED ; `x &= ~self.parx_filter(..)` -> `x &= self.parx_filter(..)` KILLED ;
                  `x = self.chromosome == self.chr_x_label` -> `!=` KILLED
  FnCnaryYFilter  `y &= ~self.pary_filter(..)` -> `y |= ~...` KILLED ; PAR2Y looked up as "PAR2X" REFUSED (unsupported
                  expression Subscript: the keyed input is gone) ; `f = self.chromosome == self.chr_y_label` -> `chr_x_label`
                  REFUSED (unknown attribute self.chr_x_label)
"""

_ROW = [('self.chromosome', 'S', 'chromosome'), ('self.start', 'Z', 'start'), ('self.end', 'Z', 'end_')]


def _par_filter(name, coq, label, k1, k2):
    return dict(name='CopyNumArray.' + name, coq=coq, py_params=['self', 'genome_build'],
                params=_ROW + [('genome_build', 'S'), ('self.' + label, 'S', 'label'),
                               ("params.PSEUDO_AUTSOMAL_REGIONS[genome_build]['%s'][0]" % k1, 'Z', 'par1_lo'),
                               ("params.PSEUDO_AUTSOMAL_REGIONS[genome_build]['%s'][1]" % k1, 'Z', 'par1_hi'),
                               ("params.PSEUDO_AUTSOMAL_REGIONS[genome_build]['%s'][0]" % k2, 'Z', 'par2_lo'),
                               ("params.PSEUDO_AUTSOMAL_REGIONS[genome_build]['%s'][1]" % k2, 'Z', 'par2_hi')],
                ret='B')


def _chr_filter(name, coq, label, par_call):
    return dict(name='CopyNumArray.' + name, coq=coq, py_params=['self', 'diploid_parx_genome'],
                params=[('self.chromosome', 'S', 'chromosome'), ('self.' + label, 'S', 'label'),
                        ('diploid_parx_genome is not None', 'B', 'has_build'),
                        (par_call, 'B', 'in_par')],
                ret='B')


MODULES = {
    'FnCnaryXFilter': ('cnvlib/cnary.py', [
        _par_filter('parx_filter', 'fn_parx_filter', 'chr_x_label', 'PAR1X', 'PAR2X'),
        _chr_filter('chr_x_filter', 'fn_chr_x_filter', 'chr_x_label', 'self.parx_filter(genome_build=diploid_parx_genome)'),
    ]),
    'FnCnaryYFilter': ('cnvlib/cnary.py', [
        _par_filter('pary_filter', 'fn_pary_filter', 'chr_y_label', 'PAR1Y', 'PAR2Y'),
        _chr_filter('chr_y_filter', 'fn_chr_y_filter', 'chr_y_label', 'self.pary_filter(genome_build=diploid_parx_genome)'),
    ]),
}
