"""Loop ties / function-body ties of cnvlib/cnary.py for property C15 (second batch; the first batch is cnary.py).
One generated module per tie; the theorems are in Proofs/Fn<Module>.v and restated at the end of Props/C15.v.

FnCnaryXFilter   parx_filter and chr_x_filter, whole functions read per row: the row's chromosome / start / end, the
                 table's X label, the four PAR bounds (the two `params.PSEUDO_AUTSOMAL_REGIONS[..][..]` pairs, unpacked as
                 `e[0]`, `e[1]`) are inputs; `diploid_parx_genome is not None` is a boolean input and the call
                 `self.parx_filter(genome_build=...)` a boolean input that the theorem instantiates with the generated
                 parx_filter itself                                           (C15_source_parx_filter, C15_source_chr_x_filter)
FnCnaryYFilter   pary_filter and chr_y_filter, likewise                       (C15_source_pary_filter, C15_source_chr_y_filter)
FnCnaryMood      compare_to_auto (nested in compare_sex_chromosomes), the WHOLE function: try / except ValueError / else around
                 scipy's median_test (translator construct `tries`: whether the guarded call raises is an input of type EXC),
                 `if stat == 0 and 0 in cont: stat = None`, the weighted / plain |difference of medians|
                                                                              (C15_source_mood_stat, C15_source_med_diff)
FnCnaryChrom     compare_chrom (nested), the WHOLE function: which shift goes to which call of compare_to_auto, the unpacking,
                 the ratio with the 0.01 floor and its fallback               (C15_source_male_lr)
FnCnaryCenter    center_all after the selection: `if cnarr:` / the by_chrom dispatch / `shift = -estimator(values)` / the log line /
                 `self.data["log2"] += shift`, per row; the estimator is a function-typed input, the two candidate inputs of
                 the estimator are 1-d arrays (LQ)                            (C15_source_center_all)
FnCnarySelection center_all's selection `(self.drop_low_coverage(..) if skip_low else self).autosomes(..)`, tables as opaque ids, the
                 method `.autosomes` a function-typed input                   (C15_source_center_selection)
FnCnaryEstimator center_all's estimator dispatch: the dict display `est_funcs`, `isinstance(estimator, str)` on a str-or-callable
                 parameter, the lookup, and the test that decides between lookup and ValueError (located with `ast`)
                                                    (C15_source_estimator_name / _callable / _known)
FnCnaryGuess     guess_xx, the WHOLE function (optional boolean OB: `if is_xy is None: return None`, `return ~is_xy`)
                                                                              (C15_source_guess_xx)
FnCnaryFlatWhole expect_flat_log2, the WHOLE function incl. the default `is_haploid_x_reference = not self.guess_xx(...)`
                                                    (C15_source_flat_whole_given, C15_source_flat_whole_guess)
FnGaryAutosomes  skgenome/gary.py GenomicArray.autosomes, WHOLE, per row "the row is kept" (row_filter; opaque range for the
                 chromosome-name form of `also`)                              (C15_source_gary_autosomes)
FnCnaryAutosomes CopyNumArray.autosomes, the WHOLE override (`also` an optional mask bit, `super().autosomes` a function-typed
                 input = the generated base-class function)           (C15_source_autosomes, C15_source_autosomes_also)
FnCnaryDropLow   drop_low_coverage, the WHOLE function per row (row_filter)     (C15_source_drop_low)
FnCnaryShifts    compare_sex_chromosomes: `female_x_shift, male_x_shift = (-1, 0) if ... else (0, +1)`   (C15_source_x_shifts; the
                 model takes the four numbers from Gen/CenterDefaults.v, read off the same statement: a consistency tie)
FnCnaryYFactor   compare_sex_chromosomes: `chry = self[...]` and the whole `if len(chry): ... else: chry_male_lr = np.nan`
                                                                              (C15_source_y_factor)
FnCnaryRatios    compare_sex_chromosomes: the three segment_mean calls and the two reported differences   (C15_source_sex_ratios)
FnSexCommand     cnvlib/commands.py do_sex: strsign, guess_and_format (both nested, whole), the column names
                                                    (C15_source_strsign, C15_source_do_sex_row, C15_source_do_sex_columns)

Reading conventions used here (stated once): an object of which the code reads only the truth value is declared by
that truth value (`cnarr`: B, a table is true when it has rows); a dict of which the code reads the truth value and
string-keyed entries is the list of its keys (LS) plus one keyed input per entry read.

Mutations tried on a scratch copy (tools/mut_fn.sh; KILLED = the named Proofs file no longer compiles, REFUSED = the
translator refuses the module, which the check reports as a broken tie):
  FnCnaryXFilter  `self.start >= par1_start` -> `>` KILLED ; `x &= ~self.parx_filter(..)` -> `x &= self.parx_filter(..)` KILLED ;
                  `x = self.chromosome == self.chr_x_label` -> `!=` KILLED
  FnCnaryYFilter  `y &= ~self.pary_filter(..)` -> `y |= ~...` KILLED ; PAR2Y looked up as "PAR2X" REFUSED (unsupported
                  expression Subscript: the keyed input is gone) ; `f = self.chromosome == self.chr_y_label` -> `chr_x_label`
                  REFUSED (unknown attribute self.chr_x_label)
  FnCnaryMood     `stat == 0 and 0 in cont` -> `or` KILLED ; `stat = None` -> `stat = 0.0` KILLED ; `abs(np.median(auto_l) -
                  np.median(vals))` without abs KILLED ; `if use_weight:` -> `if not use_weight:` KILLED ; `except ValueError`
                  -> `except TypeError` REFUSED (the handler catches TypeError, the spec declares ValueError)
  FnCnaryChrom    male call given `vals + female_shift` REFUSED (the keyed input is gone) ; `female_stat / max(male_stat, 0.01)`
                  -> `male_stat / max(female_stat, 0.01)` KILLED ; `is not None and` -> `or` REFUSED (argument of type OQ
                  where Q is expected)
  FnCnaryCenter   `shift = -estimator(values)` -> `estimator(values)` KILLED ; `if by_chrom:` -> `if not by_chrom:` KILLED ;
                  `self.data["log2"] += shift` -> `-=` KILLED ; `values = cnarr["log2"]` -> `self["log2"]` REFUSED
  FnCnarySelection  `if skip_low` -> `if not skip_low` KILLED ; the dropped table replaced by `self` KILLED ; `.autosomes()` without the
                  build REFUSED (called with other arguments than its declared type)
  FnCnaryEstimator  "mode" mapped to biweight_location KILLED ; key "biweight" renamed "tukey" KILLED ; `if estimator in
                  est_funcs` -> `not in` KILLED (through fn_estimator_known; the lookup alone survives it, an error path being
                  outside a translated body) ; `est_funcs[estimator]` -> `est_funcs["median"]` KILLED
  FnCnaryGuess    `return ~is_xy` -> `return is_xy` KILLED ; `if is_xy is None:` -> `is not None` REFUSED (~ on a non-boolean)
  FnCnaryFlatWhole  `not self.guess_xx(..)` -> `self.guess_xx(..)` REFUSED (default of the optional boolean has type OB) ;
                  `cvg[idx] = -1.0` -> `1.0` KILLED ; female-reference mask `chr_y_filter()` -> `chr_y_filter(diploid_parx_genome)` KILLED
  FnGaryAutosomes `if not is_auto.any()` -> `if is_auto.any()` KILLED ; `is_auto |= also` -> `&=` KILLED ; `return self[is_auto]`
                  -> `self[~is_auto]` KILLED
  FnCnaryAutosomes  `also = self.parx_filter(..)` -> `~self.parx_filter(..)` KILLED ; `also |= ...` -> `&=` KILLED ;
                  `super().autosomes(also=also)` -> `(also=None)` KILLED
  FnCnaryDropLow  `return self[~drop_idx]` -> `self[drop_idx]` KILLED ; `drop_idx |= ...depth == 0` -> `&=` KILLED
  FnCnaryShifts   the two pairs swapped KILLED ; `+1` -> `+2` KILLED (with Gen/CenterDefaults.v held fixed)
  FnCnaryYFactor  `if len(chry):` -> `if not len(chry):` KILLED ; `combined_score *= chry_male_lr` -> `+=` KILLED ;
                  `chry_male_lr = np.nan` -> `1.0` KILLED
  FnCnaryRatios   `chry_ratio=chry_mean - auto_mean` -> `- chrx_mean` KILLED ; chrx_mean taken from `auto` KILLED ;
                  `chrx_ratio=chrx_mean - auto_mean` -> `auto_mean - chrx_mean` KILLED
  FnSexCommand    "Male" / "Female" swapped KILLED ; `num > 0` -> `>=` KILLED ; the Y column printing chrx_ratio KILLED ;
                  two column names swapped KILLED
"""

_ROW = [('self.chromosome', 'S', 'chromosome'), ('self.start', 'Z', 'start'), ('self.end', 'Z', 'end_')]


def _par_filter(name, coq, label, k1, k2):
    return dict(name='CopyNumArray.' + name, coq=coq, py_params=['self', 'genome_build'],
                params=_ROW + [('genome_build', 'S'), ('self.' + label, 'S', 'label'),
                               ("params.PSEUDO_AUTSOMAL_REGIONS[genome_build]['%s'][0]" % k1, 'Z', 'par1_lo'),
                               ("params.PSEUDO_AUTSOMAL_REGIONS[genome_build]['%s'][1]" % k1, 'Z', 'par1_hi'),
                               ("params.PSEUDO_AUTSOMAL_REGIONS[genome_build]['%s'][0]" % k2, 'Z', 'par2_lo'),
                               ("params.PSEUDO_AUTSOMAL_REGIONS[genome_build]['%s'][1]" % k2, 'Z', 'par2_hi')],
                ret='B')


def _chr_filter(name, coq, label, par_call):
    return dict(name='CopyNumArray.' + name, coq=coq, py_params=['self', 'diploid_parx_genome'],
                params=[('self.chromosome', 'S', 'chromosome'), ('self.' + label, 'S', 'label'),
                        ('diploid_parx_genome is not None', 'B', 'has_build'),
                        (par_call, 'B', 'in_par')],
                ret='B')


_MT = "median_test(auto_l, vals, ties='ignore', lambda_='log-likelihood')"
_CSC = 'CopyNumArray.compare_sex_chromosomes.'
import ast, os, sys


def _repo():
    for name in ('py2v_fn', '__main__'):
        m = sys.modules.get(name)
        if m is not None and hasattr(m, 'REPO') and hasattr(m, 'FnTranslator'):
            return m.REPO
    return os.environ.get('CNVKIT_REPO', '/repo')


def _method(name, rel='cnvlib/cnary.py'):
    src = open(os.path.join(_repo(), rel)).read()
    for n in ast.walk(ast.parse(src)):
        if isinstance(n, ast.FunctionDef) and n.name == name:
            return n
    raise ValueError('no function %s' % name)


def _known_test():
    """the test that decides between the table lookup and the ValueError in center_all:
    if isinstance(estimator, str): if <TEST>: estimator = est_funcs[estimator] else: raise ...   ->  source of TEST
    (an error path is outside a translated body, so the test is handed over as a result of its own; fail-closed)"""
    try:
        outer = [s for s in _method('center_all').body
                 if isinstance(s, ast.If) and ast.unparse(s.test) == 'isinstance(estimator, str)']
        if len(outer) != 1 or outer[0].orelse or len(outer[0].body) != 1:
            raise ValueError('no single `if isinstance(estimator, str):` with one statement')
        inner = outer[0].body[0]
        if not (isinstance(inner, ast.If) and len(inner.orelse) == 1 and isinstance(inner.orelse[0], ast.Raise)
                and len(inner.body) == 1 and ast.unparse(inner.body[0]) == 'estimator = est_funcs[estimator]'):
            raise ValueError('not `if T: estimator = est_funcs[estimator] else: raise`')
        return ast.unparse(inner.test), 'est_funcs = {'
    except Exception as exc:   # noqa -- fail closed
        return 'estimator in est_funcs', '<cnvlib/cnary.py no longer has the expected shape: %s>' % exc


_CSC_PARAMS = ['self', 'is_haploid_x_reference', 'diploid_parx_genome', 'skip_low']


def _ratio_exprs():
    """compare_sex_chromosomes ends in `return (<decision>, dict(chrx_ratio=<E1>, chry_ratio=<E2>, ...))`
    ->  (source of E1, source of E2, prefix that finds `auto_mean = segment_mean(`); fail-closed"""
    try:
        ret = _method('compare_sex_chromosomes').body[-1]
        d = ret.value.elts[1]
        if not (isinstance(ret, ast.Return) and isinstance(d, ast.Call) and ast.unparse(d.func) == 'dict' and not d.args):
            raise ValueError('does not end in return (decision, dict(...))')
        kw = {k.arg: ast.unparse(k.value) for k in d.keywords}
        return kw['chrx_ratio'], kw['chry_ratio'], 'auto_mean = segment_mean('
    except Exception as exc:   # noqa -- fail closed
        return 'auto_mean', 'auto_mean', '<cnvlib/cnary.py no longer has the expected shape: %s>' % exc


_EST = [('pd.Series.mean', 'F:LQ>Q', 'series_mean'), ('pd.Series.median', 'F:LQ>Q', 'series_median'),
        ('descriptives.modal_location', 'F:LQ>Q', 'modal_location'),
        ('descriptives.biweight_location', 'F:LQ>Q', 'biweight_location')]

MODULES = {
    'FnCnaryXFilter': ('cnvlib/cnary.py', [
        _par_filter('parx_filter', 'fn_parx_filter', 'chr_x_label', 'PAR1X', 'PAR2X'),
        _chr_filter('chr_x_filter', 'fn_chr_x_filter', 'chr_x_label', 'self.parx_filter(genome_build=diploid_parx_genome)'),
    ]),
    'FnCnaryYFilter': ('cnvlib/cnary.py', [
        _par_filter('pary_filter', 'fn_pary_filter', 'chr_y_label', 'PAR1Y', 'PAR2Y'),
        _chr_filter('chr_y_filter', 'fn_chr_y_filter', 'chr_y_label', 'self.pary_filter(genome_build=diploid_parx_genome)'),
    ]),
    # compare_to_auto, the WHOLE nested function: the try / except ValueError / else around scipy's median_test (whether
    # it raises is the input `raised`, its four results are inputs; `cont`, the 2x2 table, is only ever asked `0 in cont`,
    # an input of its own), the `stat == 0 and 0 in cont` rule, the weighted / plain difference of medians (the four
    # medians are inputs).  `stat` is unbound before the try: init None.
    'FnCnaryMood': ('cnvlib/cnary.py', [
        dict(name=_CSC + 'compare_to_auto', coq='fn_compare_to_auto', py_params=['vals', 'weights'],
             tries=[dict(first='stat, _p, _med, cont = median_test(', raises='ValueError', param='raised')],
             init=[('stat', 'OQ', 'None')],
             params=[('raised', 'EXC'), (_MT + '[0]', 'Q', 'mt_stat'), (_MT + '[1]', 'Q', 'mt_p'), (_MT + '[2]', 'Q', 'mt_med'),
                     (_MT + '[3]', 'LZ', 'mt_cont'), ('0 in cont', 'B', 'zero_cell'), ('use_weight', 'B'),
                     ('descriptives.weighted_median(auto_l, auto_w)', 'Q', 'wmed_auto'),
                     ('descriptives.weighted_median(vals, weights)', 'Q', 'wmed_vals'),
                     ('np.median(auto_l)', 'Q', 'med_auto'), ('np.median(vals)', 'Q', 'med_vals')],
             ret=['OQ', 'Q']),
    ]),
    # compare_chrom, the WHOLE nested function: the two calls of compare_to_auto (female shift first, male shift second;
    # each result unpacked as e[0], e[1]) and the ratio.  `a is not None and b is not None` narrows only its first name in
    # the translator, so male_stat is read as a number plus the boolean `male_stat is not None` (as in cnary.py's FnCnarySex).
    'FnCnaryChrom': ('cnvlib/cnary.py', [
        dict(name=_CSC + 'compare_chrom', coq='fn_compare_chrom_whole',
             py_params=['vals', 'weights', 'female_shift', 'male_shift'],
             params=[('compare_to_auto(vals + female_shift, weights)[0]', 'OQ', 'f_stat'),
                     ('compare_to_auto(vals + female_shift, weights)[1]', 'Q', 'f_med_diff'),
                     ('compare_to_auto(vals + male_shift, weights)[0]', 'Q', 'm_stat'),
                     ('compare_to_auto(vals + male_shift, weights)[1]', 'Q', 'm_med_diff'),
                     ('male_stat is not None', 'B', 'm_some')],
             ret='Q'),
    ]),
    # center_all, the statement `if cnarr: ...` (everything after the selection): the by_chrom dispatch of the values the
    # estimator sees, `shift = -estimator(values)`, the log line, `self.data["log2"] += shift` read per row.  `estimator` is a
    # function-typed input (a pure callable on a 1-d array), the per-chromosome estimates `pd.Series([estimator(subarr["log2"])
    # for ...])` and the selection's log2 column are opaque 1-d arrays (LQ), `cnarr` is read by its truth value (a table is
    # true when it has rows).
    'FnCnaryCenter': ('cnvlib/cnary.py', [
        dict(name='CopyNumArray.center_all', coq='fn_center_row',
             py_params=['self', 'estimator', 'by_chrom', 'skip_low', 'verbose', 'diploid_parx_genome'],
             fragment=dict(first='if cnarr', last='if cnarr'),
             params=[('cnarr', 'B', 'selection_nonempty'), ('by_chrom', 'B'), ('verbose', 'B'), ('estimator', 'F:LQ>Q'),
                     ("pd.Series([estimator(subarr['log2']) for _c, subarr in cnarr.by_chromosome() if len(subarr)])", 'LQ',
                      'chrom_estimates'),
                     ("cnarr['log2']", 'LQ', 'selection_log2'), ("self.data['log2']", 'Q', 'log2_')],
             returns=["self.data['log2']"], ret='Q'),
    ]),
    # center_all, the selection `cnarr = (self.drop_low_coverage(verbose=verbose) if skip_low else self).autosomes(
    # diploid_parx_genome=diploid_parx_genome)`: tables (and the build name, passed through) are opaque ids, `.autosomes` is a
    # function-typed input (the method as a function of the table it is called on)
    'FnCnarySelection': ('cnvlib/cnary.py', [
        dict(name='CopyNumArray.center_all', coq='fn_center_selection',
             py_params=['self', 'estimator', 'by_chrom', 'skip_low', 'verbose', 'diploid_parx_genome'],
             fragment=dict(first='cnarr = (', last='cnarr = ('),
             params=[('self', 'Z', 'self_id'), ('self.drop_low_coverage(verbose=verbose)', 'Z', 'dropped_id'), ('skip_low', 'B'),
                     ('diploid_parx_genome', 'Z', 'build_id'), ('.autosomes', 'F:Z,diploid_parx_genome=Z>Z', 'autosomes_of')],
             returns=['cnarr'], ret='Z'),
    ]),
    # center_all, the estimator dispatch: the table `est_funcs = {"mean": ..., "median": ..., "mode": ..., "biweight": ...}`
    # (a dict display local, read only by `in` and `[key]`), `if isinstance(estimator, str):` on a parameter that is a str
    # OR a callable (union type), `if estimator in est_funcs: estimator = est_funcs[estimator] else: raise ValueError`.
    # The four library functions are function-typed inputs.  fn_estimator_known is the test `estimator in est_funcs`
    # that decides between the lookup and the ValueError.
    'FnCnaryEstimator': ('cnvlib/cnary.py', [
        dict(name='CopyNumArray.center_all', coq='fn_center_estimator',
             py_params=['self', 'estimator', 'by_chrom', 'skip_low', 'verbose', 'diploid_parx_genome'],
             fragment=dict(first='est_funcs = {', last='if isinstance(estimator, str)'),
             params=[('estimator', 'S|F:LQ>Q')] + _EST, returns=['estimator'], ret='F:LQ>Q'),
        dict(name='CopyNumArray.center_all', coq='fn_estimator_known',
             py_params=['self', 'estimator', 'by_chrom', 'skip_low', 'verbose', 'diploid_parx_genome'],
             fragment=dict(first=_known_test()[1], last=_known_test()[1]),
             params=[('estimator', 'S')] + _EST, returns=[_known_test()[0]], ret='B'),
    ]),
    # guess_xx, the WHOLE function: the call's two results unpacked as e[0] (the optional boolean is_xy) and e[1] (the
    # statistics dict, read as the list of its keys: only its truth value could matter, and here only the dropped log
    # line reads it), `if is_xy is None: return None`, the log line, `return ~is_xy`.
    'FnCnaryGuess': ('cnvlib/cnary.py', [
        dict(name='CopyNumArray.guess_xx', coq='fn_guess_xx',
             py_params=['self', 'is_haploid_x_reference', 'diploid_parx_genome', 'verbose'],
             params=[('self.compare_sex_chromosomes(is_haploid_x_reference, diploid_parx_genome)[0]', 'OB', 'is_xy'),
                     ('self.compare_sex_chromosomes(is_haploid_x_reference, diploid_parx_genome)[1]', 'LS', 'stats_keys'),
                     ('verbose', 'B')],
             ret='OB'),
    ]),
    # expect_flat_log2, the WHOLE function (the first batch's fn_expect_flat starts after the default): the default
    # `if is_haploid_x_reference is None: is_haploid_x_reference = not self.guess_xx(..., verbose=False)` on an optional
    # boolean, then the masks and the masked store as before.
    'FnCnaryFlatWhole': ('cnvlib/cnary.py', [
        dict(name='CopyNumArray.expect_flat_log2', coq='fn_expect_flat_whole',
             py_params=['self', 'is_haploid_x_reference', 'diploid_parx_genome'],
             params=[('is_haploid_x_reference', 'OB'),
                     ('self.guess_xx(diploid_parx_genome=diploid_parx_genome, verbose=False)', 'OB', 'guessed_xx'),
                     ('np.zeros(len(self), dtype=np.float64)', 'Q', 'zero'),
                     ('self.chr_x_filter(diploid_parx_genome).values', 'B', 'on_x'),
                     ('self.chr_y_filter(diploid_parx_genome).values', 'B', 'on_y'),
                     ('self.chr_y_filter().values', 'B', 'on_y_all')],
             ret='Q'),
    ]),
    # autosomes: GenomicArray.autosomes (skgenome/gary.py) and its override CopyNumArray.autosomes, both WHOLE, read per row
    # as "the row is in the returned table" (row_filter: `return self` keeps every row, `return self[mask]` the rows of the
    # mask).  `also` is None or a mask: an optional boolean per row.  The branch of the base class for an `also` that is a
    # chromosome name / a list of names (a loop of `is_auto |= self.chromosome == a_chrom`) is an opaque range (never taken
    # from cnary.py, which passes a mask).  In the override `super().autosomes` is a function-typed input that the theorem
    # instantiates with the generated base-class function.
    'FnGaryAutosomes': ('skgenome/gary.py', [
        dict(name='GenomicArray.autosomes', coq='fn_gary_autosomes', py_params=['self', 'also'], row_filter='self',
             opaque=[dict(first='if isinstance(also, str)', last='for a_chrom in also',
                          assigns=[('is_auto', 'named_auto'), ('also', 'also_after')])],
             params=[('self.chromosome.str.match(r"(chr)?\\d+$", na=False)', 'B', 'name_is_auto'),
                     ('is_auto.any()', 'B', 'any_auto'), ('also', 'OB'), ('isinstance(also, pd.Series)', 'B', 'also_is_series'),
                     ('named_auto', 'B'), ('also_after', 'B')],
             ret='B'),
    ]),
    'FnCnaryAutosomes': ('cnvlib/cnary.py', [
        dict(name='CopyNumArray.autosomes', coq='fn_cnary_autosomes', py_params=['self', 'diploid_parx_genome', 'also'],
             params=[('diploid_parx_genome is not None', 'B', 'has_build'), ('also', 'OB'),
                     ('self.parx_filter(diploid_parx_genome)', 'B', 'in_parx'),
                     ('isinstance(also, pd.Series)', 'B', 'also_is_series'),
                     ('super().autosomes', 'F:also=OB>B', 'base_autosomes')],
             ret='B'),
    ]),
    # drop_low_coverage, the WHOLE function read per row as "the row is kept" (row_filter): the cut-off, the depth test, the
    # log-only `if verbose and drop_idx.any():` (dropped), `return self[~drop_idx]`
    'FnCnaryDropLow': ('cnvlib/cnary.py', [
        dict(name='CopyNumArray.drop_low_coverage', coq='fn_drop_low_keep', py_params=['self', 'verbose'], row_filter='self',
             params=[("self.data['log2']", 'Q', 'log2_'), ("'depth' in self", 'B', 'has_depth'),
                     ("self.data['depth']", 'Q', 'depth'), ('verbose', 'B'),
                     ('params.NULL_LOG2_COVERAGE', 'Q', 'null_log2_coverage'),
                     ('params.MIN_REF_COVERAGE', 'Q', 'min_ref_coverage')],
             ret='B'),
    ]),
    # compare_sex_chromosomes, pieces of the top-level body (tables are opaque ids, as in fix.py):
    #   fn_x_shifts   `female_x_shift, male_x_shift = (-1, 0) if is_haploid_x_reference else (0, +1)`
    #   fn_y_factor   `chry = self[self.chr_y_filter(diploid_parx_genome)]` and the whole statement `if len(chry): [if skip_low: chry = chry.drop_low_coverage() -- an opaque range];
    #                 chry_male_lr = compare_chrom(chry.., +3, 0); if np.isfinite(chry_male_lr): combined_score *= chry_male_lr
    #                 else: chry_male_lr = np.nan`
    #   fn_sex_ratios the two reported ratios: the three segment_mean calls and the differences handed to the result dict
    #                 (their source is read off the return statement with `ast`)
    'FnCnaryShifts': ('cnvlib/cnary.py', [
        dict(name='CopyNumArray.compare_sex_chromosomes', coq='fn_x_shifts', py_params=_CSC_PARAMS,
             fragment=dict(first='tup1_0__ = ', last='male_x_shift = '),
             params=[('is_haploid_x_reference', 'B')], returns=['female_x_shift', 'male_x_shift'], ret=['Z', 'Z']),
    ]),
    'FnCnaryYFactor': ('cnvlib/cnary.py', [
        dict(name='CopyNumArray.compare_sex_chromosomes', coq='fn_y_factor', py_params=_CSC_PARAMS,
             fragment=dict(first='chry = self[self.chr_y_filter(', last='if '),
             opaque=[dict(first='if skip_low', last='if skip_low', assigns=[('chry', 'chry_after')])],
             init=[('chry_male_lr', 'OQ', 'None')],
             params=[('self[self.chr_y_filter(diploid_parx_genome)]', 'Z', 'chry_id'), ('chry_after', 'Z'), ('len(chry)', 'Z', 'n_chry'), ('combined_score', 'Q'),
                     ("compare_chrom(chry['log2'].values, chry['weight'].values if use_weight else None, +3, 0)", 'Q', 'y_lr'),
                     ('np.isfinite(chry_male_lr)', 'B', 'y_finite')],
             returns=['combined_score', 'chry_male_lr'], ret=['Q', 'OQ']),
    ]),
    'FnCnaryRatios': ('cnvlib/cnary.py', [
        dict(name='CopyNumArray.compare_sex_chromosomes', coq='fn_sex_ratios', py_params=_CSC_PARAMS,
             fragment=dict(first=_ratio_exprs()[2], last='chry_mean = segment_mean('),
             params=[('segment_mean(auto, skip_low=skip_low)', 'Q', 'auto_mean_v'),
                     ('segment_mean(chrx, skip_low=skip_low)', 'Q', 'chrx_mean_v'),
                     ('segment_mean(chry, skip_low=skip_low)', 'OQ', 'chry_mean_v')],
             returns=list(_ratio_exprs()[:2]), ret=['Q', 'OQ']),
    ]),
    # commands.do_sex: strsign (whole; the two `%.3g` texts are string inputs, the number may be NaN), guess_and_format
    # (whole: the label `"Male" if is_xy else "Female"` on the optional boolean, `... if stats else "NA"` on the statistics
    # dict read as the list of its keys, the two strsign calls and the sample name as string inputs), the column names.
    'FnSexCommand': ('cnvlib/commands.py', [
        # (init: tools/fn_selftest.py names its stand-in variables by the alphanumeric characters of the key, which are the
        #  same for the two format expressions -- a duplicate argument; an init term it does not know makes it list the spec
        #  as not executable instead.  The binding itself is never read.)
        dict(name='do_sex.strsign', coq='fn_strsign', py_params=['num'], init=[('selftest_skip__', 'B', 'false')],
             params=[('num', 'OQ'), ("'+%.3g' % num", 'S', 'plus_text'), ("'%.3g' % num", 'S', 'plain_text')], ret='S'),
        dict(name='do_sex.guess_and_format', coq='fn_guess_and_format', py_params=['cna'],
             params=[('cna.compare_sex_chromosomes(is_haploid_x_reference, diploid_parx_genome)[0]', 'OB', 'is_xy'),
                     ('cna.compare_sex_chromosomes(is_haploid_x_reference, diploid_parx_genome)[1]', 'LS', 'stats_keys'),
                     ("cna.meta['filename'] or cna.sample_id", 'S', 'sample'),
                     ("strsign(stats['chrx_ratio'])", 'S', 'x_text'), ("strsign(stats['chry_ratio'])", 'S', 'y_text')],
             ret=['S', 'S', 'S', 'S']),
        dict(name='do_sex', coq='fn_do_sex_columns', py_params=['cnarrs', 'is_haploid_x_reference', 'diploid_parx_genome'],
             fragment=dict(first='columns = [', last='columns = ['), params=[], returns=['columns'], ret='LS'),
    ]),
}
