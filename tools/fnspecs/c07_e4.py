"""Further loop ties for property C07 (wave e4): skgenome/intersect.py by_shared_chroms and by_ranges, the two loops
that decide what a query on a chromosome ABSENT from the other table gets (keep_empty).  (tools/fnspecs/ranges_loops.py
holds the earlier ties.)  One generated module per tie; theorems in Proofs/Fn<Module>.v, restated at the end of
Props/C07.v (`C07_source_*`).

FnRangesShared -- by_shared_chroms, ONE ITERATION of
      for chrom, ctable in table.groupby("chromosome", sort=False):
          if chrom in other_chroms: otable = other_chroms[chrom]; yield chrom, ctable, otable
          elif keep_empty:          yield chrom, ctable, None
  Tables are opaque ids, the third component an optional id; `chrom in other_chroms` / `other_chroms[chrom]` are inputs
  keyed by their source text.
  Tie (C07_source_shared_step / C07_source_shared_groups): Model/Ranges.v shared_groups IS the generated iteration per
  chromosome of the table, in order of first appearance.
  Mutations (each breaks Proofs/FnRangesShared.v):
    `elif keep_empty:` -> `elif not keep_empty:`
    `yield chrom, ctable, None` -> `yield chrom, ctable, ctable`
    `if chrom in other_chroms:` -> `if chrom not in other_chroms:`               REFUSED (the keyed input is gone)
    `yield chrom, ctable, otable` -> `yield chrom, otable, ctable`

FnRangesByRanges -- by_ranges, ONE ITERATION of
      for _chrom, bin_rows, src_rows in by_shared_chroms(other, table, keep_empty):
          if src_rows is not None: subranges = iter_ranges(...); for ... in zip(...): yield bin_row, subrange   (opaque range)
          elif keep_empty:         for bin_row in bin_rows.itertuples(index=False): yield bin_row, []           (opaque range)
  The two inner loops only pair things up; what they yield enters as two list inputs, `src_rows` is an optional id
  (both inner loops bind the same loop variable `bin_row`, read by nothing else: declared as the dummy input last_bin_row).
  Tie (C07_source_by_ranges_step / C07_source_by_ranges): Model/Ranges.v by_ranges IS the generated iteration per group
  of by_shared_chroms: the paired selections when the chromosome is shared, one empty result per bin when it is not and
  keep_empty, nothing otherwise.
  Mutations (each breaks Proofs/FnRangesByRanges.v):
    `elif keep_empty:` -> `elif not keep_empty:`
    `if src_rows is not None:` -> `if src_rows is None:`
    `elif keep_empty:` -> `else:`
"""
MODULES = {
    'FnRangesShared': ('skgenome/intersect.py', [
        dict(name='by_shared_chroms', coq='fn_shared_step', py_params=['table', 'other', 'keep_empty'],
             loop=dict(first="for chrom, ctable in table.groupby('chromosome', sort=False)"), carried=[],
             yields=['S', 'Z', 'OZ'],
             params=[('chrom', 'S'), ('ctable', 'Z'), ('chrom in other_chroms', 'B', 'shared'),
                     ('other_chroms[chrom]', 'Z', 'otable_id'), ('keep_empty', 'B')],
             ret='Y'),
    ]),
    'FnRangesByRanges': ('skgenome/intersect.py', [
        dict(name='by_ranges', coq='fn_by_ranges_step', py_params=['table', 'other', 'mode', 'keep_empty'],
             loop=dict(first='for _chrom, bin_rows, src_rows in by_shared_chroms('), carried=[],
             yields=['Z'], init=[('bin_row', 'Z', '0')],
             opaque=[dict(first='subranges = iter_ranges(', last='for bin_row, subrange in zip(', yields='paired',
                          assigns=[('bin_row', 'last_bin_row')]),
                     dict(first='for bin_row in bin_rows.itertuples(', last='for bin_row in bin_rows.itertuples(',
                          yields='empties', assigns=[('bin_row', 'last_bin_row')])],
             params=[('src_rows', 'OZ'), ('keep_empty', 'B'), ('paired', 'Y'), ('empties', 'Y'), ('last_bin_row', 'Z')],
             ret='Y'),
    ]),
}
