"""Further loop / per-row ties for property C14 (wave e4): cnvlib/call.py do_call's two filter loops and the parts of
cnvlib/segfilters.py not yet tied (tools/fnspecs/segfilters.py, segfilters_loops.py hold the earlier ties).  One generated
module per tie; theorems in Proofs/Fn<Module>.v, restated at the end of Props/C14.v (`C14_source_*`).

FnCallPreFilter -- do_call, ONE ITERATION of
      for filt in ("ci", "sem"):
          if filt in filters:
              logging.info(...)
              outarr = getattr(segfilters, filt)(outarr)
              filters.remove(filt)
  carried: the table `outarr` and the list `filters` (a list of str: LS).  The table is an opaque value that the iteration
  only hands to the filter picked by name (`getattr(segfilters, filt)`, a function-typed input) -- its carrier type is
  declared LS so that the tie can instantiate it with the TRACE of filter names applied so far (the free reading of an
  opaque value under unary functions); nothing of the translation depends on that choice.
  Tie (C14_source_pre_step / C14_source_pre_steps): Model/Segfilters.v pre_steps over pre_filters IS the generated step
  folded over the tuple's names: same table (the trace applied to the input), same remaining filter list.
  Mutations (each breaks Proofs/FnCallPreFilter.v):
    `if filt in filters:` -> `if filt not in filters:`
    `filters.remove(filt)` deleted (-> `pass`)
    `outarr = getattr(segfilters, filt)(outarr)` -> `outarr = outarr`
    `filters.remove(filt)` -> `filters.remove("cn")`

FnCallPostFilter -- do_call, ONE ITERATION of
      for filt in filters:
          if not outarr.data.index.is_unique: ... outarr.data = outarr.data.reset_index(drop=True)     (opaque range)
          logging.warning(...)
          outarr = getattr(segfilters, filt)(outarr)
  The index reset is an opaque range without declared effect: it relabels the rows of the same table in place, and the
  model's tables carry no index (Model/Segfilters.v header; the harness runs non-default indexes).
  Tie (C14_source_post_step / C14_source_apply_seq / C14_source_call_with_filters): apply_seq IS the generated step
  folded over the remaining filters, and call_with_filters is the two generated loops around the calling step.
  Mutations (each breaks Proofs/FnCallPostFilter.v):
    `outarr = getattr(segfilters, filt)(outarr)` (second loop) -> `outarr = outarr`
    the same statement -> `cnarr = getattr(segfilters, filt)(outarr)`      (the result is dropped)
    `getattr(segfilters, filt)(outarr)` -> `getattr(segfilters, filt)(cnarr)`   REFUSED (unknown name cnarr)
"""
_PY_CALL = ['cnarr', 'variants', 'method', 'ploidy', 'purity', 'is_haploid_x_reference', 'is_sample_female',
            'diploid_parx_genome', 'filters', 'thresholds']

MODULES = {
    'FnCallPreFilter': ('cnvlib/call.py', [
        dict(name='do_call', coq='fn_pre_filter_step', py_params=_PY_CALL,
             loop=dict(first="for filt in ('ci', 'sem')"),
             carried=[('outarr', 'LS'), ('filters', 'LS')],
             params=[('filt', 'S'), ('outarr', 'LS'), ('filters', 'LS'),
                     ('getattr(segfilters, filt)', 'F:LS>LS', 'filter_by_name')],
             ret=['LS', 'LS']),
    ]),
    'FnCallPostFilter': ('cnvlib/call.py', [
        dict(name='do_call', coq='fn_post_filter_step', py_params=_PY_CALL,
             loop=dict(first='for filt in filters'),
             carried=[('outarr', 'LS')],
             opaque=[dict(first='if not outarr.data.index.is_unique', last='if not outarr.data.index.is_unique')],
             params=[('filt', 'S'), ('outarr', 'LS'),
                     ('getattr(segfilters, filt)', 'F:LS>LS', 'filter_by_name')],
             ret='LS'),
    ]),
}
