"""Further loop / per-row ties for property C14 (wave e4): cnvlib/call.py do_call's two filter loops and the parts of
cnvlib/segfilters.py not yet tied (tools/fnspecs/segfilters.py, segfilters_loops.py hold the earlier ties).  One generated
module per tie; theorems in Proofs/Fn<Module>.v, restated at the end of Props/C14.v (`C14_source_*`).

FnCallPreFilter -- do_call, ONE ITERATION of
      for filt in ("ci", "sem"):
          if filt in filters:
              logging.info(...)
              outarr = getattr(segfilters, filt)(outarr)
              filters.remove(filt)
  carried: the table `outarr` and the list `filters` (a list of str: LS).  The table is an opaque value that the iteration
  only hands to the filter picked by name (`getattr(segfilters, filt)`, a function-typed input) -- its carrier type is
  declared LS so that the tie can instantiate it with the TRACE of filter names applied so far (the free reading of an
  opaque value under unary functions); nothing of the translation depends on that choice.
  Tie (C14_source_pre_step / C14_source_pre_steps): Model/Segfilters.v pre_steps over pre_filters IS the generated step
  folded over the tuple's names: same table (the trace applied to the input), same remaining filter list.
  Mutations (each breaks Proofs/FnCallPreFilter.v):
    `if filt in filters:` -> `if filt not in filters:`
    `filters.remove(filt)` deleted (-> `pass`)
    `outarr = getattr(segfilters, filt)(outarr)` -> `outarr = outarr`
    `filters.remove(filt)` -> `filters.remove("cn")`

FnCallPostFilter -- do_call, ONE ITERATION of
      for filt in filters:
          if not outarr.data.index.is_unique: ... outarr.data = outarr.data.reset_index(drop=True)     (opaque range)
          logging.warning(...)
          outarr = getattr(segfilters, filt)(outarr)
  The index reset is an opaque range without declared effect: it relabels the rows of the same table in place, and the
  model's tables carry no index (Model/Segfilters.v header; the harness runs non-default indexes).
  Tie (C14_source_post_step / C14_source_apply_seq / C14_source_call_with_filters): apply_seq IS the generated step
  folded over the remaining filters, and call_with_filters is the two generated loops around the calling step.
  Mutations (each breaks Proofs/FnCallPostFilter.v):
    `outarr = getattr(segfilters, filt)(outarr)` (second loop) -> `outarr = outarr`
    the same statement -> `cnarr = getattr(segfilters, filt)(outarr)`      (the result is dropped)
    `getattr(segfilters, filt)(outarr)` -> `getattr(segfilters, filt)(cnarr)`   REFUSED (unknown name cnarr)

FnSegAlleleKeys -- squash_by_groups, the group-key columns, per row:
      groupkey = ["_group"]
      if "cn1" in cnarr:
          data["_g1"] = enumerate_changes(cnarr["cn1"]); data["_g2"] = enumerate_changes(cnarr["cn2"])
          groupkey.extend(["_g1", "_g2"])
  The row's two change counts are inputs keyed by their source text; `init` binds the two columns (absent without cn1) to 0.
  Tie (C14_source_allele_keys / C14_source_allele_keys_absent / C14_source_group_keys3): the model's key (mk_keys: _group,
  change count of cn1, change count of cn2) IS the row's values in the generated key columns -- with the columns present,
  and also without them (the model then holds missing cells, whose change counts are 0).
  Mutations (each breaks Proofs/FnSegAlleleKeys.v):
    `data["_g1"] = enumerate_changes(cnarr["cn1"])` -> `... (cnarr["cn2"])`
    `groupkey.extend(["_g1", "_g2"])` -> `groupkey.extend(["_g1"])`
    `if "cn1" in cnarr:` -> `if "cn1" not in cnarr:`                           REFUSED (fragment not found)

FnSegSpan -- squash_region's `out = {"chromosome": [...iat[0]], "start": ...iat[0], "end": ...iat[-1]}`: the three value
  expressions are located with `ast` (the display itself is stored into later, so it is no constant table) and returned
  by a fragment anchored at `region_weight = ...`; the first / last cells of the three columns are six distinct inputs.
  Tie (C14_source_span): chrom / lo / hi of Model/Segfilters.v squash_region ARE the generated choices.
  Mutations (each breaks Proofs/FnSegSpan.v):
    `"end": cnarr["end"].iat[-1]` -> `.iat[0]`
    `"start": cnarr["start"].iat[0]` -> `.iat[-1]`
    `"start": cnarr["start"].iat[0]` -> `cnarr["end"].iat[0]`
    `[cnarr["chromosome"].iat[0]]` -> `[cnarr["chromosome"].iat[-1]]`

FnSegHandOver -- the WHOLE functions cn, ci, sem and ampdel up to its squash: which per-row level reaches
  squash_by_groups.  `squash_by_groups` and `pd.Series` are function-typed inputs (instantiated with the projections on
  the level), np.zeros(len(segarr)) is the input 0.
  Tie (C14_source_cn_whole / _ci_whole / _sem_whole / _ampdel_whole): the level handed over IS Model/Segfilters.v level.
  Mutations (each breaks Proofs/FnSegHandOver.v):
    cn: `segarr["cn"]` -> `segarr["log2"]`                                      REFUSED (the keyed input is gone)
    ci: `pd.Series(levels, index=...)` -> `pd.Series(segarr["ci_lo"].values, index=...)`   REFUSED (OQ where Q is expected)
    sem: `levels[segarr["log2"] - margin > 0] = 1` -> `= -1`
    ampdel: `levels[segarr["cn"] >= 5] = 1` -> `> 5`
"""
import ast, os, sys


def _repo():
    for name in ('py2v_fn', '__main__'):
        m = sys.modules.get(name)
        if m is not None and hasattr(m, 'REPO') and hasattr(m, 'FnTranslator'):
            return m.REPO
    return os.environ.get('CNVKIT_REPO', '/repo')


def _func(rel, name):
    tree = ast.parse(open(os.path.join(_repo(), rel)).read())
    for ch in ast.walk(tree):
        if isinstance(ch, ast.FunctionDef) and ch.name == name:
            return ch
    raise ValueError('no definition %s' % name)


def _span_exprs():
    """source texts of the values of out["chromosome"] (the one element of the list), out["start"], out["end"]"""
    fn = _func('cnvlib/segfilters.py', 'squash_region')
    disp = [s for s in fn.body if isinstance(s, ast.Assign) and isinstance(s.value, ast.Dict)
            and len(s.targets) == 1 and isinstance(s.targets[0], ast.Name) and s.targets[0].id == 'out']
    if len(disp) != 1:
        raise ValueError('squash_region has %d displays `out = {...}`' % len(disp))
    d = disp[0].value
    keys = [k.value if isinstance(k, ast.Constant) else None for k in d.keys]
    if keys != ['chromosome', 'start', 'end']:
        raise ValueError('the display has keys %s' % keys)
    # nothing between the display and the anchor may re-bind one of the three entries
    for s in ast.walk(fn):
        if isinstance(s, ast.Subscript) and isinstance(s.ctx, ast.Store) and ast.unparse(s.value) == 'out' \
                and isinstance(s.slice, ast.Constant) and s.slice.value in keys:
            raise ValueError('out[%r] is stored into after the display' % s.slice.value)
    c = d.values[0]
    if not (isinstance(c, ast.List) and len(c.elts) == 1):
        raise ValueError('out["chromosome"] is not a one-element list')
    return [ast.unparse(c.elts[0]), ast.unparse(d.values[1]), ast.unparse(d.values[2])]


def _spec_span():
    try:
        rets, a = _span_exprs(), 'region_weight = '
    except Exception as exc:   # noqa -- fail closed
        rets, a = ['cnarr'], '<squash_region no longer has the expected display: %s>' % exc
    return dict(name='squash_region', coq='fn_squash_span', py_params=['cnarr'],
                fragment=dict(first=a, last=a),
                params=[("cnarr['weight'].sum()", 'Q', 'weight_sum'),
                        ("cnarr['chromosome'].iat[0]", 'S', 'chrom_first'), ("cnarr['chromosome'].iat[-1]", 'S', 'chrom_last'),
                        ("cnarr['start'].iat[0]", 'Z', 'start_first'), ("cnarr['start'].iat[-1]", 'Z', 'start_last'),
                        ("cnarr['end'].iat[0]", 'Z', 'end_first'), ("cnarr['end'].iat[-1]", 'Z', 'end_last')],
                returns=rets, ret=['S', 'Z', 'Z'])


_HAND = [('squash_by_groups', 'F:Z,Q>Q', 'squash'), ('pd.Series', 'F:Q,index=Z>Q', 'series'),
         ('segarr', 'Z', 'table'), ('segarr.data.index', 'Z', 'index'), ('np.zeros(len(segarr))', 'Q', 'zeros')]

_PY_CALL = ['cnarr', 'variants', 'method', 'ploidy', 'purity', 'is_haploid_x_reference', 'is_sample_female',
            'diploid_parx_genome', 'filters', 'thresholds']

MODULES = {
    'FnCallPreFilter': ('cnvlib/call.py', [
        dict(name='do_call', coq='fn_pre_filter_step', py_params=_PY_CALL,
             loop=dict(first="for filt in ('ci', 'sem')"),
             carried=[('outarr', 'LS'), ('filters', 'LS')],
             params=[('filt', 'S'), ('outarr', 'LS'), ('filters', 'LS'),
                     ('getattr(segfilters, filt)', 'F:LS>LS', 'filter_by_name')],
             ret=['LS', 'LS']),
    ]),
    'FnCallPostFilter': ('cnvlib/call.py', [
        dict(name='do_call', coq='fn_post_filter_step', py_params=_PY_CALL,
             loop=dict(first='for filt in filters'),
             carried=[('outarr', 'LS')],
             opaque=[dict(first='if not outarr.data.index.is_unique', last='if not outarr.data.index.is_unique')],
             params=[('filt', 'S'), ('outarr', 'LS'),
                     ('getattr(segfilters, filt)', 'F:LS>LS', 'filter_by_name')],
             ret='LS'),
    ]),
    'FnSegAlleleKeys': ('cnvlib/segfilters.py', [
        dict(name='squash_by_groups', coq='fn_allele_keys', py_params=['cnarr', 'levels', 'by_arm'],
             fragment=dict(first="groupkey = ['_group']", last="if 'cn1' in cnarr"),
             init=[("data['_g1']", 'Z', '0'), ("data['_g2']", 'Z', '0')],
             params=[("'cn1' in cnarr", 'B', 'has_cn1'), ("enumerate_changes(cnarr['cn1'])", 'Z', 'changes_cn1'),
                     ("enumerate_changes(cnarr['cn2'])", 'Z', 'changes_cn2')],
             returns=['groupkey', "data['_g1']", "data['_g2']"], ret=['LS', 'Z', 'Z']),
    ]),
    'FnSegSpan': ('cnvlib/segfilters.py', [_spec_span()]),
    'FnSegHandOver': ('cnvlib/segfilters.py', [
        dict(name='cn', coq='fn_cn_whole', py_params=['segarr'],
             params=_HAND[:1] + _HAND[2:3] + [("segarr['cn']", 'Q', 'cn')], ret='Q'),
        dict(name='ci', coq='fn_ci_whole', py_params=['segarr'],
             params=_HAND + [("segarr['ci_lo']", 'OQ', 'ci_lo'), ("segarr['ci_hi']", 'OQ', 'ci_hi')], ret='Q'),
        dict(name='sem', coq='fn_sem_whole', py_params=['segarr', 'zscore'],
             params=_HAND + [('zscore', 'Q'), ("segarr['sem']", 'OQ', 'sem'), ("segarr['log2']", 'Q', 'log2')], ret='Q'),
        dict(name='ampdel', coq='fn_ampdel_whole', py_params=['segarr'],
             fragment=dict(first='levels = np.zeros(', last='cnarr = squash_by_groups('),
             params=_HAND + [("segarr['cn']", 'Q', 'cn')], returns=['cnarr'], ret='Q'),
    ]),
}
