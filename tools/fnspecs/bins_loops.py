"""Loop ties of the target / antitarget binning code (property C12): loop bodies and per-row decisions of
cnvlib/target.py and cnvlib/antitarget.py translated from the source text (tools/py2v_fn.py `loop=` / `fragment=`),
tied to Model/Target.v / Model/Antitarget.v in Proofs/FnTargetShorten.v, FnTargetNames.v, FnTargetZero.v,
FnAntiSkip.v, FnBinsLoop.v and restated at the end of Props/C12.v (`C12_source_*`).  One generated module per tie.

Reading conventions: a Python `set` of names is a value of type LS -- the list of its (distinct) elements, as in
Model/Target.v; `len` is its length, its truthiness "non-empty".  Set algebra and string surgery are opaque inputs keyed
by their source text (`curr_names.intersection(next_names)`, `name.split('|')[-1]`, ...): the theorems say which model
value is passed.

FnTargetShorten -- shorten_labels, ONE ITERATION of `for label in gene_labels`: the carried (curr_names,
  curr_gene_count, longest_name_len) and the names the iteration yields.  The inner emission loop
  `for _i in range(curr_gene_count): out_name = shortest_name(curr_names); yield out_name; longest_name_len = ...` is an
  OPAQUE range (`opaque=`): its declared effect -- the names it yields and the longest_name_len it leaves -- enters as two
  parameters (the model supplies `repeat (shortest_name curr) count`; longest_name_len only feeds a log line).
  Tie (C12_source_shorten_step / C12_source_shorten): Model/Target.v shorten_go_pick IS the generated step folded
  over the labels, followed by the final emission.
  Mutations (each breaks Proofs/FnTargetShorten.v):
    `curr_gene_count += 1` -> `curr_gene_count += 2`
    `curr_gene_count = 1` -> `curr_gene_count = 0`
    `curr_names = filter_names(overlap)` -> `curr_names = overlap`
    `if overlap:` -> `if not overlap:`
    `curr_names = next_names` -> `curr_names = curr_names`

FnTargetNames -- the two helper functions, whole bodies: filter_names (`len(names) > 1`, the non-mRNA subset if it is not
  empty) and shortest_name (`len(name) > 2 and "|" in name[1:-1]` -> the part after the last "|").
  Tie (C12_source_filter_names / C12_source_shortest_name): Model/Target.v filter_names / strip_db /
  shortest_name_pick ARE the generated functions.
  Mutations (each breaks Proofs/FnTargetNames.v):
    `if len(names) > 1:` -> `if len(names) > 0:`
    `if ok_names:` -> `if not ok_names:`
    `if len(name) > 2 and` -> `if len(name) > 3 and`
    `if len(name) > 2 and "|" in name[1:-1]:` -> `... or ...`

FnTargetZero -- do_target's `tgt_arr = tgt_arr[tgt_arr.start != tgt_arr.end]` read per row (the mask expression is
  located with `ast`, fail-closed).
  Tie (C12_source_drop_zero): Model/Target.v drop_zero_width IS the filter by the generated test.
  Mutation: `tgt_arr.start != tgt_arr.end` -> `tgt_arr.start < tgt_arr.end - 1` breaks Proofs/FnTargetZero.v.

FnAntiSkip -- drop_noncanonical_contigs: which untargeted chromosome is skipped (the two comprehension tests under
  `if any(is_canonical_contig_name(c) for c in target_chroms)`, located with `ast`) and which row of `accessible`
  is kept (`accessible[~skip_idx]`).
  Tie (C12_source_chroms_to_skip / C12_source_drop_rows): Model/Antitarget.v chroms_to_skip / drop_noncanonical ARE the
  filters by the generated tests.
  Mutations (each breaks Proofs/FnAntiSkip.v):
    `if not is_canonical_contig_name(c)]` -> `if is_canonical_contig_name(c)]`
    `if len(c) > max_tgt_chr_name_len]` -> `if len(c) >= max_tgt_chr_name_len]`
    `accessible = accessible[~skip_idx]` -> `accessible = accessible[skip_idx]`
"""
import ast, os, sys


def _repo():
    for name in ('py2v_fn', '__main__'):
        m = sys.modules.get(name)
        if m is not None and hasattr(m, 'REPO') and hasattr(m, 'FnTranslator'):
            return m.REPO
    return os.environ.get('CNVKIT_REPO', '/repo')


def _func(rel, name):
    tree = ast.parse(open(os.path.join(_repo(), rel)).read())
    for ch in ast.walk(tree):
        if isinstance(ch, ast.FunctionDef) and ch.name == name:
            return ch
    raise ValueError('no definition %s' % name)


def _closed(rule, anchor, fallback, what):
    try:
        return rule(), anchor
    except Exception as exc:   # noqa -- fail closed: the fragment cannot be found, the translator refuses
        return fallback, '<%s no longer has the expected shape: %s>' % (what, exc)


_SHORTEN = dict(
    name='shorten_labels', coq='fn_shorten_step', py_params=['gene_labels'],
    loop=dict(first='for label in gene_labels'),
    opaque=[dict(first='for _i in range(curr_gene_count)', last='for _i in range(curr_gene_count)',
                 assigns=[('longest_name_len', 'longest_after')], yields='emitted')],
    carried=[('curr_names', 'LS'), ('curr_gene_count', 'Z'), ('longest_name_len', 'Z')],
    yields=['S'],
    params=[('curr_names', 'LS'), ('curr_gene_count', 'Z'), ('longest_name_len', 'Z'),
            ("set(label.rstrip().split(','))", 'LS', 'next_names_in'),
            ('curr_names.intersection(next_names)', 'LS', 'overlap_in'),
            ('filter_names(overlap)', 'LS', 'filtered'),
            ('emitted', 'Y'), ('longest_after', 'Z')],
    ret=['LS', 'Z', 'Z'])

_NAMES = [
    dict(name='filter_names', coq='fn_filter_names', py_params=['names', 'exclude'],
         params=[('names', 'LS'),
                 ('set(n for n in names if not any(n.startswith(ex) for ex in exclude))', 'LS', 'ok_names_in')],
         ret='LS'),
    dict(name='shortest_name', coq='fn_shortest_name', py_params=['names'],
         params=[('min(filter_names(names), key=len)', 'S', 'shortest'),
                 ("'|' in name[1:-1]", 'B', 'inner_bar'),
                 ("name.split('|')[-1]", 'S', 'accession')],
         ret='S'),
]


def _rule_drop_zero():
    fn = _func('cnvlib/target.py', 'do_target')
    body = [s for s in fn.body if not (isinstance(s, ast.Expr) and isinstance(s.value, ast.Constant))]
    if ast.unparse(body[0]) != 'tgt_arr = bait_arr.copy()':
        raise ValueError('do_target no longer starts with tgt_arr = bait_arr.copy()')
    st = body[1]
    if not (isinstance(st, ast.Assign) and ast.unparse(st.targets[0]) == 'tgt_arr' and isinstance(st.value, ast.Subscript)
            and ast.unparse(st.value.value) == 'tgt_arr'):
        raise ValueError('the second statement is no longer tgt_arr = tgt_arr[<mask>]')
    m = st.value.slice
    if {ast.unparse(n) for n in ast.walk(m) if isinstance(n, (ast.Name, ast.Attribute))} - {'tgt_arr', 'tgt_arr.start', 'tgt_arr.end'}:
        raise ValueError('the row mask reads other names: %s' % ast.unparse(m))
    return ast.unparse(m)


def _spec_drop_zero():
    # anchor: `tgt_arr = bait_arr.copy()` (an opaque input: a copy has the same rows)
    e, a = _closed(_rule_drop_zero, 'tgt_arr = bait_arr.copy()', 'tgt_arr', 'do_target')
    return dict(name='do_target', coq='fn_keep_target',
                py_params=['bait_arr', 'annotate', 'do_short_names', 'do_split', 'avg_size'],
                fragment=dict(first=a, last=a),
                params=[('bait_arr.copy()', 'Z', 'baits'), ('tgt_arr.start', 'Z', 'row_start'), ('tgt_arr.end', 'Z', 'row_end')],
                returns=[e], ret='B')


def _rule_skip():
    """-> (test for any canonical target, skip test if so, skip test otherwise, row mask)"""
    fn = _func('cnvlib/antitarget.py', 'drop_noncanonical_contigs')
    body = [s for s in fn.body if not (isinstance(s, ast.Expr) and isinstance(s.value, ast.Constant))]
    src = [ast.unparse(s) for s in body]
    if src[0] != 'access_chroms, target_chroms = compare_chrom_names(accessible, targets)' or \
            src[1] != 'untgt_chroms = access_chroms - target_chroms':
        raise ValueError('drop_noncanonical_contigs no longer starts with compare_chrom_names and the set difference')
    br = body[2]
    if not (isinstance(br, ast.If) and len(br.body) == 1 and len(br.orelse) == 2):
        raise ValueError('the canonical / name-length branch changed shape')

    def comp(st):
        if not (isinstance(st, ast.Assign) and ast.unparse(st.targets[0]) == 'chroms_to_skip'
                and isinstance(st.value, ast.ListComp) and ast.unparse(st.value.elt) == 'c'
                and len(st.value.generators) == 1 and ast.unparse(st.value.generators[0].target) == 'c'
                and ast.unparse(st.value.generators[0].iter) == 'untgt_chroms' and len(st.value.generators[0].ifs) == 1):
            raise ValueError('chroms_to_skip is no longer [c for c in untgt_chroms if <test>]: %s' % ast.unparse(st))
        return ast.unparse(st.value.generators[0].ifs[0])
    t_canon = comp(br.body[0])
    if ast.unparse(br.orelse[0]) != 'max_tgt_chr_name_len = max(map(len, target_chroms))':
        raise ValueError('max_tgt_chr_name_len is no longer max(map(len, target_chroms))')
    t_len = comp(br.orelse[1])
    drop = body[3]
    if not (isinstance(drop, ast.If) and ast.unparse(drop.test) == 'chroms_to_skip' and not drop.orelse):
        raise ValueError('the rows are no longer dropped under `if chroms_to_skip:`')
    inner = [s for s in drop.body if not (isinstance(s, ast.Expr))]
    if len(inner) != 2 or ast.unparse(inner[0]) != 'skip_idx = accessible.chromosome.isin(chroms_to_skip)':
        raise ValueError('skip_idx is no longer accessible.chromosome.isin(chroms_to_skip)')
    st = inner[1]
    if not (isinstance(st, ast.Assign) and ast.unparse(st.targets[0]) == 'accessible' and isinstance(st.value, ast.Subscript)
            and ast.unparse(st.value.value) == 'accessible'):
        raise ValueError('the rows are no longer selected by accessible = accessible[<mask>]')
    if ast.unparse(body[4]) != 'return accessible':
        raise ValueError('drop_noncanonical_contigs no longer returns accessible')
    return ast.unparse(br.test), t_canon, t_len, ast.unparse(st.value.slice)


def _skip_specs():
    try:
        anyc, t_canon, t_len, mask = _rule_skip()
        a1, a2 = 'untgt_chroms = ', 'skip_idx = '
    except Exception as exc:   # noqa -- fail closed
        anyc = t_canon = t_len = mask = 'c'
        a1 = a2 = '<drop_noncanonical_contigs no longer has the expected shape: %s>' % exc
    py = ['accessible', 'targets', 'verbose']
    return [
        # anchor: `untgt_chroms = access_chroms - target_chroms` (an opaque input); c is one untargeted chromosome
        dict(name='drop_noncanonical_contigs', coq='fn_skip_chrom', py_params=py,
             fragment=dict(first=a1, last=a1),
             params=[('access_chroms - target_chroms', 'Z', 'untargeted'),
                     ('any(is_canonical_contig_name(c) for c in target_chroms)', 'B', 'any_canonical'),
                     ('is_canonical_contig_name(c)', 'B', 'c_canonical'),
                     ('c', 'S'), ('max_tgt_chr_name_len', 'Z')],
             returns=['(%s) if (%s) else (%s)' % (t_canon, anyc, t_len)], ret='B'),
        # anchor: `skip_idx = accessible.chromosome.isin(chroms_to_skip)`, per row of accessible
        dict(name='drop_noncanonical_contigs', coq='fn_keep_access_row', py_params=py,
             fragment=dict(first=a2, last=a2),
             params=[('accessible.chromosome.isin(chroms_to_skip)', 'B', 'chrom_skipped')],
             returns=[mask], ret='B'),
    ]


MODULES = {
    'FnTargetShorten': ('cnvlib/target.py', [_SHORTEN]),
    'FnTargetNames': ('cnvlib/target.py', _NAMES),
    'FnTargetZero': ('cnvlib/target.py', [_spec_drop_zero()]),
    'FnAntiSkip': ('cnvlib/antitarget.py', _skip_specs()),
}
