"""Further source ties for property C16 (wave e4): cnvlib/reports.py do_genemetrics' control flow and
CopyNumArray.squash_genes' nested squash_rows (cnvlib/cnary.py).  (tools/fnspecs/reports.py holds the earlier ties.)
One generated module per tie; theorems in Proofs/Fn<Module>.v, restated at the end of Props/C16.v (`C16_source_*`).

FnGenemetricsFlow -- do_genemetrics from `if is_sample_female is None:` to the if / else that fills `rows`:
      if is_sample_female is None: is_sample_female = cnarr.guess_xx(...)          (optional boolean; the guess may be missing too)
      cnarr = cnarr.shift_xx(is_haploid_x_reference, is_sample_female, diploid_parx_genome)
      if segments: segments = segments.shift_xx(...); rows = gene_metrics_by_segment(cnarr, segments, threshold, skip_low)
      else:        rows = gene_metrics_by_gene(cnarr, threshold, skip_low)
  Tables are opaque ids (`segments`: 0 = None or a table without rows, the two cases its truth value merges); the method
  `.shift_xx` and the two row generators are function-typed inputs, the guess an optional-boolean input keyed by its call.
  Tie (C16_source_gm_dispatch / C16_source_gm_female): with ids read as tables, the rows Model/Genes.v do_genemetrics
  filters ARE those of the generated dispatch -- both tables shifted with the same three arguments BEFORE the rows are made,
  by_segment exactly when there are segments; the sex used is the given one, else the guess (Model/Reports.v female_for_bins).
  Mutations (each breaks Proofs/FnGenemetricsFlow.v):
    `if segments:` -> `if not segments:`                                         REFUSED (fragment not found)
    `rows = gene_metrics_by_gene(cnarr, threshold, skip_low)` -> the call made before `cnarr = cnarr.shift_xx(...)` (two lines swapped)
    `segments = segments.shift_xx(is_haploid_x_reference, is_sample_female, ...)` -> `segments.shift_xx(is_haploid_x_reference, None, ...)`
    `if is_sample_female is None:` -> `if is_sample_female is not None:`
    `gene_metrics_by_segment(cnarr, segments, threshold, skip_low)` -> `(..., not skip_low)`

FnGenemetricsKeep -- do_genemetrics' closing filter, per row of `table` (row_keep):
      if min_probes and len(table):
          n_probes = table.segment_probes if "segment_probes" in table.columns else table.probes
          table = table[n_probes >= min_probes]
  Tie (C16_source_gm_keep / C16_source_do_genemetrics): the model's closing filter IS the generated row test, and
  do_genemetrics IS dispatch-then-filter through the two generated definitions.
  Mutations (each breaks Proofs/FnGenemetricsKeep.v):
    `n_probes >= min_probes` -> `n_probes > min_probes`
    `if min_probes and len(table):` -> `if min_probes or len(table):`
    `table.segment_probes if ... else table.probes` -> branches swapped

FnGenesSquashRows -- squash_rows (nested in squash_genes): `start = rows.start.iat[0]`, `end = rows.end.iat[-1]` (first /
  last cells as four distinct inputs) and ONE ITERATION of
      for xfield in ("depth", "gc", "rmask", "spread", "weight"):
          if xfield in self: outrow.append(summary_func(rows[xfield]))
  (`outrow.append(v)` read as `yield v`).
  Tie (C16_source_squash_span / C16_source_squash_xfields): Model/Reports.v squash_values takes start of the first and end
  of the last row, and its extra-field cells ARE the generated step over the tuple.
  Mutations (each breaks Proofs/FnGenesSquashRows.v):
    `end = rows.end.iat[-1]` -> `rows.end.iat[0]`
    `start = rows.start.iat[0]` -> `rows.end.iat[0]`
    `if xfield in self:` -> `if xfield not in self:`                             REFUSED (the keyed input is gone)
"""
_PY_GM = ['cnarr', 'segments', 'threshold', 'min_probes', 'skip_low', 'is_haploid_x_reference', 'is_sample_female',
          'diploid_parx_genome']

MODULES = {
    'FnGenemetricsFlow': ('cnvlib/reports.py', [
        dict(name='do_genemetrics', coq='fn_gm_dispatch', py_params=_PY_GM,
             fragment=dict(first='if is_sample_female is', last='if segments'),
             params=[('cnarr', 'Z', 'bins'), ('segments', 'Z', 'segs'), ('threshold', 'Q'), ('skip_low', 'B'),
                     ('is_haploid_x_reference', 'B', 'hap'), ('is_sample_female', 'OB', 'female'),
                     ('diploid_parx_genome', 'Z', 'build'),
                     ('cnarr.guess_xx(is_haploid_x_reference=is_haploid_x_reference, diploid_parx_genome=diploid_parx_genome)',
                      'OB', 'guess'),
                     ('.shift_xx', 'F:Z,B,OB,Z>Z', 'shift_xx'),
                     ('gene_metrics_by_segment', 'F:Z,Z,Q,B>Z', 'by_segment'),
                     ('gene_metrics_by_gene', 'F:Z,Q,B>Z', 'by_gene')],
             returns=['rows', 'is_sample_female'], ret=['Z', 'OB']),
    ]),
    'FnGenemetricsKeep': ('cnvlib/reports.py', [
        dict(name='do_genemetrics', coq='fn_gm_keep', py_params=_PY_GM,
             fragment=dict(first='if min_probes', last='if min_probes'),
             row_keep='table', init=[('row_keep__', 'B', 'true')],
             params=[('min_probes', 'Z'), ('len(table)', 'Z', 'n_rows'),
                     ("'segment_probes' in table.columns", 'B', 'has_segment_probes'),
                     ('table.segment_probes', 'Z', 'segment_probes'), ('table.probes', 'Z', 'probes')],
             returns=['row_keep__'], ret='B'),
    ]),
    'FnGenesSquashRows': ('cnvlib/cnary.py', [
        dict(name='CopyNumArray.squash_genes.squash_rows', coq='fn_squash_rows_span', py_params=['name', 'rows'],
             fragment=dict(first='start = ', last='end = '),
             params=[('rows.start.iat[0]', 'Z', 'start_first'), ('rows.start.iat[-1]', 'Z', 'start_last'),
                     ('rows.end.iat[0]', 'Z', 'end_first'), ('rows.end.iat[-1]', 'Z', 'end_last')],
             returns=['start', 'end'], ret=['Z', 'Z']),
        dict(name='CopyNumArray.squash_genes.squash_rows', coq='fn_squash_xfield_step', py_params=['name', 'rows'],
             loop=dict(first="for xfield in ('depth', 'gc', 'rmask', 'spread', 'weight')"), carried=[],
             yields=['Q'], append_yields='outrow',
             params=[('xfield in self', 'B', 'has_field'), ('summary_func(rows[xfield])', 'Q', 'summary')],
             ret='Y'),
    ]),
}
