"""cnvlib/descriptives.py (C19), second wave of source ties [loop ties e2]: control flow, loops and the result formulas
that the first wave (tools/fnspecs/descriptives.py) left to the correspondence.  One generated module per tie; the
theorems are in Proofs/Fn<Module>.v and restated at the end of Props/C19.v as C19_source_*.

  FnQnTail        q_n: `n = len(a)` .. `return quartile / scale` -- the size-dependent scale (incl. the chained comparison
                  `10 < n < 400`) and the final quotient.            C19_source_qn_tail:  qn_core a == fn_qn_tail ..
  FnQnPairs       q_n: ONE ITERATION of the inner loop `for x_j in a[i + 1:]: vals.append(abs(x_i - x_j))`; the two nested
                  loops built from the generated step yield Model/Descriptives.v pair_diffs.
                                                                      C19_source_qn_pairs / C19_source_qn
  FnBivarFormula  biweight_midvariance: the masked per-element pair (d_, w_ = (w ** 2)[mask]) and the statement range
                  `if not w[mask].any(): return mad * 1.4826` .. `return np.sqrt(n * (..).sum() / (..).sum() ** 2)`; the two
                  reductions are opaque inputs keyed by their source text (so `(1 - w_) ** 4` and `1 - 5 * w_` are pinned),
                  np.sqrt is the oracle.                              C19_source_bivar_terms / C19_source_bivar_result
  FnGapper        gapper_scale: the per-gap weight idx * (n - idx) and the result (gaps * weights).sum() * sqrt(pi) / (n (n-1)).
                                                                      C19_source_gapper_weights / C19_source_gapper_result
  FnIqr           interquartile_range: the whole body, np.percentile a function-typed input.   C19_source_iqr
  FnWmedianTail   weighted_median: `midpoint = ..` to the end -- majority shortcut, allowance, the index searchsorted finds
                  (an opaque input keyed by the call's text), the tie test and the averaging rule, as ONE definition.
                                                                      C19_source_wmedian_tail: wmedian_sorted ps = fn_wm_tail ..
  FnOnArray       the decorators on_array / on_weighted_array (signature `wrapper(a, **kwargs)`: spec key `allow_kwarg`):
                  the empty / one-value short cuts and the call of the wrapped function.
                                                                      C19_source_on_array / C19_source_on_weighted_array

Mutations tried on a scratch copy of cnvlib (each makes `make` of the named Proofs file fail, or the translator refuse
that module; none survives):
  FnQnTail        `if n <= 10` -> `if n < 10` ; `10 < n < 400` -> `10 < n <= 400` ; `1.0 + (4 / n)` -> `1.0 + (5 / n)`
  FnQnPairs       `abs(x_i - x_j)` -> `abs(x_i + x_j)` ; `a[i + 1:]` -> `a[i:]` (refused: loop not found)
  FnBivarFormula  `(w ** 2)[mask]` -> `(w ** 3)[mask]` ; `mad * 1.4826` -> `mad * 1.5` ; `(1 - w_) ** 4` -> `** 3` (refused:
                  the keyed reduction is gone) ; `n * (` -> `(n - 1) * (`
  FnGapper        `idx * (n - idx)` -> `idx * (n - idx - 1)` ; `(n * (n - 1))` -> `(n * n)`
  FnIqr           `np.percentile(a, 75)` -> `np.percentile(a, 70)` ; `-` -> `+`
  FnWmedianTail   `midpoint_idx < len(a) - 1` -> `<= len(a) - 1` ; `<= tolerance` -> `< tolerance` ; `0.5 *` -> `0.4 *`
  FnOnArray       `if len(a) == 1` -> `if len(a) <= 2` ; `return a[0]` <-> `return default` swapped ; (weighted) `if not len(a)`
                  -> `if len(a)`"""

_BIVAR = dict(py_params=['a', 'initial', 'c', 'epsilon'])

MODULES = {
    'FnQnTail': ('cnvlib/descriptives.py', [
        dict(name='q_n', coq='fn_qn_tail', py_params=['a'],
             params=[('quartile', 'Q'), ('len(a)', 'Z', 'n_a')],
             fragment={'first': 'n = len(a)', 'last': 'return quartile / scale'}, ret='Q'),
    ]),
    'FnQnPairs': ('cnvlib/descriptives.py', [
        dict(name='q_n', coq='fn_qn_pair_step', py_params=['a'],
             loop=dict(first='for x_j in a[i + 1:]'),
             carried=[('vals', 'LQ')],
             params=[('vals', 'LQ'), ('x_i', 'Q'), ('x_j', 'Q')], ret='LQ'),
    ]),
    'FnBivarFormula': ('cnvlib/descriptives.py', [
        dict(name='biweight_midvariance', coq='fn_bivar_terms',
             params=[('d', 'Q'), ('w', 'Q'), ('mask', 'B')],
             fragment={'first': 'd_ = d[mask]', 'last': 'w_ = '}, returns=['d_', 'w_'], ret=['Q', 'Q'], **_BIVAR),
        dict(name='biweight_midvariance', coq='fn_bivar_result',
             params=[('d', 'Q'), ('w', 'Q'), ('mask', 'B'), ('mad', 'Q'), ('w[mask].any()', 'B', 'any_kept'),
                     ('mask.sum()', 'Z', 'n_kept'), ('(d_ ** 2 * (1 - w_) ** 4).sum()', 'Q', 'num_sum'),
                     ('((1 - w_) * (1 - 5 * w_)).sum()', 'Q', 'den_sum')],
             fragment={'first': 'if not w[mask].any()', 'last': 'return np.sqrt('}, ret='Q', **_BIVAR),
    ]),
    'FnGapper': ('cnvlib/descriptives.py', [
        dict(name='gapper_scale', coq='fn_gapper_weight', py_params=['a'],
             params=[('len(a)', 'Z', 'n_a'), ('np.arange(1, n)', 'Z', 'idx_i')],
             fragment={'first': 'n = len(a)', 'last': 'weights = '}, returns=['weights'], ret='Z'),
        dict(name='gapper_scale', coq='fn_gapper_result', py_params=['a'],
             params=[('len(a)', 'Z', 'n_a'), ('np.arange(1, n)', 'Z', 'idx_i'), ('(gaps * weights).sum()', 'Q', 'gw_sum'),
                     ('np.sqrt(np.pi)', 'Q', 'sqrt_pi')],
             fragment={'first': 'n = len(a)', 'last': 'return (gaps * weights).sum()'}, ret='Q'),
    ]),
    'FnIqr': ('cnvlib/descriptives.py', [
        dict(name='interquartile_range', coq='fn_iqr', py_params=['a'],
             params=[('np.percentile', 'F:LQ,Z>Q', 'pct'), ('a', 'LQ')], ret='Q'),
    ]),
    'FnWmedianTail': ('cnvlib/descriptives.py', [
        dict(name='weighted_median', coq='fn_wm_tail', py_params=['a', 'weights'],
             params=[('weights.sum()', 'Q', 'wtot'), ('(weights > midpoint).any()', 'B', 'majority'),
                     ('a[weights.argmax()]', 'Q', 'heaviest'), ('weights.cumsum()', 'LQ', 'cum'),
                     ('len(a)', 'Z', 'n'), ('sys.float_info.epsilon', 'Q', 'eps'), ('cumulative_weight[-1]', 'Q', 'total'),
                     ('cumulative_weight.searchsorted(midpoint - tolerance)', 'Z', 'found'),
                     ('cumulative_weight[midpoint_idx]', 'Q', 'cum_at'),
                     ('a[midpoint_idx:midpoint_idx + 2].mean()', 'Q', 'pair_mean'), ('a[midpoint_idx]', 'Q', 'value')],
             fragment={'first': 'midpoint = ', 'last': 'return a[midpoint_idx]'}, ret='Q'),
    ]),
    # the decorators: `wrapper(a, **kwargs)` (spec key allow_kwarg: **kwargs only flows into the opaque call of f)
    'FnOnArray': ('cnvlib/descriptives.py', [
        dict(name='on_array.outer.wrapper', coq='fn_on_array', py_params=['a'], closure=['default'], allow_kwarg=True,
             params=[('len(a)', 'Z', 'n'), ('a[0]', 'Q', 'first'), ('default', 'OQ'), ('f(a, **kwargs)', 'OQ', 'wrapped')],
             fragment={'first': 'if not len(a)', 'last': 'return f(a, **kwargs)'}, ret='OQ'),
        # on_weighted_array: the length guard and the empty-input return; `rest__` stands for what the rest of the body returns
        dict(name='on_weighted_array.outer.wrapper', coq='fn_on_weighted_empty', py_params=['a', 'w'], closure=['default'],
             allow_kwarg=True, params=[('len(a)', 'Z', 'n_a'), ('len(w)', 'Z', 'n_w'), ('rest__', 'OQ', 'rest')],
             fragment={'first': 'if len(a) != len(w)', 'last': 'if not len(a)'}, returns=['rest__'], ret='OQ'),
        # ... from `if len(a) == 1:` (a is final there) to the call of the wrapped function; w is one element of the weights
        dict(name='on_weighted_array.outer.wrapper', coq='fn_on_weighted_array', py_params=['a', 'w'], closure=['default'],
             allow_kwarg=True,
             params=[('len(a)', 'Z', 'n'), ('a[0]', 'Q', 'first'), ('default', 'OQ'), ('w', 'OQ'),
                     ('w_nan.any()', 'B', 'any_w_nan'), ('f(a, w, **kwargs)', 'OQ', 'wrapped')],
             fragment={'first': 'if len(a) == 1', 'last': 'return f(a, w, **kwargs)'}, ret='OQ'),
        # ... and the NaN fill of one weight: w_nan = np.isnan(w); if w_nan.any(): w[w_nan] = 0.0
        dict(name='on_weighted_array.outer.wrapper', coq='fn_weight_fill', py_params=['a', 'w'], closure=['default'],
             allow_kwarg=True, params=[('w', 'OQ'), ('w_nan.any()', 'B', 'any_w_nan')],
             fragment={'first': 'w_nan = np.isnan(w)', 'last': 'if w_nan.any()'}, returns=['w'], ret='OQ'),
    ]),
}
