"""Loop / per-row ties of cnvlib/segfilters.py (property C14): the table code of enumerate_changes, squash_by_groups,
squash_region, ampdel and the require_column wrapper, read per element / per region and translated from the source text
(tools/py2v_fn.py `fragment=`), tied to Model/Segfilters.v in Proofs/FnSegEnum.v, FnSegSquash.v, FnSegGroups.v,
FnSegWrap.v and restated at the end of Props/C14.v (`C14_source_*`).  One generated module per tie.  (The per-row level
assignments of ampdel / ci / sem are tools/fnspecs/segfilters.py.)

FnSegEnum -- enumerate_changes read for ONE ELEMENT (position k of the n = len(levels) levels; `element=`):
      prev = levels.shift()                                             (the level before: an input)
      changed = (levels != prev) & ~(levels.isnull() & prev.isnull())   (NaN != NaN is True, hence the second factor)
      changed.iloc[:1] = False                                          (the first position never counts)
      return changed.cumsum().astype(int)
  Tie (C14_source_enum_changed / C14_source_enumerate): Model/Segfilters.v enumerate_changes IS the cumulative sum of
  the generated `changed` bit along the levels.
  Mutations (each breaks Proofs/FnSegEnum.v):
    `changed.iloc[:1] = False` -> `changed.iloc[:2] = False`
    `(levels != prev) & ~(` -> `(levels != prev) | ~(`
    `levels.isnull() & prev.isnull()` -> `levels.isnull() | prev.isnull()`

FnSegSquash -- squash_region, the body from `region_weight = ...` to the p_bintest column, for ONE region: every
  aggregate (sums, np.average, np.mean, weighted_median, np.median, max, the joined gene names, `"col" in cnarr`) is an
  opaque input keyed by its source text; translated is which of them lands in which output column -- the
  `region_weight > 0` switches, `probes` falling back to the row count, cn2 = cn - cn1, the optional columns.
  Tie (C14_source_squash_region): the fields of Model/Segfilters.v squash_region ARE the generated outputs on the
  model's aggregates.
  Mutations (each breaks Proofs/FnSegSquash.v):
    `if region_weight > 0:` (log2) -> `if region_weight >= 0:`
    `out["cn2"] = out["cn"] - out["cn1"]` -> `out["cn1"] - out["cn"]`
    `out["weight"] = region_weight` -> `out["weight"] = 1`
    `cnarr["probes"].sum() if "probes" in cnarr else len(cnarr)` -> branches swapped

FnSegGroups -- squash_by_groups' row key `change_levels += chrom_col` (and `+= np.concatenate(arm_levels)` by arm), per
  row; ampdel's closing row filter `cnarr[(cnarr["cn"] == 0) | (cnarr["cn"] >= 5)]` (mask located with `ast`).
  Tie (C14_source_group_key / C14_source_ampdel_keep): mk_keys' first component and ampdel_keep ARE the generated
  expressions.
  Mutations (each breaks Proofs/FnSegGroups.v):
    `change_levels += chrom_col` -> `change_levels -= chrom_col`        source_group_key fails
    `change_levels += np.concatenate(arm_levels)` -> `change_levels *= ...`   source_group_key fails
    `(cnarr["cn"] == 0) | (cnarr["cn"] >= 5)` -> `... > 5`              source_ampdel_keep fails

FnSegWrap -- require_column's inner wrapped_f: after the column guard (a recorded error path) the filter's own result is
  handed back untouched.
  Tie (C14_source_wrapper).  Mutation: `return result` -> `return segarr` breaks Proofs/FnSegWrap.v (source_wrapper).

Still outside: the by_arm loop `for i, (_chrom, cnarm) in enumerate(cnarr.by_arm()): arm_levels.append(np.repeat(i, len(cnarm)))`
(builds an array of arrays; its effect, the arm ordinal per row, is the input `np.concatenate(arm_levels)`), the
groupby(...).apply(squash_region) itself (pandas; model: group_by_key), `bic` (returns NotImplemented: no loop), the
`out = {...}` dict display of squash_region (chromosome / start / end of the first and last row: model fields chrom / lo / hi).
"""
import ast, os, sys


def _repo():
    for name in ('py2v_fn', '__main__'):
        m = sys.modules.get(name)
        if m is not None and hasattr(m, 'REPO') and hasattr(m, 'FnTranslator'):
            return m.REPO
    return os.environ.get('CNVKIT_REPO', '/repo')


def _func(rel, name):
    tree = ast.parse(open(os.path.join(_repo(), rel)).read())
    for ch in ast.walk(tree):
        if isinstance(ch, ast.FunctionDef) and ch.name == name:
            return ch
    raise ValueError('no definition %s' % name)


_ENUM = dict(
    name='enumerate_changes', coq='fn_enum_changed', py_params=['levels'],
    element=dict(index='elem_index__', length='len(levels)'),
    fragment=dict(first='prev = ', last='changed = False if'),      # ... `changed.iloc[:1] = False`, desugared
    params=[('levels', 'OQ', 'level'), ('levels.shift()', 'OQ', 'level_before'),
            ('elem_index__', 'Z', 'k'), ('len(levels)', 'Z', 'n')],
    returns=['changed'], ret='B')

_AGG = "np.average(cnarr['%s'], weights=cnarr['weight'])"
_SQUASH = dict(
    name='squash_region', coq='fn_squash_region', py_params=['cnarr'],
    fragment=dict(first='region_weight = ', last="if 'p_bintest' in cnarr"),
    init=[("out['depth']", 'OQ', 'None'), ("out['baf']", 'OQ', 'None'), ("out['cn']", 'OQ', 'None'),
          ("out['cn1']", 'OQ', 'None'), ("out['cn2']", 'OQ', 'None'), ("out['p_bintest']", 'OQ', 'None')],
    params=[("cnarr['weight'].sum()", 'Q', 'weight_sum'),
            (_AGG % 'log2', 'Q', 'wavg_log2'), ("np.mean(cnarr['log2'])", 'Q', 'mean_log2'),
            ("cnarr['gene'].drop_duplicates()", 'LS', 'genes'),
            ("'probes' in cnarr", 'B', 'has_probes'), ("cnarr['probes'].sum()", 'Z', 'probes_sum'),
            ('len(cnarr)', 'Z', 'n_rows'),
            ("'depth' in cnarr", 'B', 'has_depth'), (_AGG % 'depth', 'OQ', 'wavg_depth'),
            ("np.mean(cnarr['depth'])", 'OQ', 'mean_depth'),
            ("'baf' in cnarr", 'B', 'has_baf'), (_AGG % 'baf', 'OQ', 'wavg_baf'), ("np.mean(cnarr['baf'])", 'OQ', 'mean_baf'),
            ("'cn' in cnarr", 'B', 'has_cn'), ("weighted_median(cnarr['cn'], cnarr['weight'])", 'OQ', 'wmed_cn'),
            ("np.median(cnarr['cn'])", 'OQ', 'med_cn'),
            ("'cn1' in cnarr", 'B', 'has_cn1'), ("weighted_median(cnarr['cn1'], cnarr['weight'])", 'OQ', 'wmed_cn1'),
            ("np.median(cnarr['cn1'])", 'OQ', 'med_cn1'),
            ("'p_bintest' in cnarr", 'B', 'has_pbt'), ("cnarr['p_bintest'].max()", 'OQ', 'max_pbt')],
    returns=["out['log2']", "out['gene']", "out['probes']", "out['weight']", "out['depth']", "out['baf']",
             "out['cn']", "out['cn1']", "out['cn2']", "out['p_bintest']"],
    ret=['Q', 'S', 'Z', 'Q', 'OQ', 'OQ', 'OQ', 'OQ', 'OQ', 'OQ'])


def _rule_ampdel_keep():
    fn = _func('cnvlib/segfilters.py', 'ampdel')
    body = [s for s in fn.body if not (isinstance(s, ast.Expr) and isinstance(s.value, ast.Constant))]
    if not ast.unparse(body[-2]).startswith('cnarr = squash_by_groups(segarr, pd.Series(levels, index=segarr.data.index))'):
        raise ValueError('ampdel no longer squashes by its levels just before returning')
    ret = body[-1]
    if not (isinstance(ret, ast.Return) and isinstance(ret.value, ast.Subscript) and ast.unparse(ret.value.value) == 'cnarr'):
        raise ValueError('ampdel no longer returns cnarr[<mask>]')
    m = ret.value.slice
    if {ast.unparse(n) for n in ast.walk(m) if isinstance(n, (ast.Name, ast.Subscript))} - {'cnarr', "cnarr['cn']"}:
        raise ValueError('the row mask reads other columns: %s' % ast.unparse(m))
    return ast.unparse(m)


def _spec_ampdel_keep():
    try:
        e, a = _rule_ampdel_keep(), 'cnarr = squash_by_groups('
    except Exception as exc:   # noqa -- fail closed
        e, a = 'cnarr', '<ampdel no longer has the expected shape: %s>' % exc
    # anchor: `cnarr = squash_by_groups(...)` (an opaque input); the mask is read on one row of it
    return dict(name='ampdel', coq='fn_ampdel_keep', py_params=['segarr'],
                fragment=dict(first=a, last=a),
                params=[('squash_by_groups(segarr, pd.Series(levels, index=segarr.data.index))', 'Z', 'squashed'),
                        ("cnarr['cn']", 'Q', 'cn')],
                returns=[e], ret='B')


_PY_SQ = ['cnarr', 'levels', 'by_arm']
_GROUPS = [
    # else-branch: the two statements `chrom_col = cnarr["chromosome"].map(...)` (the chromosome's ordinal: an input) and
    # `change_levels += chrom_col`
    dict(name='squash_by_groups', coq='fn_group_key', py_params=_PY_SQ,
         fragment=dict(first='chrom_col = ', last='change_levels = change_levels'),
         params=[('change_levels', 'Z'),
                 ("cnarr['chromosome'].map(pd.Series(np.arange(len(chrom_names)), index=chrom_names))", 'Z', 'chrom_ordinal')],
         returns=['change_levels'], ret='Z'),
    # by_arm: `change_levels += np.concatenate(arm_levels)` (the first `change_levels (op)= ...` of the function)
    dict(name='squash_by_groups', coq='fn_group_key_arm', py_params=_PY_SQ,
         fragment=dict(first='change_levels = change_levels', last='change_levels = change_levels'),
         params=[('change_levels', 'Z'), ('np.concatenate(arm_levels)', 'Z', 'arm_index')],
         returns=['change_levels'], ret='Z'),
    _spec_ampdel_keep(),
]

_WRAP = dict(
    name='require_column.wrap.wrapped_f', coq='fn_wrapped', py_params=['segarr'],
    params=[('segarr', 'Z', 'table_in'), ('func.__name__', 'S', 'filter_name'), ('func(segarr)', 'Z', 'filtered')],
    ret='Z')

MODULES = {
    'FnSegEnum': ('cnvlib/segfilters.py', [_ENUM]),
    'FnSegSquash': ('cnvlib/segfilters.py', [_SQUASH]),
    'FnSegGroups': ('cnvlib/segfilters.py', _GROUPS),
    'FnSegWrap': ('cnvlib/segfilters.py', [_WRAP]),
}
