"""cnvlib/segfilters.py: the per-row level assignments of ampdel / ci / sem, read elementwise
(`levels[mask] = v` is `v if mask else levels`); `levels` enters as the value np.zeros gave it (0),
the columns are opaque per-row inputs; the translated reading is that of a present cell (a comparison with
a missing cell is False in numpy, which the hand-written model states separately)."""
MODULES = {
    'FnSegfilters': ('cnvlib/segfilters.py', [
        dict(name='ampdel', coq='fn_ampdel_level', py_params=['segarr'],
             params=[('levels', 'Q'), ("segarr['cn']", 'Q', 'cn')],
             fragment={'first': "levels = -1 if segarr['cn'] == 0", 'last': "levels = 1 if segarr['cn'] >= 5"},
             returns=['levels'], ret='Q'),
        dict(name='ci', coq='fn_ci_level', py_params=['segarr'],
             params=[('levels', 'Q'), ("segarr['ci_lo']", 'Q', 'ci_lo'), ("segarr['ci_hi']", 'Q', 'ci_hi')],
             fragment={'first': "levels = 1 if segarr['ci_lo'].values > 0", 'last': "levels = -1 if segarr['ci_hi'].values < 0"},
             returns=['levels'], ret='Q'),
        dict(name='sem', coq='fn_sem_level', py_params=['segarr', 'zscore'],
             params=[('levels', 'Q'), ("segarr['log2']", 'Q', 'log2'), ('margin', 'Q')],
             fragment={'first': "levels = 1 if segarr['log2'] - margin > 0", 'last': "levels = -1 if segarr['log2'] + margin < 0"},
             returns=['levels'], ret='Q'),
        dict(name='sem', coq='fn_sem_margin', py_params=['segarr', 'zscore'],
             params=[("segarr['sem']", 'Q', 'sem'), ('zscore', 'Q')],
             fragment={'first': "margin = segarr['sem'] * zscore", 'last': "margin = segarr['sem'] * zscore"},
             returns=['margin'], ret='Q'),
    ]),
}
