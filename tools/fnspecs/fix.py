"""cnvlib/fix.py: the edge-effect formulas, translated elementwise (numpy vector code read per element:
`v[mask]` is v under the guard `mask`, `v[mask] -= e` updates where the mask holds)."""
MODULES = {
    'FnFix': ('cnvlib/fix.py', [
        dict(name='edge_losses', coq='fn_edge_losses',
             params=[('target_sizes', 'Z'), ('insert_size', 'Z')], ret='Q'),
        dict(name='edge_gains', coq='fn_edge_gains',
             params=[('target_sizes', 'Z'), ('gap_sizes', 'Z'), ('insert_size', 'Z')], ret='Q'),
    ]),
}
