"""cnvlib/fix.py, translated elementwise (numpy vector code read per element: `v[mask]` is v under the guard `mask`,
`v[mask] -= e` updates where the mask holds).

FnFix      edge_losses / edge_gains                                   (C04_source_edge_*)
FnFixMask  mask_bad_bins, per reference row, in three fragments: the three comparisons against the params constants,
           the `if "depth" in cnarr` statement, the gc bounds + comparison inside `if "gc" in cnarr`
           (that `if` holds two `assert` statements, which the translator does not read; its guard is checked
           here by `ast` instead)                                      (C04_source_mask_bad_bins)
FnFixWeights  apply_weights, per bin: the size weight `1 - var / (bin_sz / bin_sz.mean())` for both classes (np.sqrt
           of the size and the class mean are opaque scalar inputs), the 0.9/0.1 blend, the final clip, and the two
           per-row tests of the pooled-reference condition                (C04_source_weights)
(get_edge_bias' per-tile combination `gains[np.concatenate([[False], ok_gaps_mask])] += left_gains` does not fit the
translator: desugar() does not descend into `for` bodies and the direct masked update needs a plain-name mask.)

Expressions that are not statements of their own (the `weight=` keyword of the final return, the two `.any()`
operands of the pooled-reference test) are located here with `ast`, their
surrounding shape is checked (fail-closed: otherwise the fragment is made unfindable and the translator refuses), and
their source text is handed over through `returns=`.

Loop ties added later (theorems in Proofs/FnFixRows.v, FnFixCorrections.v, FnFixEdge.v; C04_source_* at the end of
Props/C04.v):
FnFixRows         center_by_window `df["log2"] -= biases` and do_fix `cnarr.data["log2"] -= ref_matched[log2_key]`, per row
FnFixClassWt      apply_weights' two masked stores into simple_wt (the class dispatch), per row
FnFixLow          load_adjust_coverages' low-coverage test (row mask and count test located with `ast`)
FnFixCorrections  load_adjust_coverages' corrections: three prefixes of `if fix_gc / if fix_edge / if fix_rmask`
FnFixEdge         get_edge_bias' loop body, per gap (fragment) and per tile (loop iteration; the per-gap statements are
                  an opaque range, `output_by_chrom.append` is read as a yield) -- the note above about get_edge_bias
                  no longer applies: loop bodies are desugared in loop mode and a mask may be an opaque keyed expression.
Still not tied: match_ref_to_sample (index / reindex code, its loop only raises), center_by_window's shuffle / argsort /
rolling median (array algorithms: model + oracles), `frac = max(0.01, len(cnarr) ** -0.5)` (general power), the
`if is_anti.any():` bookkeeping of apply_weights (an if whose body is only a log line after desugaring).

Mutations tried on a scratch copy (each breaks the named Proofs file, i.e. an obligation of C04; none survives):
  FnFixRows / FnFixClassWt  `df["log2"] -= biases` -> `+=` ; `-= ref_matched[log2_key]` -> `+=` ; -> `ref_matched[spread_key]`
                            (refused: unknown name) ; `simple_wt[is_anti] = anti_simple_wts` -> `[~is_anti]` ;
                            `simple_wt[~is_anti] = tgt_simple_wts` -> `[is_anti]`
  FnFixLow                  `.sum() <= len(cnarr) // 2` -> `<` ; `cnarr["log2"] > NULL - MIN` -> `>=`
  FnFixCorrections          `if fix_edge:` -> `if fix_edge and fix_gc:` ; `if "rmask" in ref_matched` -> `"gc"`
  FnFixEdge                 `gap_sizes < margin` -> `<=` ; left_gains from `tgt_sizes[:-1]` ; `gains - losses` -> `+` ;
                            `+= right_gains` -> `-=`"""
import ast, os, sys


def _repo():
    for name in ('py2v_fn', '__main__'):
        m = sys.modules.get(name)
        if m is not None and hasattr(m, 'REPO') and hasattr(m, 'FnTranslator'):
            return m.REPO
    return os.environ.get('CNVKIT_REPO', '/repo')


def _func(name):
    src = open(os.path.join(_repo(), 'cnvlib/fix.py')).read()
    for n in ast.walk(ast.parse(src)):
        if isinstance(n, ast.FunctionDef) and n.name == name:
            return n
    raise ValueError('no function %s' % name)


def _bad(exc):
    return '<cnvlib/fix.py no longer has the expected shape: %s>' % exc


# ---- mask_bad_bins ------------------------------------------------------------------------------------------
def _mask_shape():
    """mask_bad_bins is: docstring; mask = ...; if "depth" in cnarr: mask |= ...; if "gc" in cnarr: assert; assert;
    lower = ...; upper = ...; mask |= ...; return mask"""
    fn = _func('mask_bad_bins')
    body = [s for s in fn.body if not (isinstance(s, ast.Expr) and isinstance(s.value, ast.Constant))]
    if len(body) != 4:
        raise ValueError('mask_bad_bins has %d statements' % len(body))
    a, d, g, r = body
    if not (isinstance(a, ast.Assign) and ast.unparse(a.targets[0]) == 'mask'):
        raise ValueError('first statement is not mask = ...')
    if not (isinstance(d, ast.If) and ast.unparse(d.test) == "'depth' in cnarr" and not d.orelse and len(d.body) == 1
            and isinstance(d.body[0], ast.AugAssign) and isinstance(d.body[0].op, ast.BitOr)
            and ast.unparse(d.body[0].target) == 'mask'):
        raise ValueError('second statement is not `if "depth" in cnarr: mask |= ...`')
    if not (isinstance(g, ast.If) and ast.unparse(g.test) == "'gc' in cnarr" and not g.orelse):
        raise ValueError('third statement is not `if "gc" in cnarr:`')
    rest = [s for s in g.body if not isinstance(s, ast.Assert)]
    if [type(s) for s in rest] != [ast.Assign, ast.Assign, ast.AugAssign] or \
            [ast.unparse(s.targets[0]) for s in rest[:2]] != ['lower_gc_bound', 'upper_gc_bound'] or \
            not (isinstance(rest[2].op, ast.BitOr) and ast.unparse(rest[2].target) == 'mask'):
        raise ValueError('the gc block is not asserts; lower_gc_bound = ; upper_gc_bound = ; mask |= ')
    if not (isinstance(r, ast.Return) and ast.unparse(r.value) == 'mask'):
        raise ValueError('mask_bad_bins does not return mask')


def _mask_specs():
    try:
        _mask_shape()
        f1, f2, f3a, f3b = 'mask = ', "if 'depth' in cnarr", 'lower_gc_bound = ', 'mask = mask | '
    except Exception as exc:   # noqa -- fail closed
        f1 = f2 = f3a = f3b = _bad(exc)
    consts = [('params.MIN_REF_COVERAGE', 'Q', 'min_ref_coverage'), ('params.MAX_REF_SPREAD', 'Q', 'max_ref_spread')]
    return [
        dict(name='mask_bad_bins', coq='fn_mask_cover', py_params=['cnarr'],
             params=[("cnarr['log2']", 'Q', 'log2_'), ("cnarr['spread']", 'Q', 'spread')] + consts,
             fragment={'first': f1, 'last': f1}, returns=['mask'], ret='B'),
        dict(name='mask_bad_bins', coq='fn_mask_depth', py_params=['cnarr'],
             params=[('mask', 'B'), ("'depth' in cnarr", 'B', 'has_depth'), ("cnarr['depth']", 'Q', 'depth')],
             fragment={'first': f2, 'last': f2}, returns=['mask'], ret='B'),
        dict(name='mask_bad_bins', coq='fn_mask_gc', py_params=['cnarr'],
             params=[('mask', 'B'), ("cnarr['gc']", 'Q', 'gc'),
                     ('params.GC_MIN_FRACTION', 'Q', 'gc_min_fraction'),
                     ('params.GC_MAX_FRACTION', 'Q', 'gc_max_fraction')],
             fragment={'first': f3a, 'last': f3b}, returns=['mask'], ret='B'),
    ]


# ---- apply_weights -------------------------------------------------------------------------------------------
def _weights_shape():
    """the tail of apply_weights is
         if (ref_matched[spread_key] > epsilon).any() and (np.abs(np.mod(ref_matched[log2_key], 1)) > epsilon).any():
             ...; fancy_wt = ...; x = ...; weights = ...
         else:
             weights = simple_wt
         return cnarr.add_columns(weight=<clip expression>)
    returns (clip expression, first per-row test, second per-row test) as source text"""
    fn = _func('apply_weights')
    if [a.arg for a in fn.args.args] != ['cnarr', 'ref_matched', 'log2_key', 'spread_key', 'epsilon']:
        raise ValueError('apply_weights parameters changed')
    iff, ret = fn.body[-2], fn.body[-1]
    if not (isinstance(ret, ast.Return) and isinstance(ret.value, ast.Call)
            and ast.unparse(ret.value.func) == 'cnarr.add_columns' and not ret.value.args
            and [k.arg for k in ret.value.keywords] == ['weight']):
        raise ValueError('last statement is not return cnarr.add_columns(weight=...)')
    clip = ast.unparse(ret.value.keywords[0].value)
    if not isinstance(iff, ast.If):
        raise ValueError('the statement before the return is not the pooled/flat if')
    t = iff.test
    if not (isinstance(t, ast.BoolOp) and isinstance(t.op, ast.And) and len(t.values) == 2):
        raise ValueError('pooled test is not a two-way `and`')
    tests = []
    for v in t.values:
        if not (isinstance(v, ast.Call) and isinstance(v.func, ast.Attribute) and v.func.attr == 'any'
                and not v.args and not v.keywords):
            raise ValueError('pooled test operand is not <row test>.any()')
        tests.append(ast.unparse(v.func.value))
    if not (len(iff.orelse) == 1 and ast.unparse(iff.orelse[0]) == 'weights = simple_wt'):
        raise ValueError('else branch is not weights = simple_wt')
    assigns = [s for s in iff.body if isinstance(s, ast.Assign)]
    others = [s for s in iff.body if not isinstance(s, ast.Assign)]
    if [ast.unparse(s.targets[0]) for s in assigns] != ['fancy_wt', 'x', 'weights'] or \
            any(not (isinstance(s, ast.Expr) and ast.unparse(s.value).startswith('logging.')) for s in others):
        raise ValueError('then branch is not fancy_wt = ; x = ; weights = ')
    # the size weights feed simple_wt by class: simple_wt[~is_anti] = tgt_simple_wts ; simple_wt[is_anti] = anti_simple_wts
    srcs = [ast.unparse(s) for s in ast.walk(fn) if isinstance(s, ast.Assign)]
    for need in ('simple_wt[~is_anti] = tgt_simple_wts', 'simple_wt[is_anti] = anti_simple_wts',
                 'simple_wt = np.zeros(len(cnarr))'):
        if srcs.count(need) != 1:
            raise ValueError('missing statement %s' % need)
    return clip, tests[0], tests[1]


def _weights_specs():
    try:
        clip, t1, t2 = _weights_shape()
        ft, fa, fb0, fb1, ff = 'tgt_simple_wts = ', 'anti_simple_wts = ', 'fancy_wt = ', 'weights = x * ', 'weights = simple_wt'
    except Exception as exc:   # noqa -- fail closed
        clip, t1, t2 = 'weights', 'epsilon > epsilon', 'epsilon > epsilon'
        ft = fa = fb0 = fb1 = ff = _bad(exc)
    pyp = ['cnarr', 'ref_matched', 'log2_key', 'spread_key', 'epsilon']
    return [
        dict(name='apply_weights', coq='fn_tgt_simple_wt', py_params=pyp,
             params=[('tgt_var', 'Q'), ('bin_sz', 'Q'), ('bin_sz.mean()', 'Q', 'mean_sz')],
             fragment={'first': ft, 'last': ft}, returns=['tgt_simple_wts'], ret='Q'),
        dict(name='apply_weights', coq='fn_anti_simple_wt', py_params=pyp,
             params=[('anti_var', 'Q'), ('anti_bin_sz', 'Q'), ('anti_bin_sz.mean()', 'Q', 'mean_sz')],
             fragment={'first': fa, 'last': fa}, returns=['anti_simple_wts'], ret='Q'),
        # pooled reference: fancy_wt, x, weights, then the clip of the return statement
        dict(name='apply_weights', coq='fn_weight_pooled', py_params=pyp,
             params=[('ref_matched[spread_key]', 'Q', 'spread'), ('simple_wt', 'Q'), ('epsilon', 'Q')],
             fragment={'first': fb0, 'last': fb1}, returns=[clip], ret='Q'),
        # flat reference: weights = simple_wt, then the clip
        dict(name='apply_weights', coq='fn_weight_flat', py_params=pyp,
             params=[('simple_wt', 'Q'), ('epsilon', 'Q')],
             fragment={'first': ff, 'last': ff}, returns=[clip], ret='Q'),
        # the two per-row tests under .any() in the pooled-reference condition (np.mod(log2, 1) is an opaque input)
        dict(name='apply_weights', coq='fn_pooled_tests', py_params=pyp,
             params=[('ref_matched[spread_key]', 'Q', 'spread'), ('np.mod(ref_matched[log2_key], 1)', 'Q', 'log2_mod1'),
                     ('simple_wt', 'Q'), ('epsilon', 'Q')],
             fragment={'first': ff, 'last': ff}, returns=[t1, t2], ret=['B', 'B']),
    ]


# ---- loop ties (LOOP_TIES_GUIDE) -------------------------------------------------------------------------------
_LAC = ['cnarr', 'ref_cnarr', 'skip_low', 'fix_gc', 'fix_edge', 'fix_rmask', 'diploid_parx_genome', 'smoothing_window_fraction']
_DOFIX = ['target_raw', 'antitarget_raw', 'reference', 'diploid_parx_genome', 'do_gc', 'do_edge', 'do_rmask', 'do_cluster',
          'smoothing_window_fraction']
_AW = ['cnarr', 'ref_matched', 'log2_key', 'spread_key', 'epsilon']


def _low_test():
    """load_adjust_coverages: `if (<row mask>).sum() <= len(cnarr) // 2:` -> (row mask text, `.sum()` text, test text)"""
    fn = _func('load_adjust_coverages')
    hits = [s for s in ast.walk(fn) if isinstance(s, ast.If) and isinstance(s.test, ast.Compare)
            and isinstance(s.test.left, ast.Call) and isinstance(s.test.left.func, ast.Attribute)
            and s.test.left.func.attr == 'sum' and not s.test.left.args and not s.test.left.keywords]
    if len(hits) != 1:
        raise ValueError('expected one `if (...).sum() <cmp> ...:` in load_adjust_coverages, found %d' % len(hits))
    s = hits[0]
    if not (s.orelse and any(ast.unparse(x).startswith('frac = smoothing_window_fraction') for x in s.orelse)):
        raise ValueError('the corrections are not in the else branch of the low-coverage test')
    if any(not (isinstance(x, ast.Expr) and ast.unparse(x.value).startswith('logging.')) for x in s.body):
        raise ValueError('the then branch of the low-coverage test is not a warning only')
    return ast.unparse(s.test.left.func.value), ast.unparse(s.test.left), ast.unparse(s.test)


def _low_specs():
    try:
        row, total, test = _low_test()
        first = 'frac = smoothing_window_fraction'
    except Exception as exc:   # noqa -- fail closed
        row, total, test, first = 'False', 'len(cnarr)', 'False', _bad(exc)
    return [
        dict(name='load_adjust_coverages', coq='fn_low_row', py_params=_LAC,
             params=[("cnarr['log2']", 'Q', 'log2_'), ('params.NULL_LOG2_COVERAGE', 'Q', 'null_log2_coverage'),
                     ('params.MIN_REF_COVERAGE', 'Q', 'min_ref_coverage'), ('smoothing_window_fraction', 'OQ')],
             fragment={'first': first, 'last': first}, returns=[row], ret='B'),
        dict(name='load_adjust_coverages', coq='fn_mostly_low', py_params=_LAC,
             params=[(total, 'Z', 'n_covered'), ('len(cnarr)', 'Z', 'n_rows'), ('smoothing_window_fraction', 'OQ')],
             fragment={'first': first, 'last': first}, returns=[test], ret='B'),
    ]


def _corr_spec(coq, last):
    """load_adjust_coverages, the corrections: the statements from `cnarr_index_reset = False` to the `if` named by
    `last`; tables are opaque ids (cnarr on entry, what each center_by_window call returns AT ITS SITE)"""
    return dict(name='load_adjust_coverages', coq=coq, py_params=_LAC,
                fragment={'first': 'cnarr_index_reset = False', 'last': last},
                params=[('cnarr', 'Z', 'cnarr_id'), ('fix_gc', 'B'), ('fix_edge', 'B'), ('fix_rmask', 'B'),
                        ("'gc' in ref_matched", 'B', 'has_gc'), ("'rmask' in ref_matched", 'B', 'has_rmask'),
                        ("center_by_window(cnarr, frac, ref_matched['gc'])", 'Z', 'by_gc'),
                        ('get_edge_bias(cnarr, params.INSERT_SIZE)', 'Z', 'edge_bias_id'),
                        ('center_by_window(cnarr, frac, edge_bias)', 'Z', 'by_edge'),
                        ("center_by_window(cnarr, frac, ref_matched['rmask'])", 'Z', 'by_rmask')],
                returns=['cnarr', 'cnarr_index_reset'], ret=['Z', 'B'])


MODULES = {
    'FnFix': ('cnvlib/fix.py', [
        dict(name='edge_losses', coq='fn_edge_losses',
             params=[('target_sizes', 'Z'), ('insert_size', 'Z')], ret='Q'),
        dict(name='edge_gains', coq='fn_edge_gains',
             params=[('target_sizes', 'Z'), ('gap_sizes', 'Z'), ('insert_size', 'Z')], ret='Q'),
    ]),
    'FnFixMask': ('cnvlib/fix.py', _mask_specs()),
    'FnFixWeights': ('cnvlib/fix.py', _weights_specs()),
    # per-row stores: center_by_window `df["log2"] -= biases`; do_fix `cnarr.data["log2"] -= ref_matched[log2_key]`
    # (Proofs/FnFixRows.v: C04_source_window_rows / C04_source_subtract_reference)
    'FnFixRows': ('cnvlib/fix.py', [
        dict(name='center_by_window', coq='fn_window_sub', py_params=['cnarr', 'fraction', 'sort_key'],
             fragment={'first': "df['log2'] = df['log2']", 'last': "df['log2'] = df['log2']"},
             params=[("df['log2']", 'Q', 'log2_'), ('biases', 'Q', 'bias')], returns=["df['log2']"], ret='Q'),
        dict(name='do_fix', coq='fn_ref_sub', py_params=_DOFIX,
             fragment={'first': "cnarr.data['log2'] = ", 'last': "cnarr.data['log2'] = "},
             params=[("cnarr.data['log2']", 'Q', 'log2_'), ('ref_matched[log2_key]', 'Q', 'ref_log2')],
             returns=["cnarr.data['log2']"], ret='Q'),
    ]),
    # apply_weights: the two masked stores that put the class's size weights into simple_wt, per row
    # (Proofs/FnFixRows.v: C04_source_class_weights -- the model's per-bin weight is the generated arithmetic applied to
    #  the value these stores leave)
    'FnFixClassWt': ('cnvlib/fix.py', [
        dict(name='apply_weights', coq='fn_store_tgt', py_params=_AW,
             fragment={'first': 'simple_wt = tgt_simple_wts if', 'last': 'simple_wt = tgt_simple_wts if'},
             params=[('simple_wt', 'Q'), ('is_anti', 'B'), ('tgt_simple_wts', 'Q')], returns=['simple_wt'], ret='Q'),
        dict(name='apply_weights', coq='fn_store_anti', py_params=_AW,
             fragment={'first': 'simple_wt = anti_simple_wts if', 'last': 'simple_wt = anti_simple_wts if'},
             params=[('simple_wt', 'Q'), ('is_anti', 'B'), ('anti_simple_wts', 'Q')], returns=['simple_wt'], ret='Q'),
    ]),
    # load_adjust_coverages: the low-coverage test that skips the corrections (row mask and count test, located by ast)
    # (Proofs/FnFixCorrections.v: C04_source_mostly_low)
    'FnFixLow': ('cnvlib/fix.py', _low_specs()),
    # load_adjust_coverages: which corrections run, in which order, on which table -- three prefixes of the statement
    # sequence `cnarr_index_reset = False; if fix_gc: ...; if fix_edge: ...; if fix_rmask: ...`
    # (Proofs/FnFixCorrections.v: C04_source_corrections -- = Model/Fix.v corrections)
    'FnFixCorrections': ('cnvlib/fix.py', [
        _corr_spec('fn_corr_gc', 'if fix_gc'),
        _corr_spec('fn_corr_edge', 'if fix_edge'),
        _corr_spec('fn_corr_rmask', 'if fix_rmask'),
    ]),
    # get_edge_bias, the body of `for _chrom, subarr in cnarr.by_chromosome():` read twice:
    #   fn_edge_gap   per GAP between consecutive tiles (the shifted slices `x[1:]` / `x[:-1]` are the tile after / before
    #                 the gap): gap size, the `< margin` mask, the gain the gap gives its right / left neighbour;
    #   fn_edge_tile  per TILE: size, loss, gains = zeros; the two masked `+=` (the position masks
    #                 np.concatenate([[False], ok_gaps_mask]) / ([ok_gaps_mask, [False]]) are opaque booleans: "the gap on
    #                 my left / right is ok"), the appended gains - losses; the per-gap statements are an opaque range.
    # (Proofs/FnFixEdge.v: C04_source_edge_bias -- = Model/Fix.v edge_go, tile by tile)
    'FnFixEdge': ('cnvlib/fix.py', [
        dict(name='edge_losses', coq='fn_edge_losses_',
             params=[('target_sizes', 'Z'), ('insert_size', 'Z')], ret='Q'),
        dict(name='edge_gains', coq='fn_edge_gains_',
             params=[('target_sizes', 'Z'), ('gap_sizes', 'Z'), ('insert_size', 'Z')], ret='Q'),
        dict(name='get_edge_bias', coq='fn_edge_gap', py_params=['cnarr', 'margin'],
             fragment={'first': 'gap_sizes = ', 'last': 'right_gains = '},
             params=[('tile_starts[1:]', 'Z', 'next_start'), ('tile_ends[:-1]', 'Z', 'this_end'),
                     ('tgt_sizes[1:]', 'Z', 'next_size'), ('tgt_sizes[:-1]', 'Z', 'this_size'), ('margin', 'Z')],
             returns=['ok_gaps_mask', 'left_gains', 'right_gains'], ret=['B', 'Q', 'Q']),
        dict(name='get_edge_bias', coq='fn_edge_tile', py_params=['cnarr', 'margin'],
             loop=dict(first='for _chrom, subarr in cnarr.by_chromosome()'), carried=[], yields=['Q'],
             append_yields='output_by_chrom',
             opaque=[dict(first='gap_sizes = ', last='right_gains = ',
                          assigns=[('ok_gaps_mask', 'mask_id'), ('left_gains', 'left_gain'), ('right_gains', 'right_gain')])],
             params=[("subarr['start']", 'Z', 'tile_start'), ("subarr['end']", 'Z', 'tile_end'), ('margin', 'Z'),
                     ('mask_id', 'Z'), ('left_gain', 'Q'), ('right_gain', 'Q'),
                     ('np.zeros(len(subarr))', 'Q', 'zero'),
                     ('np.concatenate([[False], ok_gaps_mask])', 'B', 'left_gap_ok'),
                     ('np.concatenate([ok_gaps_mask, [False]])', 'B', 'right_gap_ok')],
             ret='Y'),
    ]),
}
