"""Function-body specs for cnvlib/export.py (property C20): the per-row columns and ONE ITERATION of the record loop of
segments2vcf."""
_PY = ['segments', 'ploidy', 'is_haploid_x_reference', 'diploid_parx_genome', 'is_sample_female']
MODULES = {
    'FnExportVcf': ('cnvlib/export.py', [
        # out_dframe["start"] = segments.start.replace(0, 1), per row
        dict(name='segments2vcf', coq='fn_vcf_start', py_params=_PY,
             fragment=dict(first="out_dframe['start'] = ", last="out_dframe['start'] = "),
             params=[('segments.start', 'Z', 'seg_start')],
             returns=["out_dframe['start']"], ret='Z'),
        # idx_losses / svlen / svtype / format, per row (masked stores read under the row's own mask bit)
        dict(name='segments2vcf', coq='fn_vcf_columns', py_params=_PY,
             fragment=dict(first='idx_losses = ', last="out_dframe['format'] = 'GT:GQ' if"),
             params=[("out_dframe['ncopies']", 'Z', 'ncopies'), ('abs_expect', 'Z'),
                     ('segments.start', 'Z', 'seg_start'), ('segments.end', 'Z', 'seg_end')],
             returns=['idx_losses', "out_dframe['svlen']", "out_dframe['svtype']", "out_dframe['format']"],
             ret=['B', 'Z', 'S', 'S']),
        # ONE ITERATION of `for out_row, abs_exp in zip(out_dframe.itertuples(index=False), abs_expect):` -- the list of
        # records it yields (none when the row is skipped).  probes is an integer here (the row of a float/NaN probes
        # column is skipped by `not str(probes).isdigit()`: Model/Export.v probes_digit = None); the two float texts
        # (2.0 ** log2 and log2 as Python prints them) and the CI numbers enter as their texts.
        # genotype / gt are unbound only when ncopies == abs_exp, which has left the iteration by `continue`.
        dict(name='segments2vcf', coq='fn_vcf_step', py_params=_PY,
             loop=dict(first='for out_row, abs_exp in zip('),
             carried=[],
             yields=['S', 'Z', 'S', 'S', 'S', 'S', 'S', 'S', 'S', 'S'],
             init=[('genotype', 'S', '""%string'), ('gt', 'S', '""%string')],
             params=[('out_row.chromosome', 'S', 'chromosome'), ('out_row.start', 'Z', 'start'),
                     ('out_row.end', 'Z', 'end_'), ('out_row.ncopies', 'Z', 'ncopies'), ('abs_exp', 'Z'),
                     ('out_row.probes', 'Z', 'probes'), ('out_row.svtype', 'S', 'svtype'),
                     ('out_row.svlen', 'Z', 'svlen'), ('out_row.format', 'S', 'format'),
                     ('2.0 ** out_row.log2', 'S', 'fold_text'), ('out_row.log2', 'S', 'log2_text'),
                     ('has_ci', 'B'),
                     ('out_row.ci_pos_left', 'S', 'ci_pos_left'), ('out_row.ci_pos_right', 'S', 'ci_pos_right'),
                     ('out_row.ci_end_left', 'S', 'ci_end_left'), ('out_row.ci_end_right', 'S', 'ci_end_right')],
             ret='Y'),
    ]),
    # theta_read_counts, per element: nbins * avg_bin_width * (2**log2 * avg_depth) / read_len, rounded half to even, a
    # missing value counted as 0 (log2 is optional: NaN for a segment without a reference mean)
    # (Proofs/FnExportTheta.v: C20_source_theta_count -- equals Model/Export.v theta_count with the defaults of the source)
    'FnExportTheta': ('cnvlib/export.py', [
        dict(name='theta_read_counts', coq='fn_theta_count',
             params=[('log2_ratio', 'OQ'), ('nbins', 'Q'), ('avg_depth', 'Z'), ('avg_bin_width', 'Z'), ('read_len', 'Z')],
             ret='Z'),
    ]),
}
