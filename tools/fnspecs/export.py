"""Function-body specs for cnvlib/export.py (property C20): the per-row columns and ONE ITERATION of the record loop of
segments2vcf, theta_read_counts, export_bed's `show` dispatch and export_nexus_ogt's low-weight filter (the last two per row
through the spec key row_keep: `T = T[mask]` is "the row stays in T"), export_theta's row identifier, export_bed's label / ncopies
columns.

Mutations of the last two, tried with tools/mut_fn.sh:
  FnExportBedShow  `out["ncopies"] != ploidy` -> `== ploidy`                            KILLED (source_bed_show)
                   `elif show == "variant":` -> `elif show == "variants":`              KILLED
                   `out["ncopies"] != exp_copies` -> `!= ploidy`                        KILLED
  FnExportOgtMask  `cnarr["weight"] < min_weight` -> `<= min_weight`                    KILLED (source_ogt_keep)
                   `cnarr[~mask_low_weight]` -> `cnarr[mask_low_weight]`                KILLED
  FnExportThetaId  `:end_{row.chrm}_{row.end}` -> `:end_{row.chrm}_{row.start}`         KILLED (source_theta_id)
                   `start_{row.chrm}_` -> `start_{row.start}_`                          KILLED
  FnExportBedCols  `label if label else segments["gene"]` -> `segments["gene"] if label else label`   KILLED (source_bed_label)
                   `.round()` dropped before `.astype("int")`                          KILLED (source_bed_ncopies)
"""
_PY = ['segments', 'ploidy', 'is_haploid_x_reference', 'diploid_parx_genome', 'is_sample_female']
MODULES = {
    'FnExportVcf': ('cnvlib/export.py', [
        # out_dframe["start"] = segments.start.replace(0, 1), per row
        dict(name='segments2vcf', coq='fn_vcf_start', py_params=_PY,
             fragment=dict(first="out_dframe['start'] = ", last="out_dframe['start'] = "),
             params=[('segments.start', 'Z', 'seg_start')],
             returns=["out_dframe['start']"], ret='Z'),
        # idx_losses / svlen / svtype / format, per row (masked stores read under the row's own mask bit)
        dict(name='segments2vcf', coq='fn_vcf_columns', py_params=_PY,
             fragment=dict(first='idx_losses = ', last="out_dframe['format'] = 'GT:GQ' if"),
             params=[("out_dframe['ncopies']", 'Z', 'ncopies'), ('abs_expect', 'Z'),
                     ('segments.start', 'Z', 'seg_start'), ('segments.end', 'Z', 'seg_end')],
             returns=['idx_losses', "out_dframe['svlen']", "out_dframe['svtype']", "out_dframe['format']"],
             ret=['B', 'Z', 'S', 'S']),
        # ONE ITERATION of `for out_row, abs_exp in zip(out_dframe.itertuples(index=False), abs_expect):` -- the list of
        # records it yields (none when the row is skipped).  probes is an integer here (the row of a float/NaN probes
        # column is skipped by `not str(probes).isdigit()`: Model/Export.v probes_digit = None); the two float texts
        # (2.0 ** log2 and log2 as Python prints them) and the CI numbers enter as their texts.
        # genotype / gt are unbound only when ncopies == abs_exp, which has left the iteration by `continue`.
        dict(name='segments2vcf', coq='fn_vcf_step', py_params=_PY,
             loop=dict(first='for out_row, abs_exp in zip('),
             carried=[],
             yields=['S', 'Z', 'S', 'S', 'S', 'S', 'S', 'S', 'S', 'S'],
             init=[('genotype', 'S', '""%string'), ('gt', 'S', '""%string')],
             params=[('out_row.chromosome', 'S', 'chromosome'), ('out_row.start', 'Z', 'start'),
                     ('out_row.end', 'Z', 'end_'), ('out_row.ncopies', 'Z', 'ncopies'), ('abs_exp', 'Z'),
                     ('out_row.probes', 'Z', 'probes'), ('out_row.svtype', 'S', 'svtype'),
                     ('out_row.svlen', 'Z', 'svlen'), ('out_row.format', 'S', 'format'),
                     ('2.0 ** out_row.log2', 'S', 'fold_text'), ('out_row.log2', 'S', 'log2_text'),
                     ('has_ci', 'B'),
                     ('out_row.ci_pos_left', 'S', 'ci_pos_left'), ('out_row.ci_pos_right', 'S', 'ci_pos_right'),
                     ('out_row.ci_end_left', 'S', 'ci_end_left'), ('out_row.ci_end_right', 'S', 'ci_end_right')],
             ret='Y'),
    ]),
    # theta_read_counts, per element: nbins * avg_bin_width * (2**log2 * avg_depth) / read_len, rounded half to even, a
    # missing value counted as 0 (log2 is optional: NaN for a segment without a reference mean)
    # (Proofs/FnExportTheta.v: C20_source_theta_count -- equals Model/Export.v theta_count with the defaults of the source)
    'FnExportTheta': ('cnvlib/export.py', [
        dict(name='theta_read_counts', coq='fn_theta_count',
             params=[('log2_ratio', 'OQ'), ('nbins', 'Q'), ('avg_depth', 'Z'), ('avg_bin_width', 'Z'), ('read_len', 'Z')],
             ret='Z'),
    ]),
    # export_bed: the `show` dispatch (fragment `if show == "ploidy": out = out[out["ncopies"] != ploidy] elif show ==
    # "variant": exp_copies = call.absolute_expect(...); out = out[out["ncopies"] != exp_copies]`) read per row as "the row
    # stays in `out`" (row_keep: `T = T[mask]` is row_keep__ = row_keep__ and mask).
    # (Proofs/FnExportBedShow.v: C20_source_bed_show -- the masks Model/Export.v export_bed selects by, per row)
    # mutations (tools/mut_fn.sh): `out["ncopies"] != ploidy` -> `out["ncopies"] == ploidy` KILLED; `elif show == "variant"` ->
    # `elif show == "variants"` KILLED; `!= exp_copies` -> `!= ploidy` KILLED
    'FnExportBedShow': ('cnvlib/export.py', [
        dict(name='export_bed', coq='fn_bed_keep',
             py_params=['segments', 'ploidy', 'is_haploid_x_reference', 'diploid_parx_genome', 'is_sample_female', 'label', 'show'],
             fragment=dict(first='if show ==', last='if show =='), row_keep='out',
             init=[('row_keep__', 'B', 'true')], returns=['row_keep__'],
             params=[('show', 'S'), ("out['ncopies']", 'Z', 'ncopies'), ('ploidy', 'Z'),
                     ('call.absolute_expect(segments, ploidy, diploid_parx_genome, is_sample_female)', 'Z', 'expected')],
             ret='B'),
    ]),
    # export_nexus_ogt: the low-weight filter (fragment `if min_weight and "weight" in cnarr: mask_low_weight = cnarr["weight"]
    # < min_weight; <log line>; cnarr = cnarr[~mask_low_weight]`) read per row as "the bin stays in cnarr" (row_keep).
    # The weight is an optional number (NaN is not below anything).
    # (Proofs/FnExportOgtMask.v: C20_source_ogt_keep / _kept -- Model/Export.v ogt_kept keeps exactly the bins whose generated bit is on)
    # mutations: `cnarr["weight"] < min_weight` -> `<= min_weight` KILLED; `cnarr[~mask_low_weight]` -> `cnarr[mask_low_weight]` KILLED
    'FnExportOgtMask': ('cnvlib/export.py', [
        dict(name='export_nexus_ogt', coq='fn_ogt_keep', py_params=['cnarr', 'varr', 'min_weight'],
             fragment=dict(first='if min_weight and', last='if min_weight and'), row_keep='cnarr',
             init=[('row_keep__', 'B', 'true')], returns=['row_keep__'],
             params=[('min_weight', 'Q'), ("'weight' in cnarr", 'B', 'has_weight'), ("cnarr['weight']", 'OQ', 'weight')],
             ret='B'),
    ]),
    # export_theta: the row identifier (fragment: the statement `table["#ID"] = [f"start_{row.chrm}_{row.start}:end_{row.chrm}_
    # {row.end}" for row in table.itertuples(index=False)]`, read per row), an f-string of three integers.
    # (Proofs/FnExportThetaId.v: C20_source_theta_id -- equals Model/Export.v theta_id, hence the #ID of every theta_rows row)
    # mutations: `:end_{row.chrm}_{row.end}` -> `:end_{row.chrm}_{row.start}` KILLED; `start_{row.chrm}_` -> `start_{row.start}_` KILLED
    'FnExportThetaId': ('cnvlib/export.py', [
        dict(name='export_theta', coq='fn_theta_id', py_params=['tumor_segs', 'normal_cn'],
             fragment=dict(first="table['#ID'] = ", last="table['#ID'] = "), returns=["table['#ID']"],
             params=[('row.chrm', 'Z', 'chrm'), ('row.start', 'Z', 'start'), ('row.end', 'Z', 'end_')],
             ret='S'),
    ]),
    # export_bed: the label and ncopies columns per row (fragment `out["label"] = label if label else segments["gene"]` ..
    # `out["ncopies"] = segments["cn"] if "cn" in segments else call.absolute_dataframe(...)["absolute"].round().astype("int")`).
    # label is None or a string (only its truthiness and value are read: None enters as the empty string); the absolute copy
    # number of absolute_dataframe is an opaque number.
    # (Proofs/FnExportBedCols.v: C20_source_bed_label / _ncopies -- Model/Export.v bed_label and the element rule of ncopies_col)
    # mutations: `label if label else segments["gene"]` -> `segments["gene"] if label else label` KILLED; `.round().astype("int")` -> `.astype("int")` KILLED
    'FnExportBedCols': ('cnvlib/export.py', [
        dict(name='export_bed', coq='fn_bed_columns',
             py_params=['segments', 'ploidy', 'is_haploid_x_reference', 'diploid_parx_genome', 'is_sample_female', 'label', 'show'],
             fragment=dict(first="out['label'] = ", last="out['ncopies'] = "),
             returns=["out['label']", "out['ncopies']"],
             params=[('label', 'S'), ("segments['gene']", 'S', 'gene'), ("'cn' in segments", 'B', 'has_cn'),
                     ("segments['cn']", 'Z', 'cn'),
                     ("call.absolute_dataframe(segments, ploidy, 1.0, is_haploid_x_reference, diploid_parx_genome, "
                      "is_sample_female)['absolute']", 'Q', 'absolute')],
             ret=['S', 'Z']),
    ]),
}
