"""Scalar arithmetic of cnvlib/antitarget.py and skgenome/subdivide.py translated body-for-body into
Gen/FnBins.v (antitarget.py) and Gen/FnBinsSplit.v (subdivide.py) for property C12 -- two generated
modules, so that a refusal of one source file does not take the other's obligations with it.

  do_antitarget     : `if not min_bin_size: min_bin_size = 2 * int(avg_bin_size * (2 ** MIN_REF_COVERAGE))`
                      -- the guarded statement with min_bin_size read as an integer (0 = not given; the
                      translator cannot merge an Optional parameter with an integer re-assignment of
                      the same name: "branches of different types Z / OZ"; None is covered by the
                      hand-written effective_min and the correspondence) and the assignment alone.
                      The module constant MIN_REF_COVERAGE is an opaque typed input (instantiated
                      with Gen/BinsDefaults.v in the theorem), `2 ** e` is the exp2 oracle.
  get_antitargets   : TELOMERE_SIZE = 150000 (the start of every guessed chromosome region:
                      guess_chromosome_regions(targets, TELOMERE_SIZE) puts "start": telomere_size;
                      there is no further telomere arithmetic in the code) and pad_size = 2 * INSERT_SIZE
  _split_targets    : the scalar head of the loop body

                          span = row.end - row.start
                          if span >= min_size:
                              nbins = int(round(span / avg_size)) or 1
                              if nbins == 1: yield row
                              else: ...

                      The translator has no value-level `or` ("argument of type B where Z is expected")
                      and no loops, so the fragment is the `span = ...` statement and the keep test and
                      the operand of `or 1` are located here with Python's `ast` (fail-closed) and
                      handed over as source text; the same walk checks what the translator does not
                      see: the statement after `span = ` is `if <test>:` without else, its body starts
                      with `nbins = <X> or 1` followed by `if nbins == 1: yield row`.  If any of this
                      no longer holds the fragment is made unfindable and the translator refuses."""
import ast, os, sys


def _repo():
    for name in ('py2v_fn', '__main__'):
        m = sys.modules.get(name)
        if m is not None and hasattr(m, 'REPO') and hasattr(m, 'FnTranslator'):
            return m.REPO
    return os.environ.get('CNVKIT_REPO', '/repo')


def _split_shape(repo):
    """(keep test, operand of `or 1`) of _split_targets, after checking the shape of the loop body"""
    src = open(os.path.join(repo, 'skgenome/subdivide.py')).read()
    fn = None
    for n in ast.walk(ast.parse(src)):
        if isinstance(n, ast.FunctionDef) and n.name == '_split_targets':
            fn = n
            break
    if fn is None:
        raise ValueError('no _split_targets')
    loops = [s for s in fn.body if isinstance(s, ast.For)]
    if len(loops) != 1:
        raise ValueError('expected exactly one top-level loop in _split_targets')
    loop = loops[0]
    if ast.unparse(loop.iter) != 'merge(regions).itertuples(index=False)' or ast.unparse(loop.target) != 'row':
        raise ValueError('the loop is no longer `for row in merge(regions).itertuples(index=False)`')
    if len(loop.body) != 2:
        raise ValueError('the loop body has %d statements' % len(loop.body))
    sp, keep = loop.body
    if not (isinstance(sp, ast.Assign) and ast.unparse(sp.targets[0]) == 'span'):
        raise ValueError('first statement of the loop is not `span = ...`')
    if not (isinstance(keep, ast.If) and not keep.orelse):
        raise ValueError('second statement of the loop is not an `if` without else')
    nb = keep.body[0]
    if not (isinstance(nb, ast.Assign) and ast.unparse(nb.targets[0]) == 'nbins' and isinstance(nb.value, ast.BoolOp)
            and isinstance(nb.value.op, ast.Or) and len(nb.value.values) == 2
            and isinstance(nb.value.values[1], ast.Constant) and nb.value.values[1].value == 1
            and isinstance(nb.value.values[1].value, int)):
        raise ValueError('nbins is no longer `<X> or 1`: %s' % ast.unparse(nb))
    if len(keep.body) != 2:
        raise ValueError('the kept branch has %d statements' % len(keep.body))
    one = keep.body[1]
    if not (isinstance(one, ast.If) and ast.unparse(one.test) == 'nbins == 1' and len(one.body) == 1
            and ast.unparse(one.body[0]) == 'yield row' and one.orelse):
        raise ValueError('no `if nbins == 1: yield row / else` after nbins')
    return ast.unparse(keep.test), ast.unparse(nb.value.values[0])


def _split_spec():
    try:
        (keep, count), first = _split_shape(_repo()), 'span = '
    except Exception as exc:   # noqa  -- fail closed: the fragment below cannot be found, the translator refuses
        keep, count, first = 'span', 'span', '<_split_targets no longer has the expected shape: %s>' % exc
    return dict(name='_split_targets', coq='fn_split_scalar',
                py_params=['regions', 'avg_size', 'min_size', 'verbose'],
                params=[('row.start', 'Z', 'row_start'), ('row.end', 'Z', 'row_end'), ('avg_size', 'Q'),
                        ('min_size', 'Z')],
                fragment={'first': first, 'last': first}, returns=['span', keep, count], ret=['Z', 'B', 'Z'])


MODULES = {
    'FnBins': ('cnvlib/antitarget.py', [
        dict(name='do_antitarget', coq='fn_default_min',
             py_params=['targets', 'access', 'avg_bin_size', 'min_bin_size'],
             params=[('avg_bin_size', 'Q'), ('MIN_REF_COVERAGE', 'Q')],
             fragment=dict(first='min_bin_size = ', last='min_bin_size = '),
             returns=['min_bin_size'], ret='Z'),
        dict(name='do_antitarget', coq='fn_effective_min',
             py_params=['targets', 'access', 'avg_bin_size', 'min_bin_size'],
             params=[('avg_bin_size', 'Q'), ('min_bin_size', 'Z'), ('MIN_REF_COVERAGE', 'Q')],
             fragment=dict(first='if not min_bin_size', last='if not min_bin_size'),
             returns=['min_bin_size'], ret='Z'),
        dict(name='get_antitargets', coq='fn_telomere_size',
             py_params=['targets', 'accessible', 'avg_bin_size', 'min_bin_size'],
             params=[],
             fragment=dict(first='TELOMERE_SIZE = ', last='TELOMERE_SIZE = '),
             returns=['TELOMERE_SIZE'], ret='Z'),
        dict(name='get_antitargets', coq='fn_pad_size',
             py_params=['targets', 'accessible', 'avg_bin_size', 'min_bin_size'],
             params=[('INSERT_SIZE', 'Z')],
             fragment=dict(first='pad_size = ', last='pad_size = '),
             returns=['pad_size'], ret='Z'),
    ]),
    'FnBinsSplit': ('skgenome/subdivide.py', [_split_spec()]),
}
