"""Loop ties / function-body ties of cnvlib/call.py (and the row masks of cnvlib/cnary.py it calls) for properties C01 and
C02, second batch (the first batch is call.py).  One generated module per tie; the theorems are in Proofs/Fn<Module>.v and
restated at the end of Props/C01.v / Props/C02.v.
"""
_DO_CALL = ['cnarr', 'variants', 'method', 'ploidy', 'purity', 'is_haploid_x_reference', 'is_sample_female',
            'diploid_parx_genome', 'filters', 'thresholds']

MODULES = {
    # do_call, the statement `if method != "none": outarr["cn"] = absolutes.round().astype("int"); if "baf" in outarr: ...`
    # WHOLE (the first batch's fn_alleles is the inner range with cn as an input): which method writes a cn column, the
    # rounding of `absolutes`, whether the allelic columns exist.  The three columns are unbound where nothing is stored
    # (method "none" / no baf column): init 0 / None / None.
    'FnCallFinish': ('cnvlib/call.py', [
        dict(name='do_call', coq='fn_finish', py_params=_DO_CALL,
             fragment=dict(first="if method != 'none'", last="if method != 'none'"),
             init=[("outarr['cn']", 'Z', '0'), ("outarr['cn1']", 'OZ', 'None'), ("outarr['cn2']", 'OZ', 'None')],
             params=[('method', 'S'), ('absolutes', 'Q'), ("'baf' in outarr", 'B', 'has_baf'), ("outarr['baf']", 'OQ', 'baf')],
             returns=["outarr['cn']", "outarr['cn1']", "outarr['cn2']"], ret=['Z', 'OZ', 'OZ']),
    ]),
    # absolute_pure: ONE ITERATION of `for i, row in enumerate(cnarr):` -- the reference copies of the row's chromosome and
    # the store `absolutes[i] = _log2_ratio_to_absolute_pure(row.log2, ref_copies)` (both callees translated in this module)
    'FnCallPureRow': ('cnvlib/call.py', [
        dict(name='_reference_copies_pure', coq='fn_purerow_ref_pure',
             params=[('chrom', 'S'), ('ploidy', 'Z'), ('is_haploid_x_reference', 'B')], ret='Z'),
        dict(name='_log2_ratio_to_absolute_pure', coq='fn_purerow_abs_pure',
             params=[('log2_ratio', 'Q'), ('ref_copies', 'Z')], ret='Q'),
        dict(name='absolute_pure', coq='fn_pure_row', py_params=['cnarr', 'ploidy', 'is_haploid_x_reference'],
             loop=dict(first='for i, row in enumerate(cnarr)'),
             carried=[('absolutes[i]', 'Q')], init=[('absolutes[i]', 'Q', '(inject_Z 0)')],
             params=[('i', 'Z'), ('row.chromosome', 'S', 'chromosome'), ('row.log2', 'Q', 'log2'),
                     ('ploidy', 'Z'), ('is_haploid_x_reference', 'B')],
             ret='Q'),
    ]),
    # absolute_clonal / absolute_dataframe: the per-row function handed to `df.apply(..., axis=1)` and the column
    # `df["absolute"]` absolute_clonal returns
    'FnCallClonalRow': ('cnvlib/call.py', [
        dict(name='_log2_ratio_to_absolute_pure', coq='fn_clonalrow_abs_pure',
             params=[('log2_ratio', 'Q'), ('ref_copies', 'Z')], ret='Q'),
        dict(name='_log2_ratio_to_absolute', coq='fn_clonalrow_abs',
             params=[('log2_ratio', 'Q'), ('ref_copies', 'Z'), ('expect_copies', 'Z'), ('purity', 'OQ')], ret='Q'),
        dict(name='absolute_dataframe', coq='fn_dataframe_row',
             py_params=['cnarr', 'ploidy', 'purity', 'is_haploid_x_reference', 'diploid_parx_genome', 'is_sample_female'],
             params=[('purity', 'OQ'),
                     ("row['log2']", 'Q', 'log2'), ("row['reference']", 'Z', 'reference'), ("row['expect']", 'Z', 'expect')],
             fragment=dict(first="df['absolute'] = ", last="df['absolute'] = "),
             returns=["df['absolute']"], ret='Q'),
        # absolute_clonal: which column of absolute_dataframe's table it hands back
        dict(name='absolute_clonal', coq='fn_clonal_column',
             py_params=['cnarr', 'ploidy', 'purity', 'is_haploid_x_reference', 'diploid_parx_genome', 'is_sample_female'],
             params=[("df['absolute']", 'Q', 'absolute_column')],
             fragment=dict(first='return ', last='return '), ret='Q'),
        # do_call: `absolutes = absolute_clonal(...).clip(lower=0)`
        dict(name='do_call', coq='fn_clonal_clip', py_params=_DO_CALL,
             params=[('absolute_clonal(outarr, ploidy, purity, is_haploid_x_reference, diploid_parx_genome, is_sample_female)',
                      'Q', 'clonal')],
             fragment=dict(first='absolutes = absolute_clonal(', last='absolutes = absolute_clonal('),
             returns=['absolutes'], ret='Q'),
    ]),
}
