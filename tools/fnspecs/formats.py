"""skgenome/tabio + chromsort: the scalar pieces of the readers / writers that the function-body
translator can read (C08).  Whole functions where they are scalar (vcfio._get_end), otherwise the
statements that carry the coordinate convention or a default, as fragments read per row:

  bedio.read_bed._parse_line   gene / strand defaults by column count (the BED column rule)
  picard.read_interval         dframe["start"] -= 1
  picard.read_picard_hs        dframe["start"] -= 1
  picard.write_interval        dframe["start"] += 1
  seg.parse_seg                dframe["start"] -= 1
  vcfsimple.read_vcf_simple    table["start"] -= 1
  vcfsimple.read_vcf_sites     table["start"] -= 1
  vcfio._get_end               info["END"] if "END" in info else posn + len(alt)
  chromsort.sorter_chrom       nums = int(nums) if nums else 0

Not translatable (f-strings, regular expressions, slices, tuples as values, str.find, keyword
arguments, comprehensions): rangelabel.to_label / from_label, the rest of sorter_chrom,
vcfsimple.parse_end_from_info / set_ends (.clip(lower=0)), seg.create_chrom_ids, gff.read_gff and
seg.format_seg (the +1 / -1 sit inside .assign(...) calls); those stay with the data translator
(tools/genspecs/c08.py: offsets, literals, fingerprints) and the correspondence check.

Later ties (the translator has since learnt f-strings of strings / ints and loop iterations): FnFormatsTrack (bedio track2track
loop), FnFormatsToLabel (rangelabel.to_label whole, C08_source_to_label / _write_text), FnFormatsSegHeader (one iteration of
parse_seg's header scan, C08_source_seg_header*), FnFormatsGffKeep (read_gff's keep_type filter per row, C08_source_gff_*).  Mutations tried with tools/mut_fn.sh:
  FnFormatsToLabel    `{row.start + 1}` -> `{row.start}`                               KILLED (source_to_label)
                      `-{row.end}` -> `-{row.end + 1}`                                 KILLED
                      `{row.chromosome}:` -> `{row.chromosome}-`                       KILLED
  FnFormatsSegHeader  `if n_tabs == 0:` -> `if n_tabs == 1:`                           KILLED (source_seg_header)
                      "probes" dropped from the six column names                       KILLED (the header then fixes 5 columns)
                      `elif n_tabs == 4:` -> `elif n_tabs == 3:`                       SURVIVED: the translator reads `if c: A
                          else: raise` as A under the recorded guard `not (n_tabs == 4)`, so this test is in the guard comment
                          only; the driver gen_find_header states the guard by hand (tabs in {0, 5, 4}) -- the correspondence
                          check of C08 is what sees this mutation (5-column SEG files stop parsing)
  FnFormatsGffKeep    `dframe['type'] == keep_type` -> `!= keep_type`                  KILLED (source_gff_keep)
                      `dframe = dframe[ok_type]` -> `dframe = dframe[~ok_type]`        KILLED"""

_START = "['start'] = "

MODULES = {
    'FnFormatsBed': ('skgenome/tabio/bedio.py', [
        dict(name='read_bed._parse_line', coq='fn_bed_gene_strand', py_params=['line'],
             params=[('len(fields)', 'Z', 'nfields'), ('fields[3].rstrip()', 'S', 'field3'),
                     ('fields[5].rstrip()', 'S', 'field5')],
             fragment={'first': 'gene = ', 'last': 'strand = '}, returns=['gene', 'strand'], ret=['S', 'S']),
    ]),
    'FnFormatsPicard': ('skgenome/tabio/picard.py', [
        dict(name='read_interval', coq='fn_read_interval_start', py_params=['infile'],
             params=[("dframe['start']", 'Z', 'start')],
             fragment={'first': 'dframe' + _START, 'last': 'dframe' + _START}, returns=["dframe['start']"], ret='Z'),
        dict(name='read_picard_hs', coq='fn_read_picardhs_start', py_params=['infile'],
             params=[("dframe['start']", 'Z', 'start')],
             fragment={'first': 'dframe' + _START, 'last': 'dframe' + _START}, returns=["dframe['start']"], ret='Z'),
        dict(name='write_interval', coq='fn_write_interval_start', py_params=['dframe'],
             params=[("dframe['start']", 'Z', 'start')],
             fragment={'first': 'dframe' + _START, 'last': 'dframe' + _START}, returns=["dframe['start']"], ret='Z'),
    ]),
    'FnFormatsSeg': ('skgenome/tabio/seg.py', [
        dict(name='parse_seg', coq='fn_parse_seg_start',
             py_params=['infile', 'chrom_names', 'chrom_prefix', 'from_log10'],
             params=[("dframe['start']", 'Z', 'start')],
             fragment={'first': 'dframe' + _START, 'last': 'dframe' + _START}, returns=["dframe['start']"], ret='Z'),
    ]),
    'FnFormatsVcfsimple': ('skgenome/tabio/vcfsimple.py', [
        dict(name='read_vcf_simple', coq='fn_read_vcf_simple_start', py_params=['infile'],
             params=[("table['start']", 'Z', 'start')],
             fragment={'first': 'table' + _START, 'last': 'table' + _START}, returns=["table['start']"], ret='Z'),
        dict(name='read_vcf_sites', coq='fn_read_vcf_sites_start', py_params=['infile'],
             params=[("table['start']", 'Z', 'start')],
             fragment={'first': 'table' + _START, 'last': 'table' + _START}, returns=["table['start']"], ret='Z'),
    ]),
    'FnFormatsVcfio': ('skgenome/tabio/vcfio.py', [
        dict(name='_get_end', coq='fn_get_end', py_params=['posn', 'alt', 'info'],
             params=[('posn', 'Z'), ("'END' in info", 'B', 'has_end'), ("info['END']", 'Z', 'info_end'),
                     ('len(alt)', 'Z', 'alt_len')], ret='Z'),
    ]),
    'FnFormatsChromsort': ('skgenome/chromsort.py', [
        dict(name='sorter_chrom', coq='fn_sorter_nums', py_params=['label'],
             params=[('nums', 'S'), ('int(nums)', 'Z', 'int_nums')],
             fragment={'first': 'nums = int(nums)', 'last': 'nums = int(nums)'}, returns=['nums'], ret='Z'),
    ]),
    # read_bed.track2track: ONE ITERATION of `for line in handle:` -- stop at a track line, else hand the line on
    # (Proofs/FnFormatsTrack.v: C08_source_track_loop -- the step iterated yields exactly the raw lines Model/Formats.v
    #  until_track keeps)
    # mutations that break the tie: `break` -> `continue`; the `yield line` moved before the test; startswith test negated
    'FnFormatsTrack': ('skgenome/tabio/bedio.py', [
        dict(name='read_bed.track2track', coq='fn_track_step', py_params=['handle'],
             loop=dict(first='for line in handle'),
             carried=[], yields=['S'],
             params=[('line', 'S'), ("line.startswith('track')", 'B', 'is_track')],
             ret='Y'),
    ]),
    # rangelabel.to_label, the WHOLE function (what textcoord.write_text applies to every row): the f-string
    # f"{row.chromosome}:{row.start + 1}-{row.end}" of a string and two integers.
    # (Proofs/FnFormatsToLabel.v: C08_source_to_label -- it is Model/Formats.v to_label, hence every line write_text writes)
    # mutations (tools/mut_fn.sh): `row.start + 1` -> `row.start` KILLED; `}-{row.end}` -> `}-{row.end + 1}` KILLED;
    # `{row.chromosome}:` -> `{row.chromosome}-` KILLED
    'FnFormatsToLabel': ('skgenome/rangelabel.py', [
        dict(name='to_label', coq='fn_to_label', py_params=['row'],
             params=[('row.chromosome', 'S', 'chrom'), ('row.start', 'Z', 'start'), ('row.end', 'Z', 'end_')],
             ret='S'),
    ]),
    # seg.parse_seg: ONE ITERATION of the header scan `for line in handle:` -- count the tabs; no tab: skip the line
    # (`continue`); 5 / 4 tabs: the six / five column names and `break`; anything else raises (recorded guard).
    # (Proofs/FnFormatsSegHeader.v: C08_source_seg_header -- the step iterated over the lines is Model/Formats.v seg_find_header)
    # mutations (tools/mut_fn.sh): `if n_tabs == 0:` -> `if n_tabs == 1:` KILLED; `"probes",` dropped from the six names KILLED;
    # `elif n_tabs == 4:` -> `elif n_tabs == 3:` SURVIVED (the test is a recorded guard only, see the docstring)
    'FnFormatsSegHeader': ('skgenome/tabio/seg.py', [
        dict(name='parse_seg', coq='fn_seg_header_step',
             py_params=['infile', 'chrom_names', 'chrom_prefix', 'from_log10'],
             loop=dict(first='for line in handle', ignore_else=True),
             carried=[('col_names', 'LS')],
             params=[('col_names', 'LS'), ("line.count('\\t')", 'Z', 'tabs')],
             ret=['LS', 'B']),
    ]),
    # gff.read_gff: the `keep_type` filter (fragment `if keep_type: ok_type = dframe["type"] == keep_type; <log line>; dframe =
    # dframe[ok_type]`) read per row as "the record stays in dframe" (row_keep).  keep_type is None or a string: only its
    # truthiness and its equality with the type column are read, so None enters as the empty string.
    # (Proofs/FnFormatsGffKeep.v: C08_source_gff_keep -- Model/Formats.v gff_keep, the filter of read_gff_full)
    # mutations: `dframe['type'] == keep_type` -> `!= keep_type` KILLED; `dframe = dframe[ok_type]` -> `dframe = dframe[~ok_type]` KILLED
    'FnFormatsGffKeep': ('skgenome/tabio/gff.py', [
        dict(name='read_gff', coq='fn_gff_keep', py_params=['infile', 'tag', 'keep_type'],
             fragment=dict(first='if keep_type', last='if keep_type'), row_keep='dframe',
             init=[('row_keep__', 'B', 'true')], returns=['row_keep__'],
             params=[('keep_type', 'S'), ("dframe['type']", 'S', 'type_')], ret='B'),
    ]),
}
