"""C16: the scalar decision structure of segmetrics.segment_mean (used by reports.group_by_genes), translated
statement by statement; table-level quantities it reads (row count, presence / any-ness of the weight column, the two
averages) are opaque typed inputs.

Loop ties (one iteration of each loop as a step function, tied to Model/Genes.v in Proofs/FnGenes*.v, restated as
C16_source_* at the end of Props/C16.v): gene_metrics_by_gene, group_by_genes, gene_metrics_by_segment (outer step +
the inner body's stores), get_breakpoints (inner + outer), CopyNumArray.by_gene, CopyNumArray.squash_genes.
Not tied (dictionary / comprehension code with no scalar decision left once the containers are opaque):
get_gene_intervals' two loops, _get_gene_map's double loop, squash_rows' body -- pinned by tools/genspecs/c16.py.

Mutations tried on a scratch copy (each breaks the named Proofs file, i.e. an obligation of C16; none survives):
  FnGenesByGene    `abs(row.log2) >= threshold` -> `>` ; `and row.gene` -> `or row.gene`
  FnGenesGroup     `not rows or gene in ignore` -> `and` ; `len(rows)` -> `len(rows) - 1` ;
                   `rows["depth"].mean()` -> `rows["weight"].sum()` ; `segmean is None` -> `np.isnan(segmean)`
  FnGenesBySegment `abs(segment.log2) >= threshold` -> `>` ; `row["segment_weight"] = segment.weight` -> `segment.log2` ;
                   `hasattr(segment, "probes")` -> `"weight"` (translator refuses: fragment not found)
  FnGenesBreaks    `gstarts[0] < curr_end` -> `<=` ; `and probes_right >= min_probes` -> `or` ;
                   `next_row.log2 - curr_row.log2` reversed ; `next_row.chromosome != curr_chrom` -> `==`
  FnGenesWalk      `gene_idx[-1] + 1` -> `gene_idx[-1]` ; `prev_idx < start_idx` -> `<=` ; `iloc[start_idx:end_idx]` -> `iloc[prev_idx:end_idx]`
  FnGenesSquash    `and not squash_antitarget` -> `and squash_antitarget` ; `if not len(subarr)` -> `if len(subarr)`"""
MODULES = {
    'FnGenesSegmean': ('cnvlib/segmetrics.py', [
        dict(name='segment_mean', coq='fn_segment_mean', py_params=['cnarr', 'skip_low'],
             fragment={'first': 'if len(cnarr) == 0', 'last': 'return cnarr'},
             params=[('len(cnarr)', 'Z', 'n_rows'),
                     ("'weight' in cnarr", 'B', 'has_weight'),
                     ("cnarr['weight'].any()", 'B', 'any_weight'),
                     ('np.nan', 'OQ', 'nan'),
                     ("np.average(cnarr['log2'], weights=cnarr['weight'])", 'Q', 'weighted_average'),
                     ("cnarr['log2'].mean()", 'Q', 'plain_mean')],
             ret='OQ'),
    ]),
    # do_genemetrics: which probe count the min_probes filter looks at
    'FnGenemetrics': ('cnvlib/reports.py', [
        dict(name='do_genemetrics', coq='fn_n_probes',
             py_params=['cnarr', 'segments', 'threshold', 'min_probes', 'skip_low', 'is_haploid_x_reference',
                        'is_sample_female', 'diploid_parx_genome'],
             fragment={'first': 'n_probes = ', 'last': 'n_probes = '}, returns=['n_probes'],
             params=[("'segment_probes' in table.columns", 'B', 'has_segment_probes'),
                     ('table.segment_probes', 'Z', 'segment_probes'),
                     ('table.probes', 'Z', 'probes')],
             ret='Z'),
    ]),
    # ---- loop ties (LOOP_TIES_GUIDE) ---------------------------------------------------------------------------------
    # gene_metrics_by_gene: ONE ITERATION of `for row in group_by_genes(cnarr, skip_low):` -- the rows it yields (the row
    # itself, an opaque id, or none).  row.log2 is a float that may be NaN (None): abs(NaN) >= t is False.
    # (Proofs/FnGenesByGene.v: C16_source_by_gene_step / C16_source_by_gene)
    'FnGenesByGene': ('cnvlib/reports.py', [
        dict(name='gene_metrics_by_gene', coq='fn_by_gene_step', py_params=['cnarr', 'threshold', 'skip_low'],
             loop=dict(first='for row in group_by_genes('), carried=[], yields=['Z'],
             params=[('row', 'Z', 'row_id'), ('row.log2', 'OQ', 'row_log2'), ('threshold', 'Q'), ('row.gene', 'S', 'row_gene')],
             ret='Y'),
    ]),
    # group_by_genes: ONE ITERATION of `for gene, rows in cnarr.by_gene():` -- the skip rules, the stores into the copy
    # of the first row, the yield.  `rows` in a boolean position is its truthiness (GenomicArray.__bool__: it has rows);
    # `gene in ignore` (the tuple is pinned by tools/genspecs/c16.py) and the table aggregates are opaque typed inputs
    # keyed by their source text; segment_mean returns a float (NaN = None here), never Python's None, so the opaque
    # input `segmean is None` is False in the tie (C16_source_segment_mean ties its three returns).  The carried
    # `outrow[...]` are the fields of the yielded row: on entry those of rows[0] (outrow = rows[0].copy()).
    # (Proofs/FnGenesGroup.v: C16_source_group_step / C16_source_group_by_genes)
    'FnGenesGroup': ('cnvlib/reports.py', [
        dict(name='group_by_genes', coq='fn_group_step', py_params=['cnarr', 'skip_low'],
             loop=dict(first='for gene, rows in cnarr.by_gene()'),
             carried=[("outrow['end']", 'Z'), ("outrow['gene']", 'S'), ("outrow['log2']", 'OQ'), ("outrow['probes']", 'Z'),
                      ("outrow['weight']", 'Q'), ("outrow['depth']", 'Q')],
             yields=['Z'],
             params=[('rows', 'B', 'rows_nonempty'), ('gene', 'S'), ('gene in ignore', 'B', 'gene_ignored'),
                     ('segment_mean(rows, skip_low)', 'OQ', 'segmean_value'), ('segmean is None', 'B', 'segmean_is_none'),
                     ('rows[0].copy()', 'Z', 'first_row_copy'),
                     ("outrow['end']", 'Z', 'first_end'), ("outrow['gene']", 'S', 'first_gene'),
                     ("outrow['log2']", 'OQ', 'first_log2'), ("outrow['probes']", 'Z', 'first_probes'),
                     ("outrow['weight']", 'Q', 'first_weight'), ("outrow['depth']", 'Q', 'first_depth'),
                     ('rows.end.iat[-1]', 'Z', 'last_end'), ('len(rows)', 'Z', 'n_rows'),
                     ("'weight' in rows", 'B', 'has_weight'), ("rows['weight'].sum()", 'Q', 'weight_sum'),
                     ("'depth' in rows", 'B', 'has_depth'),
                     ("np.average(rows['depth'], weights=rows['weight'])", 'Q', 'weighted_depth'),
                     ("rows['depth'].mean()", 'Q', 'mean_depth')],
             ret=['Z', 'S', 'OQ', 'Z', 'Q', 'Q']),
    ]),
    # gene_metrics_by_segment: ONE ITERATION of the outer loop `for segment, subprobes in cnarr.by_ranges(segments):`
    # (the threshold on the SEGMENT's log2; the inner loop is an opaque range whose yields enter as a parameter) and the
    # per-row overrides of the inner loop as a fragment (log2 := the segment's, segment_weight / segment_probes when the
    # segment has the attribute; the `for colname in extra_cols` copy is outside the model's columns).
    # (Proofs/FnGenesBySegment.v: C16_source_by_segment_step / _row / C16_source_by_segment)
    'FnGenesBySegment': ('cnvlib/reports.py', [
        dict(name='gene_metrics_by_segment', coq='fn_by_segment_step', py_params=['cnarr', 'segments', 'threshold', 'skip_low'],
             loop=dict(first='for segment, subprobes in cnarr.by_ranges(segments)'), carried=[], yields=['Z'],
             opaque=[dict(first='for row in group_by_genes(subprobes, skip_low)', last='for row in group_by_genes(subprobes, skip_low)',
                          yields='inner_rows')],
             params=[('segment.log2', 'OQ', 'segment_log2'), ('threshold', 'Q'), ('inner_rows', 'Y')],
             ret='Y'),
        dict(name='gene_metrics_by_segment', coq='fn_by_segment_row', py_params=['cnarr', 'segments', 'threshold', 'skip_low'],
             fragment=dict(first="row['log2'] = segment.log2", last="if hasattr(segment, 'probes')"),
             params=[('segment.log2', 'OQ', 'segment_log2'),
                     ("hasattr(segment, 'weight')", 'B', 'has_weight'), ('segment.weight', 'OQ', 'segment_weight'),
                     ("hasattr(segment, 'probes')", 'B', 'has_probes'), ('segment.probes', 'OZ', 'segment_probes'),
                     ("row['segment_weight']", 'OQ', 'row_segment_weight'), ("row['segment_probes']", 'OZ', 'row_segment_probes')],
             returns=["row['log2']", "row['segment_weight']", "row['segment_probes']"], ret=['OQ', 'OQ', 'OZ']),
    ]),
    # get_breakpoints: ONE ITERATION of the inner loop `for gname, gstarts, gend in intervals[curr_chrom]:` (the chained
    # test gstarts[0] < curr_end < gend, the min_probes test on both counts, the appended tuple; the two probe counts are
    # opaque inputs keyed by their source text; `breakpoints.append(t)` is read as `yield t`) and ONE ITERATION of the
    # outer loop `for i, curr_row in enumerate(segments[:-1]):` (skip when the next segment is on another chromosome; the
    # inner loop is an opaque range whose appended tuples enter as a parameter).
    # (Proofs/FnGenesBreaks.v: C16_source_break_at / C16_source_breakpoints)
    'FnGenesBreaks': ('cnvlib/reports.py', [
        dict(name='get_breakpoints', coq='fn_break_inner', py_params=['intervals', 'segments', 'min_probes'],
             loop=dict(first='for gname, gstarts, gend in intervals[curr_chrom]'), carried=[],
             yields=['S', 'S', 'Z', 'Q', 'Z', 'Z'], append_yields='breakpoints',
             params=[('gname', 'S'), ('curr_chrom', 'S'), ('curr_end', 'Z'), ('gstarts[0]', 'Z', 'first_start'), ('gend', 'Z'),
                     ('sum(s < curr_end for s in gstarts)', 'Z', 'n_left'),
                     ('sum(s >= curr_end for s in gstarts)', 'Z', 'n_right'),
                     ('min_probes', 'Z'), ('next_row.log2', 'Q', 'next_log2'), ('curr_row.log2', 'Q', 'curr_log2')],
             ret='Y'),
        dict(name='get_breakpoints', coq='fn_break_outer', py_params=['intervals', 'segments', 'min_probes'],
             loop=dict(first='for i, curr_row in enumerate(segments[:-1])'), carried=[],
             yields=['S', 'S', 'Z', 'Q', 'Z', 'Z'],
             opaque=[dict(first='for gname, gstarts, gend in intervals[curr_chrom]',
                          last='for gname, gstarts, gend in intervals[curr_chrom]', yields='inner_breaks')],
             params=[('curr_row.chromosome', 'S', 'curr_chromosome'), ('curr_row.end', 'Z', 'curr_row_end'),
                     ('segments[i + 1]', 'Z', 'next_row_id'), ('next_row.chromosome', 'S', 'next_chromosome'),
                     ('inner_breaks', 'Y')],
             ret='Y'),
    ]),
    # CopyNumArray.by_gene: ONE ITERATION of `for gene, gene_idx in gene_map.items():` -- the carried prev_idx and the
    # (name, rows) pairs it yields; the rows `subgary.as_dataframe(subgary.data.iloc[a:b])` are yielded as the two
    # positions a, b (slice_views).  `gene not in ignore` and the first / last position of the gene are opaque inputs.
    # (Proofs/FnGenesWalk.v: C16_source_walk_step / C16_source_walk -- the step folded over the gene map, the telomere
    #  tail after it, IS Model/Genes.v walk)
    'FnGenesWalk': ('cnvlib/cnary.py', [
        dict(name='CopyNumArray.by_gene', coq='fn_walk_step', py_params=['self', 'ignore'],
             loop=dict(first='for gene, gene_idx in gene_map.items()'),
             carried=[('prev_idx', 'Z')], yields=['S', 'Z', 'Z'],
             slice_views=dict(base='subgary.data.iloc', wrappers=['subgary.as_dataframe'], length='len(subgary)'),
             params=[('prev_idx', 'Z'), ('gene', 'S'), ('gene not in ignore', 'B', 'gene_is_real'),
                     ('len(gene_idx)', 'Z', 'n_idx'), ('gene_idx[0]', 'Z', 'first_idx'), ('gene_idx[-1]', 'Z', 'last_idx'),
                     ('params.ANTITARGET_NAME', 'S', 'antitarget_name')],
             ret='Z'),
    ]),
    # CopyNumArray.squash_genes: ONE ITERATION of `for name, subarr in self.by_gene(ignore):` -- which rows (opaque ids)
    # the iteration adds to outrows: none for an empty group, the group's own rows (subarr.data.itertuples, an opaque
    # list) for an Antitarget group unless squash_antitarget, else the one row squash_rows builds.
    # (Proofs/FnGenesSquash.v: C16_source_squash_step / C16_source_squash_genes)
    'FnGenesSquash': ('cnvlib/cnary.py', [
        dict(name='CopyNumArray.squash_genes', coq='fn_squash_step',
             py_params=['self', 'summary_func', 'squash_antitarget', 'ignore'],
             loop=dict(first='for name, subarr in self.by_gene(ignore)'), carried=[], yields=['Z'],
             append_yields='outrows',
             params=[('len(subarr)', 'Z', 'n_rows'), ('name in params.ANTITARGET_ALIASES', 'B', 'is_antitarget'),
                     ('squash_antitarget', 'B'), ('subarr.data.itertuples(index=False)', 'Y', 'own_rows'),
                     ('squash_rows(name, subarr.data)', 'Z', 'squashed_row')],
             ret='Y'),
    ]),
}
