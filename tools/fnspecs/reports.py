"""C16: the scalar decision structure of segmetrics.segment_mean (used by reports.group_by_genes), translated
statement by statement; table-level quantities it reads (row count, presence / any-ness of the weight column, the two
averages) are opaque typed inputs.  reports.py itself is loops over generators (`if cond: yield row`,
`breakpoints.append(...)`, chained comparisons), which the translator does not cover; those sites are pinned by the
fail-closed source locators of tools/genspecs/c16.py instead."""
MODULES = {
    'FnGenesSegmean': ('cnvlib/segmetrics.py', [
        dict(name='segment_mean', coq='fn_segment_mean', py_params=['cnarr', 'skip_low'],
             fragment={'first': 'if len(cnarr) == 0', 'last': 'return cnarr'},
             params=[('len(cnarr)', 'Z', 'n_rows'),
                     ("'weight' in cnarr", 'B', 'has_weight'),
                     ("cnarr['weight'].any()", 'B', 'any_weight'),
                     ('np.nan', 'OQ', 'nan'),
                     ("np.average(cnarr['log2'], weights=cnarr['weight'])", 'Q', 'weighted_average'),
                     ("cnarr['log2'].mean()", 'Q', 'plain_mean')],
             ret='OQ'),
    ]),
    # do_genemetrics: which probe count the min_probes filter looks at
    'FnGenemetrics': ('cnvlib/reports.py', [
        dict(name='do_genemetrics', coq='fn_n_probes',
             py_params=['cnarr', 'segments', 'threshold', 'min_probes', 'skip_low', 'is_haploid_x_reference',
                        'is_sample_female', 'diploid_parx_genome'],
             fragment={'first': 'n_probes = ', 'last': 'n_probes = '}, returns=['n_probes'],
             params=[("'segment_probes' in table.columns", 'B', 'has_segment_probes'),
                     ('table.segment_probes', 'Z', 'segment_probes'),
                     ('table.probes', 'Z', 'probes')],
             ret='Z'),
    ]),
}
