"""cnvlib/cnary.py, the per-bin / scalar arithmetic of the chromosomal-sex code and of drop_low_coverage (property C15;
the same functions are called by C04's and C05's pipelines), read per element:

  expect_flat_log2    from `cvg = np.zeros(...)` to `return cvg`: the three masks (X without PAR, Y without PAR-Y, all
                      of Y) are the bin's booleans, np.zeros(...) an opaque number (0 in the theorem)   (C15_source_flat)
  shift_xx            the if / elif on (is_xx, is_haploid_x_reference) with the masked -1 / +1.  The translator has no
                      assignment-only `elif` chain (assigned_only refuses a nested If), so the then-branch and the
                      elif-statement are two fragments and the outer test is handed over as source text after its
                      shape is checked here with `ast`                                                  (C15_source_shift_xx)
  drop_low_coverage   min_cvg, the comparison, the `if "depth" in self` statement                       (C15_source_low_coverage)
  compare_sex_chromosomes.compare_chrom   the ratio of the two statistics with the 0.01 floor and its fallback on the
                      median differences.  `a is not None and b is not None` narrows only its first name in the
                      translator, so male_stat is read as a number plus the boolean `male_stat is not None`
  compare_sex_chromosomes   `if np.isfinite(chry_male_lr): combined_score *= chry_male_lr` and the decision
                      `combined_score > 1.0` (first element of the returned tuple, located with `ast`)  (C15_source_sex_score)"""
import ast, os, sys


def _repo():
    for name in ('py2v_fn', '__main__'):
        m = sys.modules.get(name)
        if m is not None and hasattr(m, 'REPO') and hasattr(m, 'FnTranslator'):
            return m.REPO
    return os.environ.get('CNVKIT_REPO', '/repo')


def _method(name):
    src = open(os.path.join(_repo(), 'cnvlib/cnary.py')).read()
    for n in ast.walk(ast.parse(src)):
        if isinstance(n, ast.FunctionDef) and n.name == name:
            return n
    raise ValueError('no function %s' % name)


def _bad(exc):
    return '<cnvlib/cnary.py no longer has the expected shape: %s>' % exc


def _body(fn):
    return [s for s in fn.body if not (isinstance(s, ast.Expr) and isinstance(s.value, ast.Constant))]


# ---- shift_xx ---------------------------------------------------------------------------------------------------
def _shift_xx_shape():
    """outprobes = self.copy(); if is_xx is None: is_xx = self.guess_xx(...); if T1: <masked -=> elif T2: <masked +=>
    (no else); return outprobes   ->  source of T1"""
    body = _body(_method('shift_xx'))
    if len(body) != 4:
        raise ValueError('shift_xx has %d statements' % len(body))
    c, g, iff, r = body
    if ast.unparse(c) != 'outprobes = self.copy()':
        raise ValueError('first statement is not outprobes = self.copy()')
    if not (isinstance(g, ast.If) and ast.unparse(g.test) == 'is_xx is None' and not g.orelse and len(g.body) == 1
            and ast.unparse(g.body[0]).startswith('is_xx = self.guess_xx(')):
        raise ValueError('second statement is not the guess_xx default')
    if not (isinstance(iff, ast.If) and len(iff.body) == 1 and isinstance(iff.body[0], ast.AugAssign)
            and len(iff.orelse) == 1 and isinstance(iff.orelse[0], ast.If) and not iff.orelse[0].orelse
            and len(iff.orelse[0].body) == 1 and isinstance(iff.orelse[0].body[0], ast.AugAssign)):
        raise ValueError('third statement is not if/elif with one masked update each')
    if ast.unparse(r) != 'return outprobes':
        raise ValueError('shift_xx does not return outprobes')
    return ast.unparse(iff.test), ast.unparse(iff.orelse[0].test)


def _shift_xx_specs():
    try:
        t1, t2 = _shift_xx_shape()
        fa, fb = "outprobes['log2'] = outprobes['log2'] ", 'if ' + t2
    except Exception as exc:   # noqa -- fail closed
        t1, fa, fb = 'is_xx', _bad(exc), _bad(exc)
    pyp = ['self', 'is_haploid_x_reference', 'is_xx', 'diploid_parx_genome']
    par = [("outprobes['log2']", 'Q', 'log2_'), ('is_xx', 'B'), ('is_haploid_x_reference', 'B'),
           ('self.chr_x_filter(diploid_parx_genome)', 'B', 'on_x')]
    return [
        dict(name='CopyNumArray.shift_xx', coq='fn_shift_xx_then', py_params=pyp, params=par,
             fragment={'first': fa, 'last': fa}, returns=["outprobes['log2']", t1], ret=['Q', 'B']),
        dict(name='CopyNumArray.shift_xx', coq='fn_shift_xx_elif', py_params=pyp, params=par,
             fragment={'first': fb, 'last': fb}, returns=["outprobes['log2']"], ret='Q'),
    ]


# ---- compare_sex_chromosomes: the tail ----------------------------------------------------------------------------
def _score_shape():
    """combined_score = chrx_male_lr ... if len(chry): ...; chry_male_lr = compare_chrom(...);
    if np.isfinite(chry_male_lr): combined_score *= chry_male_lr  else: chry_male_lr = np.nan ...
    return (<decision>, dict(...))   ->  source of <decision>"""
    fn = _method('compare_sex_chromosomes')
    body = _body(fn)
    srcs = [ast.unparse(s) for s in body]
    if srcs.count('combined_score = chrx_male_lr') != 1:
        raise ValueError('combined_score is not initialised with chrx_male_lr')
    ifs = [s for s in body if isinstance(s, ast.If) and ast.unparse(s.test) == 'len(chry)']
    if len(ifs) != 1:
        raise ValueError('no `if len(chry):`')
    inner = ifs[0].body[-1]
    if not (isinstance(inner, ast.If) and ast.unparse(inner.test) == 'np.isfinite(chry_male_lr)' and not inner.orelse
            and len(inner.body) == 1 and ast.unparse(inner.body[0]) == 'combined_score *= chry_male_lr'):
        raise ValueError('the chrY factor statement changed')
    if not any(isinstance(s, ast.Assign) and ast.unparse(s.targets[0]) == 'chry_male_lr'
               and ast.unparse(s.value).startswith('compare_chrom(') for s in ifs[0].body):
        raise ValueError('chry_male_lr is not compare_chrom(...)')
    # combined_score is assigned nowhere else
    n_assign = 0
    for s in ast.walk(fn):
        if isinstance(s, (ast.Assign, ast.AugAssign)):
            tg = s.targets if isinstance(s, ast.Assign) else [s.target]
            n_assign += sum(1 for t in tg if ast.unparse(t) == 'combined_score')
    if n_assign != 2:
        raise ValueError('combined_score is assigned %d times' % n_assign)
    ret = body[-1]
    if not (isinstance(ret, ast.Return) and isinstance(ret.value, ast.Tuple) and len(ret.value.elts) == 2):
        raise ValueError('compare_sex_chromosomes does not end in return (decision, dict)')
    d = ret.value.elts[1]
    if not (isinstance(d, ast.Call) and ast.unparse(d.func) == 'dict'):
        raise ValueError('second result is not dict(...)')
    kw = {k.arg: ast.unparse(k.value) for k in d.keywords}
    if kw != {'chrx_ratio': 'chrx_mean - auto_mean', 'chry_ratio': 'chry_mean - auto_mean',
              'combined_score': 'combined_score', 'chrx_male_lr': 'chrx_male_lr', 'chry_male_lr': 'chry_male_lr'}:
        raise ValueError('statistics dictionary changed: %r' % kw)
    return ast.unparse(ret.value.elts[0])


def _score_spec():
    try:
        dec, f = _score_shape(), 'if np.isfinite(chry_male_lr)'
    except Exception as exc:   # noqa -- fail closed
        dec, f = 'combined_score > 1.0', _bad(exc)
    return dict(name='CopyNumArray.compare_sex_chromosomes', coq='fn_sex_score',
                py_params=['self', 'is_haploid_x_reference', 'diploid_parx_genome', 'skip_low'],
                params=[('combined_score', 'Q'), ('chry_male_lr', 'Q'), ('np.isfinite(chry_male_lr)', 'B', 'y_finite')],
                fragment={'first': f, 'last': f}, returns=['combined_score', dec], ret=['Q', 'B'])


MODULES = {
    'FnCnaryFlat': ('cnvlib/cnary.py', [
        dict(name='CopyNumArray.expect_flat_log2', coq='fn_expect_flat',
             py_params=['self', 'is_haploid_x_reference', 'diploid_parx_genome'],
             params=[('np.zeros(len(self), dtype=np.float64)', 'Q', 'zero'), ('is_haploid_x_reference', 'B'),
                     ('self.chr_x_filter(diploid_parx_genome).values', 'B', 'on_x'),
                     ('self.chr_y_filter(diploid_parx_genome).values', 'B', 'on_y'),
                     ('self.chr_y_filter().values', 'B', 'on_y_all')],
             fragment={'first': 'cvg = np.zeros(', 'last': 'return cvg'}, ret='Q'),
    ]),
    'FnCnaryShift': ('cnvlib/cnary.py', _shift_xx_specs()),
    'FnCnaryLow': ('cnvlib/cnary.py', [
        dict(name='CopyNumArray.drop_low_coverage', coq='fn_drop_idx', py_params=['self', 'verbose'],
             params=[("self.data['log2']", 'Q', 'log2_'), ("'depth' in self", 'B', 'has_depth'),
                     ("self.data['depth']", 'Q', 'depth'),
                     ('params.NULL_LOG2_COVERAGE', 'Q', 'null_log2_coverage'),
                     ('params.MIN_REF_COVERAGE', 'Q', 'min_ref_coverage')],
             fragment={'first': 'min_cvg = ', 'last': "if 'depth' in self"}, returns=['drop_idx'], ret='B'),
    ]),
    'FnCnarySex': ('cnvlib/cnary.py', [
        dict(name='CopyNumArray.compare_sex_chromosomes.compare_chrom', coq='fn_compare_chrom',
             py_params=['vals', 'weights', 'female_shift', 'male_shift'],
             params=[('female_stat', 'OQ'), ('male_stat is not None', 'B', 'male_some'), ('male_stat', 'Q'),
                     ('f_diff', 'Q'), ('m_diff', 'Q')],
             fragment={'first': 'if female_stat is not None', 'last': 'return '}, ret='Q'),
        _score_spec(),
    ]),
}
