"""Function-body specs for cnvlib/core.py (property C10): the backup-name search of ensure_path."""
MODULES = {
    # ensure_path: the first candidate (`cnt = 1; bak_fname = f"{fname}.{cnt}"`) and ONE ITERATION of
    # `while os.path.isfile(bak_fname):` (the loop condition itself -- a file-system query -- is the model's lookup).
    # (Proofs/FnCore.v: C10_source_backup_first / C10_source_backup_step: the candidates are fname.1, fname.2, ... in
    #  order, i.e. index n -> n + 1 of Model/World.v first_free)
    # mutations that break the tie: `cnt += 1` -> `cnt += 2`; `cnt = 1` -> `cnt = 0`; `f"{fname}.{cnt}"` -> `f"{fname}{cnt}"`
    'FnCore': ('cnvlib/core.py', [
        dict(name='ensure_path', coq='fn_backup_first', py_params=['fname'],
             fragment=dict(first='cnt = 1', last='bak_fname = '),
             params=[('fname', 'S')], returns=['cnt', 'bak_fname'], ret=['Z', 'S']),
        dict(name='ensure_path', coq='fn_backup_step', py_params=['fname'],
             loop=dict(first='while os.path.isfile(bak_fname)'),
             carried=[('cnt', 'Z'), ('bak_fname', 'S')],
             params=[('fname', 'S'), ('cnt', 'Z'), ('bak_fname', 'S')],
             ret=['Z', 'S']),
    ]),
}
