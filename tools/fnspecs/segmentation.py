"""Function-body specs for cnvlib/segmentation/__init__.py (property C03): one iteration of transfer_fields' aggregation loop."""
MODULES = {
    # ONE ITERATION of `for i, bin_idx in enumerate(iter_slices(cdata, segments.data, "outer", True)):` -- what row i of
    # the gene / weight / depth columns becomes, as a function of the selection's aggregates (opaque inputs: the summed
    # weight, the weighted average, the bin count, the plain mean, the kept gene names in order).
    # (Proofs/FnSegmentation.v: C03_source_transfer_step -- equals Model/Segment.v fill's arguments)
    'FnSegTransfer': ('cnvlib/segmentation/__init__.py', [
        dict(name='transfer_fields', coq='fn_transfer_step',
             py_params=['segments', 'cnarr', 'ignore'],
             loop=dict(first='for i, bin_idx in enumerate(iter_slices('),
             carried=[('seg_genes[i]', 'S'), ('seg_weights[i]', 'Q'), ('seg_depths[i]', 'Q')],
             params=[('i', 'Z'),
                     ('bin_weights is not None', 'B', 'has_weights'),
                     ('bin_weights[bin_idx].sum()', 'Q', 'weight_sum'),
                     ('np.average(bin_depths[bin_idx], weights=bin_weights[bin_idx])', 'Q', 'weighted_mean'),
                     ('len(cdata.iloc[bin_idx])', 'Z', 'bin_count'),
                     ('bin_depths[bin_idx].mean()', 'Q', 'plain_mean'),
                     ('[g for g in pd.unique(bin_genes[bin_idx]) if g not in ignore]', 'LS', 'kept_genes')],
             ret=['S', 'Q', 'Q']),
    ]),
}
