"""Function-body specs for cnvlib/segmentation/__init__.py (property C03): one iteration of transfer_fields' aggregation loop,
_do_segmentation's weight mask per row, transfer_fields' endpoint stretch, drop_outliers per row.

Mutations tried with tools/mut_fn.sh (scratch copy of the sources, re-translation, rebuild of the Proofs file):
  FnSegWeightMask  `filtered_cn["weight"] < min_weight` -> `<= min_weight`              KILLED (source_weight_mask no longer proves)
                   `(filtered_cn["weight"] == 0)` -> `(... <= 0)`                       KILLED
  FnSegStretch     first store `= bins_start` -> `= bins_end`                           KILLED (source_stretch_rows)
                   `iat[-1] == cnarr.chromosome.iat[-1]` -> `!=`                        KILLED (source_stretch_rows)
                   second store `iloc[-1, ..("end")]` -> `iloc[0, ..("end")]`           translator REFUSES (the returned cell
                                                                                        iloc[-1]['end'] is no longer assigned)
                   second store `..get_loc("end")` -> `..get_loc("start")`              translator REFUSES (rows 0 and -1 of one
                                                                                        column: the same cell in a one-row table)
  FnSegOutliers    `return cnarr[~outlier_mask]` -> `return cnarr[outlier_mask]`         KILLED (source_drop_outliers)
                   drop_outliers' `if not len(cnarr):` -> `if len(cnarr):`               KILLED
"""
MODULES = {
    # ONE ITERATION of `for i, bin_idx in enumerate(iter_slices(cdata, segments.data, "outer", True)):` -- what row i of
    # the gene / weight / depth columns becomes, as a function of the selection's aggregates (opaque inputs: the summed
    # weight, the weighted average, the bin count, the plain mean, the kept gene names in order).
    # (Proofs/FnSegmentation.v: C03_source_transfer_step -- equals Model/Segment.v fill's arguments)
    'FnSegTransfer': ('cnvlib/segmentation/__init__.py', [
        dict(name='transfer_fields', coq='fn_transfer_step',
             py_params=['segments', 'cnarr', 'ignore'],
             loop=dict(first='for i, bin_idx in enumerate(iter_slices('),
             carried=[('seg_genes[i]', 'S'), ('seg_weights[i]', 'Q'), ('seg_depths[i]', 'Q')],
             params=[('i', 'Z'),
                     ('bin_weights is not None', 'B', 'has_weights'),
                     ('bin_weights[bin_idx].sum()', 'Q', 'weight_sum'),
                     ('np.average(bin_depths[bin_idx], weights=bin_weights[bin_idx])', 'Q', 'weighted_mean'),
                     ('len(cdata.iloc[bin_idx])', 'Z', 'bin_count'),
                     ('bin_depths[bin_idx].mean()', 'Q', 'plain_mean'),
                     ('[g for g in pd.unique(bin_genes[bin_idx]) if g not in ignore]', 'LS', 'kept_genes')],
             ret=['S', 'Q', 'Q']),
    ]),
    # _do_segmentation's weight rule, per row (fragment `if min_weight: weight_too_low = ... else: weight_too_low = ...`):
    # whether the bin is masked out as "weight too low"; the bin's weight is an optional number (NaN = None), `.isna()`.
    # (Proofs/FnSegWeightMask.v: C03_source_weight_mask -- equals Model/Segment.v weight_too_low on the bin's weight)
    # mutations that break the tie: `< min_weight` -> `<= min_weight`; `== 0` -> `<= 0`   (both KILLED, see docstring)
    'FnSegWeightMask': ('cnvlib/segmentation/__init__.py', [
        dict(name='_do_segmentation', coq='fn_weight_too_low',
             py_params=['cnarr', 'method', 'diploid_parx_genome', 'threshold', 'variants', 'skip_low', 'skip_outliers',
                        'min_weight', 'save_dataframe', 'rscript_path', 'smooth_cbs'],
             fragment=dict(first='if min_weight:\n    weight_too_low', last='if min_weight:\n    weight_too_low'),
             returns=['weight_too_low'],
             params=[('min_weight', 'Q'), ("filtered_cn['weight']", 'OQ', 'weight')],
             ret='B'),
    ]),
    # transfer_fields' endpoint stretch (fragment: the two `if <segment's chromosome> == <bins' chromosome>:` statements with
    # their cell stores `segments.data.iloc[0, ...get_loc("start")] = bins_start`, `segments.data.iloc[-1, ...get_loc("end")] =
    # bins_end`): the first row's start and the last row's end afterwards.  The four chromosome names are opaque strings.
    # (Proofs/FnSegStretch.v: C03_source_stretch_rows / _transfer -- the model's raw_stretch_lo / raw_stretch_hi)
    # mutations that break the tie: `= bins_start` -> `= bins_end` at the first store; `iat[-1] == cnarr` -> `iat[-1] != cnarr`;
    # `iloc[-1, ` -> `iloc[0, ` at the second store   (all KILLED)
    'FnSegStretch': ('cnvlib/segmentation/__init__.py', [
        dict(name='transfer_fields', coq='fn_stretch',
             py_params=['segments', 'cnarr', 'ignore'],
             fragment=dict(first='if segments.chromosome.iat[0] == bins_chrom', last='if segments.chromosome.iat[-1] '),
             returns=["segments.data.iloc[0]['start']", "segments.data.iloc[-1]['end']"],
             params=[('segments.chromosome.iat[0]', 'S', 'seg_chrom_first'), ('bins_chrom', 'S'),
                     ('segments.chromosome.iat[-1]', 'S', 'seg_chrom_last'),
                     ('cnarr.chromosome.iat[-1]', 'S', 'bins_chrom_last'),
                     ('bins_start', 'Z'), ('bins_end', 'Z'),
                     ("segments.data.iloc[0]['start']", 'Z', 'first_start'),
                     ("segments.data.iloc[-1]['end']", 'Z', 'last_end')],
             ret=['Z', 'Z']),
    ]),
    # drop_outliers, the WHOLE function read per row as "the bin is kept" (row_filter): an empty table is returned as it is,
    # otherwise `return cnarr[~outlier_mask]`; the mask (np.concatenate of smoothing.rolling_outlier_quantile per chromosome) and
    # its sum are opaque inputs, the log-only `if n_outliers:` is dropped.
    # (Proofs/FnSegOutliers.v: C03_source_drop_outliers -- on a table with a row it is `negb outlier`, the second factor of
    # Model/Segment.v survives)
    # mutations: `return cnarr[~outlier_mask]` -> `return cnarr[outlier_mask]` KILLED; `if not len(cnarr):` -> `if len(cnarr):` KILLED
    'FnSegOutliers': ('cnvlib/segmentation/__init__.py', [
        dict(name='drop_outliers', coq='fn_drop_outliers_keep', py_params=['cnarr', 'width', 'factor'], row_filter='cnarr',
             params=[('len(cnarr)', 'Z', 'nrows'),
                     ("np.concatenate([smoothing.rolling_outlier_quantile(subarr['log2'], width, 0.95, factor) "
                      "for _chrom, subarr in cnarr.by_chromosome()])", 'B', 'outlier'),
                     ('outlier_mask.sum()', 'Z', 'n_outliers')],
             ret='B'),
    ]),
}
