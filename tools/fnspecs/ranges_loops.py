"""Loop ties of skgenome/intersect.py (property C07): loop bodies translated ONE ITERATION at a time
(tools/py2v_fn.py `loop=`), tied to Model/Ranges.v / Model/Into.v in Proofs/FnRangesNested.v, FnRangesIter.v,
FnRangesSlices.v, FnRangesInto.v and restated at the end of Props/C07.v (`C07_source_*`).  One generated module (and
one Proofs file) per tie.

FnRangesNested -- _irange_nested, ONE ITERATION of `for start_val, end_val in zip(starts, ends)` read for ONE ROW of the
  table (`element=`: the row's position k among the len(table) rows): region_mask is that row's bit, `np.ones(len(table),
  dtype=np.bool_)` is True, `region_mask[:int(start_idx)] = 0` / `region_mask[int(end_idx):] = 0` clear the bit when k
  lies in the slice (Python's meaning of a negative bound included), `table.end.values` is the row's end; the two
  searchsorted calls are opaque integers.  The iteration yields (bit, start_val, end_val).
  Tie (C07_source_nested_mask / C07_source_nested): Model/Ranges.v nested_mask IS the generated bit, row by row, with
  the model's searchsorted1 passed for the two searches; irange_nested is that per query.
  Mutations (each breaks Proofs/FnRangesNested.v at source_nested_elem, the spelled-out form source_nested_mask uses):
    `region_mask = table.end.values > start_val` -> `>=`
    `region_mask &= table.end.values <= end_val` -> `<`
    `region_mask[int(end_idx):] = 0` -> `region_mask[int(end_idx) + 1:] = 0`
    `if start_val:` -> `if start_val is not None:`
    `region_mask[: int(start_idx)] = 0` -> `region_mask[int(start_idx) :] = 0`

FnRangesIter -- iter_ranges, ONE ITERATION of `for region_idx, start_val, end_val in idx_ranges(...)` read for ONE ROW of
  the selection `table.iloc[region_idx]`: the row's (start, end) as yielded -- untouched unless mode == "trim", where
  `subtable.start = subtable.start.clip(lower=start_val)` under `if start_val:` and the same for the end (attribute
  stores into the copy `subtable`; `.clip(lower=)` / `.clip(upper=)`).  start_val / end_val are optional integers (None
  from idx_ranges' `slice(None), None, None`).
  Tie (C07_source_iter_row / C07_source_iter_ranges): what Model/Ranges.v iter_ranges does to a selection
  (`match m with QTrim => trim_rows sv ev sub | _ => sub`) IS the generated row function mapped over it.
  Mutations (each breaks Proofs/FnRangesIter.v at source_iter_elem; the first two also make the older fragment spec
  'FnRanges' of tools/fnspecs/intervals.py refuse):
    `if mode == "trim":` -> `if mode != "inner":`
    `subtable.start.clip(lower=start_val)` -> `subtable.start.clip(upper=start_val)`
    `if end_val:` -> `if end_val is not None:`
    `subtable.end = subtable.end.clip(upper=end_val)` -> `subtable.end = subtable.end.clip(upper=end_val - 1)`

FnRangesSlices -- iter_slices, ONE ITERATION of `for slc, _s, _e in idx_ranges(...)`: `indices` (the labels selected, an
  integer list) is yielded `if keep_empty or len(indices)`.
  Tie (C07_source_slices_step / C07_source_slices): the filter of Model/Ranges.v iter_slices (`match sub with [] =>
  keep_empty | _ => true`), on labels, IS the generated iteration.
  Mutations (each breaks Proofs/FnRangesSlices.v at source_slices_step):
    `if keep_empty or len(indices):` -> `if keep_empty and len(indices):`
    `if keep_empty or len(indices):` -> `if len(indices):`

FnRangesInto -- into_ranges' inner function series2value (the per-range summary): `default` for no hit, the single
  value for one hit, `summary_func(ser)` otherwise; values are strings here (the gene column of cnvkit's callers).
  Tie (C07_source_series2value): Model/Into.v series2value IS the generated function.
  Mutations (each breaks Proofs/FnRangesInto.v at source_series2value_fn):
    `if len(ser) == 1:` -> `if len(ser) <= 2:`
    `if len(ser) == 0:` -> `if len(ser) == 2:`
    `return ser.iat[0]` -> `return default`

Still outside: _irange_simple (searchsorted over whole key arrays; its closing zip loop only re-packs four arrays),
by_ranges' `for bin_row, subrange in zip(...)`: `yield bin_row, subrange` (a pairing, nothing decided), idx_ranges'
dispatch (`table.end.is_monotonic_increasing`, list-valued defaults).
"""
_NESTED = dict(
    name='_irange_nested', coq='fn_nested_elem', py_params=['table', 'starts', 'ends', 'mode'],
    loop=dict(first='for start_val, end_val in zip(starts, ends)'),
    element=dict(index='elem_index__', length='len(table)'),
    carried=[], yields=['B', 'Z', 'OZ'],
    params=[('elem_index__', 'Z', 'k'), ('len(table)', 'Z', 'n'), ('mode', 'S'),
            ('start_val', 'Z'), ('end_val', 'OZ'),
            ('table.start.searchsorted(start_val)', 'Z', 'start_search'),
            ('table.start.searchsorted(end_val)', 'Z', 'end_search'),
            ('table.end.values', 'Z', 'row_end')],
    ret='Y')

_ITER = dict(
    name='iter_ranges', coq='fn_iter_row', py_params=['table', 'chrom', 'starts', 'ends', 'mode'],
    loop=dict(first='for region_idx, start_val, end_val in idx_ranges('),
    carried=[], yields=['Z', 'Z'], yield_record=dict(base='subtable', fields=['start', 'end']),
    attr_stores=['subtable'],
    params=[('mode', 'S'), ('start_val', 'OZ'), ('end_val', 'OZ'),
            ('table.iloc[region_idx]', 'Z', 'selection'), ('subtable.copy()', 'Z', 'selection_copy'),
            ('subtable.start', 'Z', 'row_start'), ('subtable.end', 'Z', 'row_end')],
    ret='Y')

_SLICES = dict(
    name='iter_slices', coq='fn_slices_step', py_params=['table', 'other', 'mode', 'keep_empty'],
    loop=dict(first='for slc, _s, _e in idx_ranges('),
    carried=[], yields=['LZ'],
    params=[('keep_empty', 'B'), ('src_rows.index[slc].values', 'LZ', 'labels')],
    ret='Y')

_INTO = dict(
    name='into_ranges.series2value', coq='fn_series2value', py_params=['ser'],
    params=[('len(ser)', 'Z', 'n_hits'), ('default', 'S'), ('ser.iat[0]', 'S', 'single'),
            ('summary_func(ser)', 'S', 'summary')],
    ret='S')

MODULES = {
    'FnRangesNested': ('skgenome/intersect.py', [_NESTED]),
    'FnRangesIter': ('skgenome/intersect.py', [_ITER]),
    'FnRangesSlices': ('skgenome/intersect.py', [_SLICES]),
    'FnRangesInto': ('skgenome/intersect.py', [_INTO]),
}
