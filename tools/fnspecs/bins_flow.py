"""Control-flow ties of the target / antitarget commands (property C12) [loop ties e3]: WHICH table operation is applied
to WHICH table with WHICH arguments, in which order, under which option -- whole function bodies of cnvlib/antitarget.py
and cnvlib/target.py translated from the source text, tied to Model/Antitarget.v / Model/Target.v in Proofs/FnAntiFlow.v,
FnAntiDo.v, FnChromNames.v, FnGuessRegions.v, FnTargetFlow.v and restated at the end of Props/C12.v (`C12_source_*`).
One generated module per tie.

Reading conventions (as in tools/fnspecs/access.py FnAccessDispatch / FnAccessExclude): a table is an opaque id (type Z);
table functions and methods are function-typed inputs on ids (`('.subtract', 'F:Z,Z>Z')` is the method `.subtract` as a pure
function of the object and its argument).  The theorems hold under EVERY reading `tbl : Z -> list grow` of ids as tables in
which the function inputs are the model's operations: the table the generated definition returns is then the model's result.
`if accessible:` on a table id reads id 0 as the falsy table (None or no rows).

FnAntiFlow -- get_antitargets, from the first `if` to `bg_arr["gene"] = ANTITARGET_NAME`: which branch supplies the accessible
  regions (drop_noncanonical_contigs / guess_chromosome_regions with the literal 150000), pad_size = 2 * INSERT_SIZE, the
  chain accessible.resize_ranges(-pad).subtract(targets.resize_ranges(pad)).subdivide(avg, min), the name.
  Tie (C12_source_get_antitargets, C12_source_get_antitargets_body): Model/Antitarget.v get_antitargets IS the generated body
  under every reading in which the five function inputs are the model's operations.
  Mutations (each breaks Proofs/FnAntiFlow.v):
    `accessible.resize_ranges(-pad_size)` -> `accessible.resize_ranges(pad_size)`
    `if accessible:` -> `if not accessible:`
    `.subdivide(avg_bin_size, min_bin_size)` -> `.subdivide(avg_bin_size, 0)`
    `pad_size = 2 * INSERT_SIZE` -> `pad_size = INSERT_SIZE`
    `guess_chromosome_regions(targets, TELOMERE_SIZE)` -> `guess_chromosome_regions(targets, 0)`

FnAntiDo -- do_antitarget, the whole body (min_bin_size an integer, 0 = not given).
  Tie (C12_source_do_antitarget): Model/Antitarget.v do_antitarget IS the generated body: the default minimum
  (Gen/FnBins.v fn_effective_min) exactly when none is given, then get_antitargets(targets, access, avg, min).
  Mutations (each breaks Proofs/FnAntiDo.v):
    `get_antitargets(targets, access, avg_bin_size, min_bin_size)` -> `(targets, access, avg_bin_size, 0)`
    `get_antitargets(targets, access, ...)` -> `get_antitargets(access, targets, ...)`
    `if not min_bin_size:` -> `if min_bin_size:`   (also refused by the older fragment spec FnBins)

FnTargetFlow -- do_target, the whole body (spec key `raising_calls`: the statement antitarget.compare_chrom_names(..) is the
  boolean result `raised__`; the row filter of the second statement is the opaque table `nonzero_id`, its mask is FnTargetZero's).
  Tie (C12_source_do_target): Model/Target.v do_target_full IS the generated body: split first (minimum 0), then the
  annotation (name check, nothing written into an empty table, into_ranges on "gene" with default "-"), then the shortening.
  Mutations (each breaks Proofs/FnTargetFlow.v):
    `if do_split:` -> `if not do_split:`
    `tgt_arr.subdivide(avg_size, 0)` -> `tgt_arr.subdivide(avg_size, 1)`
    `if len(tgt_arr):` -> `if not len(tgt_arr):`
    `into_ranges(tgt_arr, "gene", "-")` -> `into_ranges(tgt_arr, "gene", "")`
    `antitarget.compare_chrom_names(tgt_arr, annotation)` -> `pass`
    `list(shorten_labels(tgt_arr["gene"]))` -> `list(tgt_arr["gene"])`
    `if do_short_names:` -> `if do_short_names and not annotate:`

FnChromNames -- compare_chrom_names: the raising test (located with `ast`) and the returned pair.
  Tie (C12_source_compare_chrom_names): Model/Target.v compare_chrom_names IS the generated body.
  Mutations: `if a_chroms and a_chroms.isdisjoint(b_chroms):` -> `if a_chroms.isdisjoint(b_chroms):` and
    -> `if a_chroms and not a_chroms.isdisjoint(b_chroms):` break Proofs/FnChromNames.v;
    `return a_chroms, b_chroms` -> `return b_chroms, a_chroms` is REFUSED (shape check of the spec).

FnGuessRegions -- guess_chromosome_regions per chromosome: the "start" / "end" entries of the dict display (located with `ast`).
  Tie (C12_source_guess_regions): Model/Antitarget.v guess_regions IS the generated row for every target chromosome.
  Mutations: `"start": telomere_size` -> `"start": 0` and `"end": endpoints` -> `"end": telomere_size` break
    Proofs/FnGuessRegions.v; `subarr.end.iat[-1]` -> `subarr.end.iat[0]` is REFUSED (unsupported expression ListComp: the
    comprehension is an opaque input keyed by its source text).
"""
import ast, os, sys


def _repo():
    for name in ('py2v_fn', '__main__'):
        m = sys.modules.get(name)
        if m is not None and hasattr(m, 'REPO') and hasattr(m, 'FnTranslator'):
            return m.REPO
    return os.environ.get('CNVKIT_REPO', '/repo')


def _func(rel, name):
    tree = ast.parse(open(os.path.join(_repo(), rel)).read())
    for ch in ast.walk(tree):
        if isinstance(ch, ast.FunctionDef) and ch.name == name:
            return ch
    raise ValueError('no definition %s' % name)


_GA = ['targets', 'accessible', 'avg_bin_size', 'min_bin_size']

_ANTI_FLOW = dict(
    name='get_antitargets', coq='fn_get_antitargets', py_params=_GA,
    params=[('targets', 'Z', 'targets_id'), ('accessible', 'Z', 'access_id'), ('avg_bin_size', 'Q'), ('min_bin_size', 'Z'),
            ('INSERT_SIZE', 'Z'), ('ANTITARGET_NAME', 'S'),
            ('drop_noncanonical_contigs', 'F:Z,Z>Z', 'drop_fn'),
            ('guess_chromosome_regions', 'F:Z,Z>Z', 'guess_fn'),
            ('.resize_ranges', 'F:Z,Z>Z', 'resize_fn'),
            ('.subtract', 'F:Z,Z>Z', 'subtract_fn'),
            ('.subdivide', 'F:Z,Q,Z>Z', 'subdivide_fn')],
    fragment=dict(first='if ', last="bg_arr['gene'] = "),
    returns=['bg_arr', "bg_arr['gene']"], ret=['Z', 'S'])

# do_antitarget, the whole body: the default minimum (min_bin_size read as an integer, 0 = not given -- see
# tools/fnspecs/bins.py) and the call of get_antitargets with its four arguments in their order
_ANTI_DO = dict(
    name='do_antitarget', coq='fn_do_antitarget', py_params=['targets', 'access', 'avg_bin_size', 'min_bin_size'],
    params=[('targets', 'Z', 'targets_id'), ('access', 'Z', 'access_id'), ('avg_bin_size', 'Q'), ('min_bin_size', 'Z'),
            ('MIN_REF_COVERAGE', 'Q'), ('get_antitargets', 'F:Z,Z,Q,Z>Z', 'get_fn')],
    ret='Z')

# do_target, the whole body.  The statement list is checked here (two assignments, three ifs, `return tgt_arr`) and the
# fragment anchored on its first and its last-but-one statement whatever their tests are, so that an edited test is
# translated (and breaks the proof) instead of making the fragment unfindable.
def _target_anchors():
    fn = _func('cnvlib/target.py', 'do_target')
    body = [s for s in fn.body if not (isinstance(s, ast.Expr) and isinstance(s.value, ast.Constant))]
    if [type(s) for s in body] != [ast.Assign, ast.Assign, ast.If, ast.If, ast.If, ast.Return]:
        raise ValueError('do_target is no longer two assignments, three ifs and a return')
    if ast.unparse(body[-1]) != 'return tgt_arr':
        raise ValueError('do_target no longer returns tgt_arr')
    return ast.unparse(body[0]).split('\n')[0], ast.unparse(body[-2]).split('\n')[0]


def _target_flow():
    try:
        first, last = _target_anchors()
    except Exception as exc:   # noqa -- fail closed
        first = last = '<do_target no longer has the expected shape: %s>' % exc
    return dict(
        name='do_target', coq='fn_do_target', py_params=['bait_arr', 'annotate', 'do_short_names', 'do_split', 'avg_size'],
        params=[('bait_arr', 'Z', 'bait_id'), ('annotate', 'Z', 'annotate_id'), ('do_short_names', 'B'), ('do_split', 'B'),
                ('avg_size', 'Q'),
                ('.copy', 'F:Z>Z', 'copy_fn'),
                ('tgt_arr[tgt_arr.start != tgt_arr.end]', 'Z', 'nonzero_id'),
                ('.subdivide', 'F:Z,Q,Z>Z', 'subdivide_fn'),
                ('tabio.read_auto', 'F:Z>Z', 'read_fn'),
                ('antitarget.compare_chrom_names', 'F:Z,Z>B', 'names_raise'),
                ('len', 'F:Z>Z', 'len_fn'),
                ('list', 'F:Z>Z', 'list_fn'),
                ('.into_ranges', 'F:Z,Z,S,S>Z', 'into_fn'),
                ('shorten_labels', 'F:Z>Z', 'shorten_fn'),
                ("tgt_arr['gene']", 'Z', 'genes_id')],
        raising_calls=['antitarget.compare_chrom_names'], init=[('raised__', 'B', 'false')],
        fragment=dict(first=first, last=last),
        returns=['tgt_arr', "tgt_arr['gene']", 'raised__'], ret=['Z', 'Z', 'B'])


# compare_chrom_names: the two name sets and the test under which it raises (located with `ast`; the message building
# between the test and the `raise` is f-string / repr code the translator does not read)
def _rule_names():
    fn = _func('cnvlib/antitarget.py', 'compare_chrom_names')
    body = [s for s in fn.body if not (isinstance(s, ast.Expr) and isinstance(s.value, ast.Constant))]
    if [type(s) for s in body] != [ast.Assign, ast.Assign, ast.If, ast.Return]:
        raise ValueError('compare_chrom_names is no longer two assignments, an if and a return')
    if [ast.unparse(s.targets[0]) for s in body[:2]] != ['a_chroms', 'b_chroms']:
        raise ValueError('the two assignments are no longer a_chroms = ..; b_chroms = ..')
    iff = body[2]
    if iff.orelse or not isinstance(iff.body[-1], ast.Raise) or 'ValueError' not in ast.unparse(iff.body[-1]):
        raise ValueError('the if no longer ends in raise ValueError, without else')
    if any(isinstance(x, (ast.Return, ast.Yield)) for s in iff.body for x in ast.walk(s)) or \
            any(isinstance(x, ast.Name) and isinstance(x.ctx, ast.Store) and x.id in ('a_chroms', 'b_chroms')
                for s in iff.body for x in ast.walk(s)):
        raise ValueError('the raising branch returns or rebinds the name sets')
    if ast.unparse(body[3]) != 'return (a_chroms, b_chroms)':
        raise ValueError('compare_chrom_names no longer returns a_chroms, b_chroms: %s' % ast.unparse(body[3]))
    return ast.unparse(iff.test)


def _names_spec():
    try:
        test, first, last = _rule_names(), 'a_chroms = ', 'b_chroms = '
    except Exception as exc:   # noqa -- fail closed
        test = 'a_chroms'
        first = last = '<compare_chrom_names no longer has the expected shape: %s>' % exc
    return dict(name='compare_chrom_names', coq='fn_chrom_names', py_params=['a_regions', 'b_regions'],
                params=[('set(a_regions.chromosome.unique())', 'LS', 'a_names'),
                        ('set(b_regions.chromosome.unique())', 'LS', 'b_names'),
                        ('.isdisjoint', 'F:LS,LS>B', 'isdisjoint_fn')],
                fragment=dict(first=first, last=last),
                returns=[test, 'a_chroms', 'b_chroms'], ret=['B', 'LS', 'LS'])


# guess_chromosome_regions, per chromosome of the targets: the row the dict display of GA.from_columns gives it -- start and
# end are located with `ast` (the "chromosome" entry is the chromosome itself: drop_duplicates keeps first-occurrence order);
# `endpoints` is the per-chromosome comprehension, its element read for this chromosome's sub-table
def _rule_guess():
    fn = _func('cnvlib/antitarget.py', 'guess_chromosome_regions')
    body = [s for s in fn.body if not (isinstance(s, ast.Expr) and isinstance(s.value, ast.Constant))]
    if [type(s) for s in body] != [ast.Assign, ast.Assign, ast.Return] or ast.unparse(body[2]) != 'return whole_chroms':
        raise ValueError('guess_chromosome_regions is no longer endpoints = ..; whole_chroms = ..; return whole_chroms')
    e = body[0]
    if not (ast.unparse(e.targets[0]) == 'endpoints' and isinstance(e.value, ast.ListComp) and len(e.value.generators) == 1
            and ast.unparse(e.value.generators[0].iter) == 'targets.by_chromosome()'
            and ast.unparse(e.value.generators[0].target) == '(_c, subarr)' and not e.value.generators[0].ifs):
        raise ValueError('endpoints is no longer [<E> for _c, subarr in targets.by_chromosome()]')
    w = body[1]
    if not (isinstance(w.value, ast.Call) and ast.unparse(w.value.func) == 'GA.from_columns' and len(w.value.args) == 1
            and not w.value.keywords and isinstance(w.value.args[0], ast.Dict)):
        raise ValueError('whole_chroms is no longer GA.from_columns({...})')
    d = w.value.args[0]
    keys = [k.value if isinstance(k, ast.Constant) else None for k in d.keys]
    if keys != ['chromosome', 'start', 'end']:
        raise ValueError('the columns are no longer chromosome, start, end: %s' % keys)
    vals = dict(zip(keys, d.values))
    if ast.unparse(vals['chromosome']) != 'targets.chromosome.drop_duplicates()':
        raise ValueError('the chromosome column is no longer targets.chromosome.drop_duplicates()')
    def per_chrom(v):          # the list `endpoints` gives each chromosome its own element; a scalar is broadcast
        return ast.unparse(e.value.elt) if ast.unparse(v) == 'endpoints' else ast.unparse(v)
    return per_chrom(vals['start']), per_chrom(vals['end'])


def _guess_spec():
    try:
        (start, end), first = _rule_guess(), 'endpoints = '
    except Exception as exc:   # noqa -- fail closed
        start = end = 'telomere_size'
        first = '<guess_chromosome_regions no longer has the expected shape: %s>' % exc
    return dict(name='guess_chromosome_regions', coq='fn_guess_row', py_params=['targets', 'telomere_size'],
                params=[('telomere_size', 'Z'), ('subarr.end.iat[-1]', 'Z', 'last_end'),
                        ('[subarr.end.iat[-1] for _c, subarr in targets.by_chromosome()]', 'Z', 'endpoints_id')],
                fragment=dict(first=first, last=first),
                returns=[start, end], ret=['Z', 'Z'])


MODULES = {
    'FnChromNames': ('cnvlib/antitarget.py', [_names_spec()]),
    'FnGuessRegions': ('cnvlib/antitarget.py', [_guess_spec()]),
    'FnTargetFlow': ('cnvlib/target.py', [_target_flow()]),
    'FnAntiFlow': ('cnvlib/antitarget.py', [_ANTI_FLOW]),
    'FnAntiDo': ('cnvlib/antitarget.py', [_ANTI_DO]),
}
