"""Control-flow ties of the target / antitarget commands (property C12) [loop ties e3]: WHICH table operation is applied
to WHICH table with WHICH arguments, in which order, under which option -- whole function bodies of cnvlib/antitarget.py
and cnvlib/target.py translated from the source text, tied to Model/Antitarget.v / Model/Target.v in Proofs/FnAntiFlow.v,
FnAntiDo.v, FnChromNames.v, FnGuessRegions.v, FnTargetFlow.v and restated at the end of Props/C12.v (`C12_source_*`).
One generated module per tie.

Reading conventions (as in tools/fnspecs/access.py FnAccessDispatch / FnAccessExclude): a table is an opaque id (type Z);
table functions and methods are function-typed inputs on ids (`('.subtract', 'F:Z,Z>Z')` is the method `.subtract` as a pure
function of the object and its argument).  The theorems hold under EVERY reading `tbl : Z -> list grow` of ids as tables in
which the function inputs are the model's operations: the table the generated definition returns is then the model's result.
`if accessible:` on a table id reads id 0 as the falsy table (None or no rows).
"""
import ast, os, sys


def _repo():
    for name in ('py2v_fn', '__main__'):
        m = sys.modules.get(name)
        if m is not None and hasattr(m, 'REPO') and hasattr(m, 'FnTranslator'):
            return m.REPO
    return os.environ.get('CNVKIT_REPO', '/repo')


def _func(rel, name):
    tree = ast.parse(open(os.path.join(_repo(), rel)).read())
    for ch in ast.walk(tree):
        if isinstance(ch, ast.FunctionDef) and ch.name == name:
            return ch
    raise ValueError('no definition %s' % name)


_GA = ['targets', 'accessible', 'avg_bin_size', 'min_bin_size']

_ANTI_FLOW = dict(
    name='get_antitargets', coq='fn_get_antitargets', py_params=_GA,
    params=[('targets', 'Z', 'targets_id'), ('accessible', 'Z', 'access_id'), ('avg_bin_size', 'Q'), ('min_bin_size', 'Z'),
            ('INSERT_SIZE', 'Z'), ('ANTITARGET_NAME', 'S'),
            ('drop_noncanonical_contigs', 'F:Z,Z>Z', 'drop_fn'),
            ('guess_chromosome_regions', 'F:Z,Z>Z', 'guess_fn'),
            ('.resize_ranges', 'F:Z,Z>Z', 'resize_fn'),
            ('.subtract', 'F:Z,Z>Z', 'subtract_fn'),
            ('.subdivide', 'F:Z,Q,Z>Z', 'subdivide_fn')],
    fragment=dict(first='if ', last="bg_arr['gene'] = "),
    returns=['bg_arr', "bg_arr['gene']"], ret=['Z', 'S'])

# do_antitarget, the whole body: the default minimum (min_bin_size read as an integer, 0 = not given -- see
# tools/fnspecs/bins.py) and the call of get_antitargets with its four arguments in their order
_ANTI_DO = dict(
    name='do_antitarget', coq='fn_do_antitarget', py_params=['targets', 'access', 'avg_bin_size', 'min_bin_size'],
    params=[('targets', 'Z', 'targets_id'), ('access', 'Z', 'access_id'), ('avg_bin_size', 'Q'), ('min_bin_size', 'Z'),
            ('MIN_REF_COVERAGE', 'Q'), ('get_antitargets', 'F:Z,Z,Q,Z>Z', 'get_fn')],
    ret='Z')

# do_target, the whole body.  The statement list is checked here (two assignments, three ifs, `return tgt_arr`) and the
# fragment anchored on its first and its last-but-one statement whatever their tests are, so that an edited test is
# translated (and breaks the proof) instead of making the fragment unfindable.
def _target_anchors():
    fn = _func('cnvlib/target.py', 'do_target')
    body = [s for s in fn.body if not (isinstance(s, ast.Expr) and isinstance(s.value, ast.Constant))]
    if [type(s) for s in body] != [ast.Assign, ast.Assign, ast.If, ast.If, ast.If, ast.Return]:
        raise ValueError('do_target is no longer two assignments, three ifs and a return')
    if ast.unparse(body[-1]) != 'return tgt_arr':
        raise ValueError('do_target no longer returns tgt_arr')
    return ast.unparse(body[0]).split('\n')[0], ast.unparse(body[-2]).split('\n')[0]


def _target_flow():
    try:
        first, last = _target_anchors()
    except Exception as exc:   # noqa -- fail closed
        first = last = '<do_target no longer has the expected shape: %s>' % exc
    return dict(
        name='do_target', coq='fn_do_target', py_params=['bait_arr', 'annotate', 'do_short_names', 'do_split', 'avg_size'],
        params=[('bait_arr', 'Z', 'bait_id'), ('annotate', 'Z', 'annotate_id'), ('do_short_names', 'B'), ('do_split', 'B'),
                ('avg_size', 'Q'),
                ('.copy', 'F:Z>Z', 'copy_fn'),
                ('tgt_arr[tgt_arr.start != tgt_arr.end]', 'Z', 'nonzero_id'),
                ('.subdivide', 'F:Z,Q,Z>Z', 'subdivide_fn'),
                ('tabio.read_auto', 'F:Z>Z', 'read_fn'),
                ('antitarget.compare_chrom_names', 'F:Z,Z>B', 'names_raise'),
                ('len', 'F:Z>Z', 'len_fn'),
                ('list', 'F:Z>Z', 'list_fn'),
                ('.into_ranges', 'F:Z,Z,S,S>Z', 'into_fn'),
                ('shorten_labels', 'F:Z>Z', 'shorten_fn'),
                ("tgt_arr['gene']", 'Z', 'genes_id')],
        raising_calls=['antitarget.compare_chrom_names'], init=[('raised__', 'B', 'false')],
        fragment=dict(first=first, last=last),
        returns=['tgt_arr', "tgt_arr['gene']", 'raised__'], ret=['Z', 'Z', 'B'])


MODULES = {
    'FnTargetFlow': ('cnvlib/target.py', [_target_flow()]),
    'FnAntiFlow': ('cnvlib/antitarget.py', [_ANTI_FLOW]),
    'FnAntiDo': ('cnvlib/antitarget.py', [_ANTI_DO]),
}
