"""Control-flow ties of the target / antitarget commands (property C12) [loop ties e3]: WHICH table operation is applied
to WHICH table with WHICH arguments, in which order, under which option -- whole function bodies of cnvlib/antitarget.py
and cnvlib/target.py translated from the source text, tied to Model/Antitarget.v / Model/Target.v in Proofs/FnAntiFlow.v,
FnAntiDo.v, FnChromNames.v, FnGuessRegions.v, FnTargetFlow.v and restated at the end of Props/C12.v (`C12_source_*`).
One generated module per tie.

Reading conventions (as in tools/fnspecs/access.py FnAccessDispatch / FnAccessExclude): a table is an opaque id (type Z);
table functions and methods are function-typed inputs on ids (`('.subtract', 'F:Z,Z>Z')` is the method `.subtract` as a pure
function of the object and its argument).  The theorems hold under EVERY reading `tbl : Z -> list grow` of ids as tables in
which the function inputs are the model's operations: the table the generated definition returns is then the model's result.
`if accessible:` on a table id reads id 0 as the falsy table (None or no rows).
"""
import ast, os, sys


def _repo():
    for name in ('py2v_fn', '__main__'):
        m = sys.modules.get(name)
        if m is not None and hasattr(m, 'REPO') and hasattr(m, 'FnTranslator'):
            return m.REPO
    return os.environ.get('CNVKIT_REPO', '/repo')


def _func(rel, name):
    tree = ast.parse(open(os.path.join(_repo(), rel)).read())
    for ch in ast.walk(tree):
        if isinstance(ch, ast.FunctionDef) and ch.name == name:
            return ch
    raise ValueError('no definition %s' % name)


_GA = ['targets', 'accessible', 'avg_bin_size', 'min_bin_size']

_ANTI_FLOW = dict(
    name='get_antitargets', coq='fn_get_antitargets', py_params=_GA,
    params=[('targets', 'Z', 'targets_id'), ('accessible', 'Z', 'access_id'), ('avg_bin_size', 'Q'), ('min_bin_size', 'Z'),
            ('INSERT_SIZE', 'Z'), ('ANTITARGET_NAME', 'S'),
            ('drop_noncanonical_contigs', 'F:Z,Z>Z', 'drop_fn'),
            ('guess_chromosome_regions', 'F:Z,Z>Z', 'guess_fn'),
            ('.resize_ranges', 'F:Z,Z>Z', 'resize_fn'),
            ('.subtract', 'F:Z,Z>Z', 'subtract_fn'),
            ('.subdivide', 'F:Z,Q,Z>Z', 'subdivide_fn')],
    fragment=dict(first='if ', last="bg_arr['gene'] = "),
    returns=['bg_arr', "bg_arr['gene']"], ret=['Z', 'S'])

# do_antitarget, the whole body: the default minimum (min_bin_size read as an integer, 0 = not given -- see
# tools/fnspecs/bins.py) and the call of get_antitargets with its four arguments in their order
_ANTI_DO = dict(
    name='do_antitarget', coq='fn_do_antitarget', py_params=['targets', 'access', 'avg_bin_size', 'min_bin_size'],
    params=[('targets', 'Z', 'targets_id'), ('access', 'Z', 'access_id'), ('avg_bin_size', 'Q'), ('min_bin_size', 'Z'),
            ('MIN_REF_COVERAGE', 'Q'), ('get_antitargets', 'F:Z,Z,Q,Z>Z', 'get_fn')],
    ret='Z')

MODULES = {
    'FnAntiFlow': ('cnvlib/antitarget.py', [_ANTI_FLOW]),
    'FnAntiDo': ('cnvlib/antitarget.py', [_ANTI_DO]),
}
