"""Loop bodies of cnvlib/segmentation/haar.py (the HaarSeg core, C11) translated ONE ITERATION at a time into
Gen/FnHaar*.v, so that the hand-written recursions of Model/Haar.v are tied to the loops they model
(Proofs/FnHaar.v, Props/C11.v `C11_source_*`).  One generated module per Python function: a refusal is attributed to
that function alone.

Reading conventions (the translator's elementwise view):
  * an array read is a parameter keyed by its source expression (`signal[highEnd]`, `weight[k - 1]`, `result[k - 1]`,
    `weights[seg_start:seg_end].sum()`, `np.mean(data[seg_start:seg_end])`): the theorems say which element of the
    model's list must be passed, with the index the generated step itself computes (highEnd / lowEnd / head / tail are
    results of the step);
  * `weight` / `weights` typed OQ stand for "the optional array": only `is None` / `is not None` is asked of them;
  * a store `result[k] = e` / `result[n] = e` at an integer index is the variable named by its source text
    (`result[k]`), listed in `carried` as a result of the step;
  * math.sqrt(stepHalfSize / 2) is the `sqrt` oracle of the generated module; the model takes that factor as its
    `scale` argument, the weighted tie is stated for scale == sqrt (h / 2).

What does NOT fit (reported, not worked around; the model + correspondence harness stay the only tie there; probed on
scratch copies with the offending statements removed one after the other):
  * FindLocalPeaks' loop body: refused at `sig_prev, sig_curr, sig_next = signal[k - 1:k + 2]` (tuple-unpacking
    assignment from a slice: "only `name = expr` / `table['column'] = expr` / `array[index] = expr` assignments").
    Behind it: `peakLoc.append(k)` (an expression statement with a side effect on a list -- the step would have a list
    output: "unsupported if-statement shape"), then `maxSuspect = None` ("unsupported constant None": assigning None to
    an option-typed carried variable).  The nested if/elif chains of assignments themselves are accepted.
  * UnifyLevels' inner `while addon_idx < len(addonLevel):` body: refused with "unsupported if-statement shape" -- the
    branches hold `joinedLevel.append(addon_elem)` (expression statement) and `assert ...`; and even without those two
    statements the shape `if A: x += 1  elif B: x += 1  else: break` is refused: a then-branch that falls through
    combined with an elif chain whose else-branch leaves the iteration (only "then-branch always leaves" or "both
    branches assignments / nested ifs of assignments" are supported).  The loop conditions (`while addon_idx <
    len(addonLevel) [and addonLevel[addon_idx] <= last_pos]`) are outside a loop-step translation by construction.
    Only the `last_pos = ...` statement after the loops fits (fragment).
"""
PY_CONV = ['signal', 'weight', 'stepHalfSize']
CONV_PARAMS = [('k', 'Z'), ('stepHalfSize', 'Z'), ('signalSize', 'Z'), ('weight', 'OQ'),
               ('result[k - 1]', 'Q', 'res_prev'),
               ('signal[highEnd]', 'Q', 'sig_high'), ('signal[lowEnd]', 'Q', 'sig_low'), ('signal[k - 1]', 'Q', 'sig_prev'),
               ('weight[highEnd]', 'Q', 'wt_high'), ('weight[lowEnd]', 'Q', 'wt_low'), ('weight[k - 1]', 'Q', 'wt_prev'),
               ('lowNonNormed', 'Q'), ('highNonNormed', 'Q'), ('lowWeightSum', 'Q'), ('highWeightSum', 'Q')]

MODULES = {
    'FnHaarConv': ('cnvlib/segmentation/haar.py', [
        # `for k in range(1, signalSize):` -- the mirrored indices and result[k]; used with weight = None
        dict(name='HaarConv', coq='fn_haarconv_step_u', py_params=PY_CONV,
             loop=dict(first='for k in range(1, signalSize)'),
             carried=[('highEnd', 'Z'), ('lowEnd', 'Z'), ('result[k]', 'Q')],
             params=CONV_PARAMS, ret='Q'),
        # the same iteration: the mirrored indices, the four running sums and result[k]; used with weight given
        dict(name='HaarConv', coq='fn_haarconv_step_w', py_params=PY_CONV,
             loop=dict(first='for k in range(1, signalSize)'),
             carried=[('highEnd', 'Z'), ('lowEnd', 'Z'), ('lowNonNormed', 'Q'), ('highNonNormed', 'Q'),
                      ('lowWeightSum', 'Q'), ('highWeightSum', 'Q'), ('result[k]', 'Q')],
             params=CONV_PARAMS, ret='Q'),
    ]),
    'FnHaarSegs': ('cnvlib/segmentation/haar.py', [
        # `for seg_start, seg_end in zip(...)`: which mean is taken, and the slice store segs[seg_start:seg_end] = val
        # read per element (in_seg: "this element's index lies in seg_start:seg_end")
        dict(name='SegmentByPeaks', coq='fn_segs_step', py_params=['data', 'peaks', 'weights'],
             loop=dict(first='for seg_start, seg_end in zip('),
             carried=[('segs', 'Q')],
             params=[('weights', 'OQ'), ('weights[seg_start:seg_end].sum()', 'Q', 'wsum'),
                     ('np.average(data[seg_start:seg_end], weights=weights[seg_start:seg_end])', 'Q', 'wavg'),
                     ('np.mean(data[seg_start:seg_end])', 'Q', 'mean'),
                     ('seg_start:seg_end', 'B', 'in_seg'), ('segs', 'Q')], ret='Q'),
    ]),
    'FnHaarUnify': ('cnvlib/segmentation/haar.py', [
        dict(name='UnifyLevels', coq='fn_unify_last_pos', py_params=['baseLevel', 'addonLevel', 'windowSize'],
             fragment=dict(first='last_pos = ', last='last_pos = '),
             params=[('baseLevel[-1]', 'Z', 'base_last'), ('len(baseLevel)', 'Z', 'base_len'), ('windowSize', 'Z')],
             returns=['last_pos'], ret='Z'),
    ]),
    'FnHaarPulse': ('cnvlib/segmentation/haar.py', [
        # `for k in range(pulseSize // 2, signalSize + (pulseSize // 2) - 1):`
        dict(name='PulseConv', coq='fn_pulseconv_step', py_params=['signal', 'pulseSize'],
             loop=dict(first='for k in range(pulseSize // 2, signalSize'),
             carried=[('head', 'Z'), ('tail', 'Z'), ('result[n]', 'Q'), ('n', 'Z')],
             params=[('k', 'Z'), ('n', 'Z'), ('pulseSize', 'Z'), ('signalSize', 'Z'), ('pulseHeight', 'Q'),
                     ('result[n - 1]', 'Q', 'res_prev'),
                     ('signal[head]', 'Q', 'sig_head'), ('signal[tail]', 'Q', 'sig_tail')], ret='Q'),
    ]),
}
