"""skgenome interval arithmetic and range queries: the scalar rules that sit inside table code, translated into
Gen/FnIntervals.v (C06) and Gen/FnRanges.v (C07).  None of these rules is a function of its own in /repo; each is a
statement (or an argument expression) inside a generator loop / a pandas call, which the translator's subset does not
cover as a whole (loops, `yield`, `**kwargs`, keyword arguments, attribute assignment).  The specs below therefore
locate the rule with Python's `ast` (fail-closed: when the surrounding code no longer has the expected shape the
fragment is made unfindable and the translator refuses -- a broken tie for the property), take the EXPRESSIONS from the
source text, and hand them to the translator as the results of a one-statement fragment:

* subdivide._split_targets (C06): `span = row.end - row.start`, the guard `span >= min_size`, the bin count
  `nbins = int(round(span / avg_size)) or 1` and the test `nbins == 1`.  The value-level `A or B` of Python is outside
  the translator's subset (its `or` is boolean); it is handed over as the equivalent `A if A else B`, built from the two
  operands found in the source.
* GenomicArray.resize_ranges (C06): `start=(table["start"] - bp).clip(**limits)`, `end=(table["end"] + bp).clip(**limits)`
  with limits = {"lower": 0} (+ "upper": the chromosome size when chrom_sizes is given), and the row filter
  `ok_size = table["end"] - table["start"] > 0`.  `**limits` is outside the subset; the clip is handed over with the
  limits spelled out (`max(x, lower)` without sizes, `x.clip(lower, upper)` with sizes), x and lower taken from the source.
* intersect.iter_ranges (C07), mode "trim": `if start_val: subtable.start = subtable.start.clip(lower=start_val)` and
  `if end_val: subtable.end = subtable.end.clip(upper=end_val)`, read per row: the TEST expressions (Python truthiness:
  a bound equal to 0 does not clip) and the clipped columns are taken from the source and handed over as
  `max(col, bound) if <test> else col` / `min(col, bound) if <test> else col`.
The loops themselves (subtract._subtraction's iteration with its edge cases, np.r_, slicing and the inner zip loop;
_irange_nested / iter_ranges / iter_slices one iteration at a time; the bin loop of _split_targets; merge.py's group
breaks, fast paths, _squash_tuples and _flatten_tuples) are translated by tools/fnspecs/iv_loops.py (C06) and
tools/fnspecs/ranges_loops.py (C07); still outside: _irange_simple (searchsorted over whole key arrays)."""
import ast, os, sys


def _repo():
    for name in ('py2v_fn', '__main__'):
        m = sys.modules.get(name)
        if m is not None and hasattr(m, 'REPO') and hasattr(m, 'FnTranslator'):
            return m.REPO
    return os.environ.get('CNVKIT_REPO', '/repo')


def _func(rel, qual):
    tree = ast.parse(open(os.path.join(_repo(), rel)).read())
    node = tree
    for part in qual.split('.'):
        found = None
        for ch in ast.walk(node):
            if ch is not node and isinstance(ch, (ast.FunctionDef, ast.ClassDef)) and ch.name == part:
                found = ch
                break
        if found is None:
            raise ValueError('no definition %s' % qual)
        node = found
    return node


# ---------------------------------------------------------------------------------------------------------------
# subdivide._split_targets

def _split_rule():
    """-> (guard source, nbins source as a conditional expression, single-bin test source)"""
    fn = _func('skgenome/subdivide.py', '_split_targets')
    loops = [s for s in fn.body if isinstance(s, ast.For)]
    if len(loops) != 1:
        raise ValueError('expected exactly one for-loop in _split_targets')
    loop = loops[0]
    if ast.unparse(loop.iter) != 'merge(regions).itertuples(index=False)' or ast.unparse(loop.target) != 'row':
        raise ValueError('the loop is no longer `for row in merge(regions).itertuples(index=False)`')
    if len(loop.body) != 2:
        raise ValueError('the loop body has %d statements' % len(loop.body))
    span, guard = loop.body
    if ast.unparse(span) != 'span = row.end - row.start':
        raise ValueError('first statement of the loop is %s' % ast.unparse(span))
    if not (isinstance(guard, ast.If) and not guard.orelse):
        raise ValueError('second statement of the loop is not a plain if')
    if {n.id for n in ast.walk(guard.test) if isinstance(n, ast.Name)} != {'span', 'min_size'}:
        raise ValueError('the guard reads other names: %s' % ast.unparse(guard.test))
    if len(guard.body) != 2:
        raise ValueError('the guarded block has %d statements' % len(guard.body))
    nb, single = guard.body
    if not (isinstance(nb, ast.Assign) and len(nb.targets) == 1 and ast.unparse(nb.targets[0]) == 'nbins'
            and isinstance(nb.value, ast.BoolOp) and isinstance(nb.value.op, ast.Or) and len(nb.value.values) == 2):
        raise ValueError('nbins is no longer `A or B`: %s' % ast.unparse(nb))
    a, b = (ast.unparse(v) for v in nb.value.values)
    if {n.id for n in ast.walk(nb.value) if isinstance(n, ast.Name)} - {'span', 'avg_size', 'int', 'round'}:
        raise ValueError('nbins reads other names: %s' % ast.unparse(nb.value))
    if not (isinstance(single, ast.If) and {n.id for n in ast.walk(single.test) if isinstance(n, ast.Name)} == {'nbins'}):
        raise ValueError('the single-bin test is %s' % ast.unparse(single))
    if not (len(single.body) == 1 and ast.unparse(single.body[0]) == 'yield row'):
        raise ValueError('a single bin no longer yields the row itself')
    nbins = '((%s) if (%s) else (%s))' % (a, a, b)
    test = ast.unparse(single.test)
    # `nbins` is not a variable of the one-statement fragment: substitute its defining expression
    tt = ast.parse(test, mode='eval').body

    class Sub(ast.NodeTransformer):
        def visit_Name(self, n):
            return ast.parse(nbins, mode='eval').body if n.id == 'nbins' else n
    test = ast.unparse(Sub().visit(tt))
    return ast.unparse(guard.test), nbins, test


def _split_spec():
    try:
        guard, nbins, single = _split_rule()
        first = 'span = '
    except Exception as exc:   # noqa -- fail closed
        guard = nbins = single = 'span'
        first = '<_split_targets no longer has the expected shape: %s>' % exc
    return dict(name='_split_targets', coq='fn_split_rule', py_params=['regions', 'avg_size', 'min_size', 'verbose'],
                params=[('row.start', 'Z', 'row_start'), ('row.end', 'Z', 'row_end'), ('avg_size', 'Q'), ('min_size', 'Z')],
                fragment={'first': first, 'last': first}, returns=[guard, nbins, single], ret=['B', 'Z', 'B'])


# ---------------------------------------------------------------------------------------------------------------
# GenomicArray.resize_ranges

def _resize_rule():
    """-> (start receiver, end receiver, lower literal): table.assign(start=(X).clip(**limits), end=(Y).clip(**limits))"""
    fn = _func('skgenome/gary.py', 'GenomicArray.resize_ranges')
    body = [s for s in fn.body if not (isinstance(s, ast.Expr) and isinstance(s.value, ast.Constant))]
    src = [ast.unparse(s) for s in body]
    if src[0] != 'table = self.data' or src[1] != "limits = {'lower': 0}":
        raise ValueError('resize_ranges no longer starts with table = self.data; limits = {"lower": 0}')
    if src[2] != "if chrom_sizes:\n    limits['upper'] = self.chromosome.map(chrom_sizes)":
        raise ValueError('the upper limit is no longer self.chromosome.map(chrom_sizes) under `if chrom_sizes:`')
    asg = body[3]
    if not (isinstance(asg, ast.Assign) and ast.unparse(asg.targets[0]) == 'table' and isinstance(asg.value, ast.Call)
            and ast.unparse(asg.value.func) == 'table.assign' and not asg.value.args
            and [k.arg for k in asg.value.keywords] == ['start', 'end']):
        raise ValueError('the fourth statement is not table = table.assign(start=..., end=...)')
    recv = []
    for k in asg.value.keywords:
        v = k.value
        if not (isinstance(v, ast.Call) and isinstance(v.func, ast.Attribute) and v.func.attr == 'clip' and not v.args
                and len(v.keywords) == 1 and v.keywords[0].arg is None and ast.unparse(v.keywords[0].value) == 'limits'):
            raise ValueError('%s is not <expr>.clip(**limits)' % k.arg)
        recv.append(ast.unparse(v.func.value))
    if not (isinstance(body[4], ast.If) and ast.unparse(body[4].test) == 'bp < 0'):
        raise ValueError('the row filter is no longer under `if bp < 0:`')
    inner = [ast.unparse(s) for s in body[4].body]
    if not (inner[0].startswith('ok_size = ') and inner[-1] == 'table = table[ok_size]'):
        raise ValueError('the row filter is no longer table = table[ok_size]')
    lower = body[1].value.values[0]
    return recv[0], recv[1], ast.unparse(lower)


def _resize_specs():
    try:
        xs, xe, lower = _resize_rule()
        first = 'ok_size = '
    except Exception as exc:   # noqa -- fail closed
        xs = xe = "table['start']"
        lower = '0'
        first = '<resize_ranges no longer has the expected shape: %s>' % exc
    common = dict(name='GenomicArray.resize_ranges', py_params=['self', 'bp', 'chrom_sizes'],
                  fragment={'first': first, 'last': first})
    return [
        # without chrom_sizes: clip(lower=0)
        dict(common, coq='fn_resize_open',
             params=[("table['start']", 'Z', 'start'), ("table['end']", 'Z', 'end_'), ('bp', 'Z')],
             returns=['max(%s, %s)' % (xs, lower), 'max(%s, %s)' % (xe, lower)], ret=['Z', 'Z']),
        # with chrom_sizes: clip(lower=0, upper=size of the row's chromosome)
        dict(common, coq='fn_resize_sized',
             params=[("table['start']", 'Z', 'start'), ("table['end']", 'Z', 'end_'), ('bp', 'Z'),
                     ('self.chromosome.map(chrom_sizes)', 'Z', 'upper')],
             returns=['(%s).clip(%s, self.chromosome.map(chrom_sizes))' % (xs, lower),
                      '(%s).clip(%s, self.chromosome.map(chrom_sizes))' % (xe, lower)], ret=['Z', 'Z']),
        # the row filter (on the resized coordinates): ok_size = table["end"] - table["start"] > 0
        dict(common, coq='fn_resize_ok',
             params=[("table['start']", 'Z', 'start'), ("table['end']", 'Z', 'end_')],
             returns=['ok_size'], ret='B'),
    ]


# ---------------------------------------------------------------------------------------------------------------
# intersect.iter_ranges, mode == "trim"

def _trim_rule():
    """-> (test of the start clip, column, bound, test of the end clip, column, bound)"""
    fn = _func('skgenome/intersect.py', 'iter_ranges')
    trims = [n for n in ast.walk(fn) if isinstance(n, ast.If) and ast.unparse(n.test) == "mode == 'trim'"]
    if len(trims) != 1:
        raise ValueError('expected exactly one `if mode == "trim":` in iter_ranges')
    blk = trims[0].body
    if ast.unparse(blk[0]) != 'subtable = subtable.copy()' or len(blk) != 3:
        raise ValueError('the trim block is no longer copy + two conditional clips')
    out = []
    for st, col, kw in ((blk[1], 'subtable.start', 'lower'), (blk[2], 'subtable.end', 'upper')):
        if not (isinstance(st, ast.If) and not st.orelse and len(st.body) == 1 and isinstance(st.body[0], ast.Assign)):
            raise ValueError('unexpected statement in the trim block: %s' % ast.unparse(st))
        a = st.body[0]
        v = a.value
        if not (ast.unparse(a.targets[0]) == col and isinstance(v, ast.Call) and ast.unparse(v.func) == col + '.clip'
                and not v.args and len(v.keywords) == 1 and v.keywords[0].arg == kw):
            raise ValueError('%s is no longer assigned %s.clip(%s=...)' % (col, col, kw))
        out += [ast.unparse(st.test), col, ast.unparse(v.keywords[0].value)]
    return out


def _trim_spec():
    try:
        t1, c1, b1, t2, c2, b2 = _trim_rule()
        first = 'subtable = subtable.copy()'
    except Exception as exc:   # noqa -- fail closed
        t1 = t2 = 'start_val'
        c1 = c2 = 'subtable.start'
        b1 = b2 = 'start_val'
        first = '<iter_ranges no longer has the expected trim block: %s>' % exc
    # the fragment is the first statement of the trim block (`subtable = subtable.copy()`, an opaque input: the copy
    # has the same rows); the two conditional clips that follow it are the results
    return dict(name='iter_ranges', coq='fn_trim_row', py_params=['table', 'chrom', 'starts', 'ends', 'mode'],
                params=[('subtable.copy()', 'Z', 'subtable_copy'), ('subtable.start', 'Z', 'row_start'),
                        ('subtable.end', 'Z', 'row_end'), ('start_val', 'Z'), ('end_val', 'Z')],
                fragment={'first': first, 'last': first},
                returns=['(max(%s, %s) if %s else %s)' % (c1, b1, t1, c1), '(min(%s, %s) if %s else %s)' % (c2, b2, t2, c2)],
                ret=['Z', 'Z'])


MODULES = {
    'FnIntervals': ('skgenome/subdivide.py', [_split_spec()]),
    'FnIntervalsResize': ('skgenome/gary.py', _resize_specs()),
    'FnRanges': ('skgenome/intersect.py', [_trim_spec()]),
}
