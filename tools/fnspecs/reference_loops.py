"""Loop ties / function-body ties of cnvlib/reference.py for property C05 (second batch; the first batch is reference.py).
One generated module per tie; the theorems are in Proofs/Fn<Module>.v and restated at the end of Props/C05.v.

FnRefColumns     load_sample_block, the statement that decides the gc / rmask columns of a block, per bin:
                     if fa_fname and (fix_rmask or fix_gc): gc, rmask = get_fasta_stats(..); if fix_gc: ..; if fix_rmask: ..
                     elif "gc" in cnarr1 and fix_gc: gc = cnarr1["gc"]; ref_columns["gc"] = gc
                 `ref_columns["gc"]` / `ref_columns["rmask"]` are optional numbers (None: the dict has no such key, init),
                 the two results of get_fasta_stats (unpacked as e[0], e[1]) and the stored gc are the bin's values
                                                                              (C05_source_ref_columns)
FnRefFlatRow     do_reference_flat's column code per row: log2 = the flat level, depth = np.exp2(log2), the FASTA columns
                                                                  (C05_source_flat_row, C05_source_flat_row_fasta)
FnRefBedRow      bed2probes' column code per row: gene (the file's or "-"), log2 = 0.0, spread = 0.0
                                                                  (C05_source_bed_row_spread, C05_source_bed_row_gene)

Mutations tried on a scratch copy (tools/mut_fn.sh; KILLED = the named Proofs file no longer compiles, REFUSED = the
translator refuses the module, which the check reports as a broken tie):
  FnRefColumns    `(fix_rmask or fix_gc)` -> `and` KILLED ; `elif "gc" in cnarr1 and fix_gc` -> `elif "gc" in cnarr1` KILLED ;
                  `ref_columns["rmask"] = rmask` -> `= gc` KILLED ; `if fix_rmask:` -> `if fix_gc:` KILLED
  FnRefFlatRow    `np.exp2(ref_probes["log2"])` -> `np.exp2(-ref_probes["log2"])` KILLED ; `ref_probes["rmask"] = rmask` -> `= gc`
                  KILLED ; `if fa_fname:` -> `if not fa_fname:` KILLED
  FnRefBedRow     `table["spread"] = 0.0` -> `1.0` KILLED ; `"gene" in regions.data` -> `not in` REFUSED (the keyed input is
                  gone) ; `table["log2"] = 0.0` -> `-1.0` KILLED
"""

_LSB = ['filenames', 'fa_fname', 'is_haploid_x', 'diploid_parx_genome', 'sexes', 'skip_low', 'fix_gc', 'fix_edge', 'fix_rmask']

MODULES = {
    'FnRefColumns': ('cnvlib/reference.py', [
        dict(name='load_sample_block', coq='fn_ref_columns', py_params=_LSB,
             fragment=dict(first='if fa_fname and ', last='if fa_fname and '),
             init=[("ref_columns['gc']", 'OQ', 'None'), ("ref_columns['rmask']", 'OQ', 'None'),
                   ('gc', 'Q', '(inject_Z 0)'), ('rmask', 'Q', '(inject_Z 0)')],   # locals unbound on the other paths, never read there
             params=[('fa_fname', 'S'), ('fix_rmask', 'B'), ('fix_gc', 'B'),
                     ('get_fasta_stats(cnarr1, fa_fname)[0]', 'Q', 'fasta_gc'),
                     ('get_fasta_stats(cnarr1, fa_fname)[1]', 'Q', 'fasta_rmask'),
                     ("'gc' in cnarr1", 'B', 'has_gc'), ("cnarr1['gc']", 'Q', 'stored_gc')],
             returns=["ref_columns['gc']", "ref_columns['rmask']"], ret=['OQ', 'OQ']),
    ]),
    # do_reference_flat, the column code per row: log2 = the flat level (expect_flat_log2, an input: FnCnaryFlat / C05_source
    # tie it), depth = np.exp2(log2) (oracle), gc / rmask from the FASTA statistics when a FASTA is given (else no column)
    'FnRefFlatRow': ('cnvlib/reference.py', [
        dict(name='do_reference_flat', coq='fn_flat_row',
             py_params=['targets', 'antitargets', 'fa_fname', 'is_haploid_x_reference', 'diploid_parx_genome'],
             fragment=dict(first="ref_probes['log2'] = ", last='if '),
             init=[("ref_probes['gc']", 'OQ', 'None'), ("ref_probes['rmask']", 'OQ', 'None'),
                   ('gc', 'Q', '(inject_Z 0)'), ('rmask', 'Q', '(inject_Z 0)')],
             params=[('ref_probes.expect_flat_log2(is_haploid_x_reference, diploid_parx_genome)', 'Q', 'flat_level'),
                     ('fa_fname', 'S'), ('get_fasta_stats(ref_probes, fa_fname)[0]', 'Q', 'fasta_gc'),
                     ('get_fasta_stats(ref_probes, fa_fname)[1]', 'Q', 'fasta_rmask')],
             returns=["ref_probes['log2']", "ref_probes['depth']", "ref_probes['gc']", "ref_probes['rmask']"],
             ret=['Q', 'Q', 'OQ', 'OQ']),
    ]),
    # bed2probes, the column code per row: the gene name (the file's, or "-"), log2 = 0.0, spread = 0.0
    'FnRefBedRow': ('cnvlib/reference.py', [
        dict(name='bed2probes', coq='fn_bed_row', py_params=['bed_fname'],
             fragment=dict(first="table['gene'] = ", last="table['spread'] = "),
             params=[("regions.data['gene']", 'S', 'gene_col'), ("'gene' in regions.data", 'B', 'has_gene')],
             returns=["table['gene']", "table['log2']", "table['spread']"], ret=['S', 'Q', 'Q']),
    ]),
}
