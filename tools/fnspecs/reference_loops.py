"""Loop ties / function-body ties of cnvlib/reference.py for property C05 (second batch; the first batch is reference.py).
One generated module per tie; the theorems are in Proofs/Fn<Module>.v and restated at the end of Props/C05.v.

FnRefColumns     load_sample_block, the statement that decides the gc / rmask columns of a block, per bin:
                     if fa_fname and (fix_rmask or fix_gc): gc, rmask = get_fasta_stats(..); if fix_gc: ..; if fix_rmask: ..
                     elif "gc" in cnarr1 and fix_gc: gc = cnarr1["gc"]; ref_columns["gc"] = gc
                 `ref_columns["gc"]` / `ref_columns["rmask"]` are optional numbers (None: the dict has no such key, init),
                 the two results of get_fasta_stats (unpacked as e[0], e[1]) and the stored gc are the bin's values
                                                                              (C05_source_ref_columns)
FnRefFlatRow     do_reference_flat's column code per row: log2 = the flat level, depth = np.exp2(log2), the FASTA columns
                                                                  (C05_source_flat_row, C05_source_flat_row_fasta)
FnRefBedRow      bed2probes' column code per row: gene (the file's or "-"), log2 = 0.0, spread = 0.0
                                                                  (C05_source_bed_row_spread, C05_source_bed_row_gene)
FnRefSummarize   summarize_info per bin (per column of the matrices: translator key `columns`): biweight_location of the log2 /
                 depth column, biweight_midvariance(column, initial=the log2 centre), the result dict
                                                                  (C05_source_summarize, C05_source_summarize_spread)
FnRefBlock       load_sample_block's two matrices per bin: the initial lists (flat pseudo-sample first) and one iteration of
                 `for fname in filenames[1:]` (two appends; the bin-identity check raises)   (C05_source_block_columns)
FnRefBias        bias_correct_logr's dispatch (low-coverage test, the three corrections in order), tables as opaque ids; the
                 statements around it shape-checked with `ast`
                                          (C05_source_bias_off, C05_source_bias_mostly_low, C05_source_bias_corrections)
FnRefSexesInfer  infer_sexes' loop, one iteration (dict entry `sexes[cnarr.sample_id]` carried as an optional boolean)
                                                                              (C05_source_infer_sexes)
FnRefSexesMerge  do_reference's loop over the antitarget calls, one iteration   (C05_source_sexes_merge_step, C05_source_sexes_inferred)
FnRefSexesGiven  do_reference's loop for a given sex, one iteration             (C05_source_sexes_given)

Mutations tried on a scratch copy (tools/mut_fn.sh; KILLED = the named Proofs file no longer compiles, REFUSED = the
translator refuses the module, which the check reports as a broken tie):
  FnRefColumns    `(fix_rmask or fix_gc)` -> `and` KILLED ; `elif "gc" in cnarr1 and fix_gc` -> `elif "gc" in cnarr1` KILLED ;
                  `ref_columns["rmask"] = rmask` -> `= gc` KILLED ; `if fix_rmask:` -> `if fix_gc:` KILLED
  FnRefFlatRow    `np.exp2(ref_probes["log2"])` -> `np.exp2(-ref_probes["log2"])` KILLED ; `ref_probes["rmask"] = rmask` -> `= gc`
                  KILLED ; `if fa_fname:` -> `if not fa_fname:` KILLED
  FnRefBedRow     `table["spread"] = 0.0` -> `1.0` KILLED ; `"gene" in regions.data` -> `not in` REFUSED (the keyed input is
                  gone) ; `table["log2"] = 0.0` -> `-1.0` KILLED
  FnRefSummarize  `initial=i` dropped REFUSED (called with other arguments than its declared type) ; depth centre taken from
                  all_logr KILLED ; "log2": depth_centers KILLED ; `zip(all_logr.T, depth_centers)` KILLED ; axis 0 -> 1 REFUSED
  FnRefBlock      `ref_flat_logr,` -> `-ref_flat_logr,` KILLED ; the loop's `all_logr.append(` -> `all_depths.append(` KILLED ;
                  the appended depth `cnarrx["depth"] if ...` -> `cnarrx["log2"] if ...` KILLED
  FnRefBias       `if fix_edge:` -> `if not fix_edge:` KILLED ; `.sum() <= len(cnarr) // 2` -> `>` KILLED ; `"gc" in ref_columns and
                  fix_gc` -> `or` KILLED ; the shift_sex_chroms call removed REFUSED (shape check)
  FnRefSexesMerge `if t_is_xx is None` -> `is not None` KILLED ; `t_is_xx != a_is_xx` -> `==` KILLED ; the override storing
                  t_is_xx REFUSED (branches of different types B / OB)
  FnRefSexesInfer `if is_xx is not None` -> `is None` KILLED ; `if cnarr:` -> `if not cnarr:` KILLED ; `= is_xx` -> `= ~is_xx`
                  REFUSED (~ on a non-boolean)
  FnRefSexesGiven `= female_samples` -> `= not female_samples` KILLED
"""

_LSB = ['filenames', 'fa_fname', 'is_haploid_x', 'diploid_parx_genome', 'sexes', 'skip_low', 'fix_gc', 'fix_edge', 'fix_rmask']
_DOREF = ['target_fnames', 'antitarget_fnames', 'fa_fname', 'is_haploid_x_reference', 'diploid_parx_genome', 'female_samples',
          'do_gc', 'do_edge', 'do_rmask', 'do_cluster', 'min_cluster_size']
_BCL = ('bias_correct_logr(%s, ref_columns, ref_edge_bias, ref_flat_logr, sexes, is_chr_x, is_chr_y, fix_gc, fix_edge, '
        'fix_rmask, skip_low, diploid_parx_genome)')


def _bias_shape():
    """bias_correct_logr is: docstring; cnarr.center_all(skip_low=skip_low, diploid_parx_genome=diploid_parx_genome);
    shift_sex_chroms(cnarr, sexes, ref_flat_logr, is_chr_x, is_chr_y); if <test>: <warning> else: <corrections>;
    return cnarr['log2']   ->  prefix that finds the if statement (fail-closed: an unfindable prefix otherwise)"""
    import ast, os, sys
    repo = os.environ.get('CNVKIT_REPO', '/repo')
    for name in ('py2v_fn', '__main__'):
        m = sys.modules.get(name)
        if m is not None and hasattr(m, 'REPO') and hasattr(m, 'FnTranslator'):
            repo = m.REPO
    try:
        fn = [n for n in ast.walk(ast.parse(open(os.path.join(repo, 'cnvlib/reference.py')).read()))
              if isinstance(n, ast.FunctionDef) and n.name == 'bias_correct_logr'][0]
        body = [s for s in fn.body if not (isinstance(s, ast.Expr) and isinstance(s.value, ast.Constant))]
        if len(body) != 4:
            raise ValueError('%d statements' % len(body))
        c, sh, iff, ret = body
        if ast.unparse(c) != 'cnarr.center_all(skip_low=skip_low, diploid_parx_genome=diploid_parx_genome)':
            raise ValueError('first statement is not the in-place centring')
        if ast.unparse(sh) != 'shift_sex_chroms(cnarr, sexes, ref_flat_logr, is_chr_x, is_chr_y)':
            raise ValueError('second statement is not the in-place sex-chromosome shift')
        if not (isinstance(iff, ast.If) and iff.orelse):
            raise ValueError('third statement is not if / else')
        if ast.unparse(ret) != "return cnarr['log2']":
            raise ValueError("last statement is not return cnarr['log2']")
        return 'if '
    except Exception as exc:   # noqa -- fail closed
        return '<cnvlib/reference.py bias_correct_logr no longer has the expected shape: %s>' % exc


MODULES = {
    'FnRefColumns': ('cnvlib/reference.py', [
        dict(name='load_sample_block', coq='fn_ref_columns', py_params=_LSB,
             fragment=dict(first='if fa_fname and ', last='if fa_fname and '),
             init=[("ref_columns['gc']", 'OQ', 'None'), ("ref_columns['rmask']", 'OQ', 'None'),
                   ('gc', 'Q', '(inject_Z 0)'), ('rmask', 'Q', '(inject_Z 0)')],   # locals unbound on the other paths, never read there
             params=[('fa_fname', 'S'), ('fix_rmask', 'B'), ('fix_gc', 'B'),
                     ('get_fasta_stats(cnarr1, fa_fname)[0]', 'Q', 'fasta_gc'),
                     ('get_fasta_stats(cnarr1, fa_fname)[1]', 'Q', 'fasta_rmask'),
                     ("'gc' in cnarr1", 'B', 'has_gc'), ("cnarr1['gc']", 'Q', 'stored_gc')],
             returns=["ref_columns['gc']", "ref_columns['rmask']"], ret=['OQ', 'OQ']),
    ]),
    # do_reference_flat, the column code per row: log2 = the flat level (expect_flat_log2, an input: FnCnaryFlat / C05_source
    # tie it), depth = np.exp2(log2) (oracle), gc / rmask from the FASTA statistics when a FASTA is given (else no column)
    'FnRefFlatRow': ('cnvlib/reference.py', [
        dict(name='do_reference_flat', coq='fn_flat_row',
             py_params=['targets', 'antitargets', 'fa_fname', 'is_haploid_x_reference', 'diploid_parx_genome'],
             fragment=dict(first="ref_probes['log2'] = ", last='if '),
             init=[("ref_probes['gc']", 'OQ', 'None'), ("ref_probes['rmask']", 'OQ', 'None'),
                   ('gc', 'Q', '(inject_Z 0)'), ('rmask', 'Q', '(inject_Z 0)')],
             params=[('ref_probes.expect_flat_log2(is_haploid_x_reference, diploid_parx_genome)', 'Q', 'flat_level'),
                     ('fa_fname', 'S'), ('get_fasta_stats(ref_probes, fa_fname)[0]', 'Q', 'fasta_gc'),
                     ('get_fasta_stats(ref_probes, fa_fname)[1]', 'Q', 'fasta_rmask')],
             returns=["ref_probes['log2']", "ref_probes['depth']", "ref_probes['gc']", "ref_probes['rmask']"],
             ret=['Q', 'Q', 'OQ', 'OQ']),
    ]),
    # the `sexes` dictionary (sample id -> is_xx).  One iteration each of the three loops that fill it; the dict entry stored
    # into (`sexes[<key>] = v`, a string key) is the carried variable, an optional boolean (None: no entry):
    #   infer_sexes           for fname in cnn_fnames: cnarr = read_cna(fname); if cnarr: is_xx = cnarr.guess_xx(..); if is_xx
    #                         is not None: sexes[cnarr.sample_id] = is_xx          (read_cna(fname) is read by its truth value)
    #   do_reference (merge)  for sid, a_is_xx in a_sexes.items(): the antitarget call completes / overrides the target call
    #   do_reference (given)  for fname in target_fnames: sexes[read_cna(fname).sample_id] = female_samples
    'FnRefSexesInfer': ('cnvlib/reference.py', [
        dict(name='infer_sexes', coq='fn_infer_step', py_params=['cnn_fnames', 'is_haploid_x', 'diploid_parx_genome'],
             loop=dict(first='for fname in cnn_fnames'), carried=[('sexes[cnarr.sample_id]', 'OB')],
             params=[('read_cna(fname)', 'B', 'has_rows'), ('cnarr.sample_id', 'S', 'sample_id'),
                     ('cnarr.guess_xx(is_haploid_x, diploid_parx_genome)', 'OB', 'guessed'),
                     ('sexes[cnarr.sample_id]', 'OB', 'entry')],
             ret='OB'),
    ]),
    'FnRefSexesMerge': ('cnvlib/reference.py', [
        dict(name='do_reference', coq='fn_merge_step', py_params=_DOREF,
             loop=dict(first='for sid, a_is_xx in a_sexes.items()'), carried=[('sexes[sid]', 'OB')],
             params=[('sid', 'S'), ('a_is_xx', 'OB'), ('sexes.get(sid)', 'OB', 'target_call'), ('sexes[sid]', 'OB', 'entry')],
             ret='OB'),
    ]),
    'FnRefSexesGiven': ('cnvlib/reference.py', [
        dict(name='do_reference', coq='fn_given_step', py_params=_DOREF,
             loop=dict(first='for fname in target_fnames'), carried=[('sexes[read_cna(fname).sample_id]', 'OB')],
             params=[('read_cna(fname).sample_id', 'S', 'sample_id'), ('female_samples', 'B'),
                     ('sexes[read_cna(fname).sample_id]', 'OB', 'entry')],
             ret='OB'),
    ]),
    # summarize_info, per bin (= per column of the two matrices, key `columns`): the log2 centre is biweight_location of the
    # bin's column of all_logr, the depth centre that of all_depths, the spread biweight_midvariance of the log2 column with
    # initial = THE LOG2 CENTRE; the result dict's three entries.  The two estimators are function-typed inputs.
    'FnRefSummarize': ('cnvlib/reference.py', [
        dict(name='summarize_info', coq='fn_summarize', py_params=['all_logr', 'all_depths'],
             columns=['all_logr', 'all_depths'],
             fragment=dict(first='cvg_centers = ', last='result = {'),
             params=[('all_logr', 'LQ', 'logr_column'), ('all_depths', 'LQ', 'depth_column'),
                     ('descriptives.biweight_location', 'F:LQ>Q', 'biweight_location'),
                     ('descriptives.biweight_midvariance', 'F:LQ,initial=Q>Q', 'biweight_midvariance')],
             returns=["result['log2']", "result['depth']", "result['spread']"], ret=['Q', 'Q', 'Q']),
    ]),
    # load_sample_block, how the two matrices are put together, per bin (all_depths / all_logr are lists of rows; per bin each
    # is the list of the bin's values, one per row): the initial lists (the first file's depth -- the depth column or
    # np.exp2(log2) --; the FLAT pseudo-sample first, then the first file's corrected log2) and ONE ITERATION of
    # `for fname in filenames[1:]` (the bin-identity check raises: recorded; each file appends its depth and its corrected
    # log2).  bias_correct_logr(...) of a file is the bin's corrected log2, an input.
    'FnRefBlock': ('cnvlib/reference.py', [
        dict(name='load_sample_block', coq='fn_block_init', py_params=_LSB,
             fragment=dict(first='all_depths = [', last='all_logr = ['),
             params=[("'depth' in cnarr1", 'B', 'has_depth'), ("cnarr1['depth']", 'Q', 'depth'), ("cnarr1['log2']", 'Q', 'log2_'),
                     ('ref_flat_logr', 'Q'), (_BCL % 'cnarr1', 'Q', 'corrected')],
             returns=['all_depths', 'all_logr'], ret=['LQ', 'LQ']),
        dict(name='load_sample_block', coq='fn_block_step', py_params=_LSB,
             loop=dict(first='for fname in filenames[1:]:\n    logging.info('), carried=[('all_depths', 'LQ'), ('all_logr', 'LQ')],
             params=[('all_depths', 'LQ'), ('all_logr', 'LQ'), ('read_cna(fname)', 'B', 'file_has_rows'),
                     ("'depth' in cnarrx", 'B', 'has_depth'), ("cnarrx['depth']", 'Q', 'depth'), ("cnarrx['log2']", 'Q', 'log2_'),
                     (_BCL % 'cnarrx', 'Q', 'corrected')],
             ret=['LQ', 'LQ']),
    ]),
    # bias_correct_logr, which table's log2 is returned: the statement `if (<covered rows>).sum() <= len(cnarr) // 2: warn
    # else: if "gc" in ref_columns and fix_gc: cnarr = fix.center_by_window(..) ...` with tables as opaque ids (as in fix.py's
    # FnFixCorrections: the table on entry, what each center_by_window call returns at its site).  The statements around
    # it (centre in place, shift the sex chromosomes in place, ..., return cnarr["log2"]) are checked with `ast` (_bias_shape).
    'FnRefBias': ('cnvlib/reference.py', [
        dict(name='bias_correct_logr', coq='fn_bias_table',
             py_params=['cnarr', 'ref_columns', 'ref_edge_bias', 'ref_flat_logr', 'sexes', 'is_chr_x', 'is_chr_y', 'fix_gc',
                        'fix_edge', 'fix_rmask', 'skip_low', 'diploid_parx_genome'],
             fragment=dict(first=_bias_shape(), last=_bias_shape()),
             params=[('cnarr', 'Z', 'cnarr_id'),
                     ("(cnarr['log2'] > params.NULL_LOG2_COVERAGE - params.MIN_REF_COVERAGE).sum()", 'Z', 'n_covered'),
                     ('len(cnarr)', 'Z', 'n_rows'), ("'gc' in ref_columns", 'B', 'has_gc'), ("'rmask' in ref_columns", 'B', 'has_rmask'),
                     ('fix_gc', 'B'), ('fix_rmask', 'B'), ('fix_edge', 'B'),
                     ("fix.center_by_window(cnarr, 0.1, ref_columns['gc'])", 'Z', 'by_gc'),
                     ("fix.center_by_window(cnarr, 0.1, ref_columns['rmask'])", 'Z', 'by_rmask'),
                     ('fix.center_by_window(cnarr, 0.1, ref_edge_bias)', 'Z', 'by_edge')],
             returns=['cnarr'], ret='Z'),
    ]),
    # bed2probes, the column code per row: the gene name (the file's, or "-"), log2 = 0.0, spread = 0.0
    'FnRefBedRow': ('cnvlib/reference.py', [
        dict(name='bed2probes', coq='fn_bed_row', py_params=['bed_fname'],
             fragment=dict(first="table['gene'] = ", last="table['spread'] = "),
             params=[("regions.data['gene']", 'S', 'gene_col'), ("'gene' in regions.data", 'B', 'has_gene')],
             returns=["table['gene']", "table['log2']", "table['spread']"], ret=['S', 'Q', 'Q']),
    ]),
}
