"""cnvlib/segmetrics.py (C17), further source ties [loop ties e2]; one generated module per tie, theorems in
Proofs/Fn<Module>.v, restated at the end of Props/C17.v as C17_source_*.

  FnSegStatLoop  do_segmetrics: ONE ITERATION of `for statname in location_stats:` and of `for statname in spread_stats:` --
                 `func = stat_funcs[statname]; segarr[statname] = np.fromiter(map(func, <per-segment list>), np.float64, n)`
                 read for one segment row (spec key `rows`), with the dict display `stat_funcs = {...}` translated in front of
                 the iteration (spec key `dict_prelude`).  The twelve dict values are function-typed inputs keyed by their
                 source text; 'ci' / 'pi' are two-argument functions in reality: looked up by these loops they would be called
                 with one argument and raise TypeError -- an error path; the theorems speak about the names the model accepts.
                   C17_source_location_stat / C17_source_spread_stat: for every name the model knows, the generated step
                   applies the model's statistic to the row's bins / deviations;
                   C17_source_location_loop / C17_source_spread_loop: Model/Segmetrics.v named_stats IS the step per name.
  FnSegCiTail    confidence_interval_bootstrap from `k = len(values)` to `return ci`: the `k < 2` early return and the
                 percentile selection `np.percentile(bootstrap_dist, list(100 * np.array([alpha / 2, 1 - alpha / 2])))`; the
                 seeded resampling in between is an opaque range whose effect is `bootstrap_dist`.
                   C17_source_ci_tail: Model/Segmetrics.v ci_func on a non-empty segment IS the generated tail.
  FnSegSmooth    _smooth_samples_by_weight: `bw = k ** (-1 / 4)` (a general power: opaque input keyed by its text) and the
                 comprehension `samples = [(v + (bw * np.sqrt(1 - w) * np.random.randn(k)), w) for v, w in samples]` read for
                 one item and one element (spec key `items`).
                   C17_source_smooth_item: Model/Segmetrics.v smooth_elem is the generated first component, the weight is kept.

Still refused / not tied: the generator expression `deviations = (bl - sl for bl, sl in zip(bins_log2s, segarr["log2"]))`
(refusal: "unsupported expression GeneratorExp"), `np.repeat(values[0], 2)` (an opaque input here), the resampling statements
(np.random.*, np.take, np.average inside generator expressions), _bca_correct_alpha (dead code).

Mutations tried on a scratch copy of cnvlib (each makes `make` of the named Proofs file fail or the translator refuse that
module; none survives):
  FnSegStatLoop  `"median": np.median` -> `"median": np.mean` ; `"mse": descriptives.mean_squared_error` <-> `"iqr": ...` values
                 swapped ; spread loop `map(func, deviations)` -> `map(func, bins_log2s)` (refused: not a declared per-row list)
  FnSegCiTail    `if k < 2` -> `if k < 3` ; `alpha / 2, 1 - alpha / 2` -> `alpha, 1 - alpha` ; `100 * alphas` -> `10 * alphas`
  FnSegSmooth    `np.sqrt(1 - w)` -> `np.sqrt(1 + w)` ; `v + (` -> `v - (` ; `, w) for v, w` -> `, v) for v, w`"""

_STATS = [('np.mean', 'F:LQ>OQ', 'np_mean'), ('np.median', 'F:LQ>OQ', 'np_median'),
          ('descriptives.modal_location', 'F:LQ>OQ', 'modal_location'),
          ("lambda a: stats.ttest_1samp(a, 0.0, nan_policy='omit')[1]", 'F:LQ>OQ', 'p_ttest'),
          ('np.std', 'F:LQ>OQ', 'np_std'), ('descriptives.median_absolute_deviation', 'F:LQ>OQ', 'mad'),
          ('descriptives.mean_squared_error', 'F:LQ>OQ', 'mse'), ('descriptives.interquartile_range', 'F:LQ>OQ', 'iqr'),
          ('descriptives.biweight_midvariance', 'F:LQ>OQ', 'bivar'), ('stats.sem', 'F:LQ>OQ', 'sem'),
          ('make_ci_func(alpha, bootstraps, smoothed)', 'F:LQ>OQ', 'ci_func'), ('make_pi_func(alpha)', 'F:LQ>OQ', 'pi_func')]
_DS = dict(name='do_segmetrics', dict_prelude='stat_funcs = {',
           py_params=['cnarr', 'segarr', 'location_stats', 'spread_stats', 'interval_stats', 'alpha', 'bootstraps',
                      'smoothed', 'skip_low'])
_CI = dict(name='confidence_interval_bootstrap', py_params=['values', 'weights', 'alpha', 'bootstraps', 'smoothed'])

MODULES = {
    'FnSegStatLoop': ('cnvlib/segmetrics.py', [
        dict(coq='fn_location_step', loop=dict(first='for statname in location_stats'), rows=['bins_log2s'],
             carried=[('segarr[statname]', 'OQ')],
             params=[('statname', 'S'), ('bins_log2s', 'LQ')] + _STATS, ret='OQ', **_DS),
        dict(coq='fn_spread_step', loop=dict(first='for statname in spread_stats'), rows=['deviations'],
             carried=[('segarr[statname]', 'OQ')],
             params=[('statname', 'S'), ('deviations', 'LQ')] + _STATS, ret='OQ', **_DS),
    ]),
    'FnSegCiTail': ('cnvlib/segmetrics.py', [
        dict(coq='fn_ci_tail', fragment=dict(first='k = len(values)', last='return ci'),
             params=[('len(values)', 'Z', 'n_values'), ('np.repeat(values[0], 2)', 'LQ', 'value_twice'), ('alpha', 'Q'),
                     ('smoothed', 'B'), ('np.percentile', 'F:LQ,LQ>LQ', 'percentile_fn'), ('boot_dist', 'LQ')],
             opaque=[dict(first='np.random.seed(', last='bootstrap_dist = ', assigns=[('bootstrap_dist', 'boot_dist')])],
             ret='LQ', **_CI),
    ]),
    'FnSegSmooth': ('cnvlib/segmetrics.py', [
        dict(name='_smooth_samples_by_weight', coq='fn_smooth_item', py_params=['values', 'samples'], items='samples',
             fragment=dict(first='k = len(values)', last='w = tup'),
             params=[('len(values)', 'Z', 'n_values'), ('k ** (-1 / 4)', 'Q', 'bw_value'), ('v', 'Q'), ('w', 'Q'),
                     ('np.random.randn(k)', 'Q', 'z')],
             returns=['v', 'w'], ret=['Q', 'Q']),
    ]),
}
