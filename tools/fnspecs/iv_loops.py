"""Loop ties of the skgenome interval code (property C06): loop bodies and per-row decisions of skgenome/subdivide.py,
subtract.py and merge.py translated ONE ITERATION at a time (tools/py2v_fn.py `loop=` / `fragment=`), tied to
Model/Intervals.v in Proofs/FnIvSplitLoop.v, FnIvSubtract.v, FnIvGroups.v, FnIvFast.v, FnIvInPlay.v and restated at the
end of Props/C06.v (`C06_source_*`).  One generated module (and one Proofs file) per tie.

Reading conventions:
  * a row is read on its coordinates: `yield_record=dict(base='row', fields=['start', 'end'])` -- `yield row` /
    `yield row._replace(start=.., end=..)` is the pair (start, end) of the yielded namedtuple; by the meaning of
    `_replace` every other field is that of `row` itself (the model's payload `pay r`); a `_replace` of any other field,
    of another record, or with `**mapping` is refused;
  * 1-d integer arrays are values of type LZ (`list Z`): `np.r_[a, X]`, `X[1:]`, `X[:-1]`, `X[0]`, `X[-1]`
    (IndexError on an empty array is a recorded error path), `zip(X, Y)` in an inner loop that only yields;
  * pandas / numpy aggregates are opaque inputs keyed by their source text (`rows_to_exclude.start.values`,
    `np.maximum.accumulate(rows_to_exclude.end.values)`, `len(rows_to_exclude)`): the theorems say which model value is
    passed (map lo ex, cummax (map hi ex), length ex).

FnIvSplitLoop -- subdivide._split_targets, the bins of one region:
    bin_size = span / nbins ; bin_start = row.start                       (fn_split_init, fragment)
    for i in range(1, nbins):                                              (fn_split_step, one iteration)
        bin_end = row.start + int(i * bin_size)
        yield row._replace(start=bin_start, end=bin_end)
        bin_start = bin_end
    yield row._replace(start=bin_start)                                    (fn_split_last, fragment)
  Tie (C06_source_split_step / _split_loop / _split_bins / _cut_contract): running these over range(1, nbins) IS
  Model/Intervals.v bins_from / split_row with the cut-point oracle read exactly, cut span n i = int(i * (span / n)),
  and those cut points meet cut_contract.
  Mutations (scratch copy; each breaks Proofs/FnIvSplitLoop.v):
    `bin_start = bin_end` -> `bin_start = bin_end + 1`                 source_split_step fails (reflexivity)
    `int(i * bin_size)` -> `int(i * bin_size) + 1`                     source_split_step fails
    `row._replace(start=bin_start)` -> `row._replace(end=bin_start)`   source_split_last fails
    `bin_size = span / nbins` -> `bin_size = span / (nbins + 1)`       source_split_init fails
    `row._replace(start=bin_start, end=bin_end)` -> `..., gene='x')`   the translator refuses: "row._replace with a field
                                                                       outside the declared record fields"

FnIvSubtract -- subtract._subtraction, ONE ITERATION of `for keeper, rows_to_exclude in by_ranges(...)`: everything the
  iteration yields, as (start, end) pairs -- the four edge cases, the `continue` of a fully covered region, the inner
  `for start, end in zip(starts, ends)` that drops empty pieces, and `yield keeper` when nothing is excluded.
  Tie (C06_source_subtract_row / C06_source_subtract): attaching the keeper's payload to the generated pairs IS
  Model/Intervals.v subtract_row; subtract is that per keeper.
  Mutations (each breaks Proofs/FnIvSubtract.v at source_subtract_step, the spelled-out form source_subtract_row uses):
    `if end > start:` -> `if end >= start:`
    `keep_left = keeper.start < ex_starts[0]` -> `<=`
    `starts = np.r_[keeper.start, ex_ends[:-1]]` -> `np.r_[keeper.start, ex_ends]`
    `elif len(rows_to_exclude) > 1:` -> `> 0:`
    `keep_right = keeper.end > ex_ends[-1]` -> `ex_ends[0]`

FnIvGroups / FnIvFast / FnIvInPlay -- merge.py, the per-row decisions of the table code read per element (row i >= 1
  against the running maximum of the ends before it):
    _nonoverlapping_groups: gap_sizes = table.start.values[1:] - table.end.cummax().values[:-1];
                            group_keys = np.r_[False, gap_sizes > -bp].cumsum()       (fn_group_break: a new group starts)
    merge:                  (gap_sizes > -bp).all()                                   (fn_merge_fast)
    flatten:                (table.start.values[1:] >= table.end.cummax().values[:-1]).all()   (fn_flatten_fast)
    _flatten_tuples[_split]: rows_in_play = [row for row in rows if row.start <= bp_start and row.end >= bp_end]
                                                                          (fn_in_play / fn_in_play_split: the test)
  The expressions are located with `ast` (fail-closed: a changed shape makes the fragment unfindable) and handed over as
  the results of a one-statement fragment, as in tools/fnspecs/intervals.py; the anchor statement is one that assigns
  none of the names the expression reads (or the very statement that defines them: `gap_sizes = ...`).
  Tie (C06_source_groups / C06_source_all_gaps / C06_source_no_overlap / C06_source_in_play): groups is
  itertools.groupby over the cumulative sum of the generated break test; all_gaps / no_overlap are the generated
  fast-path tests at every row; in_play is the filter by the generated comprehension test.
  Mutations:
    `gap_sizes > (-bp)` -> `gap_sizes >= (-bp)` in _nonoverlapping_groups   FnIvGroups.v source_group_break fails (FnIvFast.v unaffected)
    `(gap_sizes > -bp).all()` -> `(gap_sizes > bp).all()` in merge          FnIvFast.v source_merge_fast fails (FnIvGroups.v unaffected)
    `>=` -> `>` in flatten's fast path                                       FnIvFast.v source_flatten_fast fails
    `row.end >= bp_end` -> `row.end > bp_end` in _flatten_tuples             FnIvInPlay.v source_in_play_test fails

FnIvSquash -- merge._squash_tuples, the whole body: a group of one row is returned as it is, a larger one as
  `firsttup._replace(**newfields)` (rows, fields and the combined row are opaque values).
  Tie (C06_source_squash / C06_source_merge_slow): Model/Intervals.v squash / merge_slow ARE the generated function on the
  group's size, first row and the model's combined row, through any encoding of rows as opaque values.
  Mutations: `if len(rows) == 1:` -> `!= 1`; `return firsttup` -> `return firsttup._replace(**newfields)`: both break
  Proofs/FnIvSquash.v (source_squash_tuples).

FnIvFlatten -- merge._flatten_tuples / _flatten_tuples_split, the generator's body: `yield first_row` for a single row,
  otherwise `for bp_start, bp_end in zip(breaks[:-1], breaks[1:])` with one `first_row._replace(start=bp_start,
  end=bp_end, **extra_fields)` per pass, read on (start, end) (yield_record star=True: both declared fields are explicit,
  a mapping holding one of them is a TypeError, recorded); `breaks` is an integer list, the comprehensions of the loop body
  are opaque values bound inside one pass.
  Tie (C06_source_flatten_group): the coordinates of Model/Intervals.v flatten_group ARE what the generated body yields
  on the model's breakpoints (pairs l = zip(l[:-1], l[1:])).
  Mutations (each breaks Proofs/FnIvFlatten.v at source_flatten_tuples):
    `zip(breaks[:-1], breaks[1:])` -> `zip(breaks, breaks[1:])`
    `_replace(start=bp_start, end=bp_end, **extra_fields)` -> `_replace(start=bp_end, end=bp_start, **extra_fields)`
    `if len(rows) == 1:` (before `yield first_row`) -> `if len(rows) <= 2:`

intersection(mode="trim") -- C06_source_trim_row / C06_source_intersect_chunks (Proofs/FnIvTrim.v) reuse the module
  'FnRangesIter' of tools/fnspecs/ranges_loops.py (one iteration of intersect.iter_ranges per selected row): Model/
  Intervals.v trim_row IS that iteration in mode "trim".  Mutations `subtable.start.clip(lower=start_val)` ->
  `clip(upper=start_val)` and `if end_val:` -> `if end_val is not None:` break Proofs/FnIvTrim.v (source_trim_row).

Still outside: `breaks = sorted(set(itertools.chain(...)))` and the dict comprehensions of combiners (inputs here; model:
breaks / comb), the groupby / DataFrame plumbing of merge() and flatten() (model: merge_sel / flatten_sel, g_merge).
"""
import ast, os, sys


def _repo():
    for name in ('py2v_fn', '__main__'):
        m = sys.modules.get(name)
        if m is not None and hasattr(m, 'REPO') and hasattr(m, 'FnTranslator'):
            return m.REPO
    return os.environ.get('CNVKIT_REPO', '/repo')


def _func(rel, name):
    tree = ast.parse(open(os.path.join(_repo(), rel)).read())
    for ch in ast.walk(tree):
        if isinstance(ch, ast.FunctionDef) and ch.name == name:
            return ch
    raise ValueError('no definition %s' % name)


_SPLIT_PY = ['regions', 'avg_size', 'min_size', 'verbose']
_ROW = dict(base='row', fields=['start', 'end'])

_SPLIT = [
    dict(name='_split_targets', coq='fn_split_init', py_params=_SPLIT_PY,
         fragment=dict(first='bin_size = ', last='bin_start = '),
         params=[('span', 'Z'), ('nbins', 'Z'), ('row.start', 'Z', 'row_start')],
         returns=['bin_size', 'bin_start'], ret=['Q', 'Z']),
    dict(name='_split_targets', coq='fn_split_step', py_params=_SPLIT_PY,
         loop=dict(first='for i in range(1, nbins)'),
         carried=[('bin_start', 'Z')], yields=['Z', 'Z'], yield_record=_ROW,
         params=[('row.start', 'Z', 'row_start'), ('row.end', 'Z', 'row_end'), ('bin_size', 'Q'), ('i', 'Z'),
                 ('bin_start', 'Z')],
         ret='Z'),
    dict(name='_split_targets', coq='fn_split_last', py_params=_SPLIT_PY,
         fragment=dict(first='yield row._replace(', last='yield row._replace('),      # the closing yield (the other one is inside the for)
         yields=['Z', 'Z'], yield_record=_ROW,
         params=[('row.start', 'Z', 'row_start'), ('row.end', 'Z', 'row_end'), ('bin_start', 'Z')],
         returns=['yield__'], ret='Y'),
]

_SUBTRACT = [
    dict(name='_subtraction', coq='fn_subtract_step', py_params=['table', 'other'],
         loop=dict(first='for keeper, rows_to_exclude in by_ranges('),
         carried=[], yields=['Z', 'Z'], yield_record=dict(base='keeper', fields=['start', 'end']),
         params=[('keeper.start', 'Z', 'keeper_start'), ('keeper.end', 'Z', 'keeper_end'),
                 ('len(rows_to_exclude)', 'Z', 'n_exclude'),
                 ('rows_to_exclude.start.values', 'LZ', 'ex_starts_in'),
                 ('np.maximum.accumulate(rows_to_exclude.end.values)', 'LZ', 'ex_ends_in')],
         ret='Y'),
]


# ---------------------------------------------------------------------------------------------------------------
# merge.py: per-element decisions inside table code, located with ast

def _body(fn):
    return [s for s in fn.body if not (isinstance(s, ast.Expr) and isinstance(s.value, ast.Constant))]


def _rule_group_break():
    fn = _func('skgenome/merge.py', '_nonoverlapping_groups')
    body = _body(fn)
    if ast.unparse(body[0]) != 'gap_sizes = table.start.values[1:] - table.end.cummax().values[:-1]':
        raise ValueError('_nonoverlapping_groups no longer starts with gap_sizes = start[1:] - end.cummax()[:-1]')
    gk = body[1]
    if not (isinstance(gk, ast.Assign) and ast.unparse(gk.targets[0]) == 'group_keys'
            and isinstance(gk.value, ast.Call) and isinstance(gk.value.func, ast.Attribute) and gk.value.func.attr == 'cumsum'
            and not gk.value.args and not gk.value.keywords):
        raise ValueError('group_keys is no longer <...>.cumsum()')
    r = gk.value.func.value
    if not (isinstance(r, ast.Subscript) and ast.unparse(r.value) == 'np.r_' and isinstance(r.slice, ast.Tuple)
            and len(r.slice.elts) == 2 and ast.unparse(r.slice.elts[0]) == 'False'):
        raise ValueError('group_keys is no longer np.r_[False, <breaks>].cumsum()')
    if {n.id for n in ast.walk(r.slice.elts[1]) if isinstance(n, ast.Name)} != {'gap_sizes', 'bp'}:
        raise ValueError('the group break reads other names: %s' % ast.unparse(r.slice.elts[1]))
    tail = [ast.unparse(s) for s in body[2:]]
    if tail != ['keyed_groups = zip(group_keys, table.itertuples(index=False))',
                'return (row_group for _key, row_group in itertools.groupby(keyed_groups, first_of))']:
        raise ValueError('the rows are no longer grouped by itertools.groupby on group_keys')
    return ast.unparse(r.slice.elts[1])


def _all_test(fast, what):
    if not (isinstance(fast, ast.If) and not fast.orelse and [ast.unparse(x) for x in fast.body] == ['return table']
            and isinstance(fast.test, ast.Call) and isinstance(fast.test.func, ast.Attribute) and fast.test.func.attr == 'all'
            and not fast.test.args and not fast.test.keywords):
        raise ValueError('the fast path of %s is no longer `if (<test>).all(): return table`' % what)
    return fast.test.func.value


def _rule_merge_fast():
    body = _body(_func('skgenome/merge.py', 'merge'))
    src = [ast.unparse(s) for s in body]
    if src[0] != 'if table.empty:\n    return table' or \
            src[1] != 'gap_sizes = table.start.values[1:] - table.end.cummax().values[:-1]':
        raise ValueError('merge no longer starts with the empty test and gap_sizes')
    t = _all_test(body[2], 'merge')
    if {n.id for n in ast.walk(t) if isinstance(n, ast.Name)} != {'gap_sizes', 'bp'}:
        raise ValueError('the fast path of merge reads other names: %s' % ast.unparse(t))
    return ast.unparse(t)


def _rule_flatten_fast():
    body = _body(_func('skgenome/merge.py', 'flatten'))
    if ast.unparse(body[0]) != 'if table.empty:\n    return table':
        raise ValueError('flatten no longer starts with the empty test')
    t = _all_test(body[1], 'flatten')
    if not (isinstance(t, ast.Compare) and len(t.ops) == 1 and ast.unparse(t.left) == 'table.start.values[1:]'
            and ast.unparse(t.comparators[0]) == 'table.end.cummax().values[:-1]'):
        raise ValueError('the fast path of flatten no longer compares start[1:] with end.cummax()[:-1]: %s' % ast.unparse(t))
    return ast.unparse(t)


def _rule_in_play(name):
    fn = _func('skgenome/merge.py', name)
    comps = [s for s in ast.walk(fn) if isinstance(s, ast.Assign) and ast.unparse(s.targets[0]) == 'rows_in_play']
    if len(comps) != 1:
        raise ValueError('%s: expected exactly one rows_in_play assignment' % name)
    lc = comps[0].value
    if not (isinstance(lc, ast.ListComp) and ast.unparse(lc.elt) == 'row' and len(lc.generators) == 1
            and ast.unparse(lc.generators[0].target) == 'row' and ast.unparse(lc.generators[0].iter) == 'rows'
            and len(lc.generators[0].ifs) == 1):
        raise ValueError('%s: rows_in_play is no longer [row for row in rows if <test>]' % name)
    t = lc.generators[0].ifs[0]
    if {ast.unparse(n) for n in ast.walk(t) if isinstance(n, (ast.Name, ast.Attribute))} - \
            {'row', 'row.start', 'row.end', 'bp_start', 'bp_end'}:
        raise ValueError('%s: the rows_in_play test reads other names: %s' % (name, ast.unparse(t)))
    # (the loop header and the yield are translated by the module 'FnIvFlatten')
    return ast.unparse(t)


def _closed(rule, anchor, fallback):
    """(expression source, fragment anchor) -- fail closed: a changed shape makes the fragment unfindable"""
    try:
        return rule(), anchor
    except Exception as exc:   # noqa
        return fallback, '<merge.py no longer has the expected shape: %s>' % exc


_ELEM = [('table.start.values[1:]', 'Z', 'start'), ('table.end.cummax().values[:-1]', 'Z', 'cmax')]


def _spec_group_break():
    e, a = _closed(_rule_group_break, 'gap_sizes = ', 'bp')
    return dict(name='_nonoverlapping_groups', coq='fn_group_break', py_params=['table', 'bp'],
                fragment=dict(first=a, last=a), params=_ELEM + [('bp', 'Z')], returns=[e], ret='B')


def _spec_merge_fast():
    e, a = _closed(_rule_merge_fast, 'gap_sizes = ', 'bp')
    return dict(name='merge', coq='fn_merge_fast', py_params=['table', 'bp', 'stranded', 'combine'],
                fragment=dict(first=a, last=a), params=_ELEM + [('bp', 'Z')], returns=[e], ret='B')


def _spec_flatten_fast():
    # anchor: `cmb = get_combiners(table, False, combine)`, an opaque input (it assigns none of the names the test reads)
    e, a = _closed(_rule_flatten_fast, 'cmb = get_combiners(', 'cmb')
    return dict(name='flatten', coq='fn_flatten_fast', py_params=['table', 'combine', 'split_columns'],
                fragment=dict(first=a, last=a),
                params=_ELEM + [('get_combiners(table, False, combine)', 'Z', 'combiners')], returns=[e], ret='B')


def _spec_in_play(name, coq, py):
    # anchor: `first_row = rows[0]`, an opaque input
    e, a = _closed(lambda: _rule_in_play(name), 'first_row = ', 'bp_start')
    return dict(name=name, coq=coq, py_params=py, fragment=dict(first=a, last=a),
                params=[('rows[0]', 'Z', 'rows_0'), ('row.start', 'Z', 'row_start'), ('row.end', 'Z', 'row_end'),
                        ('bp_start', 'Z'), ('bp_end', 'Z')],
                returns=[e], ret='B')


# merge._squash_tuples, the whole body: one row is returned as it is, several are combined (the list of rows, the dict of
# combined fields and the namedtuple built from it are opaque inputs keyed by their source text)
_SQUASH = dict(
    name='_squash_tuples', coq='fn_squash_tuples', py_params=['keyed_rows', 'combine'],
    params=[('[kr[1] for kr in keyed_rows]', 'Z', 'rows_in'), ('len(rows)', 'Z', 'n_rows'), ('rows[0]', 'Z', 'first'),
            ('{key: combiner(pd.Series([getattr(r, key) for r in rows])) for key, combiner in combine.items()}', 'Z', 'fields'),
            ('firsttup._replace(**newfields)', 'Z', 'combined')],
    ret='Z')

# merge._flatten_tuples / _flatten_tuples_split, the generator's body: a single row is yielded as it is; otherwise one
# row per pair of consecutive breakpoints, `first_row._replace(start=bp_start, end=bp_end, **extra_fields)`, read on
# (start, end).  `breaks` is an integer list (input: sorted(set(...)) of the rows' coordinates), the comprehensions of the
# loop body are opaque values bound inside one pass.  (`**extra_fields`: star=True -- both declared fields are explicit, so
# a mapping holding `start` / `end` is a TypeError, a recorded error path.)
_BREAKS = 'sorted(set(itertools.chain(*[(r.start, r.end) for r in rows])))'
_FIRST = dict(base='first_row', fields=['start', 'end'], star=True)


def _flatten_spec(name, coq, py):
    return dict(
        name=name, coq=coq, py_params=py,
        fragment=dict(first='rows = ', last='if len(rows)'),
        yields=['Z', 'Z'], yield_record=_FIRST,
        params=[('[kr[1] for kr in keyed_rows]', 'Z', 'rows_in'), ('len(rows)', 'Z', 'n_rows'), ('rows[0]', 'Z', 'first'),
                ('first_row.start', 'Z', 'first_start'), ('first_row.end', 'Z', 'first_end'),
                ('[x for x in first_row._fields[3:] if x in combine]', 'Z', 'extra_cols_in'),
                (_BREAKS, 'LZ', 'breaks_in'),
                ('[row for row in rows if row.start <= bp_start and row.end >= bp_end]', 'Z', 'in_play'),
                ('{key: combine[key]([getattr(r, key) for r in rows_in_play]) for key in extra_cols}', 'Z', 'combined')],
        returns=['yield__'], ret='Y')


MODULES = {
    'FnIvFlatten': ('skgenome/merge.py', [
        _flatten_spec('_flatten_tuples', 'fn_flatten_tuples', ['keyed_rows', 'combine']),
        _flatten_spec('_flatten_tuples_split', 'fn_flatten_tuples_split', ['keyed_rows', 'combine', 'split_columns'])]),
    'FnIvSquash': ('skgenome/merge.py', [_SQUASH]),
    'FnIvSplitLoop': ('skgenome/subdivide.py', _SPLIT),
    'FnIvSubtract': ('skgenome/subtract.py', _SUBTRACT),
    'FnIvGroups': ('skgenome/merge.py', [_spec_group_break()]),
    'FnIvFast': ('skgenome/merge.py', [_spec_merge_fast(), _spec_flatten_fast()]),
    'FnIvInPlay': ('skgenome/merge.py', [
        _spec_in_play('_flatten_tuples', 'fn_in_play', ['keyed_rows', 'combine']),
        _spec_in_play('_flatten_tuples_split', 'fn_in_play_split', ['keyed_rows', 'combine', 'split_columns'])]),
}
