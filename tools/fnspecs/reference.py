"""cnvlib/reference.py, the scalar arithmetic of the pooled reference (property C05), read per bin:

  shift_sex_chroms  the whole body (it returns nothing: the result is the updated cnarr['log2']): `sexes.get(sample_id)`
                    is an opaque boolean input (a missing sample gives None, which `if is_xx:` reads as false), the
                    flat pseudo-sample and the two masks are the bin's values        (C05_source_shift_sex)
  calculate_gc_lo   the whole function; the eight `subseq.count(<letter>)` are opaque integer inputs   (C05_source_gc_lo)

bias_correct_logr / load_sample_block / summarize_info were left to the hand-written model and the correspondence check
in this first batch; the second batch (tools/fnspecs/reference_loops.py) ties their dispatch code, loop iterations and
per-bin / per-column code."""
MODULES = {
    'FnReference': ('cnvlib/reference.py', [
        dict(name='shift_sex_chroms', coq='fn_shift_sex',
             py_params=['cnarr', 'sexes', 'ref_flat_logr', 'is_chr_x', 'is_chr_y'],
             params=[("cnarr['log2']", 'Q', 'log2_'), ('sexes.get(cnarr.sample_id)', 'B', 'sex_lookup'),
                     ('ref_flat_logr', 'Q'), ('is_chr_x', 'B'), ('is_chr_y', 'B')],
             fragment={'first': 'is_xx = ', 'last': 'if is_xx'}, returns=["cnarr['log2']"], ret='Q'),
    ]),
    'FnReferenceGc': ('cnvlib/reference.py', [
        dict(name='calculate_gc_lo', coq='fn_calculate_gc_lo', py_params=['subseq'],
             params=[("subseq.count('a')", 'Z', 'n_a'), ("subseq.count('t')", 'Z', 'n_t'),
                     ("subseq.count('A')", 'Z', 'n_A'), ("subseq.count('T')", 'Z', 'n_T'),
                     ("subseq.count('g')", 'Z', 'n_g'), ("subseq.count('c')", 'Z', 'n_c'),
                     ("subseq.count('G')", 'Z', 'n_G'), ("subseq.count('C')", 'Z', 'n_C')],
             ret=['Q', 'Q']),
    ]),
}
