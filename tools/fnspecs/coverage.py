"""cnvlib/coverage.py: the per-read filter of the count algorithm (nested function)."""
MODULES = {
    'FnCoverage': ('cnvlib/coverage.py', [
        dict(name='region_depth_count.filter_read', coq='fn_filter_read', py_params=['read'], closure=['min_mapq'],
             params=[('read.is_duplicate', 'B'), ('read.is_secondary', 'B'), ('read.is_unmapped', 'B'),
                     ('read.is_qcfail', 'B'), ('read.mapq', 'Z'), ('min_mapq', 'Z')], ret='B'),
    ]),
}
