"""cnvlib/coverage.py: the per-read filter of the count algorithm (nested function) and the scalar
tail of region_depth_count

    depth = bases / (end - start) if end > start else 0
    row = (chrom, start, end, gene, math.log(depth, 2) if depth else NULL_LOG2_COVERAGE, depth)
    return count, row

translated as a fragment of the function: the `depth = ...` statement, with the results (depth, <5th
element of the row tuple>).  `bases` (accumulated by the loop over the fetched reads) and the value of
`math.log(depth, 2)` (the logarithm oracle) are opaque inputs; NULL_LOG2_COVERAGE is the module constant
(instantiated with Gen/Params.v in the theorem).  The translator has no tuple-valued assignments, so
the 5th element of `row` is located here with Python's `ast` (fail-closed) and handed over as source
text; the same walk checks what the translator does not see: count / bases start at 0 and are only
accumulated inside the single loop, the row tuple is (chrom, start, end, gene, <log2>, depth) and the
function returns (count, row).  If any of this no longer holds the fragment is made unfindable and the
translator refuses (a broken tie for C09).

Further ties (see the comments at the specs below): FnCoverageCmd (bedcov's samtools command line, C09_source_bedcov_cmd*),
FnCoverageDetect (detect_bedcov_columns whole, C09_source_detect_*).  Mutations tried with tools/mut_fn.sh:
  FnCoverageCmd     `min_mapq > 0` -> `min_mapq > 1`                                  KILLED (source_bedcov_cmd)
                    `"-Q"` -> `"-q"`                                                  KILLED
                    `str(min_mapq)` -> `str(min_mapq + 1)`                            KILLED
  FnCoverageDetect  `if tabcount == 4:` -> `if tabcount == 5:`                        KILLED (source_detect_columns)
                    `+ fillers + ["basecount"]` -> `+ ["basecount"] + fillers`        KILLED
                    `"gene", "basecount"]` -> `"name", "basecount"]` (4-tab return)   KILLED
  FnCoveragePileup  `ok_idx = spans > 0` -> `spans >= 0`                              KILLED (source_pileup_depth)
                    `ok_idx = table["depth"] > 0` -> `>= 0`                           KILLED (source_pileup_log2)
                    `/ spans[ok_idx]` -> `* spans[ok_idx]`                            KILLED"""
import ast, os, sys


def _repo():
    for name in ('py2v_fn', '__main__'):
        m = sys.modules.get(name)
        if m is not None and hasattr(m, 'REPO') and hasattr(m, 'FnTranslator'):
            return m.REPO
    return os.environ.get('CNVKIT_REPO', '/repo')


def _log2_element(repo):
    """source of the 5th element of region_depth_count's row tuple, after checking the shape of the function"""
    src = open(os.path.join(repo, 'cnvlib/coverage.py')).read()
    fn = None
    for n in ast.walk(ast.parse(src)):
        if isinstance(n, ast.FunctionDef) and n.name == 'region_depth_count':
            fn = n
            break
    if fn is None:
        raise ValueError('no region_depth_count')
    loops = [i for i, s in enumerate(fn.body) if isinstance(s, (ast.For, ast.While))]
    if len(loops) != 1:
        raise ValueError('expected exactly one loop in region_depth_count')
    head, loop, tail = fn.body[:loops[0]], fn.body[loops[0]], fn.body[loops[0] + 1:]
    inits = {}
    for s in head:
        if isinstance(s, ast.Expr) and isinstance(s.value, ast.Constant) and isinstance(s.value.value, str):
            continue
        if isinstance(s, ast.FunctionDef):
            continue
        if isinstance(s, ast.Assign) and len(s.targets) == 1 and isinstance(s.targets[0], ast.Name) \
                and isinstance(s.value, ast.Constant):
            inits[s.targets[0].id] = s.value.value
            continue
        raise ValueError('unexpected statement before the loop: %s' % ast.unparse(s))
    if inits != {'count': 0, 'bases': 0}:
        raise ValueError('count/bases are not initialised to 0: %r' % (inits,))
    for n in ast.walk(loop):
        if isinstance(n, ast.Assign):
            raise ValueError('plain assignment inside the loop: %s' % ast.unparse(n))
        if isinstance(n, ast.AugAssign) and not (isinstance(n.op, ast.Add) and isinstance(n.target, ast.Name)
                                                 and n.target.id in ('count', 'bases')):
            raise ValueError('unexpected update inside the loop: %s' % ast.unparse(n))
    if len(tail) != 3:
        raise ValueError('the tail of region_depth_count has %d statements' % len(tail))
    d, r, ret = tail
    if not (isinstance(d, ast.Assign) and len(d.targets) == 1 and ast.unparse(d.targets[0]) == 'depth'):
        raise ValueError('first tail statement is not `depth = ...`')
    if {n.id for n in ast.walk(d.value) if isinstance(n, ast.Name)} != {'bases', 'start', 'end'}:
        raise ValueError('depth does not depend on exactly bases, start, end')
    if not (isinstance(r, ast.Assign) and ast.unparse(r.targets[0]) == 'row' and isinstance(r.value, ast.Tuple)
            and len(r.value.elts) == 6):
        raise ValueError('second tail statement is not `row = (6-tuple)`')
    e = r.value.elts
    if [ast.unparse(x) for x in e[:4]] + [ast.unparse(e[5])] != ['chrom', 'start', 'end', 'gene', 'depth']:
        raise ValueError('row tuple is %s' % ast.unparse(r.value))
    if not (isinstance(ret, ast.Return) and ast.unparse(ret.value) == '(count, row)'):
        raise ValueError('return value is %s' % ast.unparse(ret))
    # every use of math in the element must be the call math.log(depth, 2): the opaque oracle input
    elt = ast.unparse(e[4])
    if 'math' in elt.replace('math.log(depth, 2)', ''):
        raise ValueError('log2 element is %s' % elt)
    if {n.id for n in ast.walk(e[4]) if isinstance(n, ast.Name)} - {'math', 'depth', 'NULL_LOG2_COVERAGE'}:
        raise ValueError('log2 element reads other names: %s' % elt)
    return elt


def _tail_spec():
    try:
        elt, first = _log2_element(_repo()), 'depth = '
    except Exception as exc:   # noqa  -- fail closed: the fragment below cannot be found, the translator refuses
        elt, first = 'depth', '<region_depth_count no longer has the expected shape: %s>' % exc
    return dict(name='region_depth_count', coq='fn_region_tail',
                py_params=['bamfile', 'chrom', 'start', 'end', 'gene', 'min_mapq'],
                params=[('bases', 'Z'), ('start', 'Z'), ('end', 'Z', 'end_'),
                        ('math.log(depth, 2)', 'Q', 'log2_depth'), ('NULL_LOG2_COVERAGE', 'Q')],
                fragment={'first': first, 'last': first}, returns=['depth', elt], ret=['Q', 'Q'])


MODULES = {
    'FnCoverage': ('cnvlib/coverage.py', [
        dict(name='region_depth_count.filter_read', coq='fn_filter_read', py_params=['read'], closure=['min_mapq'],
             params=[('read.is_duplicate', 'B'), ('read.is_secondary', 'B'), ('read.is_unmapped', 'B'),
                     ('read.is_qcfail', 'B'), ('read.mapq', 'Z'), ('min_mapq', 'Z')], ret='B'),
        _tail_spec(),
    ]),
    # region_depth_count: ONE ITERATION of `for read in bamfile.fetch(reference=chrom, start=start, end=end):` -- the read
    # counter and the base counter after the iteration; filter_read(read) (tied above) and the per-read base count are
    # opaque typed inputs.  (Proofs/FnCoverageLoop.v: C09_source_read_loop -- the step folded over the fetched reads gives
    # the model's bases_count and the number of counted reads)
    # mutations that break the tie: `count += 1` -> `count += 2`; `bases += sum(...)` -> `bases = sum(...)`; `if filter_read(read)` -> `if not ...`
    'FnCoverageLoop': ('cnvlib/coverage.py', [
        dict(name='region_depth_count', coq='fn_read_step',
             py_params=['bamfile', 'chrom', 'start', 'end', 'gene', 'min_mapq'],
             loop=dict(first='for read in bamfile.fetch('),
             carried=[('count', 'Z'), ('bases', 'Z')],
             params=[('count', 'Z'), ('bases', 'Z'), ('filter_read(read)', 'B', 'passes'),
                     ('sum((1 for p in read.positions if start <= p < end))', 'Z', 'read_bases')],
             ret=['Z', 'Z']),
    ]),
    # bedcov: the samtools command line built before the call (fragment `cmd = [bed_fname, bam_fname]` .. `if min_mapq and
    # min_mapq > 0: cmd.extend(["-Q", str(min_mapq)])`): the list of strings handed to pysam.bedcov, before `--reference`.
    # (Proofs/FnCoverageCmd.v: C09_source_bedcov_cmd -- `-Q n` is present exactly when the model's pileup_cut is not samtools'
    # default 0, and then n = pileup_cut min_mapq)
    # mutations (tools/mut_fn.sh): `min_mapq > 0` -> `min_mapq > 1` KILLED; `"-Q"` -> `"-q"` KILLED; `str(min_mapq)` -> `str(min_mapq + 1)` KILLED
    'FnCoverageCmd': ('cnvlib/coverage.py', [
        dict(name='bedcov', coq='fn_bedcov_cmd', py_params=['bed_fname', 'bam_fname', 'min_mapq', 'fasta'],
             fragment=dict(first='cmd = [bed_fname', last='if min_mapq'),
             returns=['cmd'],
             params=[('bed_fname', 'S'), ('bam_fname', 'S'), ('min_mapq', 'Z')],
             ret='LS'),
    ]),
    # detect_bedcov_columns, the WHOLE function: the decision on the number of tabs in the first line.  The first line, its
    # tab count and the filler names (a comprehension over range(1, tabcount - 3)) are opaque typed inputs keyed by their
    # source text; `if tabcount < 3: raise` is a recorded guard.
    # (Proofs/FnCoverageDetect.v: C09_source_detect_columns -- with the model's count_char / filler_names it is the model's
    # detect_bedcov_columns wherever that does not raise)
    # mutations (tools/mut_fn.sh): `if tabcount == 4:` -> `if tabcount == 5:` KILLED; `+ fillers + ["basecount"]` -> `+ ["basecount"] + fillers` KILLED;
    # `"gene", "basecount"]` -> `"name", "basecount"]` KILLED
    'FnCoverageDetect': ('cnvlib/coverage.py', [
        dict(name='detect_bedcov_columns', coq='fn_detect_cols', py_params=['text'],
             params=[("text[:text.index('\\n')]", 'S', 'firstline_text'),
                     ("firstline.count('\\t')", 'Z', 'tabs'),
                     ("[f'_{i}' for i in range(1, tabcount - 3)]", 'LS', 'filler_list')],
             ret='LS'),
    ]),
    # interval_coverages_pileup: the per-row depth / log2 code (fragment `spans = table.end - table.start` .. `table.loc[ok_idx,
    # "log2"] = np.log2(table.loc[ok_idx, "depth"])`): zero-width / reversed bins keep depth 0.0, the others get basecount /
    # span; log2 is NULL_LOG2_COVERAGE unless the depth is positive (np.log2 is the logarithm oracle).
    # (Proofs/FnCoveragePileup.v: C09_source_pileup_depth / _log2 -- Model/Coverage.v pileup_depth / pileup_log2)
    # mutations: `ok_idx = spans > 0` -> `spans >= 0` KILLED; `ok_idx = table["depth"] > 0` -> `>= 0` KILLED; `/ spans[ok_idx]` -> `* spans[ok_idx]` KILLED
    'FnCoveragePileup': ('cnvlib/coverage.py', [
        dict(name='interval_coverages_pileup', coq='fn_pileup_row',
             py_params=['bed_fname', 'bam_fname', 'min_mapq', 'procs', 'fasta'],
             fragment=dict(first='spans = table.end', last="table['log2'] = np.log2"),
             returns=["table['depth']", "table['log2']"],
             params=[('table.end', 'Z', 'end_'), ('table.start', 'Z', 'start'), ("table['basecount']", 'Z', 'basecount'),
                     ('NULL_LOG2_COVERAGE', 'Q')],
             ret=['Q', 'Q']),
    ]),
}
