"""Loop ties / function-body ties of cnvlib/call.py (and of the row masks of cnvlib/cnary.py and the `call` command's
argument checks in cnvlib/commands.py) for properties C01 and C02, second batch (the first batch is call.py; this file's
name sorts last so that tools/fn_selftest.py, which draws the inputs of all specs from one random stream in file order,
gives every earlier spec the inputs it had before).  One
generated module per tie; the theorems are in Proofs/Fn<Module>.v and restated at the end of Props/C01.v / Props/C02.v.

FnCallFinish     do_call, the WHOLE statement `if method != "none": outarr["cn"] = absolutes.round().astype("int");
                 if "baf" in outarr: <allelic split, NaN masks>` per row = Model/Baf.v dc_finish, the function do_call_row ends
                 in                                       (C02_source_finish, _finish_model, _finish_threshold; C01_source_finish_clonal)
FnCallPureRow    absolute_pure: ONE ITERATION of `for i, row in enumerate(cnarr)` = the `absolutes` of call_row on the
                 no-purity path (call_row_pure)                                               (C01_source_pure_row)
FnCallClonalRow  absolute_dataframe's `df["absolute"] = df.apply(lambda row: _log2_ratio_to_absolute(...), axis=1)` (the
                 function applied per row, alone and from the call of get_as_dframe_and_set_reference_and_expect_copies on),
                 absolute_clonal WHOLE (the call of absolute_dataframe, `return df["absolute"]`), do_call's `.clip(lower=0)`:
                 the chain = the `absolutes` / cn / rewritten ratio of call_row on the purity-adjusted path (call_row_purity)
                                                 (C01_source_clonal_row, C01_source_clonal_calls, C01_source_dataframe_row)
FnCallRowClass   cnary.py chr_x_label, chr_y_label, parx_filter, chr_x_filter, pary_filter, chr_y_filter, WHOLE, per row: the
                 generated labels = x_label / y_label, the generated masks of a row = its row_class; composed with
                 FnCallRefExpect / FnCall's log2_ratios      (C01_source_labels, _row_class, _row_class_auto, _row_copies, _row_log2)
FnCallGuards     do_call's first statement `if method not in ("threshold", "clonal", "none"): raise ValueError`: the test
                 (shape checked with `ast`) = "not one of the three call_method values"      (C01_source_method_guard)
FnCallCmdGuards  commands._cmd_call: `if args.purity and not 0.0 < args.purity <= 1.0: raise RuntimeError` = not
                 (valid_purity or 0), and `is_sample_female = verify_sample_sex(...) if args.purity and args.purity < 1.0
                 else None` = looked up exactly when use_purity answers    (C01_source_purity_guard, C01_source_cmd_sample_sex)
FnCallExpectRef  absolute_expect / absolute_reference, WHOLE: the fixed flag, the call, the column handed back = snd / fst of
                 ref_expect whatever the fixed flag       (C01_source_expect_ref_calls, _absolute_expect, _absolute_reference)
(Proofs/FnCallDoCallRow.v, no module of its own: do_call_row = fn_dispatch followed by fn_finish   C01_source_do_call_row)

Mutations tried on a scratch copy (one line each; KILLED = the named Proofs file no longer compiles, REFUSED = the
translator refuses the module, which the check reports as a broken tie):
  FnCallFinish     `absolutes.round().astype("int")` -> `absolutes.astype("int")` KILLED ; `outarr["cn"] - outarr["cn1"]` ->
                   `outarr["cn1"] - outarr["cn"]` KILLED ; `if method != "none"` -> `!= "clonal"` KILLED ; -> `== "none"` REFUSED
                   (fragment not found) ; `if "baf" in outarr` -> `not in` REFUSED (`in` only against a literal sequence)
  FnCallPureRow    `_log2_ratio_to_absolute_pure(row.log2, ref_copies)` -> `(row.log2, ploidy)` KILLED ; the row's
                   `is_haploid_x_reference` -> `False` KILLED ; `ref_copies * 2**log2_ratio` -> `... + 1` KILLED
  FnCallClonalRow  lambda arguments `row["reference"], row["expect"]` swapped KILLED ; `.clip(lower=0)` -> `lower=1` KILLED ;
                   the division by purity dropped KILLED ; the two sex flags swapped in absolute_clonal's call of
                   absolute_dataframe KILLED ; likewise in absolute_dataframe's call of get_as_dframe_... KILLED ;
                   absolute_clonal `return df["expect"]` REFUSED (unsupported expression Subscript: not a declared column) ;
                   `axis=1` -> `axis=0` REFUSED (keyword arguments in a call) ; `row["reference"]` -> `row.reference` REFUSED
                   (the row is read other than as row['<column>'])
  FnCallRowClass   `x &= ~self.parx_filter(..)` -> `x &= self.parx_filter(..)` KILLED ; pary_filter `==` -> `!=` KILLED ;
                   "chrX" / "X" swapped in chr_x_label KILLED ; `self.end <= par2_end` -> `<` (pary_filter) KILLED ;
                   chr_y_label `.startswith("chr")` -> `("ch")` KILLED (behaviour-preserving on the two possible X labels)
  FnCallGuards     "none" dropped from the tuple KILLED ; `not in` -> `in` KILLED ; `raise ValueError` replaced by
                   `method = "threshold"` REFUSED (statement 0 of do_call is not `if T: raise ValueError(..)`)
  FnCallCmdGuards  `<= 1.0` -> `< 1.0` KILLED ; `args.purity and` dropped from the guard KILLED ; sample-sex condition
                   `< 1.0` -> `<= 1.0` KILLED ; `and args.purity < 1.0` dropped KILLED
  FnCallExpectRef  `is_haploid_x_reference = True` -> `False` KILLED ; `df["expect"]` -> `df["reference"]` KILLED ; the two flags
                   swapped in absolute_reference's call KILLED ; `df["reference"]` -> `df["log2"]` REFUSED (unsupported Subscript)
"""
_DO_CALL = ['cnarr', 'variants', 'method', 'ploidy', 'purity', 'is_haploid_x_reference', 'is_sample_female',
            'diploid_parx_genome', 'filters', 'thresholds']

import ast, os, sys


def _repo():
    for name in ('py2v_fn', '__main__'):
        m = sys.modules.get(name)
        if m is not None and hasattr(m, 'REPO') and hasattr(m, 'FnTranslator'):
            return m.REPO
    return os.environ.get('CNVKIT_REPO', '/repo')


def _guard_test(rel, fname, index, exc):
    """statement number `index` of the function's body (docstring not counted) must be `if <TEST>: raise <exc>(...)` with
    nothing else in it  ->  (source of TEST, prefix that finds the statement); an error path is outside a translated body,
    so the test is handed over as a result of its own.  Fail-closed: any other shape gives a fragment that is not found."""
    try:
        src = open(os.path.join(_repo(), rel)).read()
        fn = [n for n in ast.walk(ast.parse(src)) if isinstance(n, ast.FunctionDef) and n.name == fname]
        if len(fn) != 1:
            raise ValueError('%d definitions of %s' % (len(fn), fname))
        body = [x for x in fn[0].body if not (isinstance(x, ast.Expr) and isinstance(x.value, ast.Constant))]
        st = body[index]
        if not (isinstance(st, ast.If) and not st.orelse and len(st.body) == 1 and isinstance(st.body[0], ast.Raise)
                and isinstance(st.body[0].exc, ast.Call) and ast.unparse(st.body[0].exc.func) == exc):
            raise ValueError('statement %d of %s is not `if T: raise %s(..)`' % (index, fname, exc))
        return ast.unparse(st.test), 'if ' + ast.unparse(st.test)
    except Exception as e:   # noqa -- fail closed
        return 'True', '<%s no longer has the expected shape: %s>' % (rel, e)


_METHOD_TEST = _guard_test('cnvlib/call.py', 'do_call', 0, 'ValueError')
_PURITY_TEST = _guard_test('cnvlib/commands.py', '_cmd_call', 0, 'RuntimeError')

_ABS_ARGS = ['cnarr', 'ploidy', 'purity', 'is_haploid_x_reference', 'diploid_parx_genome', 'is_sample_female']
_GET = 'get_as_dframe_and_set_reference_and_expect_copies'

_ROW = [('self.chromosome', 'S', 'chromosome'), ('self.start', 'Z', 'start'), ('self.end', 'Z', 'end_')]


def _par_filter(name, coq, label, k1, k2):
    return dict(name='CopyNumArray.' + name, coq=coq, py_params=['self', 'genome_build'],
                params=_ROW + [('genome_build', 'S'), ('self.' + label, 'S', 'label'),
                               ("params.PSEUDO_AUTSOMAL_REGIONS[genome_build]['%s'][0]" % k1, 'Z', 'par1_lo'),
                               ("params.PSEUDO_AUTSOMAL_REGIONS[genome_build]['%s'][1]" % k1, 'Z', 'par1_hi'),
                               ("params.PSEUDO_AUTSOMAL_REGIONS[genome_build]['%s'][0]" % k2, 'Z', 'par2_lo'),
                               ("params.PSEUDO_AUTSOMAL_REGIONS[genome_build]['%s'][1]" % k2, 'Z', 'par2_hi')],
                ret='B')


def _chr_filter(name, coq, label, par_call):
    return dict(name='CopyNumArray.' + name, coq=coq, py_params=['self', 'diploid_parx_genome'],
                params=[('self.chromosome', 'S', 'chromosome'), ('self.' + label, 'S', 'label'),
                        ('diploid_parx_genome is not None', 'B', 'has_build'),
                        (par_call, 'B', 'in_par')],
                ret='B')


MODULES = {
    # do_call, the statement `if method != "none": outarr["cn"] = absolutes.round().astype("int"); if "baf" in outarr: ...`
    # WHOLE (the first batch's fn_alleles is the inner range with cn as an input): which method writes a cn column, the
    # rounding of `absolutes`, whether the allelic columns exist.  The three columns are unbound where nothing is stored
    # (method "none" / no baf column): init 0 / None / None.
    'FnCallFinish': ('cnvlib/call.py', [
        dict(name='do_call', coq='fn_finish', py_params=_DO_CALL,
             fragment=dict(first='if method != ', last='if method != '),
             init=[("outarr['cn']", 'Z', '0'), ("outarr['cn1']", 'OZ', 'None'), ("outarr['cn2']", 'OZ', 'None')],
             params=[('method', 'S'), ('absolutes', 'Q'), ("'baf' in outarr", 'B', 'has_baf'), ("outarr['baf']", 'OQ', 'baf')],
             returns=["outarr['cn']", "outarr['cn1']", "outarr['cn2']"], ret=['Z', 'OZ', 'OZ']),
    ]),
    # absolute_pure: ONE ITERATION of `for i, row in enumerate(cnarr):` -- the reference copies of the row's chromosome and
    # the store `absolutes[i] = _log2_ratio_to_absolute_pure(row.log2, ref_copies)` (both callees translated in this module)
    'FnCallPureRow': ('cnvlib/call.py', [
        dict(name='_reference_copies_pure', coq='fn_purerow_ref_pure',
             params=[('chrom', 'S'), ('ploidy', 'Z'), ('is_haploid_x_reference', 'B')], ret='Z'),
        dict(name='_log2_ratio_to_absolute_pure', coq='fn_purerow_abs_pure',
             params=[('log2_ratio', 'Q'), ('ref_copies', 'Z')], ret='Q'),
        dict(name='absolute_pure', coq='fn_pure_row', py_params=['cnarr', 'ploidy', 'is_haploid_x_reference'],
             loop=dict(first='for i, row in enumerate(cnarr)'),
             carried=[('absolutes[i]', 'Q')], init=[('absolutes[i]', 'Q', '(inject_Z 0)')],
             params=[('i', 'Z'), ('row.chromosome', 'S', 'chromosome'), ('row.log2', 'Q', 'log2'),
                     ('ploidy', 'Z'), ('is_haploid_x_reference', 'B')],
             ret='Q'),
    ]),
    # absolute_clonal / absolute_dataframe: the per-row function handed to `df.apply(..., axis=1)` and the column
    # `df["absolute"]` absolute_clonal returns
    'FnCallClonalRow': ('cnvlib/call.py', [
        dict(name='_log2_ratio_to_absolute_pure', coq='fn_clonalrow_abs_pure',
             params=[('log2_ratio', 'Q'), ('ref_copies', 'Z')], ret='Q'),
        dict(name='_log2_ratio_to_absolute', coq='fn_clonalrow_abs',
             params=[('log2_ratio', 'Q'), ('ref_copies', 'Z'), ('expect_copies', 'Z'), ('purity', 'OQ')], ret='Q'),
        # the function applied per row alone (the cells `row['c']` of the lambda are the row's `df['c']`)
        dict(name='absolute_dataframe', coq='fn_dataframe_row', py_params=_ABS_ARGS,
             params=[('purity', 'OQ'),
                     ("df['log2']", 'Q', 'log2'), ("df['reference']", 'Z', 'reference'), ("df['expect']", 'Z', 'expect')],
             fragment=dict(first="df['absolute'] = ", last="df['absolute'] = "),
             returns=["df['absolute']"], ret='Q'),
        # absolute_dataframe from the call of get_as_dframe_and_set_reference_and_expect_copies on: the callee's table is read
        # through its columns log2 / reference / expect, function-typed inputs keyed `get_as_dframe_...['<column>']` (tables
        # and the build are opaque ids) -- which argument goes where in the call, which column feeds which argument of
        # _log2_ratio_to_absolute
        dict(name='absolute_dataframe', coq='fn_dataframe_whole', py_params=_ABS_ARGS,
             params=[('cnarr', 'Z', 'cnarr_id'), ('ploidy', 'Z'), ('purity', 'OQ'), ('is_haploid_x_reference', 'B'),
                     ('diploid_parx_genome', 'Z', 'build_id'), ('is_sample_female', 'B'),
                     (_GET + "['log2']", 'F:Z,Z,B,Z,B>Q', 'log2_of'), (_GET + "['reference']", 'F:Z,Z,B,Z,B>Z', 'reference_of'),
                     (_GET + "['expect']", 'F:Z,Z,B,Z,B>Z', 'expect_of')],
             fragment=dict(first='df = ' + _GET, last="df['absolute'] = "),
             returns=["df['absolute']"], ret='Q'),
        # absolute_clonal, WHOLE: the call of absolute_dataframe (its table read through the column `absolute`, a
        # function-typed input) and the column handed back
        dict(name='absolute_clonal', coq='fn_absolute_clonal', py_params=_ABS_ARGS,
             params=[('cnarr', 'Z', 'cnarr_id'), ('ploidy', 'Z'), ('purity', 'OQ'), ('is_haploid_x_reference', 'B'),
                     ('diploid_parx_genome', 'Z', 'build_id'), ('is_sample_female', 'B'),
                     ("absolute_dataframe['absolute']", 'F:Z,Z,OQ,B,Z,B>Q', 'absolute_of')],
             ret='Q'),
        # do_call: `absolutes = absolute_clonal(...).clip(lower=0)`
        dict(name='do_call', coq='fn_clonal_clip', py_params=_DO_CALL,
             params=[('absolute_clonal(outarr, ploidy, purity, is_haploid_x_reference, diploid_parx_genome, is_sample_female)',
                      'Q', 'clonal')],
             fragment=dict(first='absolutes = absolute_clonal(', last='absolutes = absolute_clonal('),
             returns=['absolutes'], ret='Q'),
    ]),
    # the row masks of cnvlib/cnary.py that the purity-adjusted path reads (chr_x_filter / parx_filter / chr_y_filter /
    # pary_filter, WHOLE functions read per row, as in cnary_loops.py for C15) and the two labels they compare with
    # (chr_x_label / chr_y_label, WHOLE properties: the meta cache, the first row's "chr" prefix, the empty table)
    'FnCallRowClass': ('cnvlib/cnary.py', [
        _par_filter('parx_filter', 'fn_rc_parx_filter', 'chr_x_label', 'PAR1X', 'PAR2X'),
        _chr_filter('chr_x_filter', 'fn_rc_chr_x_filter', 'chr_x_label', 'self.parx_filter(genome_build=diploid_parx_genome)'),
        _par_filter('pary_filter', 'fn_rc_pary_filter', 'chr_y_label', 'PAR1Y', 'PAR2Y'),
        _chr_filter('chr_y_filter', 'fn_rc_chr_y_filter', 'chr_y_label', 'self.pary_filter(genome_build=diploid_parx_genome)'),
        dict(name='CopyNumArray.chr_x_label', coq='fn_rc_chr_x_label', py_params=['self'],
             params=[('key in self.meta', 'B', 'cached'), ('self.meta[key]', 'S', 'cached_label'), ('len(self)', 'Z', 'n_rows'),
                     ('self.chromosome.iat[0]', 'S', 'first')],
             ret='S'),
        dict(name='CopyNumArray.chr_y_label', coq='fn_rc_chr_y_label', py_params=['self'],
             params=[("'chr_y' in self.meta", 'B', 'cached'), ("self.meta['chr_y']", 'S', 'cached_label'), ('len(self)', 'Z', 'n_rows'),
                     ('self.chr_x_label', 'S', 'x_label')],
             ret='S'),
    ]),
    # the argument checks in front of the calling code, each `if <TEST>: raise ...` as the FIRST statement of its function
    # (shape checked with `ast`, the test handed over as a result):
    #   do_call     `if method not in ("threshold", "clonal", "none"): raise ValueError`
    #   _cmd_call   `if args.purity and not 0.0 < args.purity <= 1.0: raise RuntimeError`, and the sample-sex lookup
    #               `is_sample_female = (verify_sample_sex(...) if args.purity and args.purity < 1.0 else None)`
    'FnCallGuards': ('cnvlib/call.py', [
        dict(name='do_call', coq='fn_method_rejected', py_params=_DO_CALL,
             fragment=dict(first=_METHOD_TEST[1], last=_METHOD_TEST[1]),
             params=[('method', 'S')], returns=[_METHOD_TEST[0]], ret='B'),
    ]),
    'FnCallCmdGuards': ('cnvlib/commands.py', [
        dict(name='_cmd_call', coq='fn_purity_rejected', py_params=['args'],
             fragment=dict(first=_PURITY_TEST[1], last=_PURITY_TEST[1]),
             params=[('args.purity', 'OQ', 'purity')], returns=[_PURITY_TEST[0]], ret='B'),
        dict(name='_cmd_call', coq='fn_cmd_sample_sex', py_params=['args'],
             fragment=dict(first='is_sample_female = ', last='is_sample_female = '),
             params=[('args.purity', 'OQ', 'purity'),
                     ('verify_sample_sex(cnarr, args.sample_sex, args.male_reference, args.diploid_parx_genome)', 'OB', 'verified_female')],
             returns=['is_sample_female'], ret='OB'),
    ]),
    # absolute_expect / absolute_reference, WHOLE: the flag each of them fixes (`is_haploid_x_reference = True` /
    # `is_sample_female = True`), the call of get_as_dframe_and_set_reference_and_expect_copies and the column handed back.
    # The table the callee returns is read per row through its two columns, function-typed inputs keyed
    # `get_as_dframe_and_set_reference_and_expect_copies['reference']` / `[...]['expect']` (tables and the build are opaque
    # ids); the theorem instantiates them with FnCallRefExpect's generated column code.
    'FnCallExpectRef': ('cnvlib/call.py', [
        dict(name='absolute_expect', coq='fn_absolute_expect',
             py_params=['cnarr', 'ploidy', 'diploid_parx_genome', 'is_sample_female'],
             params=[('cnarr', 'Z', 'cnarr_id'), ('ploidy', 'Z'), ('diploid_parx_genome', 'Z', 'build_id'), ('is_sample_female', 'B'),
                     ("get_as_dframe_and_set_reference_and_expect_copies['reference']", 'F:Z,Z,B,Z,B>Z', 'reference_of'),
                     ("get_as_dframe_and_set_reference_and_expect_copies['expect']", 'F:Z,Z,B,Z,B>Z', 'expect_of')],
             ret='Z'),
        dict(name='absolute_reference', coq='fn_absolute_reference',
             py_params=['cnarr', 'ploidy', 'diploid_parx_genome', 'is_haploid_x_reference'],
             params=[('cnarr', 'Z', 'cnarr_id'), ('ploidy', 'Z'), ('diploid_parx_genome', 'Z', 'build_id'), ('is_haploid_x_reference', 'B'),
                     ("get_as_dframe_and_set_reference_and_expect_copies['reference']", 'F:Z,Z,B,Z,B>Z', 'reference_of'),
                     ("get_as_dframe_and_set_reference_and_expect_copies['expect']", 'F:Z,Z,B,Z,B>Z', 'expect_of')],
             ret='Z'),
    ]),
}
