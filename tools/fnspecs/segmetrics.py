"""Scalar / elementwise pieces of cnvlib/segmetrics.py and cnvlib/bintest.py translated body-for-body into
Gen/FnSegmetrics.v and Gen/FnBintest.v (C17; theorems C17_source_* in Proofs/FnSegmetrics.v).

  make_pi_func                    pct_lo = 100 * alpha / 2 ; pct_hi = 100 * (1 - alpha / 2)       (fragment)
  confidence_interval_bootstrap   new_boots = int(np.ceil(2 / alpha))                             (fragment)
  z_prob                          sd = np.sqrt(1 - weight) ; z = log2 / sd ; p = 2.0 * norm.cdf(-np.abs(z)), per element

What the translator cannot read (stays with the genspec fingerprints of tools/genspecs/c17.py + the correspondence):
  * np.sqrt and scipy's norm.cdf are not in its library table: they enter as expression-keyed opaque inputs, i.e. the
    source expressions `np.sqrt(1 - cnarr['weight'])` and `norm.cdf(-np.abs(z))` must occur verbatim (a changed
    argument, e.g. a clipped variance, makes the translator refuse);
  * the guard `if bootstraps <= 2 / alpha:` holds a logging call (an expression statement) in its body;
  * `bw = k ** (-1 / 4)` (general power) and the list comprehension of _smooth_samples_by_weight;
  * p_adjust_bh is a vector algorithm (argsort, accumulate): proved model + correspondence.

Loop / per-row ties added later (Proofs/FnSegCalcIntervals.v, FnSegCiBoots.v, FnSegIntervalCols.v, FnBintestRow.v,
FnBintestBH.v; C17_source_* at the end of Props/C17.v): calc_intervals' loop iteration, the whole
`if bootstraps <= 2 / alpha:` statement (log lines are dropped now), the interval columns of do_segmetrics, do_bintest's
per-row stores and hit mask, p_adjust_bh's two elementwise statements.  Still not tied: the location / spread loops of
do_segmetrics (dictionary of callables, np.fromiter(map(...))), the generator expression of `deviations`,
_smooth_samples_by_weight (general power, list comprehension), _bca_correct_alpha (dead code; general power 1.5, scipy
ppf/cdf, a comprehension), the `k < 2` early return (returns an array), `alphas = np.array([...])` (array display).

Mutations tried on a scratch copy (each breaks the named Proofs file, i.e. an obligation of C17; none survives):
  FnSegCalcIntervals `if len(ser):` -> `if len(ser) > 1:` ; `out_vals_lo[i], out_vals_hi[i] = ...` swapped
  FnSegCiBoots       `bootstraps <= 2 / alpha` -> `<` ; `bootstraps = new_boots` -> `new_boots + 1`
  FnSegIntervalCols  `segarr["pi_lo"], segarr["pi_hi"] = ...` swapped ; `if "ci" in interval_stats` -> `"pi"` (refused:
                     fragment not found)
  FnBintestRow       `p_bintest < alpha` -> `<=` ; -> `~(p_bintest >= alpha)` (differs on NaN) ; `probes = 1` -> `0`
  FnBintestBH        `float(len(p))` -> `float(len(p) - 1)` ; `np.minimum(1, ...)` -> `np.minimum(2, ...)` ;
                     `steps * p[by_descend]` -> `steps + p[by_descend]` (refused: the keyed expression is gone)"""
MODULES = {
    'FnSegmetrics': ('cnvlib/segmetrics.py', [
        dict(name='make_pi_func', coq='fn_pi_pcts', py_params=['alpha'],
             fragment=dict(first='pct_lo = ', last='pct_hi = '),
             params=[('alpha', 'Q')], returns=['pct_lo', 'pct_hi'], ret=['Q', 'Q']),
        dict(name='confidence_interval_bootstrap', coq='fn_new_boots',
             py_params=['values', 'weights', 'alpha', 'bootstraps', 'smoothed'],
             fragment=dict(first='new_boots = ', last='new_boots = '),
             params=[('alpha', 'Q')], returns=['new_boots'], ret='Z'),
    ]),
    'FnBintest': ('cnvlib/bintest.py', [
        dict(name='z_prob', coq='fn_z_score', py_params=['cnarr'],
             fragment=dict(first='sd = ', last='z = '),
             params=[("np.sqrt(1 - cnarr['weight'])", 'Q', 'sqrt_one_minus_weight'), ("cnarr['log2']", 'Q', 'log2_resid')],
             returns=['z'], ret='Q'),
        dict(name='z_prob', coq='fn_z_p', py_params=['cnarr'],
             fragment=dict(first='p = ', last='p = '),
             params=[('norm.cdf(-np.abs(z))', 'Q', 'phi_neg_abs_z')],
             returns=['p'], ret='Q'),
    ]),
    # ---- loop ties (LOOP_TIES_GUIDE) ---------------------------------------------------------------------------------
    # calc_intervals: ONE ITERATION of `for i, ser in enumerate(bins_log2s):` -- out_vals_lo[i] / out_vals_hi[i] after it:
    # the two components of func(ser.values, wt.values) (opaque inputs keyed `...[0]` / `...[1]`: unpacking is indexing)
    # when the segment has bins, else what np.repeat(np.nan, n) put there.  The assertion is a recorded guard.
    # (Proofs/FnSegCalcIntervals.v: C17_source_calc_step / C17_source_calc_intervals_ci / _pi)
    'FnSegCalcIntervals': ('cnvlib/segmetrics.py', [
        dict(name='calc_intervals', coq='fn_calc_step', py_params=['bins_log2s', 'weights', 'func'],
             loop=dict(first='for i, ser in enumerate(bins_log2s)'),
             carried=[('out_vals_lo[i]', 'OQ'), ('out_vals_hi[i]', 'OQ')],
             params=[('i', 'Z'), ('len(ser)', 'Z', 'n_bins'),
                     ('out_vals_lo[i]', 'OQ', 'init_lo'), ('out_vals_hi[i]', 'OQ', 'init_hi'),
                     ('weights[ser.index]', 'Z', 'wt_id'),
                     ('func(ser.values, wt.values)[0]', 'OQ', 'func_lo'),
                     ('func(ser.values, wt.values)[1]', 'OQ', 'func_hi')],
             ret=['OQ', 'OQ']),
    ]),
    # do_segmetrics: the interval columns, per segment row -- which of calc_intervals' two arrays lands in which column
    # and under which of the requested interval statistics (the columns' previous entries are inputs).
    # (Proofs/FnSegIntervalCols.v: C17_source_interval_columns -- the interval part of Model/Segmetrics.v row_assignments)
    'FnSegIntervalCols': ('cnvlib/segmetrics.py', [
        dict(name='do_segmetrics', coq='fn_interval_columns',
             py_params=['cnarr', 'segarr', 'location_stats', 'spread_stats', 'interval_stats', 'alpha', 'bootstraps',
                        'smoothed', 'skip_low'],
             fragment=dict(first="if 'ci' in interval_stats", last="if 'pi' in interval_stats"),
             params=[("'ci' in interval_stats", 'B', 'want_ci'), ("'pi' in interval_stats", 'B', 'want_pi'),
                     ("calc_intervals(bins_log2s, weights, stat_funcs['ci'])[0]", 'OQ', 'ci_lo_new'),
                     ("calc_intervals(bins_log2s, weights, stat_funcs['ci'])[1]", 'OQ', 'ci_hi_new'),
                     ("calc_intervals(bins_log2s, weights, stat_funcs['pi'])[0]", 'OQ', 'pi_lo_new'),
                     ("calc_intervals(bins_log2s, weights, stat_funcs['pi'])[1]", 'OQ', 'pi_hi_new'),
                     ("segarr['ci_lo']", 'OQ', 'ci_lo_old'), ("segarr['ci_hi']", 'OQ', 'ci_hi_old'),
                     ("segarr['pi_lo']", 'OQ', 'pi_lo_old'), ("segarr['pi_hi']", 'OQ', 'pi_hi_old')],
             returns=["segarr['ci_lo']", "segarr['ci_hi']", "segarr['pi_lo']", "segarr['pi_hi']"],
             ret=['OQ', 'OQ', 'OQ', 'OQ']),
    ]),
    # confidence_interval_bootstrap: the whole `if bootstraps <= 2 / alpha:` statement (the warning is a dropped log
    # line) -- the number of resamples actually drawn.
    # (Proofs/FnSegCiBoots.v: C17_source_n_boot -- equals Model/Segmetrics.v n_boot for the exact quotient)
    'FnSegCiBoots': ('cnvlib/segmetrics.py', [
        dict(name='confidence_interval_bootstrap', coq='fn_ci_bootstraps',
             py_params=['values', 'weights', 'alpha', 'bootstraps', 'smoothed'],
             fragment=dict(first='if bootstraps ', last='if bootstraps '),
             params=[('bootstraps', 'Z'), ('alpha', 'Q')], returns=['bootstraps'], ret='Z'),
    ]),
    # do_bintest, per row: log2 := the residual, probes := 1; the hit mask p_bintest < alpha (a NaN p is no hit).
    # (Proofs/FnBintestRow.v: C17_source_bintest_row / C17_source_bintest_hits -- Model/Bintest.v bintest_table_with is
    #  the rows selected by the generated mask, with the generated stores)
    'FnBintestRow': ('cnvlib/bintest.py', [
        dict(name='do_bintest', coq='fn_bintest_stores', py_params=['cnarr', 'segments', 'alpha', 'target_only'],
             fragment=dict(first="cnarr['log2'] = ", last="cnarr['probes'] = "),
             params=[('resid', 'Q')], returns=["cnarr['log2']", "cnarr['probes']"], ret=['Q', 'Z']),
        dict(name='do_bintest', coq='fn_bintest_is_sig', py_params=['cnarr', 'segments', 'alpha', 'target_only'],
             fragment=dict(first="cnarr['p_bintest'] = z_prob(cnarr)", last='is_sig = '),
             params=[('z_prob(cnarr)', 'OQ', 'p_adjusted'), ('alpha', 'Q')], returns=['is_sig'], ret='B'),
    ]),
    # p_adjust_bh, per element of the descending order: steps = float(len(p)) / np.arange(len(p), 0, -1) and the cap
    # q = np.minimum(1, <running minimum>) (the argsorts and np.minimum.accumulate are array algorithms: the running
    # minimum enters as an opaque input keyed by its source text, so `steps * p[by_descend]` inside it is pinned).
    # (Proofs/FnBintestBH.v: C17_source_bh_steps / C17_source_bh_cap / C17_source_bh)
    'FnBintestBH': ('cnvlib/bintest.py', [
        dict(name='p_adjust_bh', coq='fn_bh_step_factor', py_params=['p'],
             fragment=dict(first='steps = ', last='steps = '),
             params=[('len(p)', 'Z', 'n'), ('np.arange(len(p), 0, -1)', 'Z', 'rank')], returns=['steps'], ret='Q'),
        dict(name='p_adjust_bh', coq='fn_bh_cap', py_params=['p'],
             fragment=dict(first='q = np.minimum(', last='q = np.minimum('),
             params=[('np.minimum.accumulate(steps * p[by_descend])', 'Q', 'running_min')], returns=['q'], ret='Q'),
    ]),
}
