"""Scalar / elementwise pieces of cnvlib/segmetrics.py and cnvlib/bintest.py translated body-for-body into
Gen/FnSegmetrics.v and Gen/FnBintest.v (C17; theorems C17_source_* in Proofs/FnSegmetrics.v).

  make_pi_func                    pct_lo = 100 * alpha / 2 ; pct_hi = 100 * (1 - alpha / 2)       (fragment)
  confidence_interval_bootstrap   new_boots = int(np.ceil(2 / alpha))                             (fragment)
  z_prob                          sd = np.sqrt(1 - weight) ; z = log2 / sd ; p = 2.0 * norm.cdf(-np.abs(z)), per element

What the translator cannot read (stays with the genspec fingerprints of tools/genspecs/c17.py + the correspondence):
  * np.sqrt and scipy's norm.cdf are not in its library table: they enter as expression-keyed opaque inputs, i.e. the
    source expressions `np.sqrt(1 - cnarr['weight'])` and `norm.cdf(-np.abs(z))` must occur verbatim (a changed
    argument, e.g. a clipped variance, makes the translator refuse);
  * the guard `if bootstraps <= 2 / alpha:` holds a logging call (an expression statement) in its body;
  * `bw = k ** (-1 / 4)` (general power) and the list comprehension of _smooth_samples_by_weight;
  * p_adjust_bh is a vector algorithm (argsort, accumulate): proved model + correspondence."""
MODULES = {
    'FnSegmetrics': ('cnvlib/segmetrics.py', [
        dict(name='make_pi_func', coq='fn_pi_pcts', py_params=['alpha'],
             fragment=dict(first='pct_lo = ', last='pct_hi = '),
             params=[('alpha', 'Q')], returns=['pct_lo', 'pct_hi'], ret=['Q', 'Q']),
        dict(name='confidence_interval_bootstrap', coq='fn_new_boots',
             py_params=['values', 'weights', 'alpha', 'bootstraps', 'smoothed'],
             fragment=dict(first='new_boots = ', last='new_boots = '),
             params=[('alpha', 'Q')], returns=['new_boots'], ret='Z'),
    ]),
    'FnBintest': ('cnvlib/bintest.py', [
        dict(name='z_prob', coq='fn_z_score', py_params=['cnarr'],
             fragment=dict(first='sd = ', last='z = '),
             params=[("np.sqrt(1 - cnarr['weight'])", 'Q', 'sqrt_one_minus_weight'), ("cnarr['log2']", 'Q', 'log2_resid')],
             returns=['z'], ret='Q'),
        dict(name='z_prob', coq='fn_z_p', py_params=['cnarr'],
             fragment=dict(first='p = ', last='p = '),
             params=[('norm.cdf(-np.abs(z))', 'Q', 'phi_neg_abs_z')],
             returns=['p'], ret='Q'),
    ]),
}
