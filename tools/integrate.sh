#!/bin/bash
# usage: tools/integrate.sh <branch>   -- copy the files an agent branch added/changed into main's working tree
set -u
B=$1
cd /verif
BASE=$(git merge-base main "$B")
FILES=$(git diff --name-only "$BASE" "$B")
TAKE=(); SKIP=()
for f in $FILES; do
  case "$f" in
    evidence/*|MANIFEST.json|harness/vlib.py|harness/main.py|check|setup.sh|DESIGN.md|AGENT_GUIDE.md|known_findings.json|.gitignore|properties.jsonl|tools/py2v_data.py|tools/gen_build.py|tools/gen_manifest.py|tools/validate.py|tools/claims.json|tools/baseline.sh|tools/try_patch.sh|tools/confirm_seed.sh|tools/integrate.sh)
      SKIP+=("$f");;
    *) TAKE+=("$f");;
  esac
done
echo "taking ${#TAKE[@]} files from $B:"; printf '  %s\n' "${TAKE[@]}"
if [ ${#SKIP[@]} -gt 0 ]; then echo "SKIPPED (shared files changed on the branch -- review by hand):"; printf '  %s\n' "${SKIP[@]}"; fi
for f in "${TAKE[@]}"; do
  if git cat-file -e "$B:$f" 2>/dev/null; then git checkout "$B" -- "$f"; else echo "  (deleted on branch: $f)"; git rm -q --cached "$f" 2>/dev/null; rm -f "$f"; fi
done
