#!/usr/bin/env python3
"""Function-body translator (fail-closed): turns selected *pure scalar* Python
functions of /repo into Gallina definitions, regenerated on every run into
coq/theories/Gen/Fn*.v.  Theorems in Proofs/Fn*.v / Props/*.v then state that the
hand-written model functions EQUAL these generated definitions, so a change to
the body of one of these functions changes the generated definition and the
proof obligation is re-checked against what the code says now.

Supported subset (anything else: the translator REFUSES and the tie is reported
as broken):
  statements : docstring, `x = e`, `if/elif/else`, `return e`  (every path returns)
  expressions: int/float/bool/str literals, names, + - * / // % unary -, `2 ** e`
               (-> oracle exp2), `e ** k` for k = 2..8, comparisons (also chained `a < b < c`), `x in [literals]`,
               `x is None` / `is not None`, and / or / not with Python truthiness,
               conditional expressions, calls to: abs, max, min, float, int (on Z),
               `s.lower()`, other functions translated in the same module.
               numpy/pandas code read per element: `v[mask]`, `v[mask] op= e`, `tbl[mask, 'col'] = e`, `.values`,
               `.round()`, `.clip(a, b)`, `.abs()`, `.astype('int')`, `.isnull()`, `.fillna(v)`, `&`, `|`, `~`,
               loops: `loop={'first': prefix}` + `carried=[(expr, type)]` translates ONE ITERATION of a for/while loop
               as a step function of the carried variables (continue ends it, break adds a boolean result),
               `yields=[types]` adds the list of tuples the iteration yields (in order) as one more result;
               `logging.*(...)` statements are dropped, `assert c` is a recorded guard like `if not c: raise`,
               `a, b = x, y` assigns simultaneously, keyword arguments to functions of the same module are placed by name,
               `np.log2` / `np.exp2` / `np.sqrt` (oracles: Section variables, in alphabetical order), NaN-propagating arithmetic on optional numbers
  parameters : (key, type[, coq name]) where key is a Python name, a dotted attribute or ANY source expression the
               function reads as an opaque input (e.g. "cnarr.chr_x_filter(diploid_parx_genome).values",
               "outarr['baf']"); `fragment={'first': prefix, 'last': prefix}` translates a contiguous statement range
               (found in whichever nested block holds it, after desugaring) and `returns=[exprs]` names its results
               (ret is then a list of types = a tuple)
  types      : Z, Q, B (bool), S (string), OQ (option Q), OZ (option Z); parameter
               and result types are declared in the spec (tools/fnspecs/*.py); an
               `if p and ...:` / `if p is not None and ...:` on an option-typed
               name narrows it to its content in the rest of the condition and in
               the then-branch.
Arithmetic is exact: Z operations on integers, Q operations otherwise (floats are
exact dyadic rationals); `/` is always Q division, `//` is Z.div (Python floor
division on integers = Coq Z.div).

Additions of the loop ties of C05 / C15 (each marked `[loop ties C15]` / `[loop ties C05]` / `[loop ties C15/C05]` where it is
implemented; all additive, everything else is refused as before):
  types      : OB (optional boolean: None / True / False), LQ (a 1-d float array / list of numbers as a value),
               'F:<arg>,..,<kw>=<arg>><ret>' (a PURE callable called with exactly this argument pattern), 'S|<T>' (a str OR a T,
               read through `if isinstance(x, str):`), EXC (not a value: whether the call guarded by a `try` raises what its
               handler catches)
  statements : `try: <one assignment from a call> except E: H [else: L]` (spec key `tries`); `if c: A else: raise` (guard
               recorded); an `if` left with log lines only is dropped when its test has no effect; `if x is None:` /
               `if x is not None:` on an OB name narrows it on the not-None side (the continuation is translated per side);
               `d = {"k": v, ...}` (a dict display local that is only read: `k in d`, `d[k]`, `return d`); `d[key] = v` with a string
               key is a store to that one entry (a variable named by the target's source text); `a, b = (x1, y1) if c else
               (x2, y2)`; `opaque=` ranges also in whole functions / fragments; spec key `row_filter=<table>`: `return table` /
               `return table[mask]` read per row as "the row is kept"
  expressions: `+x`; `np.nan` as a value (the missing number); == / != and truthiness of OB; calls of function-typed
               parameters; list displays of numbers and `lst.append(e)` on LQ; spec key `columns=[M, ..]`: 2-d arrays read as
               one column -- `np.apply_along_axis(F, 0, M)`, `np.array([E for a, i in zip(M.T, v)])`

Additions of the loop ties of C03 / C20 (marked `[loop ties C03]` / `[loop ties C20]`; additive, fail-closed):
  statements : `T.iloc[K, T.columns.get_loc('col')] = v` with an integer literal K: a store to the ONE cell (K, 'col') of T,
               the variable named `T.iloc[K]['col']` (cell_store(); refused -- in the specs whose region holds the statement --
               beside any other subscript store into T or a second row of the same column);
               spec key `row_keep=<table>`: `T = T[mask]` read per row as `row_keep__ = row_keep__ and mask` (row_keep__ is
               bound by `init` and named in `returns`; a non-boolean subscript is refused);
               `T['col'] = [E for row in T.itertuples(index=False)]` read per row as `T['col'] = E` (cells are `row.<column>`);
               [loop ties C09] `T = T.assign(c1=v1, ..)` with constant / plain-name values read as `T['c1'] = v1; ..`; a load
               `T.loc[mask, 'col']` is `T['col'][mask]`;
               an `if` of assignments none of which is read afterwards is refused (it used to end in an IndexError)

Additions of the loop ties of C19 / C17, second wave (marked `[loop ties e2]`; additive, fail-closed):
  signature  : spec key `allow_kwarg=True` accepts a `**kwargs` parameter that is never read in the translation (only inside
               an opaque keyed input such as `f(a, **kwargs)`)
  types      : AQ (a 1-d float numpy ARRAY as a value): `np.array([e1, .., en])`, `k * x` / `x * k` elementwise, `list(x)` -> LQ
  statements : `if c: pass` (no else) is dropped like an `if` of log lines; spec key `items=<X>`: `X = [(E1, .., En) for a1, .., an
               in X]` read for one item as `a1, .., an = E1, .., En`; spec key `dict_prelude=<prefix>` (loop specs): one top-level
               `name = {...}` dict display before the loop is translated in front of the iteration (a constant table)
  expressions: spec key `rows=[X, ..]`: `np.fromiter(map(F, X), np.float64[, n])` read for one row as F(this row's entry of X)
  (already present before this wave and used by it: chained comparisons `a < b < c`, `e ** k` for k = 2..8, log lines dropped)
Additions of the control-flow ties of C04 / C12 (marked `[loop ties e3]`; additive, fail-closed, both only under a spec key):
  statements : spec key `inplace=['.m', ..]`: the statement `x.m(args)` (result discarded) on a plain name x, `.m` being a
               function-typed parameter, is `x = x.m(args)` -- the method updates x in place, the function input gives the
               object after the call (refused when x is aliased by a plain `y = x` / `x = y` anywhere in the function);
               spec key `raising_calls=['f', ..]`: the statement `f(args)` (result discarded), f being a function-typed
               parameter with result B read as "this call raises", is `raised__ = raised__ or f(args)` (raised__ is bound by
               `init` and named in `returns`; the values computed after a raising call are those of the continuing path)
Additions of the loop ties of wave e4 (C14 / C16 / C07; marked `[loop ties e4]`; additive, fail-closed):
  expressions: `s in L` / `s not in L` with L a declared list of strings (LS) and s a str: Base/Str.v mem_string
  statements : `L.remove(x)` on an LS name with x a str: L without its first item equal to x (a closed local fixpoint; the
               ValueError of an absent x is a recorded error path);
               `if x is None: x = d` on an optional boolean x with d itself an optional boolean: x stays optional -- its own
               value when it has one, else d's (a plain-boolean d narrows x as before)
Additions of the loop ties of C01 / C02, second batch (marked `[loop ties e1]`; additive, fail-closed):
  statements : `T['col'] = T.apply(lambda row: E, axis=1)` read per row as `T['col'] = E` with every cell `row['c']` read as
               `T['c']` (the lambda takes exactly the row and reads it only as `row['<column>']`, E neither mentions T nor
               binds names);
               `T = g(args)` where the spec declares function-typed parameters keyed `g['col']`: from there on `T['col']` is
               `g['col'] args` (the row's cell in that column of the table g returns); T must be assigned once
  expressions: `s.startswith(t)` on two strings (Base/Str.v str_prefix t s); `v if c else None` with v : B / OB (an OB)"""
import ast, os, sys, glob, importlib.util
from fractions import Fraction

HERE = os.path.dirname(os.path.abspath(__file__))
REPO = os.environ.get('CNVKIT_REPO', '/repo')
OUT = os.path.normpath(os.path.join(HERE, '..', 'coq', 'theories', 'Gen'))


class Refuse(Exception):
    pass


def fn_type(t):
    """[loop ties C15/C05] a function-typed parameter 'F:<arg>,<arg>,<kw>=<arg>><ret>' (e.g. 'F:LQ>Q', 'F:LQ,initial=Q>Q'): a
    PURE Python callable the code calls with exactly this argument pattern (positional arguments, then the named keyword
    arguments); its value is a Gallina function of the argument types.  Returns ([(keyword or None, type)], result type)."""
    body, ret = t[2:].rsplit('>', 1)
    args = []
    for a in body.split(','):
        kw, _, ty = a.rpartition('=')
        if not kw and any(k for k, _ in args):
            raise Refuse('function type %s: a positional slot after a keyword slot' % t)
        args.append((kw or None, ty))
    return args, ret


class _CoqTypes(dict):
    def __missing__(self, t):
        if isinstance(t, str) and t.startswith('F:'):
            args, ret = fn_type(t)
            return '(' + ' -> '.join([self[a] for _, a in args] + [self[ret]]) + ')'
        if isinstance(t, str) and t.startswith('S|'):
            # [loop ties C15] 'S|<T>': a parameter that is EITHER a str OR a value of type T (T not a string type): the sum
            # string + T; read only through `if isinstance(x, str):`, which narrows it on both sides (see block())
            return '(string + %s)%%type' % self[t[2:]]
        raise KeyError(t)


COQTY = _CoqTypes({'Z': 'Z', 'Q': 'Q', 'B': 'bool', 'S': 'string', 'OQ': 'option Q', 'OZ': 'option Z', 'LS': 'list string',
         'LZ': 'list Z',         # [loop ties C06] LZ: a 1-d integer array / list of ints, as a value
         'LQ': 'list Q',         # [loop ties C15/C05] LQ: a 1-d float array / Series / list of numbers, as a value (opaque: only
                                 # passed on to function-typed parameters, see fn_type)
         'AQ': 'list Q',         # [loop ties e2] AQ: a 1-d float NUMPY ARRAY as a value (never a Python list: `k * x` is elementwise,
                                 # see expr()); it arises from `np.array([e1, .., en])` and becomes LQ through `list(x)`
         'OB': 'option bool',    # [loop ties C15/C05] OB: an optional boolean (None / True / False, e.g. a sex call that may be
                                 # missing): `is None`, truthiness (None is false), == / !=, `x = None`, return None, and the
                                 # two narrowing statements of block() (`if x is None: return ..` / `if x is None: x = d`)
         'EXC': 'bool'})         # [loop ties C15] EXC: NOT a Python value -- whether the statement guarded by a `try` raises the
                                 # exception its handler catches (spec key `tries`, see try_stmt)


COQ_RESERVED = {'end', 'match', 'with', 'in', 'let', 'fun', 'if', 'then', 'else', 'as', 'at', 'return', 'forall', 'exists',
                'fix', 'cofix', 'for', 'where', 'Type', 'Prop', 'Set', 'using', 'IF', 'mod'}


def qlit(x):
    f = Fraction(x)
    if f.denominator == 1:
        return '(inject_Z (%d))' % f.numerator
    return '((%d) # %d)' % (f.numerator, f.denominator)


def slit(s):
    if any(ord(c) < 32 or ord(c) > 126 or c == '"' for c in s):
        raise Refuse('string literal not plain ASCII: %r' % s)
    return '"%s"%%string' % s


class FnTranslator:
    def __init__(self, rel, specs):
        self.rel = rel
        self.specs = {s['name']: s for s in specs}
        self.oracles = set()
        self.fresh = 0
        self.mask_uses = []
        self.guards = []

    # ---- helpers
    def new(self, base):
        self.fresh += 1
        base = ''.join(c if (c.isalnum() or c == '_') else '_' for c in base).strip('_') or 'v'
        if base[0].isdigit():
            base = 'v' + base
        return '%s_%d' % (base, self.fresh)

    def toQ(self, tv):
        t, ty = tv
        if ty == 'Q':
            return t
        if ty == 'Z':
            return '(inject_Z %s)' % t
        raise Refuse('%s: numeric value expected, got type %s in %s' % (self.rel, ty, t))

    def num2(self, a, b):
        """coerce two numeric operands: both Z -> Z, else Q"""
        if a[1] == 'Z' and b[1] == 'Z':
            return a[0], b[0], 'Z'
        return self.toQ(a), self.toQ(b), 'Q'

    def lift(self, vals, build):
        """NaN propagation: if some operand is an optional number, the operation is applied under `Some` and a missing
        operand makes the result missing.  `build` maps the unwrapped (term, type) operands to a (term, type)."""
        if not any(v[1] in ('OQ', 'OZ') for v in vals):
            return build(vals)
        inner, binds = [], []
        for v in vals:
            if v[1] in ('OQ', 'OZ'):
                nm = self.new('o')
                binds.append((v[0], nm))
                inner.append((nm, 'Q' if v[1] == 'OQ' else 'Z'))
            else:
                inner.append(v)
        t, ty = build(inner)
        if ty not in ('Q', 'Z'):
            raise Refuse('%s: operation on a missing value that does not yield a number' % self.rel)
        term = '(Some %s)' % t
        for src, nm in reversed(binds):
            term = '(match %s with Some %s => %s | None => None end)' % (src, nm, term)
        return (term, 'O' + ty)

    def truthy(self, tv):
        t, ty = tv
        if ty == 'B':
            return t
        if ty == 'Z':
            return '(negb (Z.eqb %s 0))' % t
        if ty == 'Q':
            return '(negb (Qeq_bool %s 0))' % t
        if ty == 'S':
            return '(negb (String.eqb %s ""%%string))' % t
        if ty == 'LS':
            return '(match %s with nil => false | cons _ _ => true end)' % t
        if ty == 'OQ':
            return '(match %s with Some q_ => negb (Qeq_bool q_ 0) | None => false end)' % t
        if ty == 'OZ':
            return '(match %s with Some z_ => negb (Z.eqb z_ 0) | None => false end)' % t
        if ty == 'OB':
            return '(match %s with Some b_ => b_ | None => false end)' % t          # [loop ties C15/C05] None is false
        raise Refuse('truthiness of type %s' % ty)

    # ---- expressions
    def expr(self, n, env):
        if not isinstance(n, (ast.Constant, ast.Name)):
            try:
                key = ast.unparse(n)
            except Exception:
                key = None
            if key is not None and key in env:
                return env[key]
        if isinstance(n, ast.Constant):
            v = n.value
            if v is True or v is False:
                return ('true' if v else 'false', 'B')
            if isinstance(v, int):
                return ('(%d)' % v, 'Z')
            if isinstance(v, float):
                return (qlit(v), 'Q')
            if isinstance(v, str):
                return (slit(v), 'S')
            if v is None:
                return ('None', 'NONE')          # typed at its use: assignment to an optional variable / other side of an if
            raise Refuse('%s: unsupported constant %r' % (self.rel, v))
        if isinstance(n, ast.Name):
            if n.id not in env:
                raise Refuse('%s: unknown name %s' % (self.rel, n.id))
            if env[n.id][1].startswith('D:'):
                raise Refuse('%s: the dict %s is only read by `key in d` and `d[key]`' % (self.rel, n.id))
            return env[n.id]
        if isinstance(n, ast.Attribute) and isinstance(n.value, ast.Name):
            key = '%s.%s' % (n.value.id, n.attr)
            if key in env:
                return env[key]
            if n.value.id in ('np', 'numpy', 'math') and n.attr in ('nan', 'NaN', 'NAN'):
                # [loop ties C15] np.nan as a value: the missing number of the optional-number reading (None), typed at its use
                # like the constant None (`x = np.nan` makes x an optional number, is_nan_const already reads it so in `a if c else np.nan`)
                return ('None', 'NONE')
            raise Refuse('%s: unknown attribute %s' % (self.rel, key))
        if isinstance(n, ast.Subscript) and isinstance(n.value, ast.Name) and env.get(n.value.id, ('', ''))[1].startswith('D:'):
            # [loop ties C15] d[k] on a dict display local with literal string keys: the value under the key equal to k;
            # a missing key raises KeyError -- an error path outside the translation (recorded)
            items, dty = env[n.value.id]
            k = self.expr(n.slice, env)
            if k[1] != 'S':
                raise Refuse('%s: dict subscript by type %s' % (self.rel, k[1]))
            g = '%s not in %s   (KeyError at %s)' % (ast.unparse(n.slice), n.value.id, ast.unparse(n))
            if g not in self.guards:
                self.guards.append(g)
            term = items[-1][1]
            for key, val in reversed(items[:-1]):
                term = '(if String.eqb %s %s then %s else %s)' % (k[0], slit(key), val, term)
            return (term, dty[2:])
        if isinstance(n, ast.Subscript):
            r = self.int_list_subscript(n, env)           # [loop ties C06] x[0], x[-1], x[1:], x[:-1], np.r_[...] on LZ
            if r is not None:
                return r
        if isinstance(n, ast.Subscript) and isinstance(n.value, ast.Attribute) and n.value.attr == 'loc' \
                and isinstance(n.slice, ast.Tuple) and len(n.slice.elts) == 2 and isinstance(n.slice.elts[1], ast.Constant) \
                and isinstance(n.slice.elts[1].value, str) and isinstance(n.ctx, ast.Load):
            # [loop ties C09] a LOAD T.loc[mask, 'col']: the column T['col'] under the mask, i.e. T['col'][mask] (the store
            # form is desugared the same way)
            col = ast.Subscript(value=n.value.value, slice=n.slice.elts[1], ctx=ast.Load())
            return self.expr(ast.Subscript(value=col, slice=n.slice.elts[0], ctx=ast.Load()), env)
        if isinstance(n, ast.Subscript) and not isinstance(n.slice, (ast.Constant, ast.Tuple, ast.Slice)):
            # elementwise view of numpy code: v[mask] is v itself, read under the guard `mask`
            # (only legal where the result is consumed under the same mask; checked at the use site)
            v, m = self.expr(n.value, env), self.expr(n.slice, env)
            if m[1] != 'B':
                raise Refuse('%s: subscript by a non-mask' % self.rel)
            self.mask_uses.append((ast.unparse(n.slice), v[0]))
            return v
        if isinstance(n, ast.Attribute) and n.attr == 'values':
            return self.expr(n.value, env)             # ndarray view of a column: the same element
        if isinstance(n, ast.UnaryOp):
            if isinstance(n.op, ast.USub):
                a = self.expr(n.operand, env)
                if a[1] == 'Z':
                    return ('(- %s)' % a[0], 'Z')
                return ('(Qopp %s)' % self.toQ(a), 'Q')
            if isinstance(n.op, ast.UAdd):
                a = self.expr(n.operand, env)       # [loop ties C15] +x on a number is x
                if a[1] in ('Z', 'Q'):
                    return a
                raise Refuse('unary + on type %s' % a[1])
            if isinstance(n.op, ast.Not):
                return ('(negb %s)' % self.truthy(self.expr(n.operand, env)), 'B')
            if isinstance(n.op, ast.Invert):
                a = self.expr(n.operand, env)
                if a[1] == 'B':
                    return ('(negb %s)' % a[0], 'B')
                raise Refuse('~ on a non-boolean')
            raise Refuse('unary operator %s' % type(n.op).__name__)
        if isinstance(n, ast.BinOp):
            if isinstance(n.op, ast.Pow):
                if isinstance(n.left, ast.Constant) and n.left.value in (2, 2.0):
                    self.oracles.add('exp2')
                    return self.lift([self.expr(n.right, env)], lambda vs: ('(exp2 %s)' % self.toQ(vs[0]), 'Q'))   # 2 ** nan = nan
                if isinstance(n.right, ast.Constant) and isinstance(n.right.value, int) and not isinstance(n.right.value, bool) \
                        and 2 <= n.right.value <= 8:
                    k = n.right.value
                    def power(vs):
                        a = vs[0]
                        nm = self.new('pw')
                        if a[1] == 'Z':
                            return ('(let %s := %s in %s)' % (nm, a[0], ' * '.join([nm] * k)), 'Z')
                        body = nm
                        for _ in range(k - 1):
                            body = '(Qmult %s %s)' % (body, nm)
                        return ('(let %s := %s in %s)' % (nm, self.toQ(a), body), 'Q')
                    return self.lift([self.expr(n.left, env)], power)
                raise Refuse('%s: only 2 ** e and e ** k (k = 2..8) are supported' % self.rel)
            a, b = self.expr(n.left, env), self.expr(n.right, env)
            if isinstance(n.op, ast.Add) and a[1] == b[1] == 'S':
                return ('(%s ++ %s)%%string' % (a[0], b[0]), 'S')
            if isinstance(n.op, ast.Add) and a[1] == b[1] == 'LS':
                return ('(%s ++ %s)%%list' % (a[0], b[0]), 'LS')
            if isinstance(n.op, ast.Add) and a[1] == b[1] == 'LQ' and isinstance(n.right, ast.List) and getattr(n, '_from_append', False):
                # [loop ties C05] `lst.append(e)` on a list of numbers, desugared to lst + [e]: concatenation.  ONLY for the
                # desugared append (an object with .append is a Python list): a source-level `x + [e]` on a numpy array would
                # be elementwise addition and is not translated
                return ('(%s ++ %s)%%list' % (a[0], b[0]), 'LQ')
            if isinstance(n.op, (ast.BitAnd, ast.BitOr)):
                if a[1] == 'B' and b[1] == 'B':
                    return ('(%s %s %s)' % ('andb' if isinstance(n.op, ast.BitAnd) else 'orb', a[0], b[0]), 'B')
                raise Refuse('& / | on non-booleans')
            if isinstance(n.op, ast.Mult) and {a[1], b[1]} in ({'AQ', 'Z'}, {'AQ', 'Q'}):
                # [loop ties e2] scalar * numpy array (either order): elementwise, the array of the products
                k, arr = (a, b) if b[1] == 'AQ' else (b, a)
                return ('(map (fun x_ => Qmult %s x_) %s)' % (self.toQ(k), arr[0]), 'AQ')
            if isinstance(n.op, (ast.Add, ast.Sub, ast.Mult)):
                def arith(vs):
                    x, y, ty = self.num2(vs[0], vs[1])
                    if ty == 'Z':
                        op = {ast.Add: '+', ast.Sub: '-', ast.Mult: '*'}[type(n.op)]
                        return ('(%s %s %s)' % (x, op, y), 'Z')
                    f = {ast.Add: 'Qplus', ast.Sub: 'Qminus', ast.Mult: 'Qmult'}[type(n.op)]
                    return ('(%s %s %s)' % (f, x, y), 'Q')
                return self.lift([a, b], arith)
            if isinstance(n.op, ast.Div):
                # `/` is read as Qdiv, which is total (x / 0 = 0); Python raises ZeroDivisionError (scalars) or yields
                # inf / nan (numpy) at a zero divisor: that case is OUTSIDE the translation and recorded as a guard
                g = '(%s) == 0   [division]' % ast.unparse(n.right)
                if not (isinstance(n.right, ast.Constant) and n.right.value not in (0, 0.0)) and g not in self.guards:
                    self.guards.append(g)
                return self.lift([a, b], lambda vs: ('(Qdiv %s %s)' % (self.toQ(vs[0]), self.toQ(vs[1])), 'Q'))
            if isinstance(n.op, ast.FloorDiv):
                if a[1] == 'Z' and b[1] == 'Z':
                    return ('(Z.div %s %s)' % (a[0], b[0]), 'Z')
                raise Refuse('%s: // on non-integers' % self.rel)
            if isinstance(n.op, ast.Mod):
                if a[1] == 'Z' and b[1] == 'Z':
                    return ('(Z.modulo %s %s)' % (a[0], b[0]), 'Z')
                raise Refuse('%s: %% on non-integers' % self.rel)
            raise Refuse('binary operator %s' % type(n.op).__name__)
        if isinstance(n, ast.Compare):
            if len(n.ops) != 1:
                # a < b < c  is  (a < b) and (b < c)   (operands are pure expressions here)
                parts, left = [], n.left
                for op, right in zip(n.ops, n.comparators):
                    parts.append(self.expr(ast.Compare(left=left, ops=[op], comparators=[right]), env)[0])
                    left = right
                return ('(' + ' && '.join(parts) + ')', 'B')
            op, rhs = n.ops[0], n.comparators[0]
            if isinstance(op, (ast.Is, ast.IsNot)):
                if not (isinstance(rhs, ast.Constant) and rhs.value is None):
                    raise Refuse('`is` only against None')
                a = self.expr(n.left, env)
                if a[1] not in ('OQ', 'OZ', 'OB'):
                    # a non-optional value is never None
                    return ('false' if isinstance(op, ast.Is) else 'true', 'B')
                t = '(match %s with Some _ => false | None => true end)' % a[0]
                return (t if isinstance(op, ast.Is) else '(negb %s)' % t, 'B')
            if isinstance(op, (ast.In, ast.NotIn)):
                a = self.expr(n.left, env)
                if isinstance(rhs, ast.Name) and env.get(rhs.id, ('', ''))[1].startswith('D:'):
                    # [loop ties C15] membership in a dict display local (see dict_local): its literal string keys
                    if a[1] != 'S':
                        raise Refuse('%s: `in` a dict with string keys on type %s' % (self.rel, a[1]))
                    t = '(mem_string %s [%s])' % (a[0], '; '.join(slit(k) for k, _ in env[rhs.id][0]))
                    return (t if isinstance(op, ast.In) else '(negb %s)' % t, 'B')
                if not isinstance(rhs, (ast.List, ast.Tuple, ast.Set)) and a[1] == 'S' \
                        and env.get(ast.unparse(rhs), ('', ''))[1] == 'LS':
                    # [loop ties e4] `s in L` / `s not in L` with L a declared list of strings (type LS: a Python list / tuple
                    # of str) and s a str: membership by string equality -- Base/Str.v mem_string
                    t = '(mem_string %s %s)' % (a[0], env[ast.unparse(rhs)][0])
                    return (t if isinstance(op, ast.In) else '(negb %s)' % t, 'B')
                if not isinstance(rhs, (ast.List, ast.Tuple, ast.Set)):
                    raise Refuse('`in` only against a literal sequence')
                items = [self.expr(e, env) for e in rhs.elts]
                if a[1] == 'S' and all(i[1] == 'S' for i in items):
                    t = '(mem_string %s [%s])' % (a[0], '; '.join(i[0] for i in items))
                elif a[1] == 'Z' and all(i[1] == 'Z' for i in items):
                    t = '(existsb (Z.eqb %s) [%s])' % (a[0], '; '.join(i[0] for i in items))
                else:
                    raise Refuse('`in` on types %s' % a[1])
                return (t if isinstance(op, ast.In) else '(negb %s)' % t, 'B')
            a, b = self.expr(n.left, env), self.expr(rhs, env)
            if a[1] == 'S' and b[1] == 'S':
                if isinstance(op, ast.Eq):
                    return ('(String.eqb %s %s)' % (a[0], b[0]), 'B')
                if isinstance(op, ast.NotEq):
                    return ('(negb (String.eqb %s %s))' % (a[0], b[0]), 'B')
                raise Refuse('string ordering')
            if {a[1], b[1]} <= {'B', 'OB'} and 'OB' in (a[1], b[1]) and isinstance(op, (ast.Eq, ast.NotEq)):
                # [loop ties C15/C05] == / != of optional booleans: None equals only None (Python and numpy booleans alike)
                x, y = self.coerce(a, 'OB'), self.coerce(b, 'OB')
                t = ('(match %s, %s with Some x_, Some y_ => Bool.eqb x_ y_ | None, None => true | _, _ => false end)' % (x, y))
                return (t if isinstance(op, ast.Eq) else '(negb %s)' % t, 'B')
            if a[1] == 'B' and b[1] == 'B' and isinstance(op, (ast.Eq, ast.NotEq)):
                t = '(Bool.eqb %s %s)' % (a[0], b[0])
                return (t if isinstance(op, ast.Eq) else '(negb %s)' % t, 'B')
            if (a[1] in ('OQ', 'OZ') or b[1] in ('OQ', 'OZ')) and a[1] in ('Z', 'Q', 'OQ', 'OZ') and b[1] in ('Z', 'Q', 'OQ', 'OZ') \
                    and isinstance(op, (ast.Lt, ast.LtE, ast.Gt, ast.GtE, ast.Eq, ast.NotEq)):
                # [loop ties C16-C18] comparison of an optional number (a float that may be NaN, consistent with the
                # NaN-propagating arithmetic of `lift`): IEEE / numpy / Python -- every ordered comparison and == with NaN
                # is False, != is True; on present operands it is the plain comparison (translated by the code below)
                env2, binds = dict(env), []
                for side, v in (('cmp_l__', a), ('cmp_r__', b)):
                    if v[1] in ('OQ', 'OZ'):
                        nm = self.new('o')
                        binds.append((v[0], nm))
                        env2[side] = (nm, 'Q' if v[1] == 'OQ' else 'Z')
                    else:
                        env2[side] = v
                term = self.expr(ast.Compare(left=ast.Name(id='cmp_l__', ctx=ast.Load()), ops=[op],
                                             comparators=[ast.Name(id='cmp_r__', ctx=ast.Load())]), env2)[0]
                nan = 'true' if isinstance(op, ast.NotEq) else 'false'
                for src, nm in reversed(binds):
                    term = '(match %s with Some %s => %s | None => %s end)' % (src, nm, term, nan)
                return (term, 'B')
            x, y, ty = self.num2(a, b)
            if ty == 'Z':
                tbl = {ast.Lt: '(Z.ltb %s %s)', ast.LtE: '(Z.leb %s %s)', ast.Eq: '(Z.eqb %s %s)',
                       ast.NotEq: '(negb (Z.eqb %s %s))'}
                if type(op) in tbl:
                    return (tbl[type(op)] % (x, y), 'B')
                if isinstance(op, ast.Gt):
                    return ('(Z.ltb %s %s)' % (y, x), 'B')
                if isinstance(op, ast.GtE):
                    return ('(Z.leb %s %s)' % (y, x), 'B')
            else:
                # Qle_bool / Qeq_bool are stdlib; strict order as the negated converse
                if isinstance(op, ast.LtE):
                    return ('(Qle_bool %s %s)' % (x, y), 'B')
                if isinstance(op, ast.GtE):
                    return ('(Qle_bool %s %s)' % (y, x), 'B')
                if isinstance(op, ast.Lt):
                    return ('(negb (Qle_bool %s %s))' % (y, x), 'B')
                if isinstance(op, ast.Gt):
                    return ('(negb (Qle_bool %s %s))' % (x, y), 'B')
                if isinstance(op, ast.Eq):
                    return ('(Qeq_bool %s %s)' % (x, y), 'B')
                if isinstance(op, ast.NotEq):
                    return ('(negb (Qeq_bool %s %s))' % (x, y), 'B')
            raise Refuse('comparison %s' % type(op).__name__)
        if isinstance(n, ast.BoolOp):
            return (self.cond(n, env), 'B')
        if isinstance(n, ast.JoinedStr):
            # f-string: literal pieces and {e} of a string (itself) or an int (its decimal text, Model/Decimal.v print_Z);
            # a float is printed by Python's repr, which is outside the translation: declare the formatted expression as
            # a parameter of type S (= the text Python prints for it)
            parts = []
            for piece in n.values:
                if isinstance(piece, ast.Constant) and isinstance(piece.value, str):
                    parts.append(slit(piece.value))
                elif isinstance(piece, ast.FormattedValue) and piece.conversion == -1 and piece.format_spec is None:
                    parts.append(self.to_text(self.expr(piece.value, env), ast.unparse(piece.value)))
                else:
                    raise Refuse('%s: f-string with a conversion or a format specification' % self.rel)
            if not parts:
                return (slit(''), 'S')
            return ('(' + ' ++ '.join(parts) + ')%string' if len(parts) > 1 else parts[0], 'S')
        if isinstance(n, ast.List):
            items = [self.expr(e, env) for e in n.elts]
            if all(i[1] == 'S' for i in items):
                return ('[%s]' % '; '.join(i[0] for i in items) if items else '(@nil string)', 'LS')
            if items and all(i[1] in ('Q', 'Z') for i in items):
                # [loop ties C05] a list display of numbers: the list of its values (LQ)
                return ('[%s]' % '; '.join(self.toQ(i) for i in items), 'LQ')
            raise Refuse('%s: list display of non-strings' % self.rel)
        if isinstance(n, ast.IfExp):
            c = self.cond(n.test, env)
            a, b = self.expr(n.body, env), self.expr(n.orelse, env)
            if getattr(n, '_elem_store', False) and b[1] == 'B' and a[1] == 'Z':
                a = (self.truthy(a), 'B')          # [loop ties C07/C14] an int stored into a boolean array: nonzero is True
            a, b, ty = self.unify(a, b)
            return ('(if %s then %s else %s)' % (c, a, b), ty)
        if isinstance(n, ast.ListComp) and getattr(self, 'columns', None):
            # [loop ties C05] spec key `columns=[M, ...]`: the named parameters (type LQ) are 2-d arrays (rows = samples,
            # columns = bins) read as ONE COLUMN; a vector with one entry per column is read as that column's entry.
            #   [E for a, i in zip(M.T, v)]   entry of this column: E with a = the column of M, i = this column's entry of v
            # (zip pairs column j of M with v[j]; v has one entry per column of M by its type)
            if len(n.generators) != 1 or n.generators[0].ifs or n.generators[0].is_async:
                raise Refuse('%s: list comprehension with several generators / a condition' % self.rel)
            g = n.generators[0]
            it = g.iter
            if not (isinstance(g.target, ast.Tuple) and len(g.target.elts) == 2 and all(isinstance(t, ast.Name) for t in g.target.elts)
                    and isinstance(it, ast.Call) and isinstance(it.func, ast.Name) and it.func.id == 'zip' and not it.keywords
                    and len(it.args) == 2 and isinstance(it.args[0], ast.Attribute) and it.args[0].attr == 'T'
                    and isinstance(it.args[0].value, ast.Name) and it.args[0].value.id in self.columns):
                raise Refuse('%s: list comprehension other than [E for a, i in zip(M.T, v)] over a declared column matrix' % self.rel)
            col = self.expr(it.args[0].value, env)
            v = self.expr(it.args[1], env)
            if col[1] != 'LQ' or v[1] not in ('Q', 'Z'):
                raise Refuse('%s: zip(M.T, v) on types %s / %s' % (self.rel, col[1], v[1]))
            env2 = dict(env)
            env2[g.target.elts[0].id] = col
            env2[g.target.elts[1].id] = v
            e = self.expr(n.elt, env2)
            if e[1] not in ('Q', 'Z'):
                raise Refuse('%s: list comprehension element of type %s' % (self.rel, e[1]))
            return e
        if isinstance(n, ast.Call):
            return self.call(n, env)
        raise Refuse('%s: unsupported expression %s' % (self.rel, type(n).__name__))

    def int_list_subscript(self, n, env):
        """[loop ties C06] integer lists (type LZ: a Python list of ints or a 1-d integer numpy array, read as a value).
        Only these forms, each with exactly the meaning of the emitted Gallina:
          np.r_[a, X, ...]  (a : Z, X : LZ)  concatenation                  -> [a] ++ X ++ ...
          x[1:]                              all but the first (empty stays empty) -> tl x
          x[:-1]                             all but the last  (empty stays empty) -> removelast x
          x[0], x[-1]                        first / last element; IndexError on an empty x is an error path outside
                                             the translation (recorded like a raise guard)      -> hd 0 x / last x 0
        Returns None when `n` is not one of them (the caller goes on with the other readings of a subscript)."""
        def neg1(e):
            return isinstance(e, ast.UnaryOp) and isinstance(e.op, ast.USub) and isinstance(e.operand, ast.Constant) \
                and e.operand.value == 1 and not isinstance(e.operand.value, bool)
        def const(e, k):
            return isinstance(e, ast.Constant) and e.value == k and not isinstance(e.value, bool) and isinstance(e.value, int)
        if isinstance(n.value, ast.Attribute) and n.value.attr == 'r_' and isinstance(n.value.value, ast.Name) \
                and n.value.value.id in ('np', 'numpy'):
            items = n.slice.elts if isinstance(n.slice, ast.Tuple) else [n.slice]
            parts = []
            for it in items:
                if isinstance(it, (ast.Slice, ast.Starred)):
                    raise Refuse('%s: np.r_ with a slice item' % self.rel)
                v = self.expr(it, env)
                if v[1] == 'Z':
                    parts.append('[%s]' % v[0])
                elif v[1] == 'LZ':
                    parts.append(v[0])
                else:
                    raise Refuse('%s: np.r_ item of type %s (only integers and integer lists)' % (self.rel, v[1]))
            return ('(' + ' ++ '.join(parts) + ')%list', 'LZ')
        try:
            key = ast.unparse(n.value)
        except Exception:
            return None
        if env.get(key, ('', ''))[1] != 'LZ':
            return None
        x = env[key][0]
        sl = n.slice
        if isinstance(sl, ast.Slice):
            if sl.step is None and sl.upper is None and const(sl.lower, 1):
                return ('(tl %s)' % x, 'LZ')
            if sl.step is None and sl.lower is None and neg1(sl.upper):
                return ('(removelast %s)' % x, 'LZ')
            raise Refuse('%s: slice %s of an integer list (only [1:] and [:-1])' % (self.rel, ast.unparse(n)))
        if const(sl, 0) or neg1(sl):
            g = 'len(%s) == 0   (IndexError at %s)' % (key, ast.unparse(n))
            if g not in self.guards:
                self.guards.append(g)
            return ('(hd 0 %s)' % x if const(sl, 0) else '(last %s 0)' % x, 'Z')
        raise Refuse('%s: index %s of an integer list (only [0] and [-1])' % (self.rel, ast.unparse(n)))

    def to_text(self, tv, what):
        """str(v) / f'{v}' of a translated value"""
        if tv[1] == 'S':
            return tv[0]
        if tv[1] == 'Z':
            self.uses_decimal = True
            return '(print_Z %s)' % tv[0]
        raise Refuse('%s: the text of %s (type %s) is outside the translation (declare it as a parameter of type S)'
                     % (self.rel, what, tv[1]))

    def unify(self, a, b):
        if a[1] == b[1]:
            return a[0], b[0], a[1]
        if {a[1], b[1]} == {'Z', 'Q'}:
            return self.toQ(a), self.toQ(b), 'Q'
        # an optional number on one side (None / NaN possible), a plain number or None on the other
        base = {'Z': 'Z', 'Q': 'Q', 'OZ': 'Z', 'OQ': 'Q', 'NONE': None}
        if a[1] in base and b[1] in base and ({a[1], b[1]} & {'OZ', 'OQ', 'NONE'}):
            bs = {base[a[1]], base[b[1]]} - {None}
            if bs:
                oty = 'OQ' if 'Q' in bs else 'OZ'
                return self.coerce(a, oty), self.coerce(b, oty), oty      # (coerce refuses option Z -> option Q)
        raise Refuse('branches of different types %s / %s' % (a[1], b[1]))

    def call(self, n, env):
        f = n.func
        try:
            fkey = ast.unparse(f)
        except Exception:
            fkey = None
        if fkey is not None and fkey in env and env[fkey][1].startswith('F:'):
            # [loop ties C15/C05] a call of a function-typed parameter (see fn_type): positional arguments fill the positional
            # slots in order, keyword arguments the named slots; every declared slot must be given, nothing else
            slots, rty = fn_type(env[fkey][1])
            pos = [ty for kw, ty in slots if kw is None]
            kws = {kw: ty for kw, ty in slots if kw is not None}
            if len(n.args) != len(pos) or any(isinstance(a, ast.Starred) for a in n.args) \
                    or sorted(k.arg or '**' for k in n.keywords) != sorted(kws):
                raise Refuse('%s: %s is called with other arguments than its declared type %s' % (self.rel, fkey, env[fkey][1]))
            given = {k.arg: k.value for k in n.keywords}
            vals = [self.coerce(self.expr(a, env), ty) for a, ty in zip(n.args, pos)]
            vals += [self.coerce(self.expr(given[kw], env), ty) for kw, ty in slots if kw is not None]
            return ('(%s %s)' % (env[fkey][0], ' '.join(vals)), rty)
        if isinstance(f, ast.Attribute) and env.get('.' + f.attr, ('', ''))[1].startswith('F:') \
                and not (isinstance(f.value, ast.Name) and f.value.id in ('np', 'numpy', 'math', 'pd', 'pandas')):
            # [loop ties C15] a parameter keyed '.<m>' of function type: the method <m> of an opaque object (e.g. a table read
            # as an id), as a PURE function of the object (first slot) and the call's arguments (the remaining slots)
            slots, rty = fn_type(env['.' + f.attr][1])
            pos = [ty for kw, ty in slots if kw is None]
            kws = {kw: ty for kw, ty in slots if kw is not None}
            if not pos or len(n.args) != len(pos) - 1 or any(isinstance(a, ast.Starred) for a in n.args) \
                    or sorted(k.arg or '**' for k in n.keywords) != sorted(kws):
                raise Refuse('%s: method .%s is called with other arguments than its declared type %s'
                             % (self.rel, f.attr, env['.' + f.attr][1]))
            given = {k.arg: k.value for k in n.keywords}
            vals = [self.coerce(self.expr(a, env), ty) for a, ty in zip([f.value] + list(n.args), pos)]
            vals += [self.coerce(self.expr(given[kw], env), ty) for kw, ty in slots if kw is not None]
            return ('(%s %s)' % (env['.' + f.attr][0], ' '.join(vals)), rty)
        if getattr(self, 'columns', None) and fkey in ('np.apply_along_axis', 'numpy.apply_along_axis') and not n.keywords \
                and len(n.args) == 3:
            # [loop ties C05] np.apply_along_axis(F, 0, M) on a declared column matrix M (see `columns`): entry j of the result
            # is F(M[:, j]) -- this column's entry is F applied to the column
            fn, ax, m = n.args
            fk = ast.unparse(fn)
            if not (isinstance(ax, ast.Constant) and ax.value == 0 and not isinstance(ax.value, bool)
                    and isinstance(m, ast.Name) and m.id in self.columns and env.get(fk, ('', ''))[1] == 'F:LQ>Q'):
                raise Refuse('%s: np.apply_along_axis other than (F, 0, M) with F : F:LQ>Q and M a declared column matrix' % self.rel)
            return ('(%s %s)' % (env[fk][0], self.expr(m, env)[0]), 'Q')
        if getattr(self, 'columns', None) and fkey in ('np.array', 'numpy.array', 'np.asarray', 'numpy.asarray') \
                and not n.keywords and len(n.args) == 1 and isinstance(n.args[0], ast.ListComp):
            # [loop ties C05] np.array([... per column ...]): the vector of the per-column entries, read as this column's entry
            return self.expr(n.args[0], env)
        if fkey in ('np.array', 'numpy.array') and not n.keywords and len(n.args) == 1 and isinstance(n.args[0], ast.List) \
                and n.args[0].elts and not getattr(self, 'columns', None):
            # [loop ties e2] np.array([e1, .., en]) of numbers: the float array of these values (type AQ)
            items = [self.expr(e, env) for e in n.args[0].elts]
            if not all(i[1] in ('Q', 'Z') for i in items) or all(i[1] == 'Z' for i in items):
                raise Refuse('%s: np.array display of types %s (numbers, at least one float)' % (self.rel, [i[1] for i in items]))
            return ('[%s]' % '; '.join(self.toQ(i) for i in items), 'AQ')
        if getattr(self, 'rows', None) and fkey in ('np.fromiter', 'numpy.fromiter') and not n.keywords and len(n.args) in (2, 3) \
                and isinstance(n.args[0], ast.Call) and isinstance(n.args[0].func, ast.Name) and n.args[0].func.id == 'map':
            # [loop ties e2] spec key `rows=[X, ..]`: the named parameters are lists with ONE ENTRY PER ROW of the table being
            # filled, read as THIS row's entry.  np.fromiter(map(F, X), np.float64, n): entry j of the result is F(X[j]) as a
            # float, so this row's entry is F applied to this row's entry of X (F a function-typed value of one positional
            # slot and a numeric result; a wrong count n raises in numpy: an error path)
            m = n.args[0]
            if m.keywords or len(m.args) != 2 or not (isinstance(m.args[1], ast.Name) and m.args[1].id in self.rows) \
                    or ast.unparse(n.args[1]) not in ('np.float64', 'numpy.float64', 'float'):
                raise Refuse('%s: np.fromiter other than (map(F, X), np.float64[, n]) with X a declared per-row list' % self.rel)
            fn = self.expr(m.args[0], env)
            if not fn[1].startswith('F:'):
                raise Refuse('%s: map(%s, ..): not a function-typed value' % (self.rel, ast.unparse(m.args[0])))
            slots, rty = fn_type(fn[1])
            if len(slots) != 1 or slots[0][0] is not None or rty not in ('Q', 'OQ'):
                raise Refuse('%s: map(%s, ..) with a function of type %s' % (self.rel, ast.unparse(m.args[0]), fn[1]))
            x = self.coerce(self.expr(m.args[1], env), slots[0][1])
            return ('(%s %s)' % (fn[0], x), rty)
        if isinstance(f, ast.Name) and f.id == 'row_mask__' and len(n.args) == 1 and not n.keywords:
            # [loop ties C20] the subscript of `T = T[mask]` under `row_keep`: it must be a boolean mask (see desugar)
            m = self.expr(n.args[0], env)
            if m[1] != 'B':
                raise Refuse('%s: row_keep: %s is subscripted by a non-mask (type %s)' % (self.rel, getattr(self, 'row_keep', '?'), m[1]))
            return m
        if isinstance(f, ast.Name) and f.id == 'yield_extend__' and not n.keywords:
            x = self.expr(n.args[0], env)
            if x[1] != 'Y':
                raise Refuse('%s: the yields of an opaque range must be a parameter of type Y' % self.rel)
            return ('(%s ++ %s)' % (env['yield__'][0], x[0]), 'Y')
        if isinstance(f, ast.Name) and f.id == 'yield_append__' and not n.keywords:
            tys = self.yield_types
            e = n.args[0]
            if isinstance(e, ast.Call) and isinstance(e.func, ast.Name) and e.func.id in self.specs \
                    and isinstance(self.specs[e.func.id]['ret'], list):
                # yield f(...) where f is a function of the same module that returns a tuple of the yielded types
                term, rty = self.call(e, env)
                if list(rty) != list(tys):
                    raise Refuse('%s: %s returns %s, the spec yields %s' % (self.rel, e.func.id, rty, tys))
                return ('(%s ++ [%s])' % (env['yield__'][0], term), 'Y')
            if getattr(self, 'yield_record', None):
                elts = self.record_fields(e, self.yield_record)      # [loop ties C06] a namedtuple, read on declared fields
            else:
                elts = e.elts if isinstance(e, ast.Tuple) else [e]
            sv = getattr(self, 'slice_views', None)
            if sv:
                # [loop ties C16] spec key `slice_views=dict(base='t.data.iloc', wrappers=['t.as_dataframe'], length='len(t)')`:
                # a yielded component `t.as_dataframe(t.data.iloc[a:b])` (or the bare `t.data.iloc[a:b]`) is the rows
                # [a, b) of the table by position; it is yielded as the TWO integers a, b (a missing lower bound is 0,
                # a missing upper bound the declared length expression; no step)
                flat = []
                for x in elts:
                    node = x
                    if isinstance(node, ast.Call) and len(node.args) == 1 and not node.keywords \
                            and ast.unparse(node.func) in sv.get('wrappers', []):
                        node = node.args[0]
                    if isinstance(node, ast.Subscript) and isinstance(node.slice, ast.Slice) and node.slice.step is None \
                            and ast.unparse(node.value) == sv['base']:
                        lo = node.slice.lower if node.slice.lower is not None else ast.Constant(value=0)
                        hi = node.slice.upper if node.slice.upper is not None else ast.parse(sv['length'], mode='eval').body
                        for b in (lo, hi):
                            if self.expr(b, env)[1] != 'Z':
                                raise Refuse('%s: slice bound %s is not an integer' % (self.rel, ast.unparse(b)))
                        flat += [lo, hi]
                    else:
                        flat.append(x)
                elts = flat
            if len(elts) != len(tys):
                raise Refuse('%s: a %d-tuple is yielded where the spec declares %d components' % (self.rel, len(elts), len(tys)))
            vals = [self.coerce(self.expr(x, env), t) for x, t in zip(elts, tys)]
            item = '(' + ', '.join(vals) + ')' if len(vals) > 1 else vals[0]
            return ('(%s ++ [%s])' % (env['yield__'][0], item), 'Y')
        if n.keywords and isinstance(f, ast.Attribute) and f.attr in ('ones', 'zeros') and isinstance(f.value, ast.Name) \
                and f.value.id in ('np', 'numpy') and getattr(self, 'element', None) and len(n.args) == 1 \
                and [k.arg for k in n.keywords] == ['dtype'] and ast.unparse(n.keywords[0].value) in ('np.bool_', 'bool', 'numpy.bool_'):
            # [loop ties C07] np.ones(n, dtype=np.bool_) / np.zeros(...) read for one element of the declared array length
            if ast.unparse(n.args[0]) != self.element['length']:
                raise Refuse('%s: %s is not an array of the declared element length %s' % (self.rel, ast.unparse(n), self.element['length']))
            return ('true' if f.attr == 'ones' else 'false', 'B')
        if n.keywords and isinstance(f, ast.Attribute) and f.attr == 'clip' and not n.args \
                and all(k.arg in ('lower', 'upper') for k in n.keywords) and len({k.arg for k in n.keywords}) == len(n.keywords):
            # [loop ties C07] x.clip(lower=a) = max(x, a) ; x.clip(upper=b) = min(x, b) ; both = clip(x, a, b)  (numbers)
            v = self.expr(f.value, env)
            kw = {k.arg: self.expr(k.value, env) for k in n.keywords}
            if v[1] not in ('Z', 'Q') or any(x[1] not in ('Z', 'Q') for x in kw.values()):
                raise Refuse('%s: .clip(lower=/upper=) on types %s' % (self.rel, [v[1]] + [x[1] for x in kw.values()]))
            if len(kw) == 2:
                return self.clip(v, kw['lower'], kw['upper'])
            which, bnd = next(iter(kw.items()))
            x, y, ty = self.num2(v, bnd)
            if ty == 'Z':
                return ('(Z.%s %s %s)' % ('max' if which == 'lower' else 'min', x, y), 'Z')
            if which == 'lower':          # numpy maximum(x, lo)
                return ('(if Qle_bool %s %s then %s else %s)' % (y, x, x, y), 'Q')
            return ('(if Qle_bool %s %s then %s else %s)' % (x, y, x, y), 'Q')
        if n.keywords:
            if isinstance(f, ast.Name) and f.id in self.specs and all(k.arg for k in n.keywords):
                # keyword arguments to a function translated in the same module: placed by parameter name
                names = [p[0] for p in self.specs[f.id]['params']]
                pos = list(n.args)
                kw = {k.arg: k.value for k in n.keywords}
                if any(k not in names or names.index(k) < len(pos) for k in kw):
                    raise Refuse('%s: keyword argument of %s that is not a (free) parameter' % (self.rel, f.id))
                full = list(pos)
                for nm in names[len(pos):]:
                    if nm not in kw:
                        break
                    full.append(kw.pop(nm))
                if kw:
                    raise Refuse('%s: keyword argument after an omitted parameter in a call of %s' % (self.rel, f.id))
                return self.call(ast.Call(func=f, args=full, keywords=[]), env)
            raise Refuse('keyword arguments in a call')
        if isinstance(f, ast.Attribute) and f.attr == 'join' and len(n.args) == 1:
            sep, lst = self.expr(f.value, env), self.expr(n.args[0], env)
            if sep[1] == 'S' and lst[1] == 'LS':
                return ('(String.concat %s %s)' % (sep[0], lst[0]), 'S')
            raise Refuse('%s: .join on types %s / %s' % (self.rel, sep[1], lst[1]))
        if isinstance(f, ast.Attribute) and f.attr == 'isdigit' and not n.args and isinstance(f.value, ast.Call) \
                and isinstance(f.value.func, ast.Name) and f.value.func.id == 'str' and len(f.value.args) == 1:
            # str(v).isdigit(): for an int exactly v >= 0 ('-' is not a digit); "nan" is not made of digits
            v = self.expr(f.value.args[0], env)
            if v[1] == 'Z':
                return ('(Z.leb 0 %s)' % v[0], 'B')
            if v[1] == 'OZ':
                return ('(match %s with Some z_ => Z.leb 0 z_ | None => false end)' % v[0], 'B')
            raise Refuse('%s: str(v).isdigit() on type %s' % (self.rel, v[1]))
        if isinstance(f, ast.Name) and f.id == 'str' and len(n.args) == 1:
            return (self.to_text(self.expr(n.args[0], env), ast.unparse(n.args[0])), 'S')
        if isinstance(f, ast.Attribute) and f.attr == 'replace' and len(n.args) == 2:
            # pandas Series.replace(a, b) read per element (numbers only; str.replace is a different function)
            v, a, b = self.expr(f.value, env), self.expr(n.args[0], env), self.expr(n.args[1], env)
            if v[1] == 'Z' and a[1] == 'Z' and b[1] == 'Z':
                return ('(if Z.eqb %s %s then %s else %s)' % (v[0], a[0], b[0], v[0]), 'Z')
            raise Refuse('%s: .replace on types %s' % (self.rel, v[1]))
        if isinstance(f, ast.Attribute) and f.attr == 'lower' and not n.args:
            a = self.expr(f.value, env)
            if a[1] != 'S':
                raise Refuse('.lower() on a non-string')
            return ('(unchars (lower (chars %s)))' % a[0], 'S')
        if isinstance(f, ast.Attribute) and f.attr == 'startswith' and len(n.args) == 1 and not n.keywords:
            # [loop ties e1] s.startswith(t) on two strings: t is a prefix of s (Base/Str.v str_prefix t s; the tuple-of-prefixes
            # and start / end forms of str.startswith are refused: one argument, both of type S)
            a, b = self.expr(f.value, env), self.expr(n.args[0], env)
            if a[1] != 'S' or b[1] != 'S':
                raise Refuse('%s: .startswith on types %s / %s' % (self.rel, a[1], b[1]))
            return ('(str_prefix %s %s)' % (b[0], a[0]), 'B')
        if isinstance(f, ast.Attribute) and isinstance(f.value, ast.Name) and f.value.id in ('np', 'numpy', 'math') \
                and f.attr in ('maximum', 'minimum', 'fmax', 'fmin') and len(n.args) == 2:
            f = ast.Name(id='max' if 'max' in f.attr else 'min', ctx=ast.Load())
        elif isinstance(f, ast.Attribute) and isinstance(f.value, ast.Name) and f.value.id in ('np', 'numpy', 'math'):
            # library functions with an exact rational meaning
            args = [self.expr(a, env) for a in n.args]
            if f.attr == 'log2' and len(args) == 1:
                self.oracles.add('log2')
                return self.lift(args, lambda vs: ('(log2 %s)' % self.toQ(vs[0]), 'Q'))
            if f.attr == 'sqrt' and len(args) == 1:
                self.oracles.add('sqrt')
                return self.lift(args, lambda vs: ('(sqrt %s)' % self.toQ(vs[0]), 'Q'))
            if f.attr == 'exp2' and len(args) == 1:
                self.oracles.add('exp2')
                return ('(exp2 %s)' % self.toQ(args[0]), 'Q')
            if f.attr in ('round', 'rint', 'around') and len(args) == 1:      # numpy: round half to even, float result
                return ('(inject_Z (round_half_even %s))' % self.toQ(args[0]), 'Q')
            if f.attr == 'ceil' and len(args) == 1:
                return ('(inject_Z (ceilQ %s))' % self.toQ(args[0]), 'Q')
            if f.attr == 'floor' and len(args) == 1:
                return ('(inject_Z (floorQ %s))' % self.toQ(args[0]), 'Q')
            if f.attr in ('abs', 'fabs', 'absolute') and len(args) == 1:
                return ('(Qabs %s)' % self.toQ(args[0]), 'Q') if args[0][1] != 'Z' else ('(Z.abs %s)' % args[0][0], 'Z')
            if f.attr == 'isnan' and len(args) == 1:
                if args[0][1] in ('OQ', 'OZ'):
                    return ('(match %s with Some _ => false | None => true end)' % args[0][0], 'B')
                return ('false', 'B')            # a non-optional number is never NaN in the exact reading
            if f.attr == 'clip' and len(args) == 3:
                return self.clip(args[0], args[1], args[2])
            raise Refuse('%s: unsupported library call %s.%s' % (self.rel, f.value.id, f.attr))
        elif isinstance(f, ast.Attribute) and f.attr in ('isnull', 'isna', 'notnull', 'notna') and not n.args:
            v = self.expr(f.value, env)
            if v[1] in ('OQ', 'OZ'):
                t = '(match %s with Some _ => false | None => true end)' % v[0]
            else:
                t = 'false'
            return (t if f.attr in ('isnull', 'isna') else '(negb %s)' % t, 'B')
        elif isinstance(f, ast.Attribute) and f.attr == 'astype' and len(n.args) == 1:
            v = self.expr(f.value, env)
            a = n.args[0]
            kind = a.value if isinstance(a, ast.Constant) else (a.id if isinstance(a, ast.Name) else None)
            if kind in ('int', 'int64', int):
                if v[1] == 'Z':
                    return v
                q = self.toQ(v)
                t = self.new('tr')
                return ('(let %s := %s in if Qle_bool 0 %s then floorQ %s else ceilQ %s)' % (t, q, t, t, t), 'Z')     # truncation
            if kind in ('float', 'float64'):
                return (self.toQ(v), 'Q')
            raise Refuse('%s: astype(%r)' % (self.rel, kind))
        elif isinstance(f, ast.Attribute) and f.attr in ('round', 'abs', 'clip', 'fillna') and not (
                isinstance(f.value, ast.Name) and f.value.id in ('np', 'numpy', 'math')):
            # methods of a numeric value (numpy / pandas scalars and, read elementwise, arrays)
            v = self.expr(f.value, env)
            args = [self.expr(a, env) for a in n.args]
            if f.attr == 'round' and not args:
                return self.lift([v], lambda vs: ('(inject_Z (round_half_even %s))' % self.toQ(vs[0]), 'Q'))
            if f.attr == 'abs' and not args:
                return self.lift([v], lambda vs: ('(Qabs %s)' % self.toQ(vs[0]), 'Q') if vs[0][1] != 'Z'
                                 else ('(Z.abs %s)' % vs[0][0], 'Z'))
            if f.attr == 'clip' and len(args) == 2:
                return self.lift([v, args[0], args[1]], lambda vs: self.clip(vs[0], vs[1], vs[2]))
            if f.attr == 'fillna' and len(args) == 1 and v[1] in ('Q', 'Z'):
                return v                                  # nothing is missing in a plain number
            if f.attr == 'fillna' and len(args) == 1 and v[1] in ('OQ', 'OZ'):
                inner = self.new('fill')
                if v[1] == 'OQ':
                    return ('(match %s with Some %s => %s | None => %s end)' % (v[0], inner, inner, self.toQ(args[0])), 'Q')
                return ('(match %s with Some %s => %s | None => %s end)' % (v[0], inner, inner, self.coerce(args[0], 'Z')), 'Z')
            raise Refuse('%s: unsupported method .%s' % (self.rel, f.attr))
        if isinstance(f, ast.Name):
            args = [self.expr(a, env) for a in n.args]
            if f.id == 'abs' and len(args) == 1 and args[0][1] in ('OQ', 'OZ'):
                # [loop ties C16-C18] abs of an optional number: NaN stays NaN (as the .abs() method below)
                return self.lift(args, lambda vs: ('(Qabs %s)' % self.toQ(vs[0]), 'Q') if vs[0][1] != 'Z'
                                 else ('(Z.abs %s)' % vs[0][0], 'Z'))
            if f.id == 'list' and len(args) == 1 and args[0][1] == 'AQ':
                return (args[0][0], 'LQ')                # [loop ties e2] list(array): the Python list of the same numbers
            if f.id == 'len' and len(args) == 1 and args[0][1] in ('LZ', 'LS'):
                return ('(Z.of_nat (length %s))' % args[0][0], 'Z')          # [loop ties C06] len of a list value
            if f.id == 'len' and len(args) == 1 and args[0][1] == 'S':
                return ('(Z.of_nat (String.length %s))' % args[0][0], 'Z')   # [loop ties C12] len of a string (ASCII: chars = bytes)
            if f.id == 'abs' and len(args) == 1:
                if args[0][1] == 'Z':
                    return ('(Z.abs %s)' % args[0][0], 'Z')
                return ('(Qabs %s)' % self.toQ(args[0]), 'Q')
            if f.id in ('max', 'min') and len(args) == 2:
                x, y, ty = self.num2(args[0], args[1])
                if ty == 'Z':
                    return ('(Z.%s %s %s)' % (f.id, x, y), 'Z')
                # Python: max(a, b) = b if b > a else a ; min(a, b) = b if b < a else a
                if f.id == 'max':
                    return ('(if Qle_bool %s %s then %s else %s)' % (y, x, x, y), 'Q')
                return ('(if Qle_bool %s %s then %s else %s)' % (x, y, x, y), 'Q')
            if f.id == 'float' and len(args) == 1:
                return (self.toQ(args[0]), 'Q')
            if f.id == 'int' and len(args) == 1 and args[0][1] == 'Z':
                return args[0]
            if f.id == 'int' and len(args) == 1 and args[0][1] == 'Q':
                # Python int(): truncation toward zero
                q = args[0][0]
                t = self.new('tr')
                return ('(let %s := %s in if Qle_bool 0 %s then floorQ %s else ceilQ %s)' % (t, q, t, t, t), 'Z')
            if f.id == 'round' and len(args) == 1:
                return ('(round_half_even %s)' % self.toQ(args[0]), 'Z')      # Python round(): half to even, int result
            if f.id in self.specs:
                sp = self.specs[f.id]
                params = sp['params']
                if len(args) > len(params):
                    raise Refuse('too many arguments to %s' % f.id)
                out = []
                for (pn, pt), a in zip(params, args):
                    out.append(self.coerce(a, pt))
                for (pn, pt) in params[len(args):]:
                    d = sp.get('defaults', {}).get(pn)
                    if d is None:
                        raise Refuse('missing argument %s of %s' % (pn, f.id))
                    out.append(d)
                orc = ''.join(' ' + o for o in sorted(sp.get('_oracles', [])))
                return ('(%s%s %s)' % (sp['coq'], '', ' '.join(out)), sp['ret'])
            raise Refuse('%s: call to unsupported function %s' % (self.rel, f.id))
        raise Refuse('%s: unsupported call' % self.rel)

    def record_fields(self, e, rec):
        """[loop ties C06] `yield_record=dict(base='row', fields=['start', 'end'])`: the iteration yields namedtuples made
        from the record `base`: `yield base` or `yield base._replace(f1=v1, ...)` with every replaced field among the
        declared ones.  The yielded value is read on the declared fields (in that order): a replaced field is its new
        value, any other declared field is `base.f` (which must be a parameter); every field NOT declared is, by the
        meaning of namedtuple._replace, that of `base` itself.  Anything else (another base, positional arguments,
        `**mapping`, a replaced field that is not declared) is refused."""
        base, fields = rec['base'], list(rec['fields'])
        def attr(f):
            return ast.Attribute(value=ast.Name(id=base, ctx=ast.Load()), attr=f, ctx=ast.Load())
        if isinstance(e, ast.Name) and e.id == base:
            return [attr(f) for f in fields]
        if isinstance(e, ast.Call) and isinstance(e.func, ast.Attribute) and e.func.attr == '_replace' \
                and isinstance(e.func.value, ast.Name) and e.func.value.id == base and not e.args:
            kw = {}
            stars = [k for k in e.keywords if k.arg is None]
            for k in e.keywords:
                if k.arg is None:
                    continue
                if k.arg not in fields or k.arg in kw:
                    raise Refuse('%s: %s._replace with a field outside the declared record fields %s' % (self.rel, base, fields))
                kw[k.arg] = k.value
            if stars:
                # [loop ties C06] `base._replace(f1=v1, .., fn=vn, **mapping)` with EVERY declared field given explicitly
                # (spec: yield_record star=True): Python raises TypeError ("multiple values for keyword argument") when
                # the mapping holds one of f1..fn -- an error path outside the translation, recorded -- so on every other
                # path the declared fields of the yielded record are exactly v1..vn.  The fields NOT declared are then
                # those of base._replace(**mapping), not necessarily base's: the reading says nothing about them.
                if not rec.get('star') or len(stars) != 1 or any(f not in kw for f in fields):
                    raise Refuse('%s: %s._replace with a **mapping (only with star=True and every declared field explicit)'
                                 % (self.rel, base))
                g = 'the mapping %s holds one of %s   (TypeError at %s)' % (ast.unparse(stars[0].value), fields, ast.unparse(e))
                if g not in self.guards:
                    self.guards.append(g)
            return [kw.get(f, attr(f)) for f in fields]
        raise Refuse('%s: the yielded value %s is not %s / %s._replace(...)' % (self.rel, ast.unparse(e), base, base))

    def clip(self, v, lo, hi):
        x, l, ty = self.num2(v, lo)
        x2, h, ty2 = self.num2((x, ty), hi)
        if ty2 != ty:
            l = self.toQ((l, ty))
        if ty2 == 'Z':
            return ('(Z.min (Z.max %s %s) %s)' % (x2, l, h), 'Z')
        # numpy clip = minimum(maximum(x, lo), hi)
        m = self.new('clip')
        return ('(let %s := (if Qle_bool %s %s then %s else %s) in if Qle_bool %s %s then %s else %s)'
                % (m, l, x2, x2, l, m, h, m, h), 'Q')

    def coerce(self, a, ty):
        if a[1] == ty:
            return a[0]
        if ty == 'Q' and a[1] == 'Z':
            return self.toQ(a)
        if a[1] == 'NONE' and ty in ('OQ', 'OZ', 'OB'):
            return 'None'
        if ty == 'OB' and a[1] == 'B':
            return '(Some %s)' % a[0]                  # [loop ties C15/C05]
        if ty == 'OQ' and a[1] in ('Q', 'Z'):
            return '(Some %s)' % self.toQ(a)
        if ty == 'OZ' and a[1] == 'Z':
            return '(Some %s)' % a[0]
        raise Refuse('argument of type %s where %s is expected' % (a[1], ty))

    # ---- conditions with narrowing of option-typed names
    def narrowing(self, test, env):
        """If `test` is `p`, `p is not None`, or an `and` whose FIRST conjunct is one of
        these with p an option-typed name, return (name, rest_conjuncts, truthy_needed)."""
        first, rest = test, []
        if isinstance(test, ast.BoolOp) and isinstance(test.op, ast.And):
            first, rest = test.values[0], test.values[1:]
        if isinstance(first, ast.Name) and env.get(first.id, ('', ''))[1] in ('OQ', 'OZ'):
            return first.id, rest, True
        if (isinstance(first, ast.Compare) and len(first.ops) == 1 and isinstance(first.ops[0], ast.IsNot)
                and isinstance(first.left, ast.Name) and env.get(first.left.id, ('', ''))[1] in ('OQ', 'OZ')
                and isinstance(first.comparators[0], ast.Constant) and first.comparators[0].value is None):
            return first.left.id, rest, False
        return None

    def cond(self, test, env):
        nw = self.narrowing(test, env)
        if nw is not None:
            name, rest, need_truthy = nw
            oty = env[name][1]
            inner = self.new(name)
            env2 = dict(env)
            env2[name] = (inner, 'Q' if oty == 'OQ' else 'Z')
            parts = []
            if need_truthy:
                parts.append(self.truthy(env2[name]))
            parts += [self.truthy(self.expr(r, env2)) if not isinstance(r, ast.BoolOp) else self.cond(r, env2) for r in rest]
            body = ' && '.join(parts) if parts else 'true'
            return '(match %s with Some %s => %s | None => false end)' % (env[name][0], inner, body)
        if isinstance(test, ast.BoolOp):
            op = ' && ' if isinstance(test.op, ast.And) else ' || '
            return '(' + op.join(self.cond(v, env) for v in test.values) + ')'
        return self.truthy(self.expr(test, env))

    # ---- statements
    @staticmethod
    def is_nan_const(v):
        if isinstance(v, ast.Constant) and v.value is None:
            return True
        if isinstance(v, ast.Attribute) and v.attr in ('nan', 'NaN', 'NAN') and isinstance(v.value, ast.Name):
            return True
        return False

    def desugar(self, stmts):
        """x op= e  ->  x = x op e ;   v[m] op= e  ->  v = (v op e if m else v) ;   v[m] = e -> v = (e if m else v);
        tbl[m, 'col'] = e  ->  tbl['col'] = (e if m else tbl['col']) ; recursively inside if-statements.
        Assignment targets that are subscripts by a string constant (tbl['col']) are variables named by their source."""
        out = []
        for s in stmts:
            if isinstance(s, ast.If):
                s = ast.If(test=s.test, body=self.desugar(s.body), orelse=self.desugar(s.orelse))
                if not s.body and s.orelse:
                    # [loop ties C05] the then-side held only log lines: `if c: <nothing> else: B` is `if not c: B` (an if
                    # without a body is not a Python statement; tools/fn_selftest.py prints and re-parses the region)
                    s = ast.If(test=ast.UnaryOp(op=ast.Not(), operand=s.test), body=s.orelse, orelse=[])
                if s.body and all(isinstance(x, ast.Pass) for x in s.body) and not s.orelse:
                    # [loop ties e2] `if c: pass` (nothing else, no else): like an `if` of log lines only -- dropped when its
                    # test has no effect (checked just below)
                    s = ast.If(test=s.test, body=[], orelse=[])
                if not s.body and not s.orelse:
                    # [loop ties C15] an `if` that held nothing but log lines (`if verbose: logging.info(...)`): it has no
                    # effect when its test has none -- names, attributes, constants, not / and / or, comparisons,
                    # `x.any()` / `x.all()` / `len(x)`; any other test is refused
                    for x in ast.walk(s.test):
                        ok = isinstance(x, (ast.Name, ast.Attribute, ast.Constant, ast.BoolOp, ast.UnaryOp, ast.Compare,
                                            ast.boolop, ast.unaryop, ast.cmpop, ast.expr_context)) or (
                            isinstance(x, ast.Call) and not x.keywords and (
                                (isinstance(x.func, ast.Attribute) and x.func.attr in ('any', 'all') and not x.args)
                                or (isinstance(x.func, ast.Name) and x.func.id == 'len' and len(x.args) == 1)))
                        if not ok:
                            raise Refuse('%s: an if that holds only log lines, with a test that may have effects: %s'
                                         % (self.rel, ast.unparse(s.test)))
                    continue
                out.append(s)
                continue
            if isinstance(s, ast.Expr) and isinstance(s.value, ast.Call) and ast.unparse(s.value.func).startswith('logging.'):
                continue                              # a log line: no effect on any value
            if getattr(self, 'inplace', None) and isinstance(s, ast.Expr) and isinstance(s.value, ast.Call) \
                    and isinstance(s.value.func, ast.Attribute) and isinstance(s.value.func.value, ast.Name) \
                    and '.' + s.value.func.attr in self.inplace:
                # [loop ties e3] spec key `inplace=['.m', ..]`: the statement `x.m(args)` on a plain name x, for a method the spec
                # declares as a function-typed parameter '.m' (otherwise call() refuses) AND lists in `inplace`: the method updates
                # the object in place and its result is discarded -- in the value reading of objects (tables as ids) that is
                # `x = x.m(args)`, the function input giving the object after the call.  function() refuses the spec when x is
                # aliased by a plain `y = x` / `x = y` anywhere in the function (another name would not see the update).
                out.append(ast.Assign(targets=[ast.Name(id=s.value.func.value.id, ctx=ast.Store())], value=s.value))
                continue
            if getattr(self, 'raising_calls', None) and isinstance(s, ast.Expr) and isinstance(s.value, ast.Call) \
                    and ast.unparse(s.value.func) in self.raising_calls:
                # [loop ties e3] spec key `raising_calls=['f', ..]`: the statement `f(args)` whose result is discarded, f a
                # function-typed parameter with result B (checked in function()) read as "this call raises": recorded in the
                # boolean `raised__` (bound by the spec's `init`, named in `returns`, like row_keep__): raised__ = raised__ or
                # f(args).  What is computed afterwards are the values of the path on which no call raised.
                both = ast.BoolOp(op=ast.Or(), values=[ast.Name(id='raised__', ctx=ast.Load()), s.value])
                out.append(ast.Assign(targets=[ast.Name(id='raised__', ctx=ast.Store())], value=both))
                continue
            if isinstance(s, ast.Expr) and isinstance(s.value, ast.Call) and isinstance(s.value.func, ast.Attribute) \
                    and s.value.func.attr == 'append' and isinstance(s.value.func.value, ast.Name) \
                    and len(s.value.args) == 1 and not s.value.keywords and getattr(self, 'yield_types', None) \
                    and s.value.func.value.id == getattr(self, 'append_yields', None):
                # [loop ties C16] spec key `append_yields='lst'`: `lst.append(e)` on the result list the loop only ever
                # appends to is read like `yield e` -- the tuples the iteration appends, in order
                call = ast.Call(func=ast.Name(id='yield_append__', ctx=ast.Load()), args=[s.value.args[0]], keywords=[])
                out.append(ast.Assign(targets=[ast.Name(id='yield__', ctx=ast.Store())], value=call))
                continue
            if isinstance(s, ast.Expr) and isinstance(s.value, ast.Call) and isinstance(s.value.func, ast.Attribute) \
                    and s.value.func.attr == 'extend' and isinstance(s.value.func.value, ast.Name) \
                    and len(s.value.args) == 1 and not s.value.keywords and getattr(self, 'yield_types', None) \
                    and s.value.func.value.id == getattr(self, 'append_yields', None):
                # [loop ties C16] `lst.extend(it)` on the `append_yields` result list: like `yield from it`, where `it`
                # must be a parameter of type Y (an opaque list of the yielded tuples, keyed by its source text)
                call = ast.Call(func=ast.Name(id='yield_extend__', ctx=ast.Load()), args=[s.value.args[0]], keywords=[])
                out.append(ast.Assign(targets=[ast.Name(id='yield__', ctx=ast.Store())], value=call))
                continue
            if isinstance(s, ast.Expr) and isinstance(s.value, ast.Call) and isinstance(s.value.func, ast.Attribute) \
                    and s.value.func.attr in ('extend', 'append') and isinstance(s.value.func.value, ast.Name) \
                    and len(s.value.args) == 1 and not s.value.keywords:
                # x.extend(l) -> x = x + l ;  x.append(e) -> x = x + [e]   (lists are values in the translation)
                x = s.value.func.value.id
                arg = s.value.args[0] if s.value.func.attr == 'extend' else ast.List(elts=[s.value.args[0]], ctx=ast.Load())
                cat = ast.BinOp(left=ast.Name(id=x, ctx=ast.Load()), op=ast.Add(), right=arg)
                cat._from_append = s.value.func.attr == 'append'       # [loop ties C05] see the LQ concatenation in expr()
                out.append(ast.Assign(targets=[ast.Name(id=x, ctx=ast.Store())], value=cat))
                continue
            if isinstance(s, ast.Assert):
                # `assert c` -- the failing path is outside the translated function (recorded like a raise guard)
                g = 'not (%s)' % ast.unparse(s.test)
                if g not in self.guards:
                    self.guards.append(g)
                continue
            if isinstance(s, ast.Expr) and isinstance(s.value, ast.Yield) and getattr(self, 'yield_types', None):
                # `yield e` inside a translated loop iteration: e is appended to the list of values the iteration yields
                if s.value.value is None:
                    raise Refuse('%s: bare yield' % self.rel)
                call = ast.Call(func=ast.Name(id='yield_append__', ctx=ast.Load()), args=[s.value.value], keywords=[])
                out.append(ast.Assign(targets=[ast.Name(id='yield__', ctx=ast.Store())], value=call))
                continue
            it_name = getattr(self, 'items', None)
            if it_name and isinstance(s, ast.Assign) and len(s.targets) == 1 and isinstance(s.targets[0], ast.Name) \
                    and s.targets[0].id == it_name and isinstance(s.value, ast.ListComp) and len(s.value.generators) == 1:
                # [loop ties e2] spec key `items=<X>`: `X = [(E1, .., En) for a1, .., an in X]` -- the list X of n-tuples is
                # rebuilt item by item -- read for ONE ITEM: its components (a1, .., an) become (E1, .., En), all Ei evaluated
                # first: the simultaneous assignment `a1, .., an = E1, .., En` (the spec names a1..an in `returns`).  The
                # comprehension's variables are local to it in Python: refused when the function uses one of the names
                # anywhere outside this comprehension, or when Ei mentions X itself.
                g = s.value.generators[0]
                tg, el = g.target, s.value.elt
                inside = {id(x) for x in ast.walk(s.value)}
                if g.ifs or g.is_async or not (isinstance(g.iter, ast.Name) and g.iter.id == it_name) \
                        or not (isinstance(tg, ast.Tuple) and isinstance(el, ast.Tuple) and len(tg.elts) == len(el.elts)
                                and all(isinstance(t, ast.Name) for t in tg.elts) and len({t.id for t in tg.elts}) == len(tg.elts)) \
                        or any(isinstance(x, ast.Name) and x.id == it_name for x in ast.walk(el)) \
                        or any(isinstance(x, (ast.Name, ast.arg)) and getattr(x, 'id', getattr(x, 'arg', None)) in {t.id for t in tg.elts}
                               and id(x) not in inside for x in ast.walk(getattr(self, 'cur_fnode', None) or s)):
                    raise Refuse('%s: items=%s: only `%s = [(E1, .., En) for a1, .., an in %s]` with names local to the comprehension'
                                 % (self.rel, it_name, it_name, it_name))
                s2 = ast.Assign(targets=[ast.Tuple(elts=[ast.Name(id=t.id, ctx=ast.Store()) for t in tg.elts], ctx=ast.Store())],
                                value=ast.Tuple(elts=list(el.elts), ctx=ast.Load()))
                s2.lineno, s2.col_offset = 0, 0
                ast.fix_missing_locations(s2)
                out += self.desugar([s2])
                continue
            if isinstance(s, ast.Assign) and len(s.targets) == 1 and isinstance(s.targets[0], ast.Tuple) \
                    and isinstance(s.value, ast.IfExp) and isinstance(s.value.body, ast.Tuple) and isinstance(s.value.orelse, ast.Tuple) \
                    and len(s.value.body.elts) == len(s.value.orelse.elts) == len(s.targets[0].elts) \
                    and all(isinstance(t, ast.Name) for t in s.targets[0].elts):
                # [loop ties C15] a, b = (x1, y1) if c else (x2, y2): componentwise -- a, b = (x1 if c else x2), (y1 if c else y2)
                # (every translated expression is pure, so evaluating c once per component changes nothing)
                tup = ast.Tuple(elts=[ast.IfExp(test=s.value.test, body=x, orelse=y)
                                      for x, y in zip(s.value.body.elts, s.value.orelse.elts)], ctx=ast.Load())
                s2 = ast.Assign(targets=s.targets, value=tup)
                s2.lineno, s2.col_offset = 0, 0
                ast.fix_missing_locations(s2)
                out += self.desugar([s2])
                continue
            if isinstance(s, ast.Assign) and len(s.targets) == 1 and isinstance(s.targets[0], ast.Tuple) \
                    and isinstance(s.value, ast.Tuple) and len(s.value.elts) == len(s.targets[0].elts) \
                    and all(isinstance(t, ast.Name) for t in s.targets[0].elts):
                # a, b = x, y : the right-hand sides are all evaluated first
                self.tuple_tmp = getattr(self, 'tuple_tmp', 0) + 1
                tmps = ['tup%d_%d__' % (self.tuple_tmp, i) for i in range(len(s.value.elts))]
                for tm, v in zip(tmps, s.value.elts):
                    out.append(ast.Assign(targets=[ast.Name(id=tm, ctx=ast.Store())], value=v))
                for t, tm in zip(s.targets[0].elts, tmps):
                    out.append(ast.Assign(targets=[ast.Name(id=t.id, ctx=ast.Store())], value=ast.Name(id=tm, ctx=ast.Load())))
                continue
            if isinstance(s, ast.Assign) and len(s.targets) == 1 and isinstance(s.targets[0], ast.Tuple) \
                    and not isinstance(s.value, (ast.Tuple, ast.List)) \
                    and all(isinstance(t, (ast.Name, ast.Subscript)) for t in s.targets[0].elts):
                # [loop ties C17] a, b = e  with e not a tuple display: unpacking a sequence is indexing it --
                # a = e[0]; b = e[1] (a wrong length is an error path).  e is an opaque input here: it translates
                # only when the spec declares the source expressions `e[0]`, `e[1]` as typed parameters
                parts = []
                for k, t in enumerate(s.targets[0].elts):
                    item = ast.Subscript(value=self.as_load(s.value), slice=ast.Constant(value=k), ctx=ast.Load())
                    a = ast.Assign(targets=[t], value=item)
                    a.lineno, a.col_offset = 0, 0
                    ast.fix_missing_locations(a)
                    parts.append(a)
                out += self.desugar(parts)
                continue
            if isinstance(s, ast.Assign) and len(s.targets) == 1 and isinstance(s.targets[0], ast.Subscript) \
                    and isinstance(s.targets[0].value, ast.Name) and isinstance(s.targets[0].slice, ast.Constant) \
                    and isinstance(s.targets[0].slice.value, str) and isinstance(s.value, ast.ListComp) \
                    and len(s.value.generators) == 1 and not s.value.generators[0].ifs and not s.value.generators[0].is_async \
                    and isinstance(s.value.generators[0].target, ast.Name) \
                    and ast.unparse(s.value.generators[0].iter) == s.targets[0].value.id + '.itertuples(index=False)' \
                    and not any(isinstance(x, ast.Name) and x.id == s.targets[0].value.id for x in ast.walk(s.value.elt)):
                # [loop ties C20] T['col'] = [E for row in T.itertuples(index=False)]: entry i of the list is E on row i of T and a
                # list is assigned to a column by position, so per row it is T['col'] = E, the row's cells being `row.<column>`
                # (declared as parameters keyed `row.<column>`); E must not mention T itself
                out.append(ast.Assign(targets=[s.targets[0]], value=s.value.elt))
                continue
            if isinstance(s, ast.Assign) and len(s.targets) == 1 and isinstance(s.targets[0], ast.Subscript) \
                    and isinstance(s.targets[0].value, ast.Name) and isinstance(s.targets[0].slice, ast.Constant) \
                    and isinstance(s.targets[0].slice.value, str) and isinstance(s.value, ast.Call) \
                    and ast.unparse(s.value.func) == s.targets[0].value.id + '.apply' \
                    and len(s.value.args) == 1 and isinstance(s.value.args[0], ast.Lambda) \
                    and [(k.arg, ast.unparse(k.value)) for k in s.value.keywords] == [('axis', '1')]:
                # [loop ties e1] T['col'] = T.apply(lambda row: E, axis=1): DataFrame.apply with axis=1 calls the function once
                # per row of T with that row and the results form a Series on T's own index, which the column assignment places
                # row by row; inside E the cell `row['c']` is T['c'] of that row -- per row it is T['col'] = E[row['c'] := T['c']].
                # Refused unless the lambda takes exactly the row, reads it only as `row['<column>']`, and E neither mentions T
                # itself nor binds names.
                import copy
                lam, tname = s.value.args[0], s.targets[0].value.id
                la = lam.args
                if la.vararg or la.kwarg or la.kwonlyargs or la.posonlyargs or la.defaults or len(la.args) != 1:
                    raise Refuse('%s: %s.apply(lambda ..., axis=1) with a lambda that does not take exactly the row' % (self.rel, tname))
                rname = la.args[0].arg
                if rname == tname or any(isinstance(x, ast.Name) and x.id == tname for x in ast.walk(lam.body)) \
                        or any(isinstance(x, (ast.Lambda, ast.NamedExpr, ast.ListComp, ast.GeneratorExp, ast.SetComp, ast.DictComp)) for x in ast.walk(lam.body)):
                    raise Refuse('%s: %s.apply(lambda %s: ..., axis=1): the body mentions %s / binds names' % (self.rel, tname, rname, tname))
                class _Cells(ast.NodeTransformer):
                    def visit_Subscript(self, n):
                        if isinstance(n.value, ast.Name) and n.value.id == rname and isinstance(n.slice, ast.Constant) \
                                and isinstance(n.slice.value, str) and isinstance(n.ctx, ast.Load):
                            return ast.Subscript(value=ast.Name(id=tname, ctx=ast.Load()), slice=n.slice, ctx=ast.Load())
                        return self.generic_visit(n)
                body = _Cells().visit(copy.deepcopy(lam.body))
                if any(isinstance(x, ast.Name) and x.id == rname for x in ast.walk(body)):
                    raise Refuse("%s: %s.apply(lambda %s: ..., axis=1): the row is read other than as %s['<column>']" % (self.rel, tname, rname, rname))
                out.append(ast.Assign(targets=[s.targets[0]], value=body))
                continue
            if isinstance(s, ast.Assign) and len(s.targets) == 1 and isinstance(s.targets[0], ast.Name) \
                    and isinstance(s.value, ast.Call) and isinstance(s.value.func, ast.Attribute) and s.value.func.attr == 'assign' \
                    and isinstance(s.value.func.value, ast.Name) and s.value.func.value.id == s.targets[0].id \
                    and not s.value.args and s.value.keywords and all(k.arg for k in s.value.keywords) \
                    and all(isinstance(k.value, (ast.Constant, ast.Name)) for k in s.value.keywords) \
                    and not any(isinstance(k.value, ast.Name) and k.value.id == s.targets[0].id for k in s.value.keywords):
                # [loop ties C09] T = T.assign(c1=v1, c2=v2) with constants / plain names (not T) as values: DataFrame.assign sets
                # the columns in keyword order to the (broadcast) values -- per row T['c1'] = v1; T['c2'] = v2
                for k in s.value.keywords:
                    tgt_k = ast.Subscript(value=ast.Name(id=s.targets[0].id, ctx=ast.Load()), slice=ast.Constant(value=k.arg), ctx=ast.Store())
                    out.append(ast.Assign(targets=[tgt_k], value=k.value))
                continue
            rk = getattr(self, 'row_keep', None)
            if rk and isinstance(s, ast.Assign) and len(s.targets) == 1 and isinstance(s.targets[0], ast.Name) \
                    and s.targets[0].id == rk and isinstance(s.value, ast.Subscript) and isinstance(s.value.value, ast.Name) \
                    and s.value.value.id == rk and not isinstance(s.value.slice, (ast.Slice, ast.Tuple, ast.Constant)):
                # [loop ties C20] spec key `row_keep=<table name>`: `T = T[mask]` (pandas boolean indexing; a non-mask subscript is
                # refused when the conjunction is typed) read per row as "the row stays in T": row_keep__ = row_keep__ and mask.
                # The variable row_keep__ is bound by the spec's `init` (true) and named in `returns`; columns of T read later
                # are the same row's cells.  Any other store into the name T is not rewritten (and then refused as before).
                mask = ast.Call(func=ast.Name(id='row_mask__', ctx=ast.Load()), args=[s.value.slice], keywords=[])
                both = ast.BoolOp(op=ast.And(), values=[ast.Name(id='row_keep__', ctx=ast.Load()), mask])
                out.append(ast.Assign(targets=[ast.Name(id='row_keep__', ctx=ast.Store())], value=both))
                continue
            tgt = val = None
            if isinstance(s, ast.AugAssign):
                tgt, val = s.target, ast.BinOp(left=self.as_load(s.target), op=s.op, right=s.value)
            elif isinstance(s, ast.Assign) and len(s.targets) == 1:
                tgt, val = s.targets[0], s.value
            if tgt is None or isinstance(tgt, ast.Name):
                if isinstance(s, ast.AugAssign):
                    s = ast.Assign(targets=[tgt], value=val)
                out.append(s)
                continue
            if isinstance(tgt, ast.Subscript):
                sl = tgt.slice
                if isinstance(sl, ast.Constant) and isinstance(sl.value, str):
                    out.append(ast.Assign(targets=[tgt], value=val))          # tbl['col'] = e : variable tbl['col']
                    continue
                if isinstance(sl, ast.Slice) and getattr(self, 'element', None):
                    # [loop ties C07/C14] arr[:e] (op)= v / arr[e:] (op)= v / arr[a:b] (op)= v (also through .iloc) read for
                    # the ONE element at position `index` of an array of length `length` (spec key `element`): a masked store
                    # whose mask is "the element's position lies in the slice", with Python's meaning of negative bounds
                    out.append(self.element_slice_store(s, tgt, sl, val))
                    continue
                cell = self.cell_store(s, tgt, sl)           # [loop ties C03] T.iloc[K, T.columns.get_loc('col')] = v
                if cell is not None:
                    if cell[1]:        # aliasing: refused only if this statement lies in a translated region (unknown call)
                        val = ast.Call(func=ast.Name(id='REFUSED_' + cell[1], ctx=ast.Load()), args=[], keywords=[])
                    out.append(ast.Assign(targets=[cell[0]], value=val))
                    continue
                if isinstance(sl, ast.Tuple) and len(sl.elts) == 2 and isinstance(sl.elts[1], ast.Constant) \
                        and isinstance(sl.elts[1].value, str):
                    base = tgt.value.value if isinstance(tgt.value, ast.Attribute) and tgt.value.attr == 'loc' else tgt.value
                    col = ast.Subscript(value=base, slice=sl.elts[1], ctx=ast.Load())      # tbl.loc[m, 'col'] is tbl['col'] under m
                    mask = sl.elts[0]
                else:
                    col, mask = self.as_load(tgt.value), sl
                if isinstance(s, ast.AugAssign):
                    val = ast.BinOp(left=col, op=s.op, right=s.value)
                ife = ast.IfExp(test=mask, body=val, orelse=col)
                if not isinstance(sl, ast.Tuple):
                    # arr[i] (op)= e reads as a masked store when i is a boolean mask; when i turns out to be an INTEGER
                    # it is a store to the single element arr[i] (see norm_assign), never a mask
                    elem_val = val if not isinstance(s, ast.AugAssign) else ast.BinOp(left=self.as_load(tgt), op=s.op, right=s.value)
                    ife._store = (tgt, elem_val)
                out.append(ast.Assign(targets=[col], value=ife))
                continue
            out.append(s)
        for x in out:
            if not hasattr(x, 'lineno'):
                x.lineno, x.col_offset = 0, 0
            ast.fix_missing_locations(x)
        return out

    def cell_store(self, s, tgt, sl):
        """[loop ties C03] `T.iloc[K, T.columns.get_loc('col')] = v` with K an integer literal (0, -1, ..): a store to the ONE cell
        of table T at row position K and column 'col' -- the variable named `T.iloc[K]['col']` (reading that expression in
        Python yields exactly this cell), to be declared as a parameter / named in `returns`.  Returns (rewritten target,
        poison) or None when the statement has another shape.  Fail-closed against aliasing: in the whole function every
        subscript store into T.iloc / T.loc / T must be such a cell store, and two cell stores into the same column must name
        the same row (rows 0 and -1 of a one-row table are the same cell); augmented stores are not read.  In those cases the
        stored value is replaced by a call of an unknown function named after the reason, so that the translator refuses
        exactly the specs whose translated region holds the statement."""
        def int_lit(e):
            if isinstance(e, ast.Constant) and type(e.value) is int:
                return e.value
            if isinstance(e, ast.UnaryOp) and isinstance(e.op, ast.USub) and isinstance(e.operand, ast.Constant) \
                    and type(e.operand.value) is int:
                return -e.operand.value
            return None
        def shape(t):
            """(table text, row, column) of a target T.iloc[K, T.columns.get_loc('col')], else None"""
            if not (isinstance(t, ast.Subscript) and isinstance(t.value, ast.Attribute) and t.value.attr == 'iloc'
                    and isinstance(t.slice, ast.Tuple) and len(t.slice.elts) == 2):
                return None
            row, c = int_lit(t.slice.elts[0]), t.slice.elts[1]
            if row is None or not (isinstance(c, ast.Call) and isinstance(c.func, ast.Attribute) and c.func.attr == 'get_loc'
                                   and isinstance(c.func.value, ast.Attribute) and c.func.value.attr == 'columns'
                                   and len(c.args) == 1 and not c.keywords and isinstance(c.args[0], ast.Constant)
                                   and isinstance(c.args[0].value, str)):
                return None
            tbl = ast.unparse(t.value.value)
            if ast.unparse(c.func.value.value) != tbl:
                return None
            return tbl, row, c.args[0].value
        me = shape(tgt)
        if me is None:
            return None
        tbl, row, col = me
        poison = 'augmented_cell_store' if isinstance(s, ast.AugAssign) else ''
        for x in ast.walk(getattr(self, 'cur_fnode', None) or ast.Module(body=[], type_ignores=[])):
            if isinstance(x, ast.Subscript) and isinstance(x.ctx, ast.Store):
                base = x.value.value if isinstance(x.value, ast.Attribute) and x.value.attr in ('iloc', 'loc', 'iat', 'at') else x.value
                if ast.unparse(base) != tbl:
                    continue
                other = shape(x)
                if other is None:
                    poison = poison or 'cell_store_beside_another_subscript_store_into_the_table'
                elif other[2] == col and other[1] != row:
                    poison = poison or 'cell_stores_into_two_rows_of_one_column__the_same_cell_in_a_short_table'
        new = ast.Subscript(value=ast.Subscript(value=self.as_load(tgt.value), slice=ast.Constant(value=row), ctx=ast.Load()),
                            slice=ast.Constant(value=col), ctx=ast.Store())
        return new, poison

    @staticmethod
    def as_load(n):
        return ast.parse(ast.unparse(n), mode='eval').body

    def element_slice_store(self, s, tgt, sl, val):
        """[loop ties C07/C14] `x[a:b] = v` for the element at position i (0 <= i < n) of the length-n array x:
        x = (v if lo(a) <= i < hi(b) else x), where a bound e >= 0 stands for itself and e < 0 for n + e (exactly Python's
        slice on 0 <= i < n: the clamping of out-of-range bounds to [0, n] does not change the truth value for such i).
        A step is refused.  `x.iloc[a:b]` is the positional slice of the Series x itself."""
        if sl.step is not None:
            raise Refuse('%s: slice store with a step' % self.rel)
        idx, n = self.element['index'], self.element['length']
        base = tgt.value.value if isinstance(tgt.value, ast.Attribute) and tgt.value.attr == 'iloc' else tgt.value
        if not isinstance(base, ast.Name):
            raise Refuse('%s: slice store into %s (only a named array)' % (self.rel, ast.unparse(tgt.value)))
        def bound(e):
            t = ast.unparse(e)
            return '((%s) if (%s) >= 0 else (%s) + (%s))' % (t, t, n, t)
        parts = []
        if sl.lower is not None:
            parts.append('(%s) >= %s' % (idx, bound(sl.lower)))
        if sl.upper is not None:
            parts.append('(%s) < %s' % (idx, bound(sl.upper)))
        mask = ast.parse(' and '.join(parts) if parts else 'True', mode='eval').body
        col = self.as_load(base)
        if isinstance(s, ast.AugAssign):
            val = ast.BinOp(left=self.as_load(base), op=s.op, right=s.value)
        ife = ast.IfExp(test=mask, body=val, orelse=col)
        ife._elem_store = True
        return ast.Assign(targets=[ast.Name(id=base.id, ctx=ast.Store())], value=ife)

    def target_key(self, t):
        if isinstance(t, ast.Name):
            return t.id
        if isinstance(t, ast.Subscript) and isinstance(t.slice, ast.Constant) and isinstance(t.slice.value, str):
            return ast.unparse(t)
        return None

    def block(self, stmts, env, ret):
        """translate a statement list every path of which returns -> Coq term of type ret"""
        if not stmts:
            raise Refuse('%s: a path falls off the end of the function without return' % self.rel)
        s, rest = stmts[0], stmts[1:]
        if isinstance(s, ast.Expr) and isinstance(s.value, ast.Constant) and isinstance(s.value.value, str):
            return self.block(rest, env, ret)          # docstring
        if isinstance(s, ast.Pass):
            return self.block(rest, env, ret)
        if isinstance(s, (ast.Continue, ast.Break)) and getattr(self, 'loop_carried', None) is not None:
            vals = [self.coerce(self.expr(ast.parse(c, mode='eval').body, env), t) for c, t in self.loop_carried]
            if self.loop_has_break:
                vals.append('true' if isinstance(s, ast.Break) else 'false')
            return '(' + ', '.join(vals) + ')' if len(vals) > 1 else vals[0]
        if isinstance(s, ast.Return):
            if s.value is None:
                raise Refuse('bare return')
            rf = getattr(self, 'row_filter', None)
            if rf and ret == 'B' and isinstance(s.value, ast.Name) and s.value.id == rf:
                return 'true'                      # [loop ties C15] spec key row_filter=<table name>: `return table` keeps every row
            if rf and ret == 'B' and isinstance(s.value, ast.Subscript) and isinstance(s.value.value, ast.Name) \
                    and s.value.value.id == rf:
                # [loop ties C15] `return table[mask]` keeps exactly the rows whose mask bit is set (pandas boolean indexing)
                m = self.expr(s.value.slice, env)
                if m[1] != 'B':
                    raise Refuse('%s: %s[...] by a non-mask' % (self.rel, rf))
                return m[0]
            if not isinstance(ret, str):
                if not isinstance(s.value, ast.Tuple) or len(s.value.elts) != len(ret):
                    raise Refuse('%s: a %d-tuple is expected as the result' % (self.rel, len(ret)))
                return '(' + ', '.join(self.coerce(self.expr(e, env), t) for e, t in zip(s.value.elts, ret)) + ')'
            return self.coerce(self.expr(s.value, env), ret)
        if isinstance(s, ast.Assign) and len(s.targets) == 1 and isinstance(s.targets[0], ast.Name) and isinstance(s.value, ast.Dict):
            env2 = dict(env)
            env2[s.targets[0].id] = self.dict_local(s.targets[0].id, s.value, env)       # [loop ties C15]
            return self.block(rest, env2, ret)
        if isinstance(s, ast.If) and isinstance(s.test, ast.Call) and isinstance(s.test.func, ast.Name) \
                and s.test.func.id == 'isinstance' and len(s.test.args) == 2 and not s.test.keywords \
                and isinstance(s.test.args[0], ast.Name) and isinstance(s.test.args[1], ast.Name) and s.test.args[1].id == 'str' \
                and env.get(s.test.args[0].id, ('', ''))[1].startswith('S|'):
            # [loop ties C15] `if isinstance(x, str): A else: B` on a parameter x of union type 'S|T': x is a str exactly on
            # the inl side; each side sees x narrowed (a string / a T) and is followed by the continuation
            name = s.test.args[0].id
            a, b = self.new(name), self.new(name)
            env_s, env_t = dict(env), dict(env)
            env_s[name] = (a, 'S')
            env_t[name] = (b, env[name][1][2:])
            th = self.block(list(s.body) + rest, env_s, ret)
            el = self.block(list(s.orelse) + rest, env_t, ret)
            return '(match %s with\n   | inl %s => %s\n   | inr %s => %s end)' % (env[name][0], a, th, b, el)
        if isinstance(s, ast.If) and len(s.orelse) == 1 and isinstance(s.orelse[0], ast.Raise) \
                and not any(isinstance(x, ast.Raise) for y in s.body for x in ast.walk(y)):
            # [loop ties C15] `if c: A else: raise ...` -- the error path is outside the translated function (recorded, like
            # `if not c: raise`); A and the rest are translated
            self.guards.append('not (%s)' % ast.unparse(s.test))
            return self.block(list(s.body) + rest, env, ret)
        if isinstance(s, ast.Assign) and len(s.targets) == 1 and isinstance(s.targets[0], ast.Name) \
                and isinstance(s.value, ast.Call) and isinstance(s.value.func, ast.Name) \
                and any(k.startswith(s.value.func.id + "['") and env[k][1].startswith('F:') for k in env):
            # [loop ties e1] T = g(args) where the spec declares function-typed parameters keyed `g['col']`: the table g returns
            # is read, per row, through these columns only -- the row's cell in column 'col' is the pure function g['col'] of
            # the call's arguments (see fn_type; every declared slot must be given) -- and from here on `T['col']` is that
            # value.  T itself is not a value (any other use is an unknown name); refused when T is assigned a second time in
            # the function (a stale `T['col']` could otherwise outlive the table it was read from).
            T, g = s.targets[0].id, s.value.func.id
            if sum(1 for x in ast.walk(getattr(self, 'cur_fnode', s)) if isinstance(x, ast.Name) and isinstance(x.ctx, ast.Store) and x.id == T) > 1:
                raise Refuse('%s: %s = %s(...) read by columns, but %s is assigned more than once' % (self.rel, T, g, T))
            env2 = {k: v for k, v in env.items() if k != T and not k.startswith(T + '[')}
            lets = []
            for k in [k for k in env if k.startswith(g + "['") and env[k][1].startswith('F:')]:
                term, ty = self.call(ast.Call(func=ast.parse(k, mode='eval').body, args=s.value.args, keywords=s.value.keywords), env)
                nm = self.new(''.join(c if c.isalnum() else '_' for c in T + k[len(g):]).strip('_'))
                env2[T + k[len(g):]] = (nm, ty)
                lets.append('(let %s := %s in\n   ' % (nm, term))
            return ''.join(lets) + self.block(rest, env2, ret) + ')' * len(lets)
        if isinstance(s, ast.Assign):
            key, vnode = self.norm_assign(s, env) if len(s.targets) == 1 else (None, None)
            if key is None:
                raise Refuse('%s: only `name = expr` / `table[\'column\'] = expr` / `array[index] = expr` assignments' % self.rel)
            v = self.none_typed(key, self.value_maybe_nan(vnode, env), env)
            nm = self.new(''.join(c if c.isalnum() else '_' for c in key).strip('_'))
            env2 = dict(env)
            env2[key] = (nm, v[1])
            return '(let %s := %s in\n   %s)' % (nm, v[0], self.block(rest, env2, ret))
        if isinstance(s, ast.AugAssign) and isinstance(s.target, ast.Subscript) \
                and isinstance(s.target.value, ast.Name) and isinstance(s.target.slice, ast.Name) \
                and isinstance(s.op, (ast.Sub, ast.Add)):
            vname, mname = s.target.value.id, s.target.slice.id
            v, m = self.expr(s.target.value, env), self.expr(s.target.slice, env)
            if m[1] != 'B':
                raise Refuse('%s: masked update by a non-mask' % self.rel)
            e = self.expr(s.value, env)
            x, y, ty = self.num2(v, e)
            if ty == 'Z':
                upd = '(%s %s %s)' % (x, '-' if isinstance(s.op, ast.Sub) else '+', y)
            else:
                upd = '(%s %s %s)' % ('Qminus' if isinstance(s.op, ast.Sub) else 'Qplus', x, y)
            nm = self.new(vname)
            env2 = dict(env)
            keep = x if ty == v[1] else (self.toQ(v))
            env2[vname] = (nm, ty)
            return '(let %s := (if %s then %s else %s) in\n   %s)' % (nm, m[0], upd, keep, self.block(rest, env2, ret))
        if isinstance(s, ast.AugAssign) and isinstance(s.target, ast.Name) and isinstance(s.op, (ast.Sub, ast.Add, ast.Mult)):
            binop = ast.BinOp(left=ast.Name(id=s.target.id, ctx=ast.Load()), op=s.op, right=s.value)
            return self.block([ast.Assign(targets=[ast.Name(id=s.target.id, ctx=ast.Store())], value=binop)] + rest, env, ret)
        if isinstance(s, ast.If) and isinstance(s.test, ast.Compare) and len(s.test.ops) == 1 \
                and isinstance(s.test.ops[0], (ast.Is, ast.IsNot)) and isinstance(s.test.comparators[0], ast.Constant) \
                and s.test.comparators[0].value is None and isinstance(s.test.left, ast.Name) \
                and env.get(s.test.left.id, ('', ''))[1] == 'OB':
            # [loop ties C15/C05] narrowing statements on an optional boolean x:
            #   if x is None: x = <default>     from here on x is a plain boolean (the default, a truth value, when x was None)
            #   if x is None: <always leaves>   the rest runs only when x is not None: there x is its content
            #   if x is None: A else: B  /  if x is not None: A else: B   (general: the continuation is translated once per
            #                                   side; on the not-None side x is its content)
            name = s.test.left.id
            inner = self.new(name)
            if isinstance(s.test.ops[0], ast.IsNot) or s.orelse:
                none_side, some_side = (s.orelse, s.body) if isinstance(s.test.ops[0], ast.IsNot) else (s.body, s.orelse)
                env2 = dict(env)
                env2[name] = (inner, 'B')
                return '(match %s with\n   | None => %s\n   | Some %s => %s end)' % (
                    env[name][0], self.block(list(none_side or []) + rest, env, ret), inner,
                    self.block(list(some_side or []) + rest, env2, ret))
            if len(s.body) == 1 and isinstance(s.body[0], ast.Assign) and self.target_key(s.body[0].targets[0]) == name:
                d = self.expr(s.body[0].value, env)
                if d[1] == 'OB':
                    # [loop ties e4] `if x is None: x = <an optional boolean>` (e.g. a guess that may itself be missing): x stays
                    # an optional boolean -- its own value when it has one, else the default's
                    nm = self.new(name)
                    env2 = dict(env)
                    env2[name] = (nm, 'OB')
                    return '(let %s := (match %s with Some _ => %s | None => %s end) in\n   %s)' % (
                        nm, env[name][0], env[name][0], d[0], self.block(rest, env2, ret))
                if d[1] != 'B':
                    raise Refuse('%s: default of the optional boolean %s has type %s' % (self.rel, name, d[1]))
                nm = self.new(name)
                env2 = dict(env)
                env2[name] = (nm, 'B')
                return '(let %s := (match %s with Some %s => %s | None => %s end) in\n   %s)' % (
                    nm, env[name][0], inner, inner, d[0], self.block(rest, env2, ret))
            if self.always_returns(s.body):
                env2 = dict(env)
                env2[name] = (inner, 'B')
                return '(match %s with\n   | None => %s\n   | Some %s => %s end)' % (
                    env[name][0], self.block(s.body, env, ret), inner, self.block(rest, env2, ret))
            env2 = dict(env)
            env2[name] = (inner, 'B')
            return '(match %s with\n   | None => %s\n   | Some %s => %s end)' % (
                env[name][0], self.block(list(s.body) + rest, env, ret), inner, self.block(rest, env2, ret))
        if isinstance(s, ast.If) and not s.orelse and len(s.body) == 1 and isinstance(s.body[0], ast.Assign) \
                and isinstance(s.test, ast.Compare) and len(s.test.ops) == 1 and isinstance(s.test.ops[0], ast.Is) \
                and isinstance(s.test.comparators[0], ast.Constant) and s.test.comparators[0].value is None \
                and isinstance(s.test.left, ast.Name) and self.target_key(s.body[0].targets[0]) == s.test.left.id \
                and env.get(s.test.left.id, ('', ''))[1] in ('OQ', 'OZ'):
            # x = <default> when the optional x was not given: from here on x is a plain number
            name = s.test.left.id
            oty = env[name][1]
            d = self.expr(s.body[0].value, env)
            inner, nm = self.new(name), self.new(name)
            dflt = self.toQ(d) if oty == 'OQ' else self.coerce(d, 'Z')
            env2 = dict(env)
            env2[name] = (nm, 'Q' if oty == 'OQ' else 'Z')
            return '(let %s := (match %s with Some %s => %s | None => %s end) in\n   %s)' % (
                nm, env[name][0], inner, inner, dflt, self.block(rest, env2, ret))
        if isinstance(s, ast.If) and self.is_raise_guard(s):
            # `if <cond>: raise ...` -- the error path is outside the translated function:
            # its condition is recorded as a precondition comment, the rest is translated
            self.guards.append(ast.unparse(s.test))
            return self.block(rest, env, ret)
        if isinstance(s, ast.If):
            nw = self.narrowing(s.test, env)
            returns_then = self.always_returns(s.body)
            returns_else = self.always_returns(s.orelse) if s.orelse else False
            if returns_then and (returns_else or not s.orelse):
                then_env = env
                els = self.block((s.orelse or []) + rest if not returns_else else s.orelse, env, ret)
                if nw is not None:
                    name, restc, need_truthy = nw
                    oty = env[name][1]
                    inner = self.new(name)
                    env2 = dict(env)
                    env2[name] = (inner, 'Q' if oty == 'OQ' else 'Z')
                    parts = []
                    if need_truthy:
                        parts.append(self.truthy(env2[name]))
                    parts += [self.cond(r, env2) for r in restc]
                    c = ' && '.join(parts) if parts else 'true'
                    th = self.block(s.body, env2, ret)
                    return ('(match %s with\n   | Some %s => if %s then %s else %s\n   | None => %s end)'
                            % (env[name][0], inner, c, th, els, els))
                return '(if %s then %s\n   else %s)' % (self.cond(s.test, env), self.block(s.body, env, ret), els)
            # assignment-only branches (possibly nested ifs of assignments): each branch is evaluated SEQUENTIALLY in its
            # own environment, so a later statement of a branch sees the earlier ones; the if yields the final value of
            # every variable assigned on either side
            tkeys = self.assigned_keys(s.body, env)
            ekeys = self.assigned_keys(s.orelse, env) if s.orelse else []
            if tkeys is None or ekeys is None:
                # general fallback: a branch that is neither assignment-only nor always leaving (e.g. it holds a `continue`
                # / `yield` / `return` under a nested if): the statements after the if are translated once per side --
                # `if c: A else: B; rest`  is  `if c then [A; rest] else [B; rest]`  (no narrowing of optionals here)
                els = self.block(list(s.orelse or []) + rest, env, ret)
                if nw is not None:
                    # `if p is not None [and ...]:` / `if p [and ...]:` on an optional p: inside the then-side p is its
                    # content (a later `p = None` makes it optional again; the carried type wraps it back in Some)
                    name, restc, need_truthy = nw
                    oty = env[name][1]
                    inner = self.new(name)
                    envn = dict(env)
                    envn[name] = (inner, 'Q' if oty == 'OQ' else 'Z')
                    parts = []
                    if need_truthy:
                        parts.append(self.truthy(envn[name]))
                    parts += [self.cond(r, envn) for r in restc]
                    c = ' && '.join(parts) if parts else 'true'
                    th = self.block(list(s.body) + rest, envn, ret)
                    return ('(match %s with\n   | Some %s => if %s then %s else %s\n   | None => %s end)'
                            % (env[name][0], inner, c, th, els, els))
                c = self.cond(s.test, env)
                return '(if %s then %s\n   else %s)' % (c, self.block(list(s.body) + rest, env, ret), els)
            names = [v for v in dict.fromkeys(tkeys + ekeys) if not self.is_tuple_tmp(v)]   # temporaries of `a, b = x, y` are branch-local
            # a variable bound on one side only and unbound before is branch-local when nothing after the if reads it
            # (including the loop-carried / returned expressions); otherwise the translator refuses
            later = ' '.join(ast.unparse(x) for x in rest) + ' ' + ' '.join(c for c, _ in (getattr(self, 'loop_carried', None) or []))
            def read_later(v):
                import re as _re
                return _re.search(r'(?<![\w.])' + _re.escape(v) + r'(?![\w])', later) is not None
            names = [v for v in names if v in env or (v in tkeys and v in ekeys) or read_later(v)]
            for v in names:
                if v not in env and not (v in tkeys and v in ekeys):
                    raise Refuse('%s: %s assigned on one branch only and not defined before' % (self.rel, v))
            if nw is not None:
                name, restc, need_truthy = nw
                oty = env[name][1]
                inner = self.new(name)
                envn = dict(env)
                envn[name] = (inner, 'Q' if oty == 'OQ' else 'Z')
                parts = []
                if need_truthy:
                    parts.append(self.truthy(envn[name]))
                parts += [self.cond(r, envn) for r in restc]
                c = ' && '.join(parts) if parts else 'true'
                then_env = envn
            else:
                c = self.cond(s.test, env)
                then_env = env
            tvals = self.branch_values(s.body, then_env, names)
            evals = self.branch_values(s.orelse or [], env, names)
            # unify the types of the two sides per variable
            types, tt, et = [], [], []
            for (ta, tya), (eb, tyb) in zip(tvals[1], evals[1]):
                x, y, ty = self.unify((ta, tya), (eb, tyb))
                tt.append(x); et.append(y); types.append(ty)
            def wrap(lets, finals):
                body = '(' + ', '.join(finals) + ')' if len(finals) > 1 else finals[0]
                for nm, term in reversed(lets):
                    body = '(let %s := %s in %s)' % (nm, term, body)
                return body
            if not names:
                # [loop ties C03] fail-closed instead of an IndexError: an `if` of assignments none of which is read later
                raise Refuse('%s: `if %s:` assigns nothing that is read afterwards' % (self.rel, ast.unparse(s.test)))
            tterm, eterm = wrap(tvals[0], tt), wrap(evals[0], et)
            if nw is not None:
                whole = '(match %s with Some %s => if %s then %s else %s | None => %s end)' % (env[name][0], inner, c, tterm, eterm, eterm)
            else:
                whole = '(if %s then %s else %s)' % (c, tterm, eterm)
            env2 = dict(env)
            nms = [self.new(v) for v in names]
            for v, nm, ty in zip(names, nms, types):
                env2[v] = (nm, ty)
            body = self.block(rest, env2, ret)
            if len(nms) == 1:
                return '(let %s := %s in\n   %s)' % (nms[0], whole, body)
            return "(let '(%s) := %s in\n   %s)" % (', '.join(nms), whole, body)
        if isinstance(s, ast.Expr) and isinstance(s.value, ast.Call) and isinstance(s.value.func, ast.Attribute) \
                and s.value.func.attr == 'remove' and isinstance(s.value.func.value, ast.Name) \
                and len(s.value.args) == 1 and not s.value.keywords and env.get(s.value.func.value.id, ('', ''))[1] == 'LS':
            # [loop ties e4] `L.remove(x)` on a list of strings L (type LS, a value in the translation) with x a str: L without
            # the FIRST item equal to x; when no item equals x Python raises ValueError -- an error path outside the
            # translation (recorded).  Emitted as a closed local fixpoint (no library dependency).
            lname = s.value.func.value.id
            x = self.expr(s.value.args[0], env)
            if x[1] != 'S':
                raise Refuse('%s: %s.remove(x) with x of type %s' % (self.rel, lname, x[1]))
            g = '%s not in %s   (ValueError at %s)' % (ast.unparse(s.value.args[0]), lname, ast.unparse(s.value))
            if g not in self.guards:
                self.guards.append(g)
            nm, xv = self.new(lname), self.new('rm_x')
            env2 = dict(env)
            env2[lname] = (nm, 'LS')
            term = ('(let %s := %s in (fix rm_ (l_ : list string) : list string := match l_ with nil => nil '
                    '| cons y_ t_ => if String.eqb %s y_ then t_ else cons y_ (rm_ t_) end) %s)' % (xv, x[0], xv, env[lname][0]))
            return '(let %s := %s in\n   %s)' % (nm, term, self.block(rest, env2, ret))
        if isinstance(s, ast.For) and getattr(self, 'yield_types', None) and 'yield__' in env:
            return self.yield_only_for(s, rest, env, ret)          # [loop ties C06]
        if isinstance(s, ast.Try):
            return self.try_stmt(s, rest, env, ret)                # [loop ties C15]
        raise Refuse('%s: unsupported statement %s' % (self.rel, type(s).__name__))

    def dict_local(self, name, d, env):
        """[loop ties C15] `name = {"k1": v1, ..., "kn": vn}`: a dict display with distinct literal string keys and values of one
        type, bound to a local that is never stored into, re-bound or handed on: in the whole function the name occurs only
        as this assignment's target, as the right side of `in` / `not in`, as the subscripted value of a load `name[key]`,
        or inside a `raise` statement (an error path).  It is then a constant table: (list of (key, value term), 'D:'+type)."""
        keys = []
        for k in d.keys:
            if not (isinstance(k, ast.Constant) and isinstance(k.value, str)) or k.value in keys:
                raise Refuse('%s: dict display %s with a key that is not a distinct string literal' % (self.rel, name))
            keys.append(k.value)
        if not keys:
            raise Refuse('%s: empty dict display %s' % (self.rel, name))
        vals = [self.expr(v, env) for v in d.values]
        if len({v[1] for v in vals}) != 1 or vals[0][1].startswith('D:'):
            raise Refuse('%s: dict display %s with values of types %s' % (self.rel, name, sorted({v[1] for v in vals})))
        fnode = getattr(self, 'cur_fnode', None)
        if fnode is None:
            raise Refuse('%s: dict display outside a function' % self.rel)
        def visit(node, parent, in_raise):
            in_raise = in_raise or isinstance(node, ast.Raise)
            if isinstance(node, ast.Name) and node.id == name and not in_raise:
                ok = (isinstance(node.ctx, ast.Store) and isinstance(parent, ast.Assign) and parent.value is d) \
                    or (isinstance(node.ctx, ast.Load) and isinstance(parent, ast.Compare) and len(parent.ops) == 1
                        and isinstance(parent.ops[0], (ast.In, ast.NotIn)) and parent.comparators[0] is node) \
                    or (isinstance(node.ctx, ast.Load) and isinstance(parent, ast.Subscript) and parent.value is node
                        and isinstance(parent.ctx, ast.Load)) \
                    or (isinstance(node.ctx, ast.Load) and isinstance(parent, ast.Return) and parent.value is node)
                if not ok:
                    raise Refuse('%s: the dict %s is used other than by `in` / `[key]` (it could be changed)' % (self.rel, name))
            for ch in ast.iter_child_nodes(node):
                visit(ch, node, in_raise)
        visit(fnode, None, False)
        return ([(k, v[0]) for k, v in zip(keys, vals)], 'D:' + vals[0][1])

    def try_stmt(self, s, rest, env, ret):
        """[loop ties C15] spec key `tries=[dict(first=<prefix of the guarded statement>, raises='ValueError', param=<name>)]`:
            try: <ONE assignment whose value is a call>   except <E>: H   [else: L]        (no finally, no `as` name)
        Whether the guarded call raises an exception the handler catches is an input of type EXC (the call is opaque).
        Python: the call raises before anything is bound, H runs, the else clause is skipped; otherwise the statement
        binds its targets, L runs.  So  try..; rest  =  if raised then [H; rest] else [stmt; L; rest].
        An exception of another type leaves the function: an error path outside the translation (recorded)."""
        decl = [t for t in (getattr(self, 'tries', None) or []) if len(s.body) == 1 and ast.unparse(s.body[0]).startswith(t['first'])]
        if len(decl) != 1:
            raise Refuse('%s: try statement that the spec does not declare (key `tries`)' % self.rel)
        d = decl[0]
        if s.finalbody or len(s.handlers) != 1 or s.handlers[0].name is not None or s.handlers[0].type is None:
            raise Refuse('%s: try statement with finally / several handlers / a bare except / `as` name' % self.rel)
        if ast.unparse(s.handlers[0].type) != d['raises']:
            raise Refuse('%s: the handler catches %s, the spec declares %s' % (self.rel, ast.unparse(s.handlers[0].type), d['raises']))
        st = s.body[0]
        if not (isinstance(st, ast.Assign) and isinstance(st.value, ast.Call)):
            raise Refuse('%s: the guarded statement is not one assignment from a call' % self.rel)
        flag = env.get(d['param'], ('', ''))
        if flag[1] != 'EXC':
            raise Refuse('%s: %s is not a parameter of type EXC' % (self.rel, d['param']))
        g = '%s raises something other than %s' % (ast.unparse(st.value), d['raises'])
        if g not in self.guards:
            self.guards.append(g)
        then = self.block(self.desugar(list(s.handlers[0].body)) + rest, env, ret)
        els = self.block(self.desugar([st] + list(s.orelse)) + rest, env, ret)
        return '(if %s then %s\n   else %s)' % (flag[0], then, els)

    def yield_only_for(self, s, rest, env, ret):
        """[loop ties C06] an inner `for a, b in zip(X, Y):` / `for a in X:` over integer lists (LZ) whose body does nothing
        but yield (ifs of yields, log lines): the values it yields, iteration after iteration, are
        flat_map (fun '(a, b) => <yields of one pass>) (combine X Y)   (zip stops at the shorter list, as combine does).
        The body may assign nothing else and may not leave the loop; the loop variables are unbound afterwards (Python
        keeps the last pass's values: a later read is refused rather than guessed)."""
        if s.orelse:
            raise Refuse('%s: inner loop with an else clause' % self.rel)
        tg = s.target.elts if isinstance(s.target, ast.Tuple) else [s.target]
        if not all(isinstance(t, ast.Name) for t in tg) or len({t.id for t in tg}) != len(tg):
            raise Refuse('%s: inner loop target %s' % (self.rel, ast.unparse(s.target)))
        it = s.iter
        if isinstance(it, ast.Call) and isinstance(it.func, ast.Name) and it.func.id == 'zip' and not it.keywords \
                and len(it.args) == len(tg) == 2 and isinstance(s.target, ast.Tuple):
            lists = [self.expr(a, env) for a in it.args]
        elif len(tg) == 1 and not isinstance(s.target, ast.Tuple):
            lists = [self.expr(it, env)]
        else:
            raise Refuse('%s: inner loop over %s (only zip of two integer lists / one integer list)' % (self.rel, ast.unparse(it)))
        if any(l[1] != 'LZ' for l in lists):
            raise Refuse('%s: inner loop over values of types %s' % (self.rel, [l[1] for l in lists]))
        body = self.desugar(list(s.body))
        for x in ast.walk(ast.Module(body=body, type_ignores=[])):
            if isinstance(x, (ast.Break, ast.Continue, ast.Return, ast.For, ast.While)):
                raise Refuse('%s: inner loop body with %s' % (self.rel, type(x).__name__))
        envi = dict(env)
        names = [self.new(t.id) for t in tg]
        for t, nm in zip(tg, names):
            envi[t.id] = (nm, 'Z')
        envi['yield__'] = ('(@nil (%s))' % ' * '.join(COQTY[t] for t in self.yield_types), 'Y')
        keys = self.assigned_keys(body, envi)
        # besides yielding, the body may bind names that are unbound before the loop: they live inside one pass (after
        # the loop they are unbound in this reading -- Python keeps the last pass's value -- so a later read is refused)
        if keys is None or any(k != 'yield__' and (k in env or k in [t.id for t in tg]) for k in keys):
            raise Refuse('%s: inner loop body that does more than yield (assigns %s)' % (self.rel, keys))
        lets, finals = self.branch_values(body, envi, ['yield__'])
        one = finals[0][0]
        for nm, term in reversed(lets):
            one = '(let %s := %s in %s)' % (nm, term, one)
        if len(lists) == 2:
            fm = "(flat_map (fun '(%s, %s) => %s) (combine %s %s))" % (names[0], names[1], one, lists[0][0], lists[1][0])
        else:
            fm = '(flat_map (fun %s => %s) %s)' % (names[0], one, lists[0][0])
        nm = self.new('yield')
        env2 = dict(env)
        for t in tg:
            env2.pop(t.id, None)
        env2['yield__'] = (nm, 'Y')
        return '(let %s := (%s ++ %s) in\n   %s)' % (nm, env['yield__'][0], fm, self.block(rest, env2, ret))

    def assigned_keys(self, stmts, env):
        """keys assigned by a block made only of assignments and nested ifs of such blocks (None otherwise)"""
        out = []
        for s in stmts:
            if isinstance(s, ast.Pass) or (isinstance(s, ast.Expr) and isinstance(s.value, ast.Constant)):
                continue
            if isinstance(s, ast.Assign) and len(s.targets) == 1:
                k = self.norm_assign(s, env)[0]
                if k is None:
                    return None
                out.append(k)
            elif isinstance(s, ast.If) and not self.is_raise_guard(s):
                a = self.assigned_keys(s.body, env)
                b = self.assigned_keys(s.orelse, env) if s.orelse else []
                if a is None or b is None:
                    return None
                out += a + b
            else:
                return None
        return list(dict.fromkeys(out))

    def norm_assign(self, s, env):
        """(key, value node) of an assignment statement; a desugared `arr[i] = e` whose i is an integer is a store to the
        element arr[i] (a variable named by the source text `arr[i]`), not a masked store"""
        t, v = s.targets[0], s.value
        st = getattr(v, '_store', None)
        if st is not None:
            try:
                ity = self.expr(st[0].slice, env)[1]
            except Refuse:
                ity = None
            if ity in ('Z', 'S'):
                # ('S': [loop ties C05] d[key] = v on a dict with a string key -- a store to the one entry d[key], a variable
                #  named by the source text of the target, exactly like the integer-indexed array element)
                for node in (st[1],):
                    ast.fix_missing_locations(ast.Expression(body=node))
                return ast.unparse(st[0]), st[1]
            if ity not in ('B', None):
                raise Refuse('%s: store at an index of type %s' % (self.rel, ity))
        return self.assign_key(t), v

    def assign_key(self, t):
        """variable named by an assignment target: a name, tbl['col'], or an array element arr[<index expression>]
        (identified by the source text of the whole target)"""
        if isinstance(t, ast.Name):
            return t.id
        if isinstance(t, ast.Subscript) and not isinstance(t.slice, (ast.Tuple, ast.Slice)):
            return ast.unparse(t)
        if isinstance(t, ast.Attribute) and isinstance(t.value, ast.Name) and t.value.id in getattr(self, 'attr_store_ok', ()):
            # [loop ties C07] `a.b = e`: the variable named `a.b` (later reads of a.b see e).  Only for the names the spec
            # lists in `attr_stores`, and only when `a` is never aliased by a plain `x = a` / `a = x` in the function
            # (checked in function()): another name for the same object would not see the store in this reading
            return ast.unparse(t)
        return None

    def branch_values(self, stmts, env, names):
        """run a block of assignments (and nested ifs of assignments) in order; returns (lets, [(term, type) of
        each name at the end])"""
        env = dict(env)
        lets = []
        for s in stmts:
            if isinstance(s, ast.Pass) or (isinstance(s, ast.Expr) and isinstance(s.value, ast.Constant)):
                continue
            if isinstance(s, ast.Assign):
                key, vnode = self.norm_assign(s, env)
                v = self.none_typed(key, self.value_maybe_nan(vnode, env), env)
                nm = self.new(key)
                lets.append((nm, v[0]))
                env[key] = (nm, v[1])
            elif isinstance(s, ast.If):
                keys = [k for k in self.assigned_keys([s], env) if not self.is_tuple_tmp(k)]
                kt = self.assigned_keys(s.body, env) or []
                ke = self.assigned_keys(s.orelse, env) if s.orelse else []
                local = []
                for k in keys:
                    if k not in env and not (k in kt and k in (ke or [])):
                        if k in names:
                            raise Refuse('%s: %s assigned in a nested branch only and not defined before' % (self.rel, k))
                        # [loop ties C07] not wanted by the enclosing if (block() lists in `names` everything read later):
                        # a temporary of that side (a later read in this branch finds no binding and is refused)
                        local.append(k)
                keys = [k for k in keys if k not in local]
                nw = self.narrowing(s.test, env)
                if nw is not None:
                    # narrowing of an optional name inside the nested then-side, as in block()
                    nname, restc, need_truthy = nw
                    ninner = self.new(nname)
                    envn = dict(env)
                    envn[nname] = (ninner, 'Q' if env[nname][1] == 'OQ' else 'Z')
                    parts = ([self.truthy(envn[nname])] if need_truthy else []) + [self.cond(r, envn) for r in restc]
                    c = ' && '.join(parts) if parts else 'true'
                    tv = self.branch_values(s.body, envn, keys)
                else:
                    c = self.cond(s.test, env)
                    tv = self.branch_values(s.body, env, keys)
                ev = self.branch_values(s.orelse or [], env, keys)
                tys, tt, et = [], [], []
                for (ta, tya), (eb, tyb) in zip(tv[1], ev[1]):
                    x, y, ty = self.unify((ta, tya), (eb, tyb))
                    tt.append(x); et.append(y); tys.append(ty)
                def wrap(ls, finals):
                    body = '(' + ', '.join(finals) + ')' if len(finals) > 1 else finals[0]
                    for nm2, term in reversed(ls):
                        body = '(let %s := %s in %s)' % (nm2, term, body)
                    return body
                if nw is not None:
                    whole = '(match %s with Some %s => if %s then %s else %s | None => %s end)' % (
                        env[nname][0], ninner, c, wrap(tv[0], tt), wrap(ev[0], et), wrap(ev[0], et))
                else:
                    whole = '(if %s then %s else %s)' % (c, wrap(tv[0], tt), wrap(ev[0], et))
                nms = [self.new(k) for k in keys]
                if len(nms) == 1:
                    lets.append((nms[0], whole))
                else:
                    lets.append(("'(%s)" % ', '.join(nms), whole))
                for k, nm, ty in zip(keys, nms, tys):
                    env[k] = (nm, ty)
        return lets, [env[v] for v in names]

    @staticmethod
    def is_tuple_tmp(k):
        return k.startswith('tup') and k.endswith('__')

    def none_typed(self, key, v, env):
        """`x = None`: x becomes (stays) an optional number of the kind x held before"""
        if v[1] != 'NONE':
            return v
        prev = env.get(key, ('', ''))[1]
        oty = {'OZ': 'OZ', 'OQ': 'OQ', 'Z': 'OZ', 'Q': 'OQ', 'B': 'OB', 'OB': 'OB'}.get(prev)
        if oty is None:
            raise Refuse('%s: %s = None where %s is not a number or an optional number' % (self.rel, key, key))
        return ('None', oty)

    def is_raise_guard(self, s):
        return (not s.orelse) and len(s.body) == 1 and isinstance(s.body[0], ast.Raise)

    def value_maybe_nan(self, n, env):
        """like expr, but an IfExp one of whose branches is NaN/None yields an option value"""
        if isinstance(n, ast.IfExp) and (self.is_nan_const(n.body) or self.is_nan_const(n.orelse)):
            c = self.cond(n.test, env)
            def opt(b):
                if self.is_nan_const(b):
                    return None
                return self.expr(b, env)
            a, b = opt(n.body), opt(n.orelse)
            other = a or b
            if other is None:
                raise Refuse('both branches NaN')
            if other[1] in ('B', 'OB'):
                # [loop ties e1] `v if c else None` with v a boolean / an optional boolean: the optional boolean (None on the
                # None side, `Some v` / v on the other)
                ta = 'None' if a is None else self.coerce(a, 'OB')
                tb = 'None' if b is None else self.coerce(b, 'OB')
                return ('(if %s then %s else %s)' % (c, ta, tb), 'OB')
            if other[1] in ('OQ', 'OZ'):
                oty, wrap = other[1], (lambda t: t)
            else:
                oty, wrap = ('OZ' if other[1] == 'Z' else 'OQ'), (lambda t: '(Some %s)' % t)
            ta = 'None' if a is None else wrap(a[0] if oty[1] == a[1] or a[1] in ('OQ', 'OZ') else self.toQ(a))
            tb = 'None' if b is None else wrap(b[0] if oty[1] == b[1] or b[1] in ('OQ', 'OZ') else self.toQ(b))
            return ('(if %s then %s else %s)' % (c, ta, tb), oty)
        return self.expr(n, env)

    def always_returns(self, stmts):
        for s in stmts:
            if isinstance(s, ast.Return):
                return True
            if isinstance(s, (ast.Continue, ast.Break)) and getattr(self, 'loop_carried', None) is not None:
                return True
            if isinstance(s, ast.If) and s.orelse and self.always_returns(s.body) and self.always_returns(s.orelse):
                return True
        return False

    def assigned_only(self, stmts):
        out = {}
        for s in stmts:
            if isinstance(s, ast.Pass) or (isinstance(s, ast.Expr) and isinstance(s.value, ast.Constant)):
                continue
            key = self.target_key(s.targets[0]) if isinstance(s, ast.Assign) and len(s.targets) == 1 else None
            if key is not None and key not in out:
                out[key] = s.value
            else:
                return None
        return out

    # ---- one function
    def function(self, fnode, sp):
        self.cur_fnode = fnode                     # [loop ties C15] for dict_local's whole-function check
        args = fnode.args
        # [loop ties e2] spec key `allow_kwarg=True`: a `**kwargs` parameter is accepted in the SIGNATURE only (the decorators'
        # `wrapper(a, **kwargs)`): the name is never bound in the translation, so any read of it is refused (unknown name /
        # keyword arguments in a call) unless it sits inside a source expression the spec declares as an opaque typed input
        # (e.g. `f(a, **kwargs)`), which is all a pass-through wrapper does with it
        if args.vararg or (args.kwarg and not sp.get('allow_kwarg')) or args.kwonlyargs or args.posonlyargs:
            raise Refuse('%s.%s: unsupported parameter kinds' % (self.rel, sp['name']))
        names = [a.arg for a in args.args]
        want = sp.get('py_params')
        if want is None:
            want = [p[0] for p in sp['params'] if p[0].isidentifier() and p[0] not in sp.get('closure', [])]
        if names != want:
            raise Refuse('%s.%s: parameters are now %s, the spec expects %s' % (self.rel, sp['name'], names, want))
        # defaults: literal defaults are recorded so that calls omitting them can be translated
        sp['defaults'] = {}
        for a, d in zip(args.args[len(args.args) - len(args.defaults):], args.defaults):
            pt = {q[0]: q[1] for q in sp['params']}.get(a.arg)
            if pt is None:
                continue                      # a Python parameter that is not read as a typed scalar
            if isinstance(d, ast.Constant) and d.value is None and pt in ('OQ', 'OZ'):
                sp['defaults'][a.arg] = 'None'
            else:
                try:
                    sp['defaults'][a.arg] = self.coerce(self.expr(d, {}), pt)
                except Refuse:
                    pass
        # a parameter is (key, type[, coq name]); the key is a Python name, a dotted attribute, or ANY source
        # expression (e.g. "cnarr.chr_x_filter(diploid_parx_genome).values", "outarr['baf']") that the function
        # reads as an opaque input of that type
        def norm(k):
            try:
                return ast.unparse(ast.parse(k, mode='eval').body)
            except SyntaxError:
                return k
        plist = []
        for p in sp['params']:
            key, ty = p[0], p[1]
            coq = p[2] if len(p) > 2 else ''.join(c if (c.isalnum() or c == '_') else '_' for c in key).strip('_')
            if coq in COQ_RESERVED:
                coq += '_'
            plist.append((norm(key), ty, coq))
        env = {k: (c, t) for k, t, c in plist}
        # `init`: variables Python leaves unbound on a path the spec declares unreachable (e.g. `if a: x = .. elif b: x = ..`
        # after the complementary case has left the iteration): (name, type, Coq term) bound before the body
        for k, t, term in sp.get('init', []):
            env[k] = (term, t)
        self.guards = []
        self.yield_record = sp.get('yield_record')
        self.append_yields = sp.get('append_yields')       # [loop ties C16] see desugar
        self.slice_views = sp.get('slice_views')           # [loop ties C16] see yield_append__ in call()
        self.element = sp.get('element')             # [loop ties C07/C14] dict(index=<param key>, length=<param key>)
        self.attr_store_ok = tuple(sp.get('attr_stores', ()))
        self.tries = sp.get('tries')                 # [loop ties C15] see try_stmt
        self.row_filter = sp.get('row_filter')       # [loop ties C15] see block(), Return
        self.row_keep = sp.get('row_keep')           # [loop ties C20] see desugar(): `T = T[mask]` per row
        self.columns = sp.get('columns')             # [loop ties C05] see expr(), ListComp / np.apply_along_axis
        self.rows = sp.get('rows')                   # [loop ties e2] see call(): np.fromiter(map(F, X), ..) read per row
        self.items = sp.get('items')                 # [loop ties e2] see desugar(): X = [(E1, ..) for a1, .. in X] read per item
        self.inplace = tuple(sp.get('inplace', ()))               # [loop ties e3] see desugar(): `x.m(args)` as `x = x.m(args)`
        self.raising_calls = tuple(sp.get('raising_calls', ()))   # [loop ties e3] see desugar(): `f(args)` as raised__ = raised__ or f(args)
        if self.inplace:
            objs = {x.value.func.value.id for x in ast.walk(fnode)
                    if isinstance(x, ast.Expr) and isinstance(x.value, ast.Call) and isinstance(x.value.func, ast.Attribute)
                    and isinstance(x.value.func.value, ast.Name) and '.' + x.value.func.attr in self.inplace}
            for x in ast.walk(fnode):
                if isinstance(x, ast.Assign) and isinstance(x.value, ast.Name) and (
                        x.value.id in objs or any(isinstance(t, ast.Name) and t.id in objs for t in x.targets)):
                    raise Refuse('%s.%s: an object updated in place is aliased by `%s`; `inplace` does not apply'
                                 % (self.rel, sp['name'], ast.unparse(x)))
        for f in self.raising_calls:
            if not any(p[0] == f and p[1].startswith('F:') and p[1].endswith('>B') for p in sp['params']):
                raise Refuse('%s.%s: raising_calls: %s is not a function-typed parameter with result B' % (self.rel, sp['name'], f))
        for nm in self.attr_store_ok:
            for x in ast.walk(fnode):
                if isinstance(x, ast.Assign) and isinstance(x.value, ast.Name) and (
                        x.value.id == nm or any(isinstance(t, ast.Name) and t.id == nm for t in x.targets)):
                    raise Refuse('%s.%s: %s is aliased by `%s`; attribute stores into it are not translated'
                                 % (self.rel, sp['name'], nm, ast.unparse(x)))
        if sp.get('yields') and not sp.get('loop'):
            # [loop ties C06] `yields` on a fragment: the values the fragment's statements yield, in order, are the
            # variable `yield__` (type Y, a list of tuples of the declared types), to be named in `returns`
            self.yield_types = list(sp['yields'])
            COQTY['Y'] = 'list (%s)' % ' * '.join(COQTY[t] for t in self.yield_types)
            env['yield__'] = ('(@nil (%s))' % ' * '.join(COQTY[t] for t in self.yield_types), 'Y')
        else:
            self.yield_types = None
        stmts = self.desugar(fnode.body)
        frag = sp.get('fragment')
        if frag:
            stmts = self.find_fragment(stmts, frag['first'], frag['last'])
            if stmts is None:
                raise Refuse('%s.%s: fragment %r .. %r not found' % (self.rel, sp['name'], frag['first'], frag['last']))
            if self.yield_types:
                stmts = self.desugar(stmts)       # [loop ties C06] a fragment inside a for body: its `yield`s are desugared here
        self.loop_carried = None
        self.loop_has_break = False
        loop = sp.get('loop')
        if loop:
            # ONE ITERATION of a for/while loop as a function of the loop-carried variables (declared in `carried` as
            # (source expression, type) pairs, all of them parameters too) and of the loop's own variables (parameters):
            # the result is the tuple of the carried variables after the iteration, plus -- when the body contains a
            # `break` -- a boolean telling whether the loop was left.  `continue` ends the iteration.
            node = self.find_loop(stmts, loop['first'])
            if node is None:
                raise Refuse('%s.%s: loop %r not found' % (self.rel, sp['name'], loop['first']))
            if node.orelse and not loop.get('ignore_else'):
                raise Refuse('%s.%s: loop with an else clause (declare ignore_else to translate the body alone)' % (self.rel, sp['name']))
            self.loop_carried = [(norm(c), t) for c, t in sp['carried']]
            if sp.get('yields'):
                # the values the iteration yields, in order, are one more result: a list of tuples of the declared types
                self.yield_types = list(sp['yields'])
                COQTY['Y'] = 'list (%s)' % ' * '.join(COQTY[t] for t in self.yield_types)
                env['yield__'] = ('(@nil (%s))' % ' * '.join(COQTY[t] for t in self.yield_types), 'Y')
                self.loop_carried.append(('yield__', 'Y'))
            def own_break(nodes):         # a `break` of THIS loop: not inside a loop nested in the body
                for y in nodes:
                    if isinstance(y, ast.Break):
                        return True
                    if isinstance(y, (ast.For, ast.While, ast.FunctionDef, ast.Lambda)):
                        continue
                    if own_break(list(ast.iter_child_nodes(y))):
                        return True
                return False
            self.loop_has_break = own_break(node.body)
            body = list(node.body)
            for oq in sp.get('opaque', []):
                nb = self.replace_opaque(body, oq, ast.unparse(ast.Module(body=list(node.body), type_ignores=[])))
                if nb is body:
                    raise Refuse('%s.%s: opaque range %r .. %r not found' % (self.rel, sp['name'], oq['first'], oq['last']))
                body = nb
            stmts = self.desugar(body)
            if sp.get('dict_prelude'):
                # [loop ties e2] spec key `dict_prelude=<prefix>`: ONE statement `name = {...}` (a dict display) that is a
                # top-level statement of the function placed before the loop -- so it runs exactly once before the loop is
                # reached -- is translated in front of the iteration, where block() reads it as a constant table (dict_local
                # checks in the whole function that the name is never stored into, re-bound or handed on).  Its values are
                # evaluated where the statement stands: refused when they read (outside a lambda body, which is only keyed as an
                # opaque input) a name the function assigns anywhere.
                cand = [x for x in fnode.body if isinstance(x, ast.Assign) and len(x.targets) == 1
                        and isinstance(x.targets[0], ast.Name) and isinstance(x.value, ast.Dict)
                        and ast.unparse(x).startswith(sp['dict_prelude'])]
                if len(cand) != 1 or cand[0].lineno >= node.lineno:
                    raise Refuse('%s.%s: dict_prelude %r is not one top-level dict assignment before the loop'
                                 % (self.rel, sp['name'], sp['dict_prelude']))
                stored = {x.id for x in ast.walk(fnode) if isinstance(x, ast.Name) and isinstance(x.ctx, ast.Store)}
                lam = {id(y) for x in ast.walk(cand[0]) if isinstance(x, ast.Lambda) for y in ast.walk(x)}
                for x in ast.walk(cand[0].value):
                    if isinstance(x, ast.Name) and isinstance(x.ctx, ast.Load) and id(x) not in lam and x.id in stored:
                        raise Refuse('%s.%s: the dict display reads %s, which the function assigns' % (self.rel, sp['name'], x.id))
                stmts = [cand[0]] + stmts
            tail = [ast.parse(c, mode='eval').body for c, _ in self.loop_carried]
            end = ast.Continue()
            end.lineno, end.col_offset = 0, 0
            stmts = stmts + [end]
            rty = [t for _, t in self.loop_carried] + (['B'] if self.loop_has_break else [])
            sp = dict(sp, ret=(rty if len(rty) > 1 else rty[0]))
        if sp.get('opaque') and not loop:
            # [loop ties C15] `opaque=` ranges in a whole function / a fragment (as in a loop iteration: the range is replaced by
            # its declared effect); what counts as "used outside the range" includes the fragment's `returns` expressions
            self.opaque_extra = ' '.join(sp.get('returns') or [])
            whole = ast.unparse(ast.Module(body=list(stmts), type_ignores=[]))
            for oq in sp['opaque']:
                nb = self.replace_opaque(stmts, oq, whole)
                if nb is stmts:
                    raise Refuse('%s.%s: opaque range %r .. %r not found' % (self.rel, sp['name'], oq['first'], oq['last']))
                stmts = nb
            self.opaque_extra = ''
        rets = sp.get('returns')
        if rets:
            tup = ast.Tuple(elts=[ast.parse(r, mode='eval').body for r in rets], ctx=ast.Load()) if len(rets) > 1 \
                else ast.parse(rets[0], mode='eval').body
            stmts = stmts + [ast.Return(value=tup)]
        body = self.block(stmts, env, sp['ret'])
        params = ' '.join('(%s : %s)' % (c, COQTY[t]) for k, t, c in plist)
        pre = ''.join('(* error path outside the translation: raises (or, for a division, yields inf / nan) when  %s *)\n' % g for g in self.guards)
        rty = sp['ret']
        rcoq = COQTY[rty] if isinstance(rty, str) else '(' + ' * '.join(COQTY[t] for t in rty) + ')%type'
        return pre + 'Definition %s %s : %s :=\n  %s.' % (sp['coq'], params, rcoq, body)

    def replace_opaque(self, stmts, oq, whole):
        """`opaque=[dict(first=, last=, assigns=[(name, param)], yields=param)]`: a contiguous statement range (array code,
        an inner loop) is NOT translated; it is replaced by its declared effect -- the named variables take the values of
        the named parameters and the values it yields are the list parameter.  Checked here: every name the range
        stores into is declared in `assigns` or occurs nowhere else in the loop body nor in the carried expressions;
        a range that yields must declare `yields`."""
        srcs = [ast.unparse(x) for x in stmts]
        for i, a in enumerate(srcs):
            if a.startswith(oq['first']):
                for j in range(i, len(srcs)):
                    if srcs[j].startswith(oq['last']):
                        rng = stmts[i:j + 1]
                        rtext = '\n'.join(srcs[i:j + 1])
                        outside = whole.replace(rtext, '') if rtext in whole else None
                        mod = ast.Module(body=rng, type_ignores=[])
                        if outside is None:
                            # the range sits in a nested block: compare line by line
                            outside = '\n'.join(l for l in whole.split('\n') if l.strip() not in {x.strip() for x in rtext.split('\n')})
                        outside += ' ' + ' '.join(c for c, _ in (self.loop_carried or [])) + ' ' + getattr(self, 'opaque_extra', '')
                        declared = {nm for nm, _ in oq.get('assigns', [])}
                        import re as _re
                        for x in ast.walk(mod):
                            if isinstance(x, ast.Name) and isinstance(x.ctx, ast.Store) and x.id not in declared:
                                if _re.search(r'(?<![\w.])' + _re.escape(x.id) + r'(?![\w])', outside):
                                    raise Refuse('%s: the opaque range stores into %s, which is used outside it and not declared' % (self.rel, x.id))
                            if isinstance(x, ast.Return):
                                raise Refuse('%s: the opaque range leaves the iteration' % self.rel)
                            if isinstance(x, ast.Subscript) and isinstance(x.ctx, ast.Store) and isinstance(x.value, ast.Name) \
                                    and x.value.id not in declared and any(
                                        isinstance(y, ast.Name) and isinstance(y.ctx, ast.Store) and y.id == x.value.id
                                        for y in ast.walk(mod)):
                                # [loop ties C16] a store into a container the range itself binds (e.g. the loop variable
                                # of an inner `for row in ...: row['c'] = v; yield row`): local to the range -- the name
                                # passed the not-used-outside check above and the effect is in the declared yields
                                continue
                            if isinstance(x, ast.Subscript) and isinstance(x.ctx, ast.Store):
                                raise Refuse('%s: the opaque range stores into a container' % self.rel)
                        def leaves(nodes):       # a break / continue that is not inside a loop of the range itself
                            for y in nodes:
                                if isinstance(y, (ast.Break, ast.Continue)):
                                    return True
                                if isinstance(y, (ast.For, ast.While, ast.FunctionDef, ast.Lambda)):
                                    continue
                                if leaves(list(ast.iter_child_nodes(y))):
                                    return True
                            return False
                        if leaves(rng):
                            raise Refuse('%s: the opaque range leaves the iteration' % self.rel)
                        has_yield = any(isinstance(x, (ast.Yield, ast.YieldFrom)) for x in ast.walk(mod))
                        if has_yield and not oq.get('yields'):
                            raise Refuse('%s: the opaque range yields but declares no `yields` parameter' % self.rel)
                        new = []
                        if oq.get('yields'):
                            call = ast.Call(func=ast.Name(id='yield_extend__', ctx=ast.Load()),
                                            args=[ast.Name(id=oq['yields'], ctx=ast.Load())], keywords=[])
                            new.append(ast.Assign(targets=[ast.Name(id='yield__', ctx=ast.Store())], value=call))
                        for nm, prm in oq.get('assigns', []):
                            new.append(ast.Assign(targets=[ast.Name(id=nm, ctx=ast.Store())], value=ast.Name(id=prm, ctx=ast.Load())))
                        for x in new:
                            x.lineno, x.col_offset = 0, 0
                            ast.fix_missing_locations(x)
                        return stmts[:i] + new + stmts[j + 1:]
        out, found = [], False
        for x in stmts:
            if not found and isinstance(x, ast.If):
                b = self.replace_opaque(x.body, oq, whole) if x.body else x.body
                if b is not x.body and b != x.body:
                    x = ast.If(test=x.test, body=b, orelse=x.orelse); found = True
                else:
                    e = self.replace_opaque(x.orelse, oq, whole) if x.orelse else x.orelse
                    if e != x.orelse:
                        x = ast.If(test=x.test, body=x.body, orelse=e); found = True
                if found:
                    x.lineno, x.col_offset = 0, 0
                    ast.fix_missing_locations(x)
            out.append(x)
        return out if found else stmts

    def find_loop(self, stmts, first):
        for x in stmts:
            if isinstance(x, (ast.For, ast.While)) and ast.unparse(x).startswith(first):
                return x
            for sub in (getattr(x, 'body', None), getattr(x, 'orelse', None)):
                if isinstance(sub, list) and sub and isinstance(sub[0], ast.stmt):
                    r = self.find_loop(sub, first)
                    if r is not None:
                        return r
        return None

    def find_fragment(self, stmts, first, last):
        """the contiguous statements, in whichever (nested) statement list holds them, from the one whose source
        starts with `first` to the one whose source starts with `last`"""
        srcs = [ast.unparse(x) for x in stmts]
        for i, a in enumerate(srcs):
            if a.startswith(first):
                for j in range(i, len(srcs)):
                    if srcs[j].startswith(last):
                        return stmts[i:j + 1]
        for x in stmts:
            for sub in (getattr(x, 'body', None), getattr(x, 'orelse', None)):
                if isinstance(sub, list) and sub and isinstance(sub[0], ast.stmt):
                    r = self.find_fragment(sub, first, last)
                    if r is not None:
                        return r
        return None


def find_func(tree, qual):
    node = tree
    for part in qual.split('.'):
        found = None
        for ch in ast.walk(node):
            if ch is not node and isinstance(ch, (ast.FunctionDef, ast.ClassDef)) and ch.name == part:
                found = ch
                break
        if found is None:
            raise Refuse('no definition %s' % qual)
        node = found
    return node


def translate_all():
    """returns (n_modules, n_functions, errors)"""
    os.makedirs(OUT, exist_ok=True)
    errors, nmod, nfn = [], 0, 0
    for f in sorted(glob.glob(os.path.join(HERE, 'fnspecs', '*.py'))):
        spec = importlib.util.spec_from_file_location('fnspec_' + os.path.basename(f)[:-3], f)
        m = importlib.util.module_from_spec(spec)
        spec.loader.exec_module(m)
        for mod, (rel, fns) in m.MODULES.items():
            path = os.path.join(REPO, rel)
            try:
                if not os.path.exists(path):
                    raise Refuse('missing source file %s' % rel)
                tree = ast.parse(open(path).read(), rel)
                tr = FnTranslator(rel, fns)
                defs = []
                for sp in fns:
                    defs.append('(* %s: %s *)\n' % (rel, sp['name']) + tr.function(find_func(tree, sp['name']), sp))
                    nfn += 1
                lines = ['(* GENERATED from %s/%s by tools/py2v_fn.py -- do not edit, never committed by hand. *)' % (REPO, rel),
                         'From Coq Require Import ZArith QArith Qabs String List Bool.',
                         'From CNV Require Import Base.Str Base.QNum%s.' % (' Model.Decimal' if getattr(tr, 'uses_decimal', False) else ''),
                         'Import ListNotations.', 'Open Scope Z_scope.', '',
                         'Section Fn.']
                for o in sorted(tr.oracles):
                    lines.append('Variable %s : Q -> Q.' % o)
                lines.append('')
                lines += [d + '\n' for d in defs]
                lines.append('End Fn.')
                text = '\n'.join(lines) + '\n'
                out = os.path.join(OUT, mod + '.v')
                if not (os.path.exists(out) and open(out).read() == text):
                    open(out, 'w').write(text)
                nmod += 1
            except Refuse as e:
                errors.append('%s (%s): %s' % (mod, rel, e))
            except SyntaxError as e:
                errors.append('%s (%s): source does not parse: %s' % (mod, rel, e))
    return nmod, nfn, errors


if __name__ == '__main__':
    nmod, nfn, errors = translate_all()
    for e in errors:
        print('TRANSLATOR REFUSES: ' + e)
    print('function translator: %d modules, %d functions' % (nmod, nfn))
    sys.exit(1 if errors else 0)
