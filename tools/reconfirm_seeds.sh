#!/bin/bash
# usage: tools/reconfirm_seeds.sh <verif-clone-dir> <ID>...
# Re-confirms every seeded/<ID>-m* with the check of the given /verif clone (a git worktree of /verif at the
# commit to be tested, already set up), sequentially; results are rewritten into /verif/seeded/<name>/meta.json.
CLONE=$1; shift
for ID in "$@"; do
  for d in /verif/seeded/$ID-m*/; do
    n=$(basename $d)
    src=/tmp/reconf-src-$n
    rm -rf $src; mkdir -p $src
    cp $d/patch.diff $d/demo.py $src/
    python3 - "$d/meta.json" "$src/meta.json" <<'PY'
import json, sys
m = json.load(open(sys.argv[1])); m.pop('confirmed_by_me', None)
json.dump(m, open(sys.argv[2], 'w'), indent=1)
PY
    echo "=== $n"
    $CLONE/tools/confirm_seed.sh $src $ID $n 2>&1 | tail -1
    rm -rf $src
  done
done
echo RECONFIRM-DONE
