(* Generic driver for the extracted model (trusted for the correspondence check only).
   Protocol: one request per input line:  <entry> <val>
   val ::= z[-]<hex> | q[-]<hex>/<hex> | s<hexbytes> | t | f | n | e<hexbytes> | ( val* )
   One response line per request, in the same encoding. *)
type ostring = string
open Model

let rec pos_of_bits (bits : bool list) : positive =
  (* bits: least significant first, last one is true *)
  match bits with
  | [] -> XH
  | [true] -> XH
  | b :: rest -> if b then XI (pos_of_bits rest) else XO (pos_of_bits rest)

let hexval c =
  match c with
  | '0'..'9' -> Char.code c - 48
  | 'a'..'f' -> Char.code c - 87
  | 'A'..'F' -> Char.code c - 55
  | _ -> failwith "hex"

(* hex string (most significant digit first) -> list of bits, least significant first, trimmed *)
let bits_of_hex (s : ostring) : bool list =
  let n = String.length s in
  let acc = ref [] in
  for i = 0 to n - 1 do
    let v = hexval s.[i] in
    (* building msb-first list reversed = lsb first at the end *)
    acc := (v land 1 = 1) :: (v land 2 = 2) :: (v land 4 = 4) :: (v land 8 = 8) :: !acc
  done;
  (* !acc is lsb-first already: last processed digit (least significant) is at the head *)
  let l = !acc in
  (* trim high zeros: they are at the end of the list *)
  let rec trim r = match r with false :: t -> trim t | _ -> r in
  List.rev (trim (List.rev l))

let z_of_hex (s : ostring) : z =
  let neg, body =
    if String.length s > 0 && s.[0] = '-' then true, String.sub s 1 (String.length s - 1)
    else false, s in
  match bits_of_hex body with
  | [] -> Z0
  | bits -> let p = pos_of_bits bits in if neg then Zneg p else Zpos p

let rec bits_of_pos (p : positive) : bool list =
  match p with
  | XH -> [true]
  | XO q -> false :: bits_of_pos q
  | XI q -> true :: bits_of_pos q

let hex_of_pos (p : positive) : ostring =
  let bits = Array.of_list (bits_of_pos p) in
  let n = Array.length bits in
  let nd = (n + 3) / 4 in
  let b = Bytes.create nd in
  for d = 0 to nd - 1 do
    let v = ref 0 in
    for k = 0 to 3 do
      let i = d * 4 + k in
      if i < n && bits.(i) then v := !v lor (1 lsl k)
    done;
    Bytes.set b (nd - 1 - d) "0123456789abcdef".[!v]
  done;
  Bytes.to_string b

let hex_of_z (x : z) : ostring =
  match x with
  | Z0 -> "0"
  | Zpos p -> hex_of_pos p
  | Zneg p -> "-" ^ hex_of_pos p

let ascii_of_char (c : char) : ascii =
  let v = Char.code c in
  let b k = v land (1 lsl k) <> 0 in
  Ascii (b 0, b 1, b 2, b 3, b 4, b 5, b 6, b 7)

let char_of_ascii (a : ascii) : char =
  match a with
  | Ascii (b0, b1, b2, b3, b4, b5, b6, b7) ->
    let f b k = if b then 1 lsl k else 0 in
    Char.chr (f b0 0 + f b1 1 + f b2 2 + f b3 3 + f b4 4 + f b5 5 + f b6 6 + f b7 7)

let coqstring_of_string (s : ostring) : string =
  let r = ref EmptyString in
  for i = String.length s - 1 downto 0 do
    r := String (ascii_of_char s.[i], !r)
  done;
  !r

let string_of_coqstring (s : string) : ostring =
  let b = Buffer.create 16 in
  let rec go s = match s with
    | EmptyString -> ()
    | String (a, t) -> Buffer.add_char b (char_of_ascii a); go t in
  go s; Buffer.contents b

let unhex (s : ostring) : ostring =
  let n = String.length s / 2 in
  String.init n (fun i -> Char.chr (hexval s.[2*i] * 16 + hexval s.[2*i+1]))

let tohex (s : ostring) : ostring =
  let b = Buffer.create (2 * String.length s) in
  String.iter (fun c -> Buffer.add_string b (Printf.sprintf "%02x" (Char.code c))) s;
  Buffer.contents b

(* tokens -> val *)
let rec parse_val (toks : ostring list) : val0 * ostring list =
  match toks with
  | [] -> failwith "eof"
  | "(" :: rest ->
    let rec items acc r =
      match r with
      | ")" :: r' -> (List.rev acc, r')
      | _ -> let (v, r') = parse_val r in items (v :: acc) r' in
    let (l, r) = items [] rest in (VL l, r)
  | tok :: rest ->
    let body = String.sub tok 1 (String.length tok - 1) in
    (match tok.[0] with
     | 'z' -> (VZ (z_of_hex body), rest)
     | 'q' ->
       let i = String.index body '/' in
       let num = z_of_hex (String.sub body 0 i) in
       let den = String.sub body (i + 1) (String.length body - i - 1) in
       (match z_of_hex den with
        | Zpos p -> (VQ { qnum = num; qden = p }, rest)
        | _ -> failwith "den")
     | 's' -> (VS (coqstring_of_string (unhex body)), rest)
     | 't' -> (VB true, rest)
     | 'f' -> (VB false, rest)
     | 'n' -> (VNone, rest)
     | 'e' -> (VErr (coqstring_of_string (unhex body)), rest)
     | _ -> failwith ("token " ^ tok))

let rec print_val (b : Buffer.t) (v : val0) : unit =
  match v with
  | VZ x -> Buffer.add_char b 'z'; Buffer.add_string b (hex_of_z x)
  | VQ q -> Buffer.add_char b 'q'; Buffer.add_string b (hex_of_z q.qnum);
    Buffer.add_char b '/'; Buffer.add_string b (hex_of_pos q.qden)
  | VS s -> Buffer.add_char b 's'; Buffer.add_string b (tohex (string_of_coqstring s))
  | VB true -> Buffer.add_char b 't'
  | VB false -> Buffer.add_char b 'f'
  | VNone -> Buffer.add_char b 'n'
  | VErr s -> Buffer.add_char b 'e'; Buffer.add_string b (tohex (string_of_coqstring s))
  | VL l ->
    Buffer.add_char b '(';
    List.iter (fun x -> Buffer.add_char b ' '; print_val b x) l;
    Buffer.add_string b " )"

let () =
  let buf = Buffer.create 65536 in
  (try
    while true do
      let line = input_line stdin in
      let toks = List.filter (fun s -> s <> "") (String.split_on_char ' ' line) in
      (match toks with
       | [] -> print_newline ()
       | name :: rest ->
         Buffer.clear buf;
         (try
            let (v, _) = parse_val rest in
            let r = dispatch (coqstring_of_string name) v in
            print_val buf r
          with
          | Stack_overflow -> Buffer.clear buf; Buffer.add_string buf ("e" ^ tohex "driver:stack_overflow")
          | Failure m -> Buffer.clear buf; Buffer.add_string buf ("e" ^ tohex ("driver:" ^ m))
          | Not_found -> Buffer.clear buf; Buffer.add_string buf ("e" ^ tohex "driver:parse"));
         print_string (Buffer.contents buf); print_newline ())
    done
  with End_of_file -> ())
