#!/bin/bash
# Extract the model and build the driver (run from anywhere).
set -e
cd "$(dirname "$0")"
rm -f model.ml model.mli *.cmi *.cmx *.o *.cmo
coqc -Q ../theories CNV ../theories/Extract/Extract.v > extract.log 2>&1 || { cat extract.log; exit 1; }
ocamlfind ocamlopt -O2 -w -a -package str model.mli model.ml driver.ml -o driver 2>build.log || ocamlfind ocamlopt -w -a model.mli model.ml driver.ml -o driver 2>build.log || { cat build.log; exit 1; }
