(* C13 -- access lists exactly the non-N runs of the genome, joined and excluded as asked.
   Property theorems only; proofs live in Proofs/Access.v. *)
From CNV Require Import Base.Prelude Base.Str Spec.Runs Model.Access Proofs.Access.

(* For every FASTA record, whatever the line width (any cut of the sequence into
   non-empty lines), the scanner returns exactly the maximal non-N runs of the
   concatenated sequence, in order. *)
Theorem C13_scan : forall lines : list string,
  Forall (fun l => l <> ""%string) lines ->
  get_regions_record lines = runs isN_ascii (concat (map chars lines)).
Proof. exact get_regions_record_runs. Qed.
