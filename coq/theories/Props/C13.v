(* C13 -- access lists exactly the non-N runs of the genome, joined and excluded as asked.
   Property theorems only; proofs live in Proofs/Access*.v. *)
From CNV Require Import Base.Prelude Base.Str Spec.Runs Spec.Regions Model.Access
  Proofs.Access Proofs.AccessJoin Gen.AccessDefaults
  Model.IvRow Spec.Cover Model.AccessPipe Proofs.AccessPipe
  Model.AccessText Proofs.AccessPipeLib Proofs.AccessPipeline Proofs.AccessGenome
  Proofs.AccessGenomeTotal Proofs.AccessText Gen.FnAccess Proofs.FnAccess Gen.FnAccessScan Proofs.FnAccessScan.

(* For every FASTA record, whatever the line width -- EVERY cut of the sequence into
   lines, blank lines included (a blank line is skipped since fix 784419a; before it,
   a blank line after an N produced an empty region) -- the scanner returns exactly
   `runs` of the concatenated sequence, in order. *)
Theorem C13_scan : forall lines : list string,
  get_regions_record lines = runs isN_ascii (concat (map chars lines)).
Proof. exact get_regions_record_runs. Qed.

(* hence every reported region is non-empty, whatever the lines *)
Theorem C13_scan_nonempty : forall lines : list string,
  Forall (fun p => 0 <= fst p < snd p) (get_regions_record lines).
Proof. exact get_regions_record_nonempty. Qed.

(* the old failing input: NN followed by a blank line reports nothing; a blank line
   inside a run does not split or shift it *)
Example C13_scan_blank_lines :
  get_regions_record ["NN"; ""]%string = [] /\
  get_regions_record ["ACN"; ""; "NGT"]%string = [(0, 2); (4, 6)] /\
  get_regions_record [""; "AC"; ""; ""; "GTN"; ""]%string = [(0, 4)].
Proof. repeat split; reflexivity. Qed.

(* ... and `runs` is the mathematical object of the property: it covers exactly
   the positions holding a character other than 'N' ... *)
Theorem C13_runs_cover : forall (s : list ascii) (x : Z),
  cov (runs isN_ascii s) x <-> nonN_at isN_ascii s x.
Proof. exact (runs_cover isN_ascii). Qed.

(* ... by non-empty regions, starting at >= 0, sorted, separated by at least one
   base (which by C13_runs_cover is an N): each region is a maximal run. *)
Theorem C13_runs_sep : forall s : list ascii, sep_from 1 (-1) (runs isN_ascii s).
Proof. exact (runs_sep isN_ascii). Qed.

(* 'n' is not 'N' *)
Example C13_lowercase_n_is_accessible :
  get_regions_record ["NNnnAC"; "GTNN"; "NA"]%string = [(2, 8); (11, 12)].
Proof. reflexivity. Qed.

(* join_regions on one chromosome's non-empty, strictly separated regions: the
   assertion never fires ... *)
Theorem C13_join_ok : forall g rows,
  wf_regions (-1) rows -> exists r, join_regions g rows = Some r.
Proof. exact join_regions_ok. Qed.

(* ... the output covers exactly the input plus the gaps smaller than g (a gap of
   size >= g is never bridged) ... *)
Theorem C13_join_cover : forall g rows r,
  wf_regions (-1) rows -> join_regions g rows = Some r ->
  forall x, cov r x <->
    cov rows x \/ match rows with [] => False | (_, e) :: t => bridged g e t x end.
Proof. exact join_regions_cover. Qed.

(* ... and output regions are non-empty, sorted and separated by >= max 1 g bases. *)
Theorem C13_join_sep : forall g rows r,
  wf_regions (-1) rows -> join_regions g rows = Some r ->
  match r with
  | [] => rows = []
  | (a, b) :: t => a < b /\ sep_from (Z.max 1 g) b t
  end.
Proof. exact join_regions_sep. Qed.

Example C13_join_example :
  wf_regions (-1) [(0, 5); (6, 9); (20, 30)] /\
  join_regions 3 [(0, 5); (6, 9); (20, 30)] = Some [(0, 9); (20, 30)].
Proof. cbn. repeat split; lia. Qed.

(* The contig-name rule: Model.Access.noncanonical was written for exactly these
   alternatives of antitarget.re_noncanonical (regenerated from /repo on every run):
   EBV, NC*/random, Un, HLA, alt, hap<digit>, chrM, MT. *)
Theorem C13_contig_rule_source :
  re_noncanonical_alts =
  ["^chrEBV$"; "^NC|_random$"; "Un_"; "^HLA\-"; "_alt$"; "hap\d$"; "chrM"; "MT"]%string.
Proof. reflexivity. Qed.

Theorem C13_contigs : forall name : string,
  is_canonical_contig_name name = false <->
  (name = "chrEBV"%string \/ str_prefix "NC" name = true \/ str_suffix "_random" name = true \/
   str_infix "Un_" name = true \/ str_prefix "HLA-" name = true \/ str_suffix "_alt" name = true \/
   ends_hap_digit (chars name) = true \/ str_infix "chrM" name = true \/ str_infix "MT" name = true).
Proof. exact noncanonical_spec. Qed.

Example C13_contigs_examples :
  map is_canonical_contig_name
    ["chr1"; "X"; "chrM"; "MT"; "chr1_KI270706v1_random"; "chrUn_gl000211"; "HLA-A*01:01";
     "chr6_GL000250v2_alt"; "chrEBV"; "chr6_apd_hap1"]%string
  = [true; true; false; false; false; false; false; false; false; false].
Proof. reflexivity. Qed.

(* Exclusion: subtracting any number of exclude tables -- rows overlapping, nested or
   duplicated, each table sorted by start as tabio.read leaves it -- leaves exactly the
   bases of the non-N runs that lie in none of them (rests on the C06 subtract theorem). *)
Theorem C13_exclude : forall (excls : list (list (Z * Z))) (runs : list (Z * Z)) (x : Z),
  Forall (fun ex => sorted_lo (to_rows ex)) excls ->
  (cov (exclude_all runs excls) x <-> cov runs x /\ Forall (fun ex => ~ cov ex x) excls).
Proof. exact exclude_all_cov. Qed.

Example C13_exclude_nested :
  exclude_all [(0, 100); (200, 300)] [[(10, 90); (20, 30)]; [(50, 250)]] = [(0, 10); (250, 300)]
  /\ Forall (fun ex => sorted_lo (to_rows ex)) [[(10, 90); (20, 30)]; [(50, 250)]].
Proof. split; [vm_compute; reflexivity|repeat constructor; cbn; lia]. Qed.

(* ------------------------------------------------------------------------------------------
   The whole per-sequence pipeline  access_sequence g runs excls = join_regions g (exclude_all
   runs excls).  An exclude table, as one sequence sees it, is [excl_ok]: every row has
   lo < hi and the rows are sorted by start (what tabio.read leaves).

   (a) Exclusion keeps the region list well-formed for join_regions: non-empty regions,
   sorted, strictly separated (pieces of one run by an excluded row of positive length,
   pieces of different runs by the original N gap), and covers exactly the kept bases. *)
Theorem C13_exclude_wf : forall runs excls p,
  wf_regions p runs -> Forall excl_ok excls ->
  wf_regions p (exclude_all runs excls) /\
  forall x, cov (exclude_all runs excls) x <-> kept runs excls x.
Proof. exact exclude_all_correct. Qed.

(* (b) Hence join never hits its assertion; with K = the non-N bases of the sequence that lie
   in no exclude region, the result covers exactly K plus the small gaps of K (maximal
   stretches outside K, shorter than g, with a base of K on either side); output regions are
   non-empty, start at >= 0, sorted and separated by >= max 1 g bases; nothing is reported
   exactly when K is empty (exclusion may remove a whole run, or everything). *)
Theorem C13_pipeline : forall g (s : list ascii) excls,
  Forall excl_ok excls ->
  exists r, access_sequence g (runs isN_ascii s) excls = Some r /\
    (forall x, cov r x <-> kept_seq s excls x \/ small_gap (kept_seq s excls) g x) /\
    match r with
    | [] => forall x, ~ kept_seq s excls x
    | (a, b) :: t => 0 <= a < b /\ sep_from (Z.max 1 g) b t
    end.
Proof. exact access_sequence_scanned. Qed.

(* the same for any well-formed region list in place of the scanner's output *)
Theorem C13_pipeline_wf : forall g runs excls,
  wf_regions (-1) runs -> Forall excl_ok excls ->
  exists r, access_sequence g runs excls = Some r /\
    (forall x, cov r x <-> kept runs excls x \/ small_gap (kept runs excls) g x) /\
    match r with
    | [] => forall x, ~ kept runs excls x
    | (a, b) :: t => 0 <= a < b /\ sep_from (Z.max 1 g) b t
    end.
Proof. exact access_sequence_correct. Qed.

(* min_gap_size 0 (also None -> 0, or negative): nothing is bridged *)
Theorem C13_pipeline_nogap : forall g runs excls,
  g <= 0 -> wf_regions (-1) runs -> Forall excl_ok excls ->
  exists r, access_sequence g runs excls = Some r /\ forall x, cov r x <-> kept runs excls x.
Proof. exact access_sequence_nogap. Qed.

(* the bridged gaps of join_regions are exactly the small gaps of the input's cover *)
Theorem C13_bridged_small_gap : forall g rest a0 b0 x,
  a0 < b0 -> sep_from 1 b0 rest ->
  (bridged g b0 rest x <-> small_gap (cov ((a0, b0) :: rest)) g x).
Proof. exact bridged_small_gap. Qed.

Example C13_pipeline_example :
  (* ACGTNNACGTACNNNACGT: runs 0-4, 6-12, 15-19; exclude 0-4 (a whole run) and 8-9 *)
  Forall excl_ok [[(0, 4); (8, 9)]] /\
  access_sequence 2 (runs isN_ascii (chars "ACGTNNACGTACNNNACGT")) [[(0, 4); (8, 9)]] = Some [(6, 12); (15, 19)] /\
  access_sequence 0 (runs isN_ascii (chars "ACGTNNACGTACNNNACGT")) [[(0, 4); (8, 9)]] = Some [(6, 8); (9, 12); (15, 19)] /\
  access_sequence 5 (runs isN_ascii (chars "ACGT")) [[(0, 9)]] = Some [].
Proof.
  split; [|vm_compute; auto].
  repeat constructor; cbn; lia.
Qed.

(* ------------------------------------------------------------------------------------------
   Genome level: do_access over several sequences.  [flatten_recs recs] is the table
   GA.from_rows(get_regions(...)): each sequence's regions under its name, in file order.
   For distinct sequence names the result is, record by record in file order, nothing for a
   sequence dropped by skip_noncanonical and otherwise the per-sequence pipeline on that
   sequence's regions and on the rows of each exclude table that carry its name (sorted by
   start, end); the call fails iff one of them fails.  Names that occur only in an exclude
   table play no role; min_gap_size None counts as 0. *)
Theorem C13_genome : forall g skip recs excls,
  NoDup (map fst recs) ->
  do_access g skip (flatten_recs recs) excls =
  collect (map (per_record (gap_or_0 g) skip excls) recs).
Proof. exact do_access_per_record. Qed.

(* ... total and correct: with distinct names and exclude rows of positive length do_access
   succeeds, and each sequence's part satisfies the statement of C13_pipeline ([seq_result]). *)
Theorem C13_genome_total : forall g skip (seqs : list (string * list ascii)) excls,
  NoDup (map fst seqs) -> Forall excl_rows_valid excls ->
  exists parts, do_access g skip (flatten_recs (scanned seqs)) excls = Some (concat parts) /\
                Forall2 (seq_result (gap_or_0 g) skip excls) seqs parts.
Proof. exact do_access_genome. Qed.

(* the exclude rows one sequence sees cover exactly the file's rows carrying its name *)
Theorem C13_exclude_per_chromosome : forall c ex x,
  cov (sort_pairs (rows_of c ex)) x <-> exists r, In r ex /\ t_name r = c /\ snd (fst r) <= x < snd r.
Proof. exact cov_excls_for. Qed.

Example C13_genome_example :
  do_access (Some 1) true
    (flatten_recs [("chr2", [(0, 4)]); ("chrM", [(0, 9)]); ("chr1", [(0, 2); (3, 5)]); ("chr10", [(0, 2)])]%string)
    [[("chr10", 0, 1); ("chr2", 2, 3); ("chr2", 1, 2); ("chrZ", 0, 100)]]%string
  = Some [("chr2", 0, 1); ("chr2", 3, 4); ("chr1", 0, 2); ("chr1", 3, 5); ("chr10", 1, 2)]%string.
Proof. vm_compute. reflexivity. Qed.

(* ------------------------------------------------------------------------------------------
   Text level: get_regions on the characters of the file.  A well-formed record [wrec_ok] is
   `>name description` (name without white space, description empty or starting with a
   blank) followed by sequence lines, each a (possibly empty) stretch of non-blank characters
   not starting with ">" plus optional trailing blanks -- so blank lines may occur anywhere:
   inside a sequence, between records, at the end of the file, and ([pre]) before the first
   header; every physical line ends in LF, CRLF or CR, each line its own ([eols_ok]: a CR is
   not directly followed by an empty line ending in LF -- that pair is one CRLF).  Whatever
   the cut of the sequences into lines, get_regions returns, record by record, the maximal
   non-N runs of the record's sequence under the record's name ('n' is not 'N'). *)
Theorem C13_text : forall pre recs (pl : list (list ascii * list ascii)),
  Forall blanks pre -> Forall wrec_ok recs -> map fst pl = pre ++ concat (map w_phys recs) ->
  Forall (fun le => is_eol (snd le)) pl -> eols_ok pl ->
  get_regions_text (unchars (join pl)) = Some (flat_map w_expected recs).
Proof. exact get_regions_text_wellformed. Qed.

(* ... also when the file does not end in a newline *)
Theorem C13_text_no_final_newline :
  forall pre recs (pl : list (list ascii * list ascii)) (last : list ascii),
  Forall blanks pre -> Forall wrec_ok recs -> map fst pl ++ [last] = pre ++ concat (map w_phys recs) ->
  last <> [] -> Forall (fun le => is_eol (snd le)) pl -> eols_ok pl ->
  get_regions_text (unchars (join pl ++ last)) = Some (flat_map w_expected recs).
Proof. exact get_regions_text_no_final_newline. Qed.

(* the record structure for ANY record content (blank lines, leading or inner blanks, ...):
   a file whose lines are header-led records yields, record by record, the maximal non-N
   runs of the record's rstripped lines under the header's first token *)
Theorem C13_text_records : forall recs st,
  Forall rec_shape recs ->
  gr_lines st (concat (map rec_lines recs)) = Some (flush st ++ flat_map rec_runs recs).
Proof. exact gr_lines_records. Qed.

(* lines_of inverts the joining of lines (empty ones included) with their terminators *)
Theorem C13_lines_of_join : forall pl tail,
  Forall phys_ok pl -> eols_ok pl -> no_lf_first tail ->
  lines_of (join pl ++ tail) = map fst pl ++ lines_of tail.
Proof. exact lines_of_join. Qed.

Example C13_text_example :
  (* CRLF, a description, trailing blank, lower-case n, no final newline *)
  get_regions_text
    (unchars (chars ">chr1 test" ++ [CR; LF] ++ chars "ACGTNnAC " ++ [CR; LF] ++ chars "GTNN" ++ [LF] ++
              chars ">chrM" ++ [CR] ++ chars "NA"))
  = Some [("chr1", 0, 4); ("chr1", 5, 10); ("chrM", 1, 2)]%string.
Proof. vm_compute. reflexivity. Qed.

(* blank lines: the inputs that used to give an empty region (fixed in 784419a) -- a blank
   line after an N followed by an N, and `>chr1 NN <blank>` -- plus blank lines before the
   first header, inside a run, between records (white-space-only and CRLF ones) *)
Example C13_text_blank_lines :
  get_regions_text (unchars (chars ">chr1" ++ [LF] ++ chars "ACN" ++ [LF; LF] ++ chars "NGT" ++ [LF]))
  = Some [("chr1", 0, 2); ("chr1", 4, 6)]%string /\
  get_regions_text (unchars (chars ">chr1" ++ [LF] ++ chars "NN" ++ [LF; LF])) = Some [] /\
  get_regions_text (unchars ([LF] ++ chars "  " ++ [CR; LF] ++ chars ">chr1" ++ [LF] ++ chars "AC" ++ [LF; LF] ++
                             chars "GTN" ++ [LF] ++ chars " " ++ [LF; CR; LF] ++ chars ">chr2" ++ [LF; LF] ++ chars "NA" ++ [LF; LF]))
  = Some [("chr1", 0, 4); ("chr2", 1, 2)]%string.
Proof. vm_compute. auto. Qed.

(* malformed input, where the model mirrors the code (edge stream of the correspondence
   check): a non-blank sequence line before the first header fails *)
Example C13_text_sequence_before_header :
  get_regions_text (unchars (chars "ACGT" ++ [LF] ++ chars ">chr1" ++ [LF])) = None.
Proof. vm_compute. auto. Qed.

(* ------------------------------------------------------------------------------------------
   Source tie.  access.py has no pure scalar helper the function-body translator accepts
   (get_regions / join_regions are loops over generators, is_canonical_contig_name is a regex
   search), so the branch structure itself is pinned: the translator regenerates the
   normalised source of the five functions on every run (docstrings, logging calls and
   assertion messages removed) and the theorems below state the lines the models were written
   for -- Model/Access.v scan_line / join_from, Model/AccessText.v gr_step (header branch,
   split(None, 1)[0][1:], rstrip), Model/AccessPipe.v do_access (filter, one subtract per
   exclude file, join; `min_gap_size or 0`).  A changed condition, yield, assignment or call
   in any branch stops the corresponding theorem from compiling. *)
Theorem C13_source_get_regions :
  get_regions_src =
  ["def get_regions(fasta_fname):";
   "    with open(fasta_fname) as infile:";
   "        chrom = cursor = run_start = None";
   "        for line in infile:";
   "            if line.startswith('>'):";
   "                if run_start is not None:";
   "                    yield log_this(chrom, run_start, cursor)";
   "                chrom = line.split(None, 1)[0][1:]";
   "                run_start = None";
   "                cursor = 0";
   "            else:";
   "                line = line.rstrip()";
   "                if not line:";
   "                    continue";
   "                if 'N' in line:";
   "                    if all((c == 'N' for c in line)):";
   "                        if run_start is not None:";
   "                            yield log_this(chrom, run_start, cursor)";
   "                            run_start = None";
   "                    else:";
   "                        line_chars = np.array(line, dtype='c')";
   "                        n_indices = np.where(line_chars == b'N')[0]";
   "                        if run_start is not None:";
   "                            yield log_this(chrom, run_start, cursor + n_indices[0])";
   "                        elif n_indices[0] != 0:";
   "                            yield log_this(chrom, cursor, cursor + n_indices[0])";
   "                        gap_mask = np.diff(n_indices) > 1";
   "                        if gap_mask.any():";
   "                            ok_starts = n_indices[:-1][gap_mask] + 1 + cursor";
   "                            ok_ends = n_indices[1:][gap_mask] + cursor";
   "                            for start, end in zip(ok_starts, ok_ends):";
   "                                yield log_this(chrom, start, end)";
   "                        if n_indices[-1] + 1 < len(line_chars):";
   "                            run_start = cursor + n_indices[-1] + 1";
   "                        else:";
   "                            run_start = None";
   "                elif run_start is None:";
   "                    run_start = cursor";
   "                cursor += len(line)";
   "        if run_start is not None:";
   "            yield log_this(chrom, run_start, cursor)"]%string.
Proof. reflexivity. Qed.

Theorem C13_source_log_this :
  log_this_src =
  ["def log_this(chrom, run_start, run_end):";
   "    return (chrom, run_start, run_end)"]%string.
Proof. reflexivity. Qed.

Theorem C13_source_join_regions :
  join_regions_src =
  ["def join_regions(regions, min_gap_size):";
   "    min_gap_size = min_gap_size or 0";
   "    for chrom, rows in regions.by_chromosome():";
   "        coords = iter(zip(rows['start'], rows['end']))";
   "        prev_start, prev_end = next(coords)";
   "        for start, end in coords:";
   "            gap = start - prev_end";
   "            assert gap > 0";
   "            if gap < min_gap_size:";
   "                prev_end = end";
   "            else:";
   "                yield (chrom, prev_start, prev_end)";
   "                prev_start, prev_end = (start, end)";
   "        yield (chrom, prev_start, prev_end)"]%string.
Proof. reflexivity. Qed.

Theorem C13_source_do_access :
  do_access_src =
  ["def do_access(fa_fname, exclude_fnames=(), min_gap_size=5000, skip_noncanonical=True):";
   "    fa_regions = get_regions(fa_fname)";
   "    if skip_noncanonical:";
   "        fa_regions = drop_noncanonical_contigs(fa_regions)";
   "    access_regions = GA.from_rows(fa_regions)";
   "    for ex_fname in exclude_fnames:";
   "        excluded = tabio.read(ex_fname, 'bed3')";
   "        access_regions = access_regions.subtract(excluded)";
   "    return GA.from_rows(join_regions(access_regions, min_gap_size))"]%string.
Proof. reflexivity. Qed.

Theorem C13_source_drop_noncanonical :
  drop_noncanonical_src =
  ["def drop_noncanonical_contigs(region_tups):";
   "    return (tup for tup in region_tups if is_canonical_contig_name(tup[0]))"]%string.
Proof. reflexivity. Qed.

(* ---- loop tie: join_regions' inner loop, translated ONE ITERATION at a time from the Python source
   (Gen/FnAccess.v fn_join_step, regenerated on every run): the carried (prev_start, prev_end) after the
   iteration and the regions it yields *)
Theorem C13_source_join_step : forall chrom g ps pe s e,
  fn_join_step chrom g ps pe s e
  = if (s - pe) <? g then (ps, e, []) else (s, e, [(chrom, ps, pe)]).
Proof. exact source_join_step. Qed.

(* ... and the generator built from that step (first row taken by next(coords), the step folded over
   the rest, the carried pair yielded last) IS the model's join_regions on every chromosome on which
   the assertion `gap > 0` never fails (the model answers None exactly there) *)
Theorem C13_source_join : forall chrom g rows r,
  join_regions g rows = Some r -> source_join chrom g rows = tag chrom r.
Proof. exact source_join_regions. Qed.

(* the guard is met by every table whose consecutive rows leave a positive gap *)
Theorem C13_source_join_guard : forall g rest ps pe,
  (forall i, (i < length rest)%nat ->
     let prev_end := match i with O => pe | S j => snd (nth j rest (0, 0)) end in
     fst (nth i rest (0, 0)) - prev_end > 0) ->
  exists r, join_from g ps pe rest = Some r.
Proof. exact join_from_some. Qed.

(* ---- loop tie: the scanner's `for line in infile:` loop, translated ONE ITERATION at a time from the Python
   source (Gen/FnAccessScan.v fn_scan_step).  The Python tests on the stripped line are read as the model's
   tests on its characters (`not line` = no character, `"N" in line` = existsb, all(c == "N") = forallb,
   len(line) = length); the mixed line's array code is an opaque range whose effect is Model/Access.v's *)
Theorem C13_source_scan_step : forall {A} (isN : A -> bool) chrom cursor run_start hn stripped (line : list A),
  step_on_line isN chrom cursor run_start hn stripped line
  = let '(out, (cursor', rs')) := scan_line isN (cursor, run_start) line in
    (chrom, cursor', rs', tag3 chrom out).
Proof. exact @source_scan_line. Qed.

(* a header line emits the open run up to the cursor and resets the record state *)
Theorem C13_source_scan_header : forall chrom cursor run_start hn stripped b1 b2 b3 len my mrs,
  fn_scan_step chrom cursor run_start true hn stripped b1 b2 b3 len my mrs
  = (hn, 0, None, tag3 chrom (emit_open run_start cursor)).
Proof. exact source_scan_header. Qed.

(* the generated step folded over the sequence lines of a record IS the model's scan_lines *)
Theorem C13_source_scan_lines : forall {A} (isN : A -> bool) chrom lines cursor run_start,
  gen_scan isN chrom cursor run_start lines
  = let '(out, st) := scan_lines isN (cursor, run_start) lines in (tag3 chrom out, st).
Proof. exact @source_scan_lines. Qed.

(* ---- source tie: is_canonical_contig_name (cnvlib/antitarget.py), the WHOLE function "return not
   re_noncanonical.search(name)", translated from the Python source on every run (Gen/FnAccessCanon.v fn_is_canonical): with
   the model's pattern test it is the model's is_canonical_contig_name *)
From CNV Require Gen.FnAccessCanon Gen.FnAccessDispatch Proofs.FnAccessCanon Proofs.FnAccessDispatch Model.AccessText Model.AccessPipe.

Theorem C13_source_is_canonical : forall name : string,
  Gen.FnAccessCanon.fn_is_canonical (noncanonical name) = is_canonical_contig_name name.
Proof. exact Proofs.FnAccessCanon.source_is_canonical. Qed.

(* ---- source tie: do_access' dispatch on skip_noncanonical (the statements before the exclude loop), translated from the
   Python source on every run (Gen/FnAccessDispatch.v fn_access_dispatch: which table goes on, tables as opaque ids).  Under
   any reading of ids as tables in which drop_noncanonical_contigs keeps exactly the rows whose name passes the generated
   name rule, the table that goes on is the model's drop_noncanonical skip of the scanned table *)
Theorem C13_source_dispatch : forall (tbl : Z -> list Model.AccessText.tagged) (drop_fn : Z -> Z) (scanned : Z) (skip : bool),
  Proofs.FnAccessDispatch.drops_by_generated_rule tbl drop_fn ->
  tbl (Gen.FnAccessDispatch.fn_access_dispatch scanned skip drop_fn)
  = Model.AccessPipe.drop_noncanonical skip (tbl scanned).
Proof. exact Proofs.FnAccessDispatch.source_dispatch. Qed.

Theorem C13_source_dispatch_keep : forall (drop_fn : Z -> Z) (scanned : Z),
  Gen.FnAccessDispatch.fn_access_dispatch scanned false drop_fn = scanned.
Proof. exact Proofs.FnAccessDispatch.source_dispatch_keep. Qed.

(* ---- loop tie: ONE ITERATION of do_access' exclude loop ("for ex_fname in exclude_fnames: excluded = tabio.read(ex_fname,
   'bed3'); access_regions = access_regions.subtract(excluded)"), translated from the Python source on every run
   (Gen/FnAccessExclude.v fn_exclude_step; tables as opaque ids, .subtract a method on ids).  Under any reading of ids as the
   region lists of one sequence in which .subtract is the model's exclude_one, the step folded over the exclude files is the
   model's exclude_all *)
From CNV Require Gen.FnAccessExclude Proofs.FnAccessExclude.

Theorem C13_source_exclude_step : forall (tbl : Z -> list (Z * Z)) (sub : Z -> Z -> Z) (acc ex : Z),
  Proofs.FnAccessExclude.subtract_is_model tbl sub ->
  tbl (Gen.FnAccessExclude.fn_exclude_step acc ex sub) = Model.AccessPipe.exclude_one (tbl acc) (tbl ex).
Proof. exact Proofs.FnAccessExclude.source_exclude_step. Qed.

Theorem C13_source_exclude_loop : forall (tbl : Z -> list (Z * Z)) (sub : Z -> Z -> Z) (exs : list Z) (acc : Z),
  Proofs.FnAccessExclude.subtract_is_model tbl sub ->
  tbl (Proofs.FnAccessExclude.exclude_loop sub exs acc) = Model.AccessPipe.exclude_all (tbl acc) (map tbl exs).
Proof. exact Proofs.FnAccessExclude.source_exclude_loop. Qed.
