(* C13 -- access lists exactly the non-N runs of the genome, joined and excluded as asked.
   Property theorems only; proofs live in Proofs/Access*.v. *)
From CNV Require Import Base.Prelude Base.Str Spec.Runs Spec.Regions Model.Access
  Proofs.Access Proofs.AccessJoin Gen.AccessDefaults
  Model.IvRow Spec.Cover Model.AccessPipe Proofs.AccessPipe.

(* For every FASTA record, whatever the line width (any cut of the sequence into
   non-empty lines), the scanner returns exactly `runs` of the concatenated
   sequence, in order. *)
Theorem C13_scan : forall lines : list string,
  Forall (fun l => l <> ""%string) lines ->
  get_regions_record lines = runs isN_ascii (concat (map chars lines)).
Proof. exact get_regions_record_runs. Qed.

(* ... and `runs` is the mathematical object of the property: it covers exactly
   the positions holding a character other than 'N' ... *)
Theorem C13_runs_cover : forall (s : list ascii) (x : Z),
  cov (runs isN_ascii s) x <-> nonN_at isN_ascii s x.
Proof. exact (runs_cover isN_ascii). Qed.

(* ... by non-empty regions, starting at >= 0, sorted, separated by at least one
   base (which by C13_runs_cover is an N): each region is a maximal run. *)
Theorem C13_runs_sep : forall s : list ascii, sep_from 1 (-1) (runs isN_ascii s).
Proof. exact (runs_sep isN_ascii). Qed.

(* 'n' is not 'N' *)
Example C13_lowercase_n_is_accessible :
  get_regions_record ["NNnnAC"; "GTNN"; "NA"]%string = [(2, 8); (11, 12)].
Proof. reflexivity. Qed.

(* join_regions on one chromosome's non-empty, strictly separated regions: the
   assertion never fires ... *)
Theorem C13_join_ok : forall g rows,
  wf_regions (-1) rows -> exists r, join_regions g rows = Some r.
Proof. exact join_regions_ok. Qed.

(* ... the output covers exactly the input plus the gaps smaller than g (a gap of
   size >= g is never bridged) ... *)
Theorem C13_join_cover : forall g rows r,
  wf_regions (-1) rows -> join_regions g rows = Some r ->
  forall x, cov r x <->
    cov rows x \/ match rows with [] => False | (_, e) :: t => bridged g e t x end.
Proof. exact join_regions_cover. Qed.

(* ... and output regions are non-empty, sorted and separated by >= max 1 g bases. *)
Theorem C13_join_sep : forall g rows r,
  wf_regions (-1) rows -> join_regions g rows = Some r ->
  match r with
  | [] => rows = []
  | (a, b) :: t => a < b /\ sep_from (Z.max 1 g) b t
  end.
Proof. exact join_regions_sep. Qed.

Example C13_join_example :
  wf_regions (-1) [(0, 5); (6, 9); (20, 30)] /\
  join_regions 3 [(0, 5); (6, 9); (20, 30)] = Some [(0, 9); (20, 30)].
Proof. cbn. repeat split; lia. Qed.

(* The contig-name rule: Model.Access.noncanonical was written for exactly these
   alternatives of antitarget.re_noncanonical (regenerated from /repo on every run):
   EBV, NC*/random, Un, HLA, alt, hap<digit>, chrM, MT. *)
Theorem C13_contig_rule_source :
  re_noncanonical_alts =
  ["^chrEBV$"; "^NC|_random$"; "Un_"; "^HLA\-"; "_alt$"; "hap\d$"; "chrM"; "MT"]%string.
Proof. reflexivity. Qed.

Theorem C13_contigs : forall name : string,
  is_canonical_contig_name name = false <->
  (name = "chrEBV"%string \/ str_prefix "NC" name = true \/ str_suffix "_random" name = true \/
   str_infix "Un_" name = true \/ str_prefix "HLA-" name = true \/ str_suffix "_alt" name = true \/
   ends_hap_digit (chars name) = true \/ str_infix "chrM" name = true \/ str_infix "MT" name = true).
Proof. exact noncanonical_spec. Qed.

Example C13_contigs_examples :
  map is_canonical_contig_name
    ["chr1"; "X"; "chrM"; "MT"; "chr1_KI270706v1_random"; "chrUn_gl000211"; "HLA-A*01:01";
     "chr6_GL000250v2_alt"; "chrEBV"; "chr6_apd_hap1"]%string
  = [true; true; false; false; false; false; false; false; false; false].
Proof. reflexivity. Qed.

(* Exclusion: subtracting any number of exclude tables -- rows overlapping, nested or
   duplicated, each table sorted by start as tabio.read leaves it -- leaves exactly the
   bases of the non-N runs that lie in none of them (rests on the C06 subtract theorem). *)
Theorem C13_exclude : forall (excls : list (list (Z * Z))) (runs : list (Z * Z)) (x : Z),
  Forall (fun ex => sorted_lo (to_rows ex)) excls ->
  (cov (exclude_all runs excls) x <-> cov runs x /\ Forall (fun ex => ~ cov ex x) excls).
Proof. exact exclude_all_cov. Qed.

Example C13_exclude_nested :
  exclude_all [(0, 100); (200, 300)] [[(10, 90); (20, 30)]; [(50, 250)]] = [(0, 10); (250, 300)]
  /\ Forall (fun ex => sorted_lo (to_rows ex)) [[(10, 90); (20, 30)]; [(50, 250)]].
Proof. split; [vm_compute; reflexivity|repeat constructor; cbn; lia]. Qed.
