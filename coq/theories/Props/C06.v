(* C06 -- interval arithmetic (merge / flatten / subtract / intersect / subdivide /
   resize) is base-exact.  Property theorems only; proofs live in Proofs/Iv*.v.

   A chromosome's table is `list row`, row = (start, end, other fields), 0-based
   half-open; `covers t x` says base x lies in some row of t.  merge, flatten,
   subdivide and total_range_size decide their fast path on the WHOLE table, so
   their theorems speak about `filter sel whole`: the rows of one chromosome
   (any selection `sel`) of any table `whole`. *)
From CNV Require Import Base.Prelude Model.IvRow Model.Intervals Spec.Cover.
From CNV Require Import Proofs.IvIntersect Proofs.IvProps.
From CNV Require Gen.IvDefaults.

(* a.subtract(b) covers exactly the bases of a that are not in b, for ARBITRARY b
   sorted by start (rows of b may overlap, nest, repeat); every piece lies inside a
   row of a and carries its other fields; the pieces cut from one row are sorted
   and disjoint. *)
Theorem C06_subtract : forall (A B : Type) (a : list (@row A)) (b : list (@row B)),
  sorted_lo b ->
  (forall z, covers (subtract a b) z <-> covers a z /\ ~ covers b z) /\
  (valid a ->
   Forall (fun q => exists k, In k a /\ pay q = pay k /\ lo k <= lo q /\ lo q < hi q /\ hi q <= hi k)
          (subtract a b)) /\
  (valid b -> forall k : @row A, sorted_disjoint (subtract_row k (filter (overlaps (lo k) (hi k)) b))) /\
  subtract a b = flat_map (fun k => subtract_row k (filter (overlaps (lo k) (hi k)) b)) a.
Proof. exact c06_subtract. Qed.

Example C06_subtract_nested :
  subtract [(0, 100, "a"%string)] [(10, 90, tt); (20, 30, tt)] = [(0, 10, "a"%string); (90, 100, "a"%string)].
Proof. vm_compute. reflexivity. Qed.

(* merge() (default bp) returns rows covering exactly the union, sorted, disjoint
   and non-abutting (at least one uncovered base between consecutive rows) --
   hence the minimal such list. *)
Theorem C06_merge : forall (A : Type) (comb : A -> list A -> A) (whole : list (@row A)) (sel : @row A -> bool),
  valid whole ->
  let t := filter sel whole in
  let m := merge_sel comb Gen.IvDefaults.ga_merge_bp_default
                     (all_gaps Gen.IvDefaults.ga_merge_bp_default whole) t in
  (forall z, covers m z <-> covers t z) /\ sorted_separated m /\ valid m.
Proof. exact c06_merge. Qed.

(* intersection(mode="trim") covers exactly a AND b; every piece lies inside a
   row of a and carries its other fields (coordinates are non-negative). *)
Theorem C06_intersect_trim : forall (A B : Type) (a : list (@row A)) (b : list (@row B)),
  nonneg a -> nonneg b -> valid a -> valid b ->
  (forall z, covers (intersect_trim a b) z <-> covers a z /\ covers b z) /\
  Forall (fun p => exists k, In k a /\ pay p = pay k /\ lo k <= lo p /\ lo p < hi p /\ hi p <= hi k)
         (intersect_trim a b).
Proof. exact c06_intersect_trim. Qed.

(* in particular a AND b empty gives the empty table (the code used to raise
   ValueError here; repaired in /repo, the case is in the corpus). *)
Theorem C06_intersect_trim_disjoint : forall (A B : Type) (a : list (@row A)) (b : list (@row B)),
  nonneg a -> nonneg b -> valid a -> valid b ->
  (forall z, ~ (covers a z /\ covers b z)) -> intersect_trim a b = [].
Proof. exact c06_intersect_trim_disjoint. Qed.

(* flatten() returns non-empty pieces covering exactly the union, sorted and
   pairwise disjoint, and cut at every input boundary: no start or end of an
   input row lies strictly inside a piece. *)
Theorem C06_flatten : forall (A : Type) (comb : A -> list A -> A) (whole : list (@row A)) (sel : @row A -> bool),
  valid whole ->
  let t := filter sel whole in
  let fl := flatten_sel comb (no_overlap whole) t in
  (forall z, covers fl z <-> covers t z) /\ sorted_disjoint fl /\ valid fl /\
  (forall y p, boundary t y -> In p fl -> ~ (lo p < y < hi p)).
Proof. exact c06_flatten. Qed.

(* resize_ranges moves both ends by bp, clipped to [0, chromosome size]; rows are
   dropped exactly when bp < 0 and they shrink to nothing. *)
Theorem C06_resize : forall (A : Type) (bp : Z) (size : option Z) (t : list (@row A)),
  let mv := fun r : @row A => (clip_to size (lo r - bp), clip_to size (hi r + bp), pay r) in
  (0 <= bp -> resize bp size t = map mv t) /\
  (bp < 0 -> resize bp size t = filter (fun r => lo r <? hi r) (map mv t)).
Proof. exact c06_resize. Qed.

Theorem C06_resize_clip : forall s x : Z,
  0 <= s ->
  0 <= clip_to (Some s) x <= s /\
  (0 <= x <= s -> clip_to (Some s) x = x) /\
  (x <= 0 -> clip_to (Some s) x = 0) /\
  (s <= x -> clip_to (Some s) x = s).
Proof. exact c06_resize_clip. Qed.

(* subdivide: for every cut-point oracle meeting the arithmetic contract, the
   output is the concatenation over the merged regions m (cover = cover of the
   input, sorted, separated) of: nothing if the region is shorter than min_size,
   else n = max(1, round_half_even(length / avg)) consecutive bins that start at
   its start, end at its end, abut, carry its fields, and whose sizes are within
   1 of length / n. *)
Theorem C06_subdivide : forall (A : Type) (comb : A -> list A -> A) (avg mn : Z) (cut : Z -> Z -> Z -> Z)
                               (whole : list (@row A)) (sel : @row A -> bool),
  0 < avg -> (forall span n, cut_contract span n (cut span n)) -> valid whole ->
  let t := filter sel whole in
  exists m : list (@row A),
    (forall z, covers m z <-> covers t z) /\ sorted_separated m /\ valid m /\
    subdivide_sel comb avg mn cut (all_gaps Gen.IvDefaults.merge_bp_default whole) t
      = flat_map (split_row avg mn cut) m /\
    Forall (fun r =>
      let span := hi r - lo r in
      let n := Z.max 1 (round_div span avg) in
      is_round_half_even span avg (round_div span avg) /\
      (span < mn -> split_row avg mn cut r = []) /\
      (mn <= span ->
         let out := split_row avg mn cut r in
         Z.of_nat (length out) = n /\ tiles (lo r) (hi r) out /\
         Forall (fun b => pay b = pay r /\ span - n <= n * (hi b - lo b) <= span + n) out)) m.
Proof. exact c06_subdivide. Qed.

(* total_range_size = number of covered bases (counted in any window [a, a+n)
   that contains all rows). *)
Theorem C06_total_size : forall (A : Type) (comb : A -> list A -> A) (whole : list (@row A))
                                (sel : @row A -> bool) (a : Z) (n : nat),
  valid whole ->
  let t := filter sel whole in
  Forall (fun r => a <= lo r /\ hi r <= a + Z.of_nat n) t ->
  total_sel comb (all_gaps Gen.IvDefaults.total_size_bp whole) t = count_covered t a n.
Proof. exact c06_total_size. Qed.

(* merge(bp) for every bp >= 0: cover preserved, consecutive rows overlap by fewer
   than bp bases. *)
Theorem C06_merge_bp : forall (A : Type) (comb : A -> list A -> A) (bp : Z) (whole : list (@row A))
                              (sel : @row A -> bool),
  0 <= bp ->
  let t := filter sel whole in
  let m := merge_sel comb bp (all_gaps bp whole) t in
  (forall z, covers m z <-> covers t z) /\ overlap_below bp m /\ (valid whole -> valid m).
Proof. exact c06_merge_bp. Qed.
