(* C06 -- interval arithmetic (merge / flatten / subtract / intersect / subdivide /
   resize) is base-exact.  Property theorems only; proofs live in Proofs/Iv*.v.

   A chromosome's table is `list row`, row = (start, end, other fields), 0-based
   half-open; `covers t x` says base x lies in some row of t.  merge, flatten,
   subdivide and total_range_size decide their fast path on the WHOLE table, so
   their theorems speak about `filter sel whole`: the rows of one chromosome
   (any selection `sel`) of any table `whole`. *)
From CNV Require Import Base.Prelude Model.IvRow Model.Intervals Spec.Cover.
From CNV Require Import Proofs.IvIntersect Proofs.IvProps.
From CNV Require Gen.IvDefaults.

(* a.subtract(b) covers exactly the bases of a that are not in b, for ARBITRARY b
   sorted by start (rows of b may overlap, nest, repeat); every piece lies inside a
   row of a and carries its other fields; the pieces cut from one row are sorted
   and disjoint. *)
Theorem C06_subtract : forall (A B : Type) (a : list (@row A)) (b : list (@row B)),
  sorted_lo b ->
  (forall z, covers (subtract a b) z <-> covers a z /\ ~ covers b z) /\
  (valid a ->
   Forall (fun q => exists k, In k a /\ pay q = pay k /\ lo k <= lo q /\ lo q < hi q /\ hi q <= hi k)
          (subtract a b)) /\
  (valid b -> forall k : @row A, sorted_disjoint (subtract_row k (filter (overlaps (lo k) (hi k)) b))) /\
  subtract a b = flat_map (fun k => subtract_row k (filter (overlaps (lo k) (hi k)) b)) a.
Proof. exact c06_subtract. Qed.

Example C06_subtract_nested :
  subtract [(0, 100, "a"%string)] [(10, 90, tt); (20, 30, tt)] = [(0, 10, "a"%string); (90, 100, "a"%string)].
Proof. vm_compute. reflexivity. Qed.

(* merge() (default bp) returns rows covering exactly the union, sorted, disjoint
   and non-abutting (at least one uncovered base between consecutive rows) --
   hence the minimal such list. *)
Theorem C06_merge : forall (A : Type) (comb : A -> list A -> A) (whole : list (@row A)) (sel : @row A -> bool),
  valid whole ->
  let t := filter sel whole in
  let m := merge_sel comb Gen.IvDefaults.ga_merge_bp_default
                     (all_gaps Gen.IvDefaults.ga_merge_bp_default whole) t in
  (forall z, covers m z <-> covers t z) /\ sorted_separated m /\ valid m.
Proof. exact c06_merge. Qed.

(* intersection(mode="trim") covers exactly a AND b; every piece lies inside a
   row of a and carries its other fields (coordinates are non-negative). *)
Theorem C06_intersect_trim : forall (A B : Type) (a : list (@row A)) (b : list (@row B)),
  nonneg a -> nonneg b -> valid a -> valid b ->
  (forall z, covers (intersect_trim a b) z <-> covers a z /\ covers b z) /\
  Forall (fun p => exists k, In k a /\ pay p = pay k /\ lo k <= lo p /\ lo p < hi p /\ hi p <= hi k)
         (intersect_trim a b).
Proof. exact c06_intersect_trim. Qed.

(* in particular a AND b empty gives the empty table (the code used to raise
   ValueError here; repaired in /repo, the case is in the corpus). *)
Theorem C06_intersect_trim_disjoint : forall (A B : Type) (a : list (@row A)) (b : list (@row B)),
  nonneg a -> nonneg b -> valid a -> valid b ->
  (forall z, ~ (covers a z /\ covers b z)) -> intersect_trim a b = [].
Proof. exact c06_intersect_trim_disjoint. Qed.

(* flatten() returns non-empty pieces covering exactly the union, sorted and
   pairwise disjoint, and cut at every input boundary: no start or end of an
   input row lies strictly inside a piece. *)
Theorem C06_flatten : forall (A : Type) (comb : A -> list A -> A) (whole : list (@row A)) (sel : @row A -> bool),
  valid whole ->
  let t := filter sel whole in
  let fl := flatten_sel comb (no_overlap whole) t in
  (forall z, covers fl z <-> covers t z) /\ sorted_disjoint fl /\ valid fl /\
  (forall y p, boundary t y -> In p fl -> ~ (lo p < y < hi p)).
Proof. exact c06_flatten. Qed.

(* resize_ranges moves both ends by bp, clipped to [0, chromosome size]; rows are
   dropped exactly when bp < 0 and they shrink to nothing. *)
Theorem C06_resize : forall (A : Type) (bp : Z) (size : option Z) (t : list (@row A)),
  let mv := fun r : @row A => (clip_to size (lo r - bp), clip_to size (hi r + bp), pay r) in
  (0 <= bp -> resize bp size t = map mv t) /\
  (bp < 0 -> resize bp size t = filter (fun r => lo r <? hi r) (map mv t)).
Proof. exact c06_resize. Qed.

Theorem C06_resize_clip : forall s x : Z,
  0 <= s ->
  0 <= clip_to (Some s) x <= s /\
  (0 <= x <= s -> clip_to (Some s) x = x) /\
  (x <= 0 -> clip_to (Some s) x = 0) /\
  (s <= x -> clip_to (Some s) x = s).
Proof. exact c06_resize_clip. Qed.

(* subdivide: for every cut-point oracle meeting the arithmetic contract, the
   output is the concatenation over the merged regions m (cover = cover of the
   input, sorted, separated) of: nothing if the region is shorter than min_size,
   else n = max(1, round_half_even(length / avg)) consecutive bins that start at
   its start, end at its end, abut, carry its fields, and whose sizes are within
   1 of length / n. *)
Theorem C06_subdivide : forall (A : Type) (comb : A -> list A -> A) (avg mn : Z) (cut : Z -> Z -> Z -> Z)
                               (whole : list (@row A)) (sel : @row A -> bool),
  0 < avg -> (forall span n, cut_contract span n (cut span n)) -> valid whole ->
  let t := filter sel whole in
  exists m : list (@row A),
    (forall z, covers m z <-> covers t z) /\ sorted_separated m /\ valid m /\
    subdivide_sel comb avg mn cut (all_gaps Gen.IvDefaults.merge_bp_default whole) t
      = flat_map (split_row avg mn cut) m /\
    Forall (fun r =>
      let span := hi r - lo r in
      let n := Z.max 1 (round_div span avg) in
      is_round_half_even span avg (round_div span avg) /\
      (span < mn -> split_row avg mn cut r = []) /\
      (mn <= span ->
         let out := split_row avg mn cut r in
         Z.of_nat (length out) = n /\ tiles (lo r) (hi r) out /\
         Forall (fun b => pay b = pay r /\ span - n <= n * (hi b - lo b) <= span + n) out)) m.
Proof. exact c06_subdivide. Qed.

(* total_range_size = number of covered bases (counted in any window [a, a+n)
   that contains all rows). *)
Theorem C06_total_size : forall (A : Type) (comb : A -> list A -> A) (whole : list (@row A))
                                (sel : @row A -> bool) (a : Z) (n : nat),
  valid whole ->
  let t := filter sel whole in
  Forall (fun r => a <= lo r /\ hi r <= a + Z.of_nat n) t ->
  total_sel comb (all_gaps Gen.IvDefaults.total_size_bp whole) t = count_covered t a n.
Proof. exact c06_total_size. Qed.

(* merge(bp) for every bp >= 0: cover preserved, consecutive rows overlap by fewer
   than bp bases. *)
Theorem C06_merge_bp : forall (A : Type) (comb : A -> list A -> A) (bp : Z) (whole : list (@row A))
                              (sel : @row A -> bool),
  0 <= bp ->
  let t := filter sel whole in
  let m := merge_sel comb bp (all_gaps bp whole) t in
  (forall z, covers m z <-> covers t z) /\ overlap_below bp m /\ (valid whole -> valid m).
Proof. exact c06_merge_bp. Qed.

(* ==== GENOME LEVEL =============================================================
   A table over several chromosomes as the public methods see it: `list (g_row A)`,
   a row being (start, end, (chromosome, other fields)); `g_on c` selects chromosome c,
   `g_chroms t` lists the chromosome names in order of first appearance (pandas
   groupby(sort=False)), `g_order t` is that list sorted by name and then stably by
   sorter_chrom.  The models g_merge / g_flatten / g_subtract / g_intersect /
   g_subdivide / g_resize / g_total are what the harness runs against
   GenomicArray.merge / flatten / subtract / intersection(trim) / subdivide /
   resize_ranges / total_range_size on whole multi-chromosome tables. *)
From CNV Require Import Base.QNum Model.IvCombine Model.Chromsort.
From CNV Require Import Proofs.IvGenome Proofs.IvPayload Proofs.IvGenomePayload Proofs.IvProps2.
From CNV Require Gen.IvCombiners.

(* the literals the statements below use are the code's *)
Example C06_code_defaults :
  Gen.IvDefaults.ga_merge_bp_default = 0 /\ Gen.IvDefaults.merge_bp_default = 0 /\
  Gen.IvDefaults.flatten_group_bp = 0 /\ Gen.IvDefaults.total_size_bp = 1 /\
  Gen.IvCombiners.ga_merge_stranded_default = false /\ Gen.IvCombiners.flatten_stranded = false /\
  Gen.IvCombiners.mixed_strand = "."%string /\ Gen.IvDefaults.join_sep = ","%string.
Proof. repeat split; reflexivity. Qed.

(* MERGE, per chromosome: the rows of chromosome c in merge(table, bp) are the proved
   per-chromosome merge of that chromosome's rows (fast path decided on the whole table,
   C06_merge / C06_merge_bp speak about exactly this `merge_sel ... (filter sel whole)`) *)
Theorem C06_genome_merge : forall (A : Type) (comb : A -> list A -> A) (bp : Z) (t : list (g_row A)) (c : string),
  filter (g_on c) (g_merge comb bp t) =
  merge_sel (g_comb comb) bp (all_gaps bp t) (filter (g_on c) t).
Proof. exact c06_genome_merge. Qed.

(* ... hence, for the default bp, the property's clause chromosome by chromosome *)
Theorem C06_genome_merge_spec : forall (A : Type) (comb : A -> list A -> A) (t : list (g_row A)) (c : string),
  valid t ->
  let m := filter (g_on c) (g_merge comb 0 t) in
  (forall z, covers m z <-> covers (filter (g_on c) t) z) /\ sorted_separated m /\ valid m.
Proof. exact c06_genome_merge_spec. Qed.

(* output order as coded: nothing to merge anywhere -> the table comes back as it is;
   otherwise one contiguous block per chromosome of the input, the blocks ordered by
   chromosome name and then (stably) by sorter_chrom *)
Theorem C06_genome_merge_order : forall (A : Type) (comb : A -> list A -> A) (bp : Z) (t : list (g_row A)),
  (all_gaps bp t = true -> g_merge comb bp t = t) /\
  (all_gaps bp t = false ->
     g_chroms (g_merge comb bp t) = g_order t /\
     g_merge comb bp t = flat_map (fun c => filter (g_on c) (g_merge comb bp t)) (g_order t)) /\
  Permutation (g_chroms t) (g_order t) /\
  StronglySorted (fun a b => ckey_leb (chrom_key a) (chrom_key b) = true) (g_order t).
Proof. exact c06_genome_merge_order. Qed.

(* FLATTEN *)
Theorem C06_genome_flatten : forall (A : Type) (comb : A -> list A -> A) (t : list (g_row A)) (c : string),
  filter (g_on c) (g_flatten comb t) =
  flatten_sel (g_comb comb) (no_overlap t) (filter (g_on c) t).
Proof. exact c06_genome_flatten. Qed.

Theorem C06_genome_flatten_spec : forall (A : Type) (comb : A -> list A -> A) (t : list (g_row A)) (c : string),
  valid t ->
  let u := filter (g_on c) t in
  let fl := filter (g_on c) (g_flatten comb t) in
  (forall z, covers fl z <-> covers u z) /\ sorted_disjoint fl /\ valid fl /\
  (forall y p, boundary u y -> In p fl -> ~ (lo p < y < hi p)).
Proof. exact c06_genome_flatten_spec. Qed.

Theorem C06_genome_flatten_order : forall (A : Type) (comb : A -> list A -> A) (t : list (g_row A)),
  (no_overlap t = true -> g_flatten comb t = t) /\
  (no_overlap t = false -> valid t ->
     g_chroms (g_flatten comb t) = g_order t /\
     g_flatten comb t = flat_map (fun c => filter (g_on c) (g_flatten comb t)) (g_order t)).
Proof. exact c06_genome_flatten_order. Qed.

(* SUBTRACT: an empty `other` gives the table back; otherwise per chromosome the proved
   subtraction; a chromosome present only in the table is UNTOUCHED *)
Theorem C06_genome_subtract : forall (A B : Type) (a : list (g_row A)) (b : list (g_row B)) (c : string),
  (b = [] -> g_subtract a b = a) /\
  (b <> [] -> filter (g_on c) (g_subtract a b) = subtract (filter (g_on c) a) (filter (g_on c) b)) /\
  (~ In c (g_chroms b) -> filter (g_on c) (g_subtract a b) = filter (g_on c) a).
Proof. exact c06_genome_subtract. Qed.

Theorem C06_genome_subtract_spec : forall (A B : Type) (a : list (g_row A)) (b : list (g_row B)) (c : string),
  sorted_lo (filter (g_on c) b) ->
  forall z, covers (filter (g_on c) (g_subtract a b)) z <->
            covers (filter (g_on c) a) z /\ ~ covers (filter (g_on c) b) z.
Proof. exact c06_genome_subtract_spec. Qed.

(* the chromosomes of the table in order of first appearance, each one contiguous (no final
   sort); a chromosome whose rows are all removed disappears *)
Theorem C06_genome_subtract_order : forall (A B : Type) (a : list (g_row A)) (b : list (g_row B)),
  b <> [] ->
  g_subtract a b = flat_map (fun c => filter (g_on c) (g_subtract a b)) (g_chroms a) /\
  g_chroms (g_subtract a b) =
    filter (fun c => negb (Nat.eqb (length (filter (g_on c) (g_subtract a b))) 0)) (g_chroms a).
Proof. exact c06_genome_subtract_order. Qed.

(* TRIMMED INTERSECTION: per chromosome the proved operation; a chromosome present in only
   one of the tables is DROPPED; blocks in the order of first appearance in `other` *)
Theorem C06_genome_intersect : forall (A B : Type) (a : list (g_row A)) (b : list (g_row B)) (c : string),
  filter (g_on c) (g_intersect a b) = intersect_trim (filter (g_on c) a) (filter (g_on c) b) /\
  (~ In c (g_chroms a) \/ ~ In c (g_chroms b) -> filter (g_on c) (g_intersect a b) = []) /\
  g_intersect a b = flat_map (fun c => filter (g_on c) (g_intersect a b)) (g_chroms b).
Proof. exact c06_genome_intersect. Qed.

(* both tables on one and the same chromosome (the single-chromosome shortcut of by_shared_chroms,
   where the code hands the tables over whole): the genome-level operations are the per-chromosome ones *)
Theorem C06_genome_single_chrom : forall (A B : Type) (a : list (g_row A)) (b : list (g_row B)) (c : string),
  g_chroms a = [c] -> g_chroms b = [c] ->
  g_subtract a b = subtract a b /\ g_intersect a b = intersect_trim a b.
Proof. exact @g_single_chrom. Qed.

(* SUBDIVIDE / RESIZE / TOTAL SIZE *)
Theorem C06_genome_subdivide : forall (A : Type) (comb : A -> list A -> A) (avg mn : Z) (cut : Z -> Z -> Z -> Z)
                                      (t : list (g_row A)) (c : string),
  filter (g_on c) (g_subdivide comb avg mn cut t) =
  subdivide_sel (g_comb comb) avg mn cut (all_gaps Gen.IvDefaults.merge_bp_default t) (filter (g_on c) t).
Proof. exact c06_genome_subdivide. Qed.

(* row by row in table order, each row clipped at ITS chromosome's size *)
Theorem C06_genome_resize : forall (A : Type) (bp : Z) (sizes : option (string -> option Z)) (t : list (g_row A)) (c : string),
  filter (g_on c) (g_resize bp sizes t) = resize bp (g_size sizes c) (filter (g_on c) t) /\
  g_resize bp sizes t = flat_map (fun r => resize bp (g_size sizes (g_chrom r)) [r]) t.
Proof. exact c06_genome_resize. Qed.

Theorem C06_genome_total : forall (A : Type) (comb : A -> list A -> A) (t : list (g_row A)),
  g_total comb t =
  sumZ (map (fun c => total_sel (g_comb comb) (all_gaps Gen.IvDefaults.total_size_bp t) (filter (g_on c) t))
            (g_chroms t)).
Proof. exact c06_genome_total. Qed.

(* GenomicArray.sort (stable sort on (sorter_chrom(chromosome), start, end)): per chromosome it
   is the stable (start, end) sort the per-chromosome models use; a permutation; sorted; rows
   with equal keys keep their input order; a sorted table is left alone; idempotent; the
   chromosomes come in sorter_chrom order *)
Theorem C06_genome_sort : forall (A : Type) (t : list (g_row A)) (c : string) (z : g_row A),
  let leb := region_leb (@g_proj A) in
  filter (g_on c) (g_sort t) = sort_rows (filter (g_on c) t) /\
  Permutation t (g_sort t) /\
  StronglySorted (fun a b => leb a b = true) (g_sort t) /\
  filter (fun y => leb z y && leb y z) (g_sort t) = filter (fun y => leb z y && leb y z) t /\
  (Sorted (fun a b => leb a b = true) t -> g_sort t = t) /\
  g_sort (g_sort t) = g_sort t /\
  StronglySorted (fun a b => ckey_leb (chrom_key a) (chrom_key b) = true) (map g_chrom (g_sort t)).
Proof. exact c06_genome_sort. Qed.

Example C06_genome_example :
  let t : list (g_row pcols) :=
    [(0, 5, ("chr2", mkPcols "A" "x" "+" (1#2) 1 1)); (0, 5, ("chr10", mkPcols "B" "y" "-" (1#4) 2 2));
     (3, 8, ("chr2", mkPcols "B" "x" "-" 1 3 3)); (2, 4, ("chr1", mkPcols "C" "z" "+" 2 4 4));
     (1, 3, ("chr10", mkPcols "A" "y" "-" (1#4) 5 5))]%string in
  map (fun r => (g_chrom r, lo r, hi r, c_gene (snd (pay r)), c_strand (snd (pay r)), c_probes (snd (pay r)), c_tag (snd (pay r))))
      (g_merge (comb_cols false) 0 t) =
  [("chr1", 2, 4, "C", "+", 4, 4); ("chr2", 0, 8, "A,B", ".", 4, 1); ("chr10", 0, 5, "B,A", "-", 7, 2)]%string.
Proof. vm_compute. reflexivity. Qed.

(* ==== PAYLOAD ===================================================================
   merge (bp = 0): every output row o stands for one overlap group, and that group is
   EXACTLY the input rows lying inside o, in (start, end) order; one row -> the row as it
   is, several -> comb (first row's fields) (all rows' fields). *)
Theorem C06_merge_payload_rows : forall (A : Type) (comb : A -> list A -> A) (t : list (@row A)),
  valid t ->
  Forall (fun o =>
    let cov := filter (iv_within o) (sort_rows t) in
    exists f, hd_error cov = Some f /\ lo o = lo f /\
              (cov = [o] \/ pay o = comb (pay f) (map pay cov)))
    (merge_slow comb 0 t).
Proof. exact c06_merge_payload_rows. Qed.

(* flatten: the rows combined for a piece are EXACTLY the input rows containing it *)
Theorem C06_flatten_payload_rows : forall (A : Type) (comb : A -> list A -> A) (t : list (@row A)),
  valid t ->
  Forall (fun p =>
    let cov := filter (iv_contains p) (sort_rows t) in
    cov <> [] /\
    exists g f, In g (groups 0 (sort_rows t)) /\ hd_error g = Some f /\ In p (flatten_group comb g) /\
                ((g = [p] /\ cov = [p]) \/ pay p = comb (pay f) (map pay cov)))
    (flatten_slow comb t).
Proof. exact c06_flatten_payload_rows. Qed.

(* GenomicArray.merge() with the default combiners on a whole table: each output row's gene
   (accession) is the comma-join of the distinct names of exactly the input rows of its
   chromosome that it covers, in row order; weight / probes are their sums; strand the common
   strand or "."; the combiner-less column comes from the first of those rows (`cols_of`) *)
Theorem C06_merge_payload : forall t : list (g_row pcols), valid t ->
  Forall (fun o =>
    let cov := filter (iv_within o) (sort_rows (filter (g_on (g_chrom o)) t)) in
    cov <> [] /\ cols_of (f_cols o) (f_cols (hd o cov)) (map f_cols cov))
    (g_merge (comb_cols false) 0 t).
Proof. exact c06_merge_payload. Qed.

(* GenomicArray.flatten(): the same rule over the input rows CONTAINING the piece; the
   combiner-less column comes from the first row of the piece's overlap group (from the piece
   itself when the table is returned unchanged) *)
Theorem C06_flatten_payload : forall t : list (g_row pcols), valid t ->
  Forall (fun p =>
    let u := filter (g_on (g_chrom p)) t in
    let cov := filter (iv_contains p) (sort_rows u) in
    cov <> [] /\
    exists first, cols_of (f_cols p) first (map f_cols cov) /\
      (no_overlap t = true -> first = f_cols p) /\
      (no_overlap t = false ->
         exists g f, In g (groups 0 (sort_rows u)) /\ hd_error g = Some f /\
                     In p (flatten_group (g_comb (comb_cols false)) g) /\ first = f_cols f))
    (g_flatten (comb_cols false) t).
Proof. exact c06_flatten_payload. Qed.

(* the combiners of skgenome/combiners.py: get_combiners' defaults by column name (the table
   is regenerated from the source), join_strings = the distinct values in order of first
   appearance joined by ",", first_of / last_of / max / sum / merge_strands / make_const *)
Theorem C06_combiners :
  (forall s, default_combiner s "chromosome" = Some CFirst /\ default_combiner s "start" = Some CFirst /\
             default_combiner s "end" = Some CMax /\ default_combiner s "gene" = Some CJoin /\
             default_combiner s "accession" = Some CJoin /\ default_combiner s "weight" = Some CSum /\
             default_combiner s "probes" = Some CSum /\ default_combiner s "tag" = None) /\
  default_combiner false "strand" = Some CStrands /\ default_combiner true "strand" = Some CFirst /\
  (forall l, join_strings l = String.concat "," (uniq l) /\ iv_distinct_in_order (uniq l) l) /\
  (forall d x t, comb_str (Some CFirst) d (x :: t) = x /\ comb_str (Some CLast) d (x :: t) = last (x :: t) d /\
                 comb_str (Some CStrands) d (x :: t) = (if forallb (String.eqb x) t then x else "."%string) /\
                 comb_str None d (x :: t) = d) /\
  (forall d x t, comb_Z (Some CFirst) d (x :: t) = x /\ comb_Z (Some CSum) d (x :: t) = sumZ (x :: t) /\
                 (forall y, In y (x :: t) -> y <= comb_Z (Some CMax) d (x :: t)) /\
                 In (comb_Z (Some CMax) d (x :: t)) (x :: t) /\ comb_Z None d (x :: t) = d) /\
  (forall d l, comb_Q (Some CSum) d l == fold_right Qplus 0%Q l) /\
  (forall (V : Type) (v : V) l, make_const v l = v).
Proof. exact c06_combiners. Qed.

(* ==== SOURCE TIES (function-body translator, tools/fnspecs/intervals.py) =============
   The scalar rules inside subdivide._split_targets and GenomicArray.resize_ranges, taken
   from the source text on every run (Gen/FnIntervals.v, Gen/FnIntervalsResize.v), EQUAL
   the model functions the theorems above are about. *)
From CNV Require Import Proofs.FnIntervals.
From CNV Require Gen.FnIntervals Gen.FnIntervalsResize.

(* `span >= min_size`, `nbins = int(round(span / avg_size)) or 1`, `nbins == 1`, for every
   positive rational avg_size *)
Theorem C06_source_split_rule : forall (s e : Z) (avg : Q) (mn : Z), 0 < Qnum avg ->
  let span := e - s in
  let n := nbins (Qnum avg) (span * Zpos (Qden avg)) in
  Gen.FnIntervals.fn_split_rule s e avg mn = (negb (span <? mn), n, n =? 1).
Proof. exact fn_split_rule_eq. Qed.

(* the row-level model of subdivide is the generated rule around the cut-point loop *)
Theorem C06_source_split_row : forall (A : Type) (avg mn : Z) (cut : Z -> Z -> Z -> Z) (r : @row A), 0 < avg ->
  let '(ok, n, single) := Gen.FnIntervals.fn_split_rule (lo r) (hi r) (inject_Z avg) mn in
  split_row avg mn cut r =
  if ok then (if single then [r]
              else bins_from (cut (hi r - lo r) n) (lo r) (lo r) 1 (Z.to_nat (n - 1)) (hi r) (pay r))
  else [].
Proof. exact @split_row_source. Qed.

(* `(start - bp).clip(lower=0[, upper=size])`, `(end + bp).clip(...)`, `end - start > 0` *)
Theorem C06_source_resize : forall (A : Type) (bp : Z) (size : option Z) (r : @row A),
  let '(s', e') := match size with
                   | Some u => Gen.FnIntervalsResize.fn_resize_sized (lo r) (hi r) bp u
                   | None => Gen.FnIntervalsResize.fn_resize_open (lo r) (hi r) bp
                   end in
  resize bp size [r] =
  if (bp <? 0) && negb (Gen.FnIntervalsResize.fn_resize_ok s' e') then [] else [(s', e', pay r)].
Proof. exact @resize_source. Qed.

Theorem C06_source_resize_clip : forall s e bp size : Z,
  Gen.FnIntervalsResize.fn_resize_open s e bp = (clip_to None (s - bp), clip_to None (e + bp)) /\
  Gen.FnIntervalsResize.fn_resize_sized s e bp size = (clip_to (Some size) (s - bp), clip_to (Some size) (e + bp)) /\
  Gen.FnIntervalsResize.fn_resize_ok s e = (0 <? e - s).
Proof. exact fn_resize_clip_to. Qed.

(* ==== LOOP TIES (function-body translator, tools/fnspecs/iv_loops.py) ================
   Loop bodies and per-row decisions of skgenome/subdivide.py, subtract.py and merge.py,
   translated ONE ITERATION at a time from the source text on every run (Gen/FnIvSplitLoop.v,
   FnIvSubtract.v, FnIvGroups.v, FnIvFast.v, FnIvInPlay.v); the model's recursions ARE the
   generated steps iterated. *)
From CNV Require Import Proofs.FnIvSplitLoop Proofs.FnIvSubtract Proofs.FnIvGroups Proofs.FnIvFast
  Proofs.FnIvInPlay.
From CNV Require Gen.FnIvSplitLoop Gen.FnIvSubtract Gen.FnIvGroups Gen.FnIvFast Gen.FnIvInPlay.

(* subdivide._split_targets, the bins of one region: the assignments before the loop, one
   iteration of `for i in range(1, nbins)` (carried bin_start, the yielded (start, end)) and
   the closing yield, as generated *)
Theorem C06_source_split_step : forall (s e : Z) (bsz : Q) (i bs span n : Z),
  Gen.FnIvSplitLoop.fn_split_init span n s = (Qdiv (inject_Z span) (inject_Z n), s) /\
  Gen.FnIvSplitLoop.fn_split_step s e bsz i bs = (s + cut_exact bsz i, [(bs, s + cut_exact bsz i)]) /\
  Gen.FnIvSplitLoop.fn_split_last s e bs = [(bs, e)].
Proof. exact source_split_parts. Qed.

(* running the generated loop (the step for k consecutive values of i, then the closing yield;
   every other field of the yielded rows is the region's) IS bins_from with the cut-point
   oracle read exactly: cut i = int(i * bin_size) *)
Theorem C06_source_split_loop : forall (A : Type) (s e : Z) (bsz : Q) (p : A) (k : nat) (bin_start i : Z),
  with_pay p (src_bins s e bsz bin_start i k) = bins_from (cut_exact bsz) s bin_start i k e p.
Proof. exact @source_split_loop. Qed.

(* the whole region -- the generated rule, then the generated loop over range(1, nbins) -- IS
   split_row with cut span n i = int(i * (span / n)) *)
Theorem C06_source_split_bins : forall (A : Type) (avg mn : Z) (r : @row A), 0 < avg ->
  src_split_row avg mn r = split_row avg mn cut_of_source r.
Proof. exact @source_split_row. Qed.

(* and those exact cut points meet the arithmetic contract under which C06_subdivide holds *)
Theorem C06_source_cut_contract : forall span n : Z, 0 <= span -> 0 < n ->
  cut_contract span n (cut_of_source span n).
Proof. exact source_cut_contract. Qed.

(* subtract._subtraction, one iteration of `for keeper, rows_to_exclude in by_ranges(...)`: the
   generated iteration (four edge cases, `continue`, the inner zip loop dropping empty pieces,
   `yield keeper`), given the excluded rows the way the code reads them, IS subtract_row *)
Theorem C06_source_subtract_row : forall (A B : Type) (k : @row A) (ex : list (@row B)),
  with_keeper (pay k)
    (Gen.FnIvSubtract.fn_subtract_step (lo k) (hi k) (Z.of_nat (length ex)) (map lo ex) (cummax (map hi ex)))
  = subtract_row k ex.
Proof. exact @source_subtract_row. Qed.

Theorem C06_source_subtract : forall (A B : Type) (a : list (@row A)) (b : list (@row B)),
  subtract a b =
  flat_map (fun k =>
              let ex := filter (overlaps (lo k) (hi k)) b in
              with_keeper (pay k)
                (Gen.FnIvSubtract.fn_subtract_step (lo k) (hi k) (Z.of_nat (length ex)) (map lo ex)
                                                   (cummax (map hi ex))))
           a.
Proof. exact @source_subtract. Qed.

(* merge._nonoverlapping_groups: groups IS itertools.groupby over the cumulative sum of the
   generated break test `gap_sizes > -bp` along the table *)
Theorem C06_source_groups : forall (A : Type) (bp : Z) (rows : list (@row A)),
  groups bp rows = groupby (combine (src_group_keys bp rows) rows).
Proof. exact @source_groups. Qed.

(* the fast paths of merge() / flatten(): the generated tests at every row after the first *)
Theorem C06_source_all_gaps : forall (A : Type) (bp : Z) (t : list (@row A)),
  all_gaps bp t =
  match t with [] => true | r :: t' => src_all (fun s c => Gen.FnIvFast.fn_merge_fast s c bp) (hi r) t' end.
Proof. exact @source_all_gaps. Qed.

Theorem C06_source_no_overlap : forall (A : Type) (d : Z) (t : list (@row A)),
  no_overlap t =
  match t with [] => true | r :: t' => src_all (fun s c => Gen.FnIvFast.fn_flatten_fast s c d) (hi r) t' end.
Proof. exact @source_no_overlap. Qed.

(* _flatten_tuples / _flatten_tuples_split: rows_in_play is the filter by the generated test *)
Theorem C06_source_in_play : forall (A : Type) (d : Z) (g : list (@row A)) (s e : Z),
  in_play g s e = filter (fun r => Gen.FnIvInPlay.fn_in_play d (lo r) (hi r) s e) g /\
  in_play g s e = filter (fun r => Gen.FnIvInPlay.fn_in_play_split d (lo r) (hi r) s e) g.
Proof. exact @source_in_play. Qed.

(* intersection(mode="trim"): one iteration of intersect.iter_ranges read for one selected row
   (Gen/FnRangesIter.v, the module of C07's loop tie): trim_row IS the generated iteration in mode
   "trim" with the query's bounds; intersect_chunks is that over the rows overlapping each query *)
From CNV Require Import Proofs.FnIvTrim.
From CNV Require Gen.FnRangesIter.

Theorem C06_source_trim_row : forall (A : Type) (qs qe d1 d2 : Z) (r : @row A),
  trim_row qs qe r = src_trim_row qs qe d1 d2 r.
Proof. exact @source_trim_row. Qed.

Theorem C06_source_intersect_chunks : forall (A B : Type) (d1 d2 : Z) (a : list (@row A)) (b : list (@row B)),
  intersect_chunks a b =
  filter (fun c => negb (Nat.eqb (length c) 0))
         (map (fun q => map (src_trim_row (lo q) (hi q) d1 d2) (filter (overlaps (lo q) (hi q)) a)) b).
Proof. exact @source_intersect_chunks. Qed.

(* merge._squash_tuples, whole body (Gen/FnIvSquash.v): squash -- what merge makes of each group of
   overlapping rows -- IS the generated function on the group's size, its first row and the combined
   row (first start, largest end, combined payload), through any encoding of rows as opaque values *)
From CNV Require Import Proofs.FnIvSquash Proofs.FnIvFlatten.
From CNV Require Gen.FnIvSquash Gen.FnIvFlatten.

Theorem C06_source_squash : forall (A : Type) (comb : A -> list A -> A) (enc : @row A -> Z) (d1 d2 : Z)
    (r : @row A) (g : list (@row A)),
  map enc (squash comb (r :: g)) =
  [Gen.FnIvSquash.fn_squash_tuples d1 (Z.of_nat (length (r :: g))) (enc r) d2 (enc (combined_row comb r g))].
Proof. exact @source_squash. Qed.

Theorem C06_source_merge_slow : forall (A : Type) (comb : A -> list A -> A) (enc : @row A -> Z) (d1 d2 bp : Z)
    (t : list (@row A)),
  map enc (merge_slow comb bp t) =
  flat_map (fun grp => match grp with
                       | [] => []
                       | r :: g => [Gen.FnIvSquash.fn_squash_tuples d1 (Z.of_nat (length grp)) (enc r) d2
                                      (enc (combined_row comb r g))]
                       end)
           (groups bp (sort_rows t)).
Proof. exact @source_merge_slow. Qed.

(* merge._flatten_tuples / _flatten_tuples_split, the generator's body (Gen/FnIvFlatten.v): the
   coordinates of flatten_group -- a single row as it is, otherwise one piece per pair of consecutive
   breakpoints, zip(breaks[:-1], breaks[1:]) -- ARE what the generated body yields on the model's
   breakpoints *)
Theorem C06_source_flatten_group : forall (A : Type) (comb : A -> list A -> A) (d1 d2 d3 d4 d5 : Z)
    (f : @row A) (rest : list (@row A)),
  let g := f :: rest in
  coords (flatten_group comb g) =
    Gen.FnIvFlatten.fn_flatten_tuples d1 (Z.of_nat (length g)) d2 (lo f) (hi f) d3 (breaks g) d4 d5 /\
  coords (flatten_group comb g) =
    Gen.FnIvFlatten.fn_flatten_tuples_split d1 (Z.of_nat (length g)) d2 (lo f) (hi f) d3 (breaks g) d4 d5.
Proof. exact @source_flatten_group. Qed.
