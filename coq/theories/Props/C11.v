(* C11 -- a clear copy-number step is found and localised; flat profiles stay unsegmented.
   PARTIAL (level `other`): theorems about the exact-arithmetic model of the HaarSeg core
   (Model/Haar.v).  The noisy statistical claim and everything about hmm-germline are not
   theorems; they are monitored by the harness (see harness/c11.py, unproved_remainder).
   Property theorems only; proofs live in Proofs/Haar*.v.
   Oracles are universally quantified: scale_u h = math.sqrt(2.0*h), scale_w h = math.sqrt(h/2),
   pvals level = the p-values of that level's sorted |peak values|, absorb level = the float
   absorption flag of the "no passing p-value" threshold. *)
From Coq Require Import QArith.Qabs.
From CNV Require Import Base.Prelude Model.Haar Spec.Haar Proofs.HaarConv Proofs.HaarFlat
  Proofs.HaarUnify Proofs.HaarPeaks Proofs.HaarStepLib Proofs.HaarMeans Proofs.HaarStep Proofs.HaarTwoSteps Proofs.HaarTable Proofs.HaarStepW.

Local Open Scope Q_scope.

(* The running-sum recurrence of HaarConv equals the closed form: (sum of the h values from k
   on) minus (sum of the h values before k) on the mirror-padded signal, over the scale. *)
Theorem C11_conv_window : forall (sg : list Q) (h : Z) (scale : Q) (k : Z),
  (1 <= h <= Z.of_nat (length sg))%Z -> (0 <= k < Z.of_nat (length sg))%Z ->
  qnth (haar_conv sg None h scale) k == haar_window sg h k / scale.
Proof. exact haar_conv_u_closed. Qed.

(* Weighted: scale times the difference of the weighted means of the two mirrored windows
   (position 0 is 0 by definition in the code). *)
Theorem C11_conv_window_weighted : forall (sg w : list Q) (h : Z) (scale : Q) (k : Z),
  length w = length sg ->
  (1 <= h <= Z.of_nat (length sg))%Z -> (1 <= k < Z.of_nat (length sg))%Z ->
  qnth (haar_conv sg (Some w) h scale) k == scale * haar_window_w sg w h k.
Proof. exact haar_conv_w_closed. Qed.

Theorem C11_conv_length : forall sg wt h scale, length (haar_conv sg wt h scale) = length sg.
Proof. exact haar_conv_length. Qed.

Example C11_conv_window_example :
  haar_conv [0; 0; 0; 1; 1; 1; 1]%Q None 2 2 = [0; 0; 1 # 2; 1; 1 # 2; 0; 0]%Q /\
  haar_window [0; 0; 0; 1; 1; 1; 1]%Q 2 3 = 2%Q.
Proof. split; reflexivity. Qed.

(* A constant signal of any length with any positive weights (or none), at any scale oracles,
   p-value oracles, q: zero convolution at every half-width, no peaks at any level, no
   breakpoints, and one segment 0..n-1 of size n whose mean is the constant. *)
Theorem C11_flat : forall (scale_u scale_w : Z -> Q) (pvals : Z -> list Q) (absorb : Z -> bool)
    (c : Q) (sg : list Q) (wt : option (list Q)) (q : Q),
  all_eq c sg -> weights_ok sg wt -> sg <> [] ->
  let n := Zlength_nat sg in
  let r := haar_seg scale_u scale_w pvals absorb sg wt q in
  (forall h, (1 <= h)%Z -> Forall (fun x => x == 0) (conv_level scale_u scale_w sg wt h)) /\
  (forall level, (0 <= level)%Z -> level_peaks scale_u scale_w sg wt level = []) /\
  hr_breaks r = [] /\ hr_start r = [0%Z] /\ hr_end r = [(n - 1)%Z] /\ hr_size r = [n] /\
  exists m, hr_mean r = [m] /\ m == c.
Proof. exact flat_haar_seg. Qed.

Example C11_flat_example :
  let sg := [1 # 2; 1 # 2; 1 # 2; 1 # 2; 1 # 2]%Q in
  let wt := Some [1; 1 # 2; 1; 3 # 4; 1]%Q in
  all_eq (1 # 2) sg /\ weights_ok sg wt /\
  hr_mean (haar_seg (fun _ => 1) (fun _ => 1) (fun _ => []) (fun _ => false) sg wt (1 # 10000)) = [1 # 2]%Q.
Proof.
  cbn. repeat split; repeat constructor; try reflexivity.
Qed.

Local Open Scope Z_scope.

(* UnifyLevels on strictly increasing lists (window >= 0): the result is strictly increasing
   (sorted and duplicate-free), contains every base breakpoint, and everything else in it is an
   add-on farther than the window from every base breakpoint ... *)
Theorem C11_unify_sorted : forall (base addon : list Z) (w : Z),
  0 <= w -> ssorted base -> ssorted addon ->
  let out := unify_levels base addon w in
  ssorted out /\
  (forall b, In b base -> In b out) /\
  (forall x, In x out -> In x base \/ (In x addon /\ forall b, In b base -> w < Z.abs (x - b))).
Proof. exact unify_levels_sorted. Qed.

(* ... and no such add-on is lost (add-ons are array indices, hence >= 0; the code's
   `last_pos = -1` sentinel would drop negative ones when there is no base). *)
Theorem C11_unify_complete : forall (base addon : list Z) (w : Z),
  0 <= w -> ssorted base -> ssorted addon -> (forall a, In a addon -> 0 <= a) ->
  forall a, In a addon -> (forall b, In b base -> w < Z.abs (a - b)) -> In a (unify_levels base addon w).
Proof. exact unify_levels_complete. Qed.

Example C11_unify_example :
  unify_levels [10; 40] [3; 8; 12; 13; 25; 42; 43; 60] 2 = [3; 10; 13; 25; 40; 43; 60].
Proof. reflexivity. Qed.

(* FindLocalPeaks returns strictly increasing interior indices, whatever the values. *)
Theorem C11_peaks_sorted : forall l : list Q,
  ssorted (find_local_peaks l) /\
  (forall x, In x (find_local_peaks l) -> 1 <= x <= Z.of_nat (length l) - 2).
Proof. exact peaks_sorted. Qed.

(* For every non-empty signal, any weights, any oracle values: the breakpoints of haar_seg are
   strictly increasing within 1..n-2, and the start / end (inclusive) / size columns tile
   0..n-1 contiguously with positive sizes that sum to n (this feeds C03); one mean per row. *)
Theorem C11_sizes : forall (scale_u scale_w : Z -> Q) (pvals : Z -> list Q) (absorb : Z -> bool)
    (sg : list Q) (wt : option (list Q)) (q : Q),
  sg <> [] ->
  let n := Zlength_nat sg in
  let r := haar_seg scale_u scale_w pvals absorb sg wt q in
  ssorted (hr_breaks r) /\ (forall b, In b (hr_breaks r) -> 1 <= b <= n - 2) /\
  tiles_from 0 n (hr_start r) (hr_end r) (hr_size r) /\
  sumZ (hr_size r) = n /\
  length (hr_mean r) = length (hr_start r).
Proof. exact haar_seg_tiles. Qed.

Example C11_tiles_example : tiles_from 0 10 [0; 3; 7] [2; 6; 9] [3; 4; 3].
Proof. cbn. repeat split; lia. Qed.

Local Open Scope Q_scope.

(* A noiseless step: value a on bins 0..t-1, b <> a on bins t..n-1, at least 32 bins on each side
   (2^level for every level 1..5), no weights or the same positive weight on every bin; for every
   n, t, a, b, q, every p-value / absorption oracle and every non-zero scale constants.  At each
   level the convolution is the tent  amp * max(0, 2^level - |k - t|)  -- a linear ramp up to t and
   down after it -- so its absolute value has its single strict maximum at t; FindLocalPeaks returns
   exactly [t]; with one peak the FDR threshold is 0 (`if M < 2: return 0`) and the peak is kept;
   UnifyLevels of [t] with [t] stays [t]; the result is the one breakpoint t and two segments
   0..t-1 and t..n-1 of sizes t and n-t whose means are exactly a and b. *)
Theorem C11_clean_step : forall (scale_u scale_w : Z -> Q) (pvals : Z -> list Q) (absorb : Z -> bool),
  (forall h, ~ scale_u h == 0) -> (forall h, ~ scale_w h == 0) ->
  forall (a b : Q) (t n : nat) (wt : option (list Q)) (q : Q),
  ~ a == b -> uniform_weights n wt -> (32 <= t)%nat -> (t + 32 <= n)%nat ->
  let sg := step_signal a b t n in
  let r := haar_seg scale_u scale_w pvals absorb sg wt q in
  let T := Z.of_nat t in
  let N := Z.of_nat n in
  (forall level, (1 <= level <= 5)%Z ->
     let h := (2 ^ level)%Z in
     let conv := conv_level scale_u scale_w sg wt h in
     (forall k, (0 <= k < N)%Z ->
        qnth conv k == step_amp (match wt with None => scale_u h | Some _ => scale_w h end) wt h (b - a)
                       * tentQ h T k) /\
     (forall k, (0 <= k < N)%Z -> k <> T -> Qabs (qnth conv k) < Qabs (qnth conv T)) /\
     level_peaks scale_u scale_w sg wt level = [T] /\
     level_addon scale_u scale_w pvals absorb sg wt q level = [T]) /\
  hr_breaks r = [T] /\ hr_start r = [0; T]%Z /\ hr_end r = [T - 1; N - 1]%Z /\
  hr_size r = [T; N - T]%Z /\
  exists m1 m2, hr_mean r = [m1; m2] /\ m1 == a /\ m2 == b.
Proof. exact step_haar_seg. Qed.

(* The same for ARBITRARY positive bin weights (the property's quantifier has weights in [0.5, 1]):
   the weighted convolution of the step is  scale_w h * (b - a) * weighted_tent w t h k  where
   weighted_tent is (share of the upper window's weight lying at or after t) - (the same share of the
   lower window): 0 up to t-h, strictly increasing up to t where it is 1, strictly decreasing to t+h,
   0 after.  Hence again exactly the peak [t] at every level, threshold 0, breakpoint t, means a and b. *)
Theorem C11_clean_step_weighted : forall (scale_u scale_w : Z -> Q) (pvals : Z -> list Q) (absorb : Z -> bool),
  (forall h, ~ scale_w h == 0) ->
  forall (a b : Q) (t n : nat) (w : list Q) (q : Q),
  ~ a == b -> length w = n -> Forall (fun x => 0 < x) w -> (32 <= t)%nat -> (t + 32 <= n)%nat ->
  let sg := step_signal a b t n in
  let r := haar_seg scale_u scale_w pvals absorb sg (Some w) q in
  let T := Z.of_nat t in
  let N := Z.of_nat n in
  (forall level, (1 <= level <= 5)%Z ->
     let h := (2 ^ level)%Z in
     let conv := conv_level scale_u scale_w sg (Some w) h in
     (forall k, (0 <= k < N)%Z -> qnth conv k == scale_w h * (b - a) * weighted_tent w T h k) /\
     (forall k, (0 <= k)%Z -> (k + h <= T)%Z -> weighted_tent w T h k == 0) /\
     (forall k, (T + h <= k < N)%Z -> weighted_tent w T h k == 0) /\
     (forall k, (0 <= k)%Z -> (T - h <= k < T)%Z -> weighted_tent w T h k < weighted_tent w T h (k + 1)%Z) /\
     (forall k, (T <= k < T + h)%Z -> weighted_tent w T h (k + 1)%Z < weighted_tent w T h k) /\
     weighted_tent w T h T == 1 /\
     level_peaks scale_u scale_w sg (Some w) level = [T] /\
     level_addon scale_u scale_w pvals absorb sg (Some w) q level = [T]) /\
  hr_breaks r = [T] /\ hr_start r = [0; T]%Z /\ hr_end r = [T - 1; N - 1]%Z /\
  hr_size r = [T; N - T]%Z /\
  exists m1 m2, hr_mean r = [m1; m2] /\ m1 == a /\ m2 == b.
Proof. exact step_haar_seg_w. Qed.

Example C11_clean_step_weighted_example :
  let w := repeat (1 # 2) 30 ++ repeat 1 20 ++ repeat (3 # 4) 30 in
  let sg := step_signal 0 1 40 80 in
  hr_breaks (haar_seg (fun _ => 1) (fun _ => 1) (fun _ => []) (fun _ => false) sg (Some w) (1 # 10000)) = [40%Z] /\
  weighted_tent w 40 4 38 == 1 # 2 /\ weighted_tent w 40 4 40 == 1 /\ weighted_tent w 40 4 36 == 0.
Proof. vm_compute. repeat split; reflexivity. Qed.

(* the shape on its own, at any half-width h with at least h bins on each side, any scale *)
Theorem C11_step_conv_shape : forall (a b : Q) (t n : nat) (wt : option (list Q)) (h : Z) (scale : Q) (k : Z),
  uniform_weights n wt ->
  (1 <= h <= Z.of_nat t)%Z -> (Z.of_nat t + h <= Z.of_nat n)%Z -> (0 <= k < Z.of_nat n)%Z ->
  qnth (haar_conv (step_signal a b t n) wt h scale) k
  == step_amp scale wt h (b - a) * tentQ h (Z.of_nat t) k.
Proof. exact step_conv. Qed.

Example C11_clean_step_example :
  let sg := step_signal 0 (-1) 40 80 in
  let r := haar_seg (fun _ => 2) (fun _ => 2) (fun _ => []) (fun _ => false) sg None (1 # 10000) in
  hr_breaks r = [40%Z] /\ hr_size r = [40%Z; 40%Z] /\ hr_mean r = [0; -1] /\
  qnth (haar_conv sg None 4 1) 38 = -2 /\ qnth (haar_conv sg None 4 1) 40 = -4 /\ tent 4 40 38 = 2%Z.
Proof. vm_compute. repeat split; reflexivity. Qed.

(* SegmentByPeaks, for ANY breakpoint list (strictly increasing, inside 0..n) and any weights of the
   data's length: the segments (0,p1), (p1,p2), ..., (pk,n) are non-empty, cover every bin, and every
   bin of a segment carries that segment's own mean -- the weighted mean of exactly the bins s..e-1
   when the segment's total weight is positive, their plain mean when it is not or no weights are given. *)
Theorem C11_segment_means : forall (data : list Q) (peaks : list Z) (wt : option (list Q)),
  data <> [] -> breaks_in (Zlength_nat data) peaks -> wt_len_ok data wt ->
  let n := Zlength_nat data in
  length (segment_by_peaks data peaks wt) = length data /\
  (forall i, (0 <= i < n)%Z -> exists s e, In (s, e) (segments_of 0 peaks n) /\ (s <= i < e)%Z) /\
  (forall s e, In (s, e) (segments_of 0 peaks n) ->
     (0 <= s < e)%Z /\ (e <= n)%Z /\
     exists m, is_segment_mean data wt s e m /\
               forall i, (s <= i < e)%Z -> qnth (segment_by_peaks data peaks wt) i = m).
Proof. exact segment_by_peaks_means. Qed.

(* The rows of the haarSeg result table, for every signal, weights and oracle values: row j is
   (start = s_j, end = e_j - 1, size = e_j - s_j, mean = the (weighted) mean of exactly the bins
   s_j..e_j-1) where (s_j, e_j) are the segments cut by the reported breakpoints; together with
   C11_sizes the rows tile 0..n-1. *)
Theorem C11_step_means : forall (scale_u scale_w : Z -> Q) (pvals : Z -> list Q) (absorb : Z -> bool)
    (sg : list Q) (wt : option (list Q)) (q : Q),
  sg <> [] -> wt_len_ok sg wt ->
  let r := haar_seg scale_u scale_w pvals absorb sg wt q in
  breaks_in (Zlength_nat sg) (hr_breaks r) /\
  rows_ok sg wt (segments_of 0 (hr_breaks r) (Zlength_nat sg)) (hr_start r) (hr_end r) (hr_size r) (hr_mean r).
Proof. exact haar_seg_rows. Qed.

(* Two well separated noiseless steps: a on 0..t1-1, b <> a on t1..t2-1, c <> b on t2..n-1, at least
   32 bins before the first, 64 between them and 32 after the second; no or uniform weights.  At every
   level the convolution is the sum of two disjoint tents and FindLocalPeaks returns exactly [t1; t2].
   With two peaks the FDR threshold is no longer trivially 0: it depends on the p-value oracle, and with a
   noiseless signal (sigma estimate 0) the code's fallback `x_sorted[0] + 1e-16` can reject the smaller or
   both peaks.  Proved for every oracle: the reported breakpoints are strictly increasing, are never
   anything but t1 and t2, and t_i is reported exactly when its peak passes the threshold of at least one
   level; when both do, the table is three segments 0..t1-1, t1..t2-1, t2..n-1 with means exactly a, b, c. *)
Theorem C11_two_steps : forall (scale_u scale_w : Z -> Q) (pvals : Z -> list Q) (absorb : Z -> bool),
  (forall h, ~ scale_u h == 0) -> (forall h, ~ scale_w h == 0) ->
  forall (a b c : Q) (t1 t2 n : nat) (wt : option (list Q)) (q : Q),
  ~ a == b -> ~ b == c -> uniform_weights n wt ->
  (32 <= t1)%nat -> (t1 + 64 <= t2)%nat -> (t2 + 32 <= n)%nat ->
  let sg := two_step_signal a b c t1 t2 n in
  let T1 := Z.of_nat t1 in
  let T2 := Z.of_nat t2 in
  let N := Z.of_nat n in
  let conv level := conv_level scale_u scale_w sg wt (2 ^ level) in
  let thr level := fdr_thres [qnth (conv level) T1; qnth (conv level) T2] q (pvals level) (absorb level) in
  let kept level x := Qle_bool (thr level) (Qabs (qnth (conv level) x)) in
  let r := haar_seg scale_u scale_w pvals absorb sg wt q in
  (forall level, (1 <= level <= 5)%Z ->
     let h := (2 ^ level)%Z in
     (forall k, (0 <= k < N)%Z ->
        qnth (conv level) k ==
        step_amp (match wt with None => scale_u h | Some _ => scale_w h end) wt h (b - a) * tentQ h T1 k
        + step_amp (match wt with None => scale_u h | Some _ => scale_w h end) wt h (c - b) * tentQ h T2 k) /\
     level_peaks scale_u scale_w sg wt level = [T1; T2] /\
     level_addon scale_u scale_w pvals absorb sg wt q level = filter (kept level) [T1; T2]) /\
  ssorted (hr_breaks r) /\
  (forall x, In x (hr_breaks r) <->
             (x = T1 \/ x = T2) /\ exists l, (1 <= l <= 5)%Z /\ kept l x = true) /\
  ((exists l, (1 <= l <= 5)%Z /\ kept l T1 = true) ->
   (exists l, (1 <= l <= 5)%Z /\ kept l T2 = true) ->
   hr_breaks r = [T1; T2] /\ hr_start r = [0; T1; T2]%Z /\ hr_end r = [T1 - 1; T2 - 1; N - 1]%Z /\
   hr_size r = [T1; T2 - T1; N - T2]%Z /\
   exists m1 m2 m3, hr_mean r = [m1; m2; m3] /\ m1 == a /\ m2 == b /\ m3 == c).
Proof. exact two_step_haar_seg. Qed.

(* both outcomes are real: with the absorption flag (|peak| >= 1 in the code) both equal steps are
   found; a pair of unequal steps without a passing p-value loses the smaller one *)
Example C11_two_steps_example :
  let sg := two_step_signal 0 1 0 40 110 150 in
  let sg2 := two_step_signal 0 1 (1 # 2) 40 110 150 in
  hr_breaks (haar_seg (fun _ => 2) (fun _ => 2) (fun _ => [1; 1]) (fun _ => true) sg None (1 # 10000))
    = [40%Z; 110%Z] /\
  hr_breaks (haar_seg (fun _ => 2) (fun _ => 2) (fun _ => [1; 1]) (fun _ => true) sg2 None (1 # 10000))
    = [40%Z] /\
  hr_breaks (haar_seg (fun _ => 2) (fun _ => 2) (fun _ => [1; 1]) (fun _ => false) sg2 None (1 # 10000))
    = [].
Proof. vm_compute. repeat split; reflexivity. Qed.

(* The table one_chrom builds from the bin coordinates (any signal, weights, oracle values, any
   coordinate columns): one row per segment of the reported breakpoints -- start = start coordinate of
   the segment's first bin, end = end coordinate of its last bin, log2 = the (weighted) mean of exactly
   its bins, probes = its number of bins; the probes column is the size column and sums to n. *)
Theorem C11_table : forall (scale_u scale_w : Z -> Q) (pvals : Z -> list Q) (absorb : Z -> bool)
    (sg : list Q) (wt : option (list Q)) (q : Q) (starts ends : list Z),
  sg <> [] -> wt_len_ok sg wt ->
  let r := haar_seg scale_u scale_w pvals absorb sg wt q in
  let rows := one_chrom_table starts ends r in
  table_ok sg wt starts ends (segments_of 0 (hr_breaks r) (Zlength_nat sg)) rows /\
  map (fun r : Z * Z * Q * Z => snd r) rows = hr_size r /\
  sumZ (map (fun r : Z * Z * Q * Z => snd r) rows) = Zlength_nat sg.
Proof. exact one_chrom_table_ok. Qed.

(* ... and for the clean step of C11_clean_step the table is exactly the two rows
   (start of bin 0, end of bin t-1, a, t) and (start of bin t, end of bin n-1, b, n-t). *)
Theorem C11_clean_step_table : forall (scale_u scale_w : Z -> Q) (pvals : Z -> list Q) (absorb : Z -> bool),
  (forall h, ~ scale_u h == 0) -> (forall h, ~ scale_w h == 0) ->
  forall (a b : Q) (t n : nat) (wt : option (list Q)) (q : Q) (starts ends : list Z),
  ~ a == b -> uniform_weights n wt -> (32 <= t)%nat -> (t + 32 <= n)%nat ->
  let r := haar_seg scale_u scale_w pvals absorb (step_signal a b t n) wt q in
  exists m1 m2,
    one_chrom_table starts ends r =
      [(nth 0 starts 0%Z, nth (t - 1) ends 0%Z, m1, Z.of_nat t);
       (nth t starts 0%Z, nth (n - 1) ends 0%Z, m2, (Z.of_nat n - Z.of_nat t)%Z)] /\
    m1 == a /\ m2 == b.
Proof. exact step_one_chrom_table. Qed.

Example C11_segment_means_example :
  segment_by_peaks [1; 3; 5; 7; 9] [2%Z] (Some [1; 1; 1; 3; 0]) = [2; 2; 13 # 2; 13 # 2; 13 # 2] /\
  range_wmean [1; 3; 5; 7; 9] [1; 1; 1; 3; 0] 2 5 == 13 # 2 /\ range_mean [1; 3; 5; 7; 9] 0 2 == 2.
Proof. vm_compute. repeat split; reflexivity. Qed.

(* ------------------------------------------------------------------------------------------------------
   Source tie of the loops (Gen/FnHaar*.v: ONE ITERATION of a loop of cnvlib/segmentation/haar.py,
   regenerated from the Python source on every run by tools/py2v_fn.py from tools/fnspecs/haar.py; proofs in
   Proofs/FnHaar.v).  Array reads are parameters of the generated steps; each theorem says which element of
   the model's list is passed, at the index the generated step itself returns.  The generated steps compute on
   unreduced rationals, the model reduces after each operation, hence `Qred (generated)`.  A store
   `result[k] = e` is a result of the step (the variable named `result[k]`).
   Not tied (translator cannot express them, see tools/fnspecs/haar.py): FindLocalPeaks' loop body,
   UnifyLevels' inner while body. *)
From CNV Require Import Gen.FnHaarConv Gen.FnHaarSegs Gen.FnHaarUnify Gen.FnHaarPulse Proofs.FnHaar.
Local Open Scope Z_scope.

(* HaarConv, weight is None, `for k in range(1, signalSize):` -- the generated iteration returns
   (highEnd, lowEnd, result[k]): the indices are the model's mirrored indices, and with the signal's elements at
   those indices passed for signal[highEnd] / signal[lowEnd] / signal[k - 1] and result[k - 1] = prev, one
   unfolding of the model's recursion conv_u_loop is the generated result[k] *)
Theorem C11_source_conv_step :
  forall (sqrt : Q -> Q) (sg : list Q) (n h : Z) (x : Q) (t : list Q) (k : Z) (prev : Q)
         (sh sl sp wh wl wp a b c d : Q),
  let '(hi, lo, r) := fn_haarconv_step_u sqrt k h n None prev sh sl sp wh wl wp a b c d in
  hi = mirror_hi n (k + h - 1) /\ lo = mirror_lo (k - h - 1) /\
  (sh = qnth sg hi -> sl = qnth sg lo -> sp = qnth sg (k - 1) ->
   conv_u_loop sg n h (x :: t) k prev = Qred r :: conv_u_loop sg n h t (k + 1) (Qred r)).
Proof. exact conv_u_step. Qed.

(* hence the whole recursion, and unweighted HaarConv, is the generated iteration run over k = 1, 2, ...
   (run_conv_u / src_conv_u_step: Proofs/FnHaar.v) *)
Theorem C11_source_conv_loop :
  forall (sqrt : Q -> Q) (sg : list Q) (h : Z) (scale : Q),
  haar_conv sg None h scale
  = let n := Zlength_nat sg in
    if n <? h then map (fun _ => 0%Q) sg
    else match sg with
         | [] => []
         | _ :: rest => 0%Q :: map (fun x => Qred (x / scale)) (run_conv_u (src_conv_u_step sqrt sg n h) rest 1 0%Q)
         end.
Proof. exact haar_conv_u_source. Qed.

(* HaarConv, weighted: the generated iteration returns (highEnd, lowEnd, lowNonNormed, highNonNormed, lowWeightSum,
   highWeightSum, result[k]) after the four `+=` and the store; they are the model's indices, running sums and
   output, for the factor the code uses: scale = math.sqrt(stepHalfSize / 2) (`sqrt` is the generated module's oracle) *)
Theorem C11_source_conv_step_weighted :
  forall (sqrt : Q -> Q) (sg wt : list Q) (n h : Z) (scale : Q) (x : Q) (t : list Q) (k : Z)
         (lowNN highNN lowW highW : Q) (w0 rp sh sl sp wh wl wp : Q),
  let '(hi, lo, a, b, c, d, r) :=
    fn_haarconv_step_w sqrt k h n (Some w0) rp sh sl sp wh wl wp lowNN highNN lowW highW in
  hi = mirror_hi n (k + h - 1) /\ lo = mirror_lo (k - h - 1) /\
  (sh = qnth sg hi -> sl = qnth sg lo -> sp = qnth sg (k - 1) ->
   wh = qnth wt hi -> wl = qnth wt lo -> wp = qnth wt (k - 1) ->
   (scale == sqrt (inject_Z h / inject_Z 2))%Q ->
   conv_w_loop sg wt n h scale (x :: t) k lowNN highNN lowW highW
   = Qred r :: conv_w_loop sg wt n h scale t (k + 1) (Qred a) (Qred b) (Qred c) (Qred d)).
Proof. exact conv_w_step. Qed.

(* hence weighted HaarConv is the generated iteration run over k = 1, 2, ... from the initial sums *)
Theorem C11_source_conv_loop_weighted :
  forall (sqrt : Q -> Q) (sg w : list Q) (h : Z) (scale : Q),
  (scale == sqrt (inject_Z h / inject_Z 2))%Q ->
  haar_conv sg (Some w) h scale
  = let n := Zlength_nat sg in
    if n <? h then map (fun _ => 0%Q) sg
    else match sg with
         | [] => []
         | _ :: rest =>
             let hw := qsum (firstn (Z.to_nat h) w) in
             let hn := qsum (firstn (Z.to_nat h) (qmul2 w sg)) in
             0%Q :: run_conv_w (src_conv_w_step sqrt sg w n h) rest 1 (Qred (- hn), hn, hw, hw)
         end.
Proof. exact haar_conv_w_source. Qed.

(* SegmentByPeaks, `for seg_start, seg_end in zip(...)`: per element i of segs, the statement pair
   `val = weighted mean if weights is not None and weights[s:e].sum() > 0 else mean; segs[s:e] = val`
   is the model's seg_mean stored by fill_from where s <= i < e *)
Theorem C11_source_segs_step :
  forall (data : list Q) (wt : option (list Q)) (s e : Z) (x : Q) (t : list Q) (i : Z),
  let d := slice data s e in
  let ws := match wt with Some w => slice w s e | None => [] end in
  fill_from (x :: t) i s e (seg_mean data wt s e)
  = fn_segs_step (match wt with Some _ => Some 0%Q | None => None end)
                 (qsum ws) (Qred (qsum (qmul2 d ws) / qsum ws)) (Qred (qsum d / inject_Z (Zlength_nat d)))
                 ((s <=? i) && (i <? e)) x
      :: fill_from t (i + 1) s e (seg_mean data wt s e).
Proof. exact segs_step. Qed.

Theorem C11_source_segs_loop :
  forall (data : list Q) (wt : option (list Q)) (s e : Z) (segs : list Q) (i : Z),
    let d := slice data s e in
    let ws := match wt with Some w => slice w s e | None => [] end in
    fill_from segs i s e (seg_mean data wt s e)
    = run_fill (fn_segs_step (match wt with Some _ => Some 0%Q | None => None end)
                             (qsum ws) (Qred (qsum (qmul2 d ws) / qsum ws)) (Qred (qsum d / inject_Z (Zlength_nat d))))
               segs i s e.
Proof. exact fill_from_source. Qed.

(* UnifyLevels: last_pos = baseLevel[-1] + windowSize if len(baseLevel) else -1, as used by unify_levels *)
Theorem C11_source_unify_last_pos :
  forall (base addon : list Z) (w : Z),
  unify_levels base addon w
  = match addon with
    | [] => base
    | _ => let '(joined, rest) := unify_loop base addon w in
           zsort (joined ++ drop_le (fn_unify_last_pos (last base 0) (Zlength_nat base) w) rest)
    end.
Proof. exact unify_levels_source. Qed.

(* PulseConv, `for k in range(pulseSize // 2, ...)`: the generated iteration returns (head, tail, result[n], n + 1) *)
Theorem C11_source_pulse_step :
  forall (sg : list Q) (n p : Z) (ph : Q) (x : Q) (t : list Q) (k : Z) (prev : Q) (nidx : Z) (sh st : Q),
  let '(hd, tl, r, nidx') := fn_pulseconv_step k nidx p n ph prev sh st in
  hd = mirror_hi n k /\ tl = mirror_lo (k - p) /\ nidx' = nidx + 1 /\
  (sh = qnth sg hd -> st = qnth sg tl ->
   pulse_loop sg n p ph (x :: t) k prev = Qred r :: pulse_loop sg n p ph t (k + 1) (Qred r)).
Proof. exact pulse_step. Qed.

(* the generated iterations run on a small signal reproduce the model: unweighted (sqrt is not consulted), and
   weighted with unit weights and h = 2, where sqrt (2/2) is supplied as 1 *)
Example C11_source_conv_example :
  run_conv_u (src_conv_u_step (fun q => q) [0; 0; 0; 1; 1; 1; 1]%Q 7 2) [0; 0; 1; 1; 1; 1]%Q 1 0%Q
  = [0; 1; 2; 1; 0; 0]%Q
  /\ run_conv_w (src_conv_w_step (fun _ => 1%Q) [0; 0; 0; 1; 1; 1; 1]%Q [1; 1; 1; 1; 1; 1; 1]%Q 7 2)
                [0; 0; 1; 1; 1; 1]%Q 1 (0, 0, 2, 2)%Q
     = [0; 1 # 2; 1; 1 # 2; 0; 0]%Q.
Proof. split; reflexivity. Qed.
