(* C11 -- a clear copy-number step is found and localised; flat profiles stay unsegmented.
   PARTIAL (level `other`): theorems about the exact-arithmetic model of the HaarSeg core
   (Model/Haar.v).  The noisy statistical claim and everything about hmm-germline are not
   theorems; they are monitored by the harness (see harness/c11.py, unproved_remainder).
   Property theorems only; proofs live in Proofs/Haar*.v.
   Oracles are universally quantified: scale_u h = math.sqrt(2.0*h), scale_w h = math.sqrt(h/2),
   pvals level = the p-values of that level's sorted |peak values|, absorb level = the float
   absorption flag of the "no passing p-value" threshold. *)
From Coq Require Import QArith.Qabs.
From CNV Require Import Base.Prelude Model.Haar Spec.Haar Proofs.HaarConv Proofs.HaarFlat
  Proofs.HaarUnify Proofs.HaarPeaks.

Local Open Scope Q_scope.

(* The running-sum recurrence of HaarConv equals the closed form: (sum of the h values from k
   on) minus (sum of the h values before k) on the mirror-padded signal, over the scale. *)
Theorem C11_conv_window : forall (sg : list Q) (h : Z) (scale : Q) (k : Z),
  (1 <= h <= Z.of_nat (length sg))%Z -> (0 <= k < Z.of_nat (length sg))%Z ->
  qnth (haar_conv sg None h scale) k == haar_window sg h k / scale.
Proof. exact haar_conv_u_closed. Qed.

(* Weighted: scale times the difference of the weighted means of the two mirrored windows
   (position 0 is 0 by definition in the code). *)
Theorem C11_conv_window_weighted : forall (sg w : list Q) (h : Z) (scale : Q) (k : Z),
  length w = length sg ->
  (1 <= h <= Z.of_nat (length sg))%Z -> (1 <= k < Z.of_nat (length sg))%Z ->
  qnth (haar_conv sg (Some w) h scale) k == scale * haar_window_w sg w h k.
Proof. exact haar_conv_w_closed. Qed.

Theorem C11_conv_length : forall sg wt h scale, length (haar_conv sg wt h scale) = length sg.
Proof. exact haar_conv_length. Qed.

Example C11_conv_window_example :
  haar_conv [0; 0; 0; 1; 1; 1; 1]%Q None 2 2 = [0; 0; 1 # 2; 1; 1 # 2; 0; 0]%Q /\
  haar_window [0; 0; 0; 1; 1; 1; 1]%Q 2 3 = 2%Q.
Proof. split; reflexivity. Qed.

(* A constant signal of any length with any positive weights (or none), at any scale oracles,
   p-value oracles, q: zero convolution at every half-width, no peaks at any level, no
   breakpoints, and one segment 0..n-1 of size n whose mean is the constant. *)
Theorem C11_flat : forall (scale_u scale_w : Z -> Q) (pvals : Z -> list Q) (absorb : Z -> bool)
    (c : Q) (sg : list Q) (wt : option (list Q)) (q : Q),
  all_eq c sg -> weights_ok sg wt -> sg <> [] ->
  let n := Zlength_nat sg in
  let r := haar_seg scale_u scale_w pvals absorb sg wt q in
  (forall h, (1 <= h)%Z -> Forall (fun x => x == 0) (conv_level scale_u scale_w sg wt h)) /\
  (forall level, (0 <= level)%Z -> level_peaks scale_u scale_w sg wt level = []) /\
  hr_breaks r = [] /\ hr_start r = [0%Z] /\ hr_end r = [(n - 1)%Z] /\ hr_size r = [n] /\
  exists m, hr_mean r = [m] /\ m == c.
Proof. exact flat_haar_seg. Qed.

Example C11_flat_example :
  let sg := [1 # 2; 1 # 2; 1 # 2; 1 # 2; 1 # 2]%Q in
  let wt := Some [1; 1 # 2; 1; 3 # 4; 1]%Q in
  all_eq (1 # 2) sg /\ weights_ok sg wt /\
  hr_mean (haar_seg (fun _ => 1) (fun _ => 1) (fun _ => []) (fun _ => false) sg wt (1 # 10000)) = [1 # 2]%Q.
Proof.
  cbn. repeat split; repeat constructor; try reflexivity.
Qed.

Local Open Scope Z_scope.

(* UnifyLevels on strictly increasing lists (window >= 0): the result is strictly increasing
   (sorted and duplicate-free), contains every base breakpoint, and everything else in it is an
   add-on farther than the window from every base breakpoint ... *)
Theorem C11_unify_sorted : forall (base addon : list Z) (w : Z),
  0 <= w -> ssorted base -> ssorted addon ->
  let out := unify_levels base addon w in
  ssorted out /\
  (forall b, In b base -> In b out) /\
  (forall x, In x out -> In x base \/ (In x addon /\ forall b, In b base -> w < Z.abs (x - b))).
Proof. exact unify_levels_sorted. Qed.

(* ... and no such add-on is lost (add-ons are array indices, hence >= 0; the code's
   `last_pos = -1` sentinel would drop negative ones when there is no base). *)
Theorem C11_unify_complete : forall (base addon : list Z) (w : Z),
  0 <= w -> ssorted base -> ssorted addon -> (forall a, In a addon -> 0 <= a) ->
  forall a, In a addon -> (forall b, In b base -> w < Z.abs (a - b)) -> In a (unify_levels base addon w).
Proof. exact unify_levels_complete. Qed.

Example C11_unify_example :
  unify_levels [10; 40] [3; 8; 12; 13; 25; 42; 43; 60] 2 = [3; 10; 13; 25; 40; 43; 60].
Proof. reflexivity. Qed.

(* FindLocalPeaks returns strictly increasing interior indices, whatever the values. *)
Theorem C11_peaks_sorted : forall l : list Q,
  ssorted (find_local_peaks l) /\
  (forall x, In x (find_local_peaks l) -> 1 <= x <= Z.of_nat (length l) - 2).
Proof. exact peaks_sorted. Qed.

(* For every non-empty signal, any weights, any oracle values: the breakpoints of haar_seg are
   strictly increasing within 1..n-2, and the start / end (inclusive) / size columns tile
   0..n-1 contiguously with positive sizes that sum to n (this feeds C03); one mean per row. *)
Theorem C11_sizes : forall (scale_u scale_w : Z -> Q) (pvals : Z -> list Q) (absorb : Z -> bool)
    (sg : list Q) (wt : option (list Q)) (q : Q),
  sg <> [] ->
  let n := Zlength_nat sg in
  let r := haar_seg scale_u scale_w pvals absorb sg wt q in
  ssorted (hr_breaks r) /\ (forall b, In b (hr_breaks r) -> 1 <= b <= n - 2) /\
  tiles_from 0 n (hr_start r) (hr_end r) (hr_size r) /\
  sumZ (hr_size r) = n /\
  length (hr_mean r) = length (hr_start r).
Proof. exact haar_seg_tiles. Qed.

Example C11_tiles_example : tiles_from 0 10 [0; 3; 7] [2; 6; 9] [3; 4; 3].
Proof. cbn. repeat split; lia. Qed.
