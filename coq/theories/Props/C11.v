(* C11 -- a clear copy-number step is found and localised; flat profiles stay unsegmented.
   PARTIAL (level `other`): theorems about the exact-arithmetic model of the HaarSeg core
   (Model/Haar.v).  The noisy statistical claim and everything about hmm-germline are not
   theorems; they are monitored by the harness (see harness/c11.py, unproved_remainder).
   Property theorems only; proofs live in Proofs/Haar*.v.
   Oracles are universally quantified: scale_u h = math.sqrt(2.0*h), scale_w h = math.sqrt(h/2),
   pvals level = the p-values of that level's sorted |peak values|, absorb level = the float
   absorption flag of the "no passing p-value" threshold. *)
From Coq Require Import QArith.Qabs.
From CNV Require Import Base.Prelude Model.Haar Spec.Haar Proofs.HaarConv Proofs.HaarFlat
  Proofs.HaarUnify Proofs.HaarPeaks Proofs.HaarStepLib Proofs.HaarMeans Proofs.HaarStep Proofs.HaarTwoSteps Proofs.HaarTable Proofs.HaarStepW.

Local Open Scope Q_scope.

(* The running-sum recurrence of HaarConv equals the closed form: (sum of the h values from k
   on) minus (sum of the h values before k) on the mirror-padded signal, over the scale. *)
Theorem C11_conv_window : forall (sg : list Q) (h : Z) (scale : Q) (k : Z),
  (1 <= h <= Z.of_nat (length sg))%Z -> (0 <= k < Z.of_nat (length sg))%Z ->
  qnth (haar_conv sg None h scale) k == haar_window sg h k / scale.
Proof. exact haar_conv_u_closed. Qed.

(* Weighted: scale times the difference of the weighted means of the two mirrored windows
   (position 0 is 0 by definition in the code). *)
Theorem C11_conv_window_weighted : forall (sg w : list Q) (h : Z) (scale : Q) (k : Z),
  length w = length sg ->
  (1 <= h <= Z.of_nat (length sg))%Z -> (1 <= k < Z.of_nat (length sg))%Z ->
  qnth (haar_conv sg (Some w) h scale) k == scale * haar_window_w sg w h k.
Proof. exact haar_conv_w_closed. Qed.

Theorem C11_conv_length : forall sg wt h scale, length (haar_conv sg wt h scale) = length sg.
Proof. exact haar_conv_length. Qed.

Example C11_conv_window_example :
  haar_conv [0; 0; 0; 1; 1; 1; 1]%Q None 2 2 = [0; 0; 1 # 2; 1; 1 # 2; 0; 0]%Q /\
  haar_window [0; 0; 0; 1; 1; 1; 1]%Q 2 3 = 2%Q.
Proof. split; reflexivity. Qed.

(* A constant signal of any length with any positive weights (or none), at any scale oracles,
   p-value oracles, q: zero convolution at every half-width, no peaks at any level, no
   breakpoints, and one segment 0..n-1 of size n whose mean is the constant. *)
Theorem C11_flat : forall (scale_u scale_w : Z -> Q) (pvals : Z -> list Q) (absorb : Z -> bool)
    (c : Q) (sg : list Q) (wt : option (list Q)) (q : Q),
  all_eq c sg -> weights_ok sg wt -> sg <> [] ->
  let n := Zlength_nat sg in
  let r := haar_seg scale_u scale_w pvals absorb sg wt q in
  (forall h, (1 <= h)%Z -> Forall (fun x => x == 0) (conv_level scale_u scale_w sg wt h)) /\
  (forall level, (0 <= level)%Z -> level_peaks scale_u scale_w sg wt level = []) /\
  hr_breaks r = [] /\ hr_start r = [0%Z] /\ hr_end r = [(n - 1)%Z] /\ hr_size r = [n] /\
  exists m, hr_mean r = [m] /\ m == c.
Proof. exact flat_haar_seg. Qed.

Example C11_flat_example :
  let sg := [1 # 2; 1 # 2; 1 # 2; 1 # 2; 1 # 2]%Q in
  let wt := Some [1; 1 # 2; 1; 3 # 4; 1]%Q in
  all_eq (1 # 2) sg /\ weights_ok sg wt /\
  hr_mean (haar_seg (fun _ => 1) (fun _ => 1) (fun _ => []) (fun _ => false) sg wt (1 # 10000)) = [1 # 2]%Q.
Proof.
  cbn. repeat split; repeat constructor; try reflexivity.
Qed.

Local Open Scope Z_scope.

(* UnifyLevels on strictly increasing lists (window >= 0): the result is strictly increasing
   (sorted and duplicate-free), contains every base breakpoint, and everything else in it is an
   add-on farther than the window from every base breakpoint ... *)
Theorem C11_unify_sorted : forall (base addon : list Z) (w : Z),
  0 <= w -> ssorted base -> ssorted addon ->
  let out := unify_levels base addon w in
  ssorted out /\
  (forall b, In b base -> In b out) /\
  (forall x, In x out -> In x base \/ (In x addon /\ forall b, In b base -> w < Z.abs (x - b))).
Proof. exact unify_levels_sorted. Qed.

(* ... and no such add-on is lost (add-ons are array indices, hence >= 0; the code's
   `last_pos = -1` sentinel would drop negative ones when there is no base). *)
Theorem C11_unify_complete : forall (base addon : list Z) (w : Z),
  0 <= w -> ssorted base -> ssorted addon -> (forall a, In a addon -> 0 <= a) ->
  forall a, In a addon -> (forall b, In b base -> w < Z.abs (a - b)) -> In a (unify_levels base addon w).
Proof. exact unify_levels_complete. Qed.

Example C11_unify_example :
  unify_levels [10; 40] [3; 8; 12; 13; 25; 42; 43; 60] 2 = [3; 10; 13; 25; 40; 43; 60].
Proof. reflexivity. Qed.

(* FindLocalPeaks returns strictly increasing interior indices, whatever the values. *)
Theorem C11_peaks_sorted : forall l : list Q,
  ssorted (find_local_peaks l) /\
  (forall x, In x (find_local_peaks l) -> 1 <= x <= Z.of_nat (length l) - 2).
Proof. exact peaks_sorted. Qed.

(* For every non-empty signal, any weights, any oracle values: the breakpoints of haar_seg are
   strictly increasing within 1..n-2, and the start / end (inclusive) / size columns tile
   0..n-1 contiguously with positive sizes that sum to n (this feeds C03); one mean per row. *)
Theorem C11_sizes : forall (scale_u scale_w : Z -> Q) (pvals : Z -> list Q) (absorb : Z -> bool)
    (sg : list Q) (wt : option (list Q)) (q : Q),
  sg <> [] ->
  let n := Zlength_nat sg in
  let r := haar_seg scale_u scale_w pvals absorb sg wt q in
  ssorted (hr_breaks r) /\ (forall b, In b (hr_breaks r) -> 1 <= b <= n - 2) /\
  tiles_from 0 n (hr_start r) (hr_end r) (hr_size r) /\
  sumZ (hr_size r) = n /\
  length (hr_mean r) = length (hr_start r).
Proof. exact haar_seg_tiles. Qed.

Example C11_tiles_example : tiles_from 0 10 [0; 3; 7] [2; 6; 9] [3; 4; 3].
Proof. cbn. repeat split; lia. Qed.

Local Open Scope Q_scope.

(* A noiseless step: value a on bins 0..t-1, b <> a on bins t..n-1, at least 32 bins on each side
   (2^level for every level 1..5), no weights or the same positive weight on every bin; for every
   n, t, a, b, q, every p-value / absorption oracle and every non-zero scale constants.  At each
   level the convolution is the tent  amp * max(0, 2^level - |k - t|)  -- a linear ramp up to t and
   down after it -- so its absolute value has its single strict maximum at t; FindLocalPeaks returns
   exactly [t]; with one peak the FDR threshold is 0 (`if M < 2: return 0`) and the peak is kept;
   UnifyLevels of [t] with [t] stays [t]; the result is the one breakpoint t and two segments
   0..t-1 and t..n-1 of sizes t and n-t whose means are exactly a and b. *)
Theorem C11_clean_step : forall (scale_u scale_w : Z -> Q) (pvals : Z -> list Q) (absorb : Z -> bool),
  (forall h, ~ scale_u h == 0) -> (forall h, ~ scale_w h == 0) ->
  forall (a b : Q) (t n : nat) (wt : option (list Q)) (q : Q),
  ~ a == b -> uniform_weights n wt -> (32 <= t)%nat -> (t + 32 <= n)%nat ->
  let sg := step_signal a b t n in
  let r := haar_seg scale_u scale_w pvals absorb sg wt q in
  let T := Z.of_nat t in
  let N := Z.of_nat n in
  (forall level, (1 <= level <= 5)%Z ->
     let h := (2 ^ level)%Z in
     let conv := conv_level scale_u scale_w sg wt h in
     (forall k, (0 <= k < N)%Z ->
        qnth conv k == step_amp (match wt with None => scale_u h | Some _ => scale_w h end) wt h (b - a)
                       * tentQ h T k) /\
     (forall k, (0 <= k < N)%Z -> k <> T -> Qabs (qnth conv k) < Qabs (qnth conv T)) /\
     level_peaks scale_u scale_w sg wt level = [T] /\
     level_addon scale_u scale_w pvals absorb sg wt q level = [T]) /\
  hr_breaks r = [T] /\ hr_start r = [0; T]%Z /\ hr_end r = [T - 1; N - 1]%Z /\
  hr_size r = [T; N - T]%Z /\
  exists m1 m2, hr_mean r = [m1; m2] /\ m1 == a /\ m2 == b.
Proof. exact step_haar_seg. Qed.

(* The same for ARBITRARY positive bin weights (the property's quantifier has weights in [0.5, 1]):
   the weighted convolution of the step is  scale_w h * (b - a) * weighted_tent w t h k  where
   weighted_tent is (share of the upper window's weight lying at or after t) - (the same share of the
   lower window): 0 up to t-h, strictly increasing up to t where it is 1, strictly decreasing to t+h,
   0 after.  Hence again exactly the peak [t] at every level, threshold 0, breakpoint t, means a and b. *)
Theorem C11_clean_step_weighted : forall (scale_u scale_w : Z -> Q) (pvals : Z -> list Q) (absorb : Z -> bool),
  (forall h, ~ scale_w h == 0) ->
  forall (a b : Q) (t n : nat) (w : list Q) (q : Q),
  ~ a == b -> length w = n -> Forall (fun x => 0 < x) w -> (32 <= t)%nat -> (t + 32 <= n)%nat ->
  let sg := step_signal a b t n in
  let r := haar_seg scale_u scale_w pvals absorb sg (Some w) q in
  let T := Z.of_nat t in
  let N := Z.of_nat n in
  (forall level, (1 <= level <= 5)%Z ->
     let h := (2 ^ level)%Z in
     let conv := conv_level scale_u scale_w sg (Some w) h in
     (forall k, (0 <= k < N)%Z -> qnth conv k == scale_w h * (b - a) * weighted_tent w T h k) /\
     (forall k, (0 <= k)%Z -> (k + h <= T)%Z -> weighted_tent w T h k == 0) /\
     (forall k, (T + h <= k < N)%Z -> weighted_tent w T h k == 0) /\
     (forall k, (0 <= k)%Z -> (T - h <= k < T)%Z -> weighted_tent w T h k < weighted_tent w T h (k + 1)%Z) /\
     (forall k, (T <= k < T + h)%Z -> weighted_tent w T h (k + 1)%Z < weighted_tent w T h k) /\
     weighted_tent w T h T == 1 /\
     level_peaks scale_u scale_w sg (Some w) level = [T] /\
     level_addon scale_u scale_w pvals absorb sg (Some w) q level = [T]) /\
  hr_breaks r = [T] /\ hr_start r = [0; T]%Z /\ hr_end r = [T - 1; N - 1]%Z /\
  hr_size r = [T; N - T]%Z /\
  exists m1 m2, hr_mean r = [m1; m2] /\ m1 == a /\ m2 == b.
Proof. exact step_haar_seg_w. Qed.

Example C11_clean_step_weighted_example :
  let w := repeat (1 # 2) 30 ++ repeat 1 20 ++ repeat (3 # 4) 30 in
  let sg := step_signal 0 1 40 80 in
  hr_breaks (haar_seg (fun _ => 1) (fun _ => 1) (fun _ => []) (fun _ => false) sg (Some w) (1 # 10000)) = [40%Z] /\
  weighted_tent w 40 4 38 == 1 # 2 /\ weighted_tent w 40 4 40 == 1 /\ weighted_tent w 40 4 36 == 0.
Proof. vm_compute. repeat split; reflexivity. Qed.

(* the shape on its own, at any half-width h with at least h bins on each side, any scale *)
Theorem C11_step_conv_shape : forall (a b : Q) (t n : nat) (wt : option (list Q)) (h : Z) (scale : Q) (k : Z),
  uniform_weights n wt ->
  (1 <= h <= Z.of_nat t)%Z -> (Z.of_nat t + h <= Z.of_nat n)%Z -> (0 <= k < Z.of_nat n)%Z ->
  qnth (haar_conv (step_signal a b t n) wt h scale) k
  == step_amp scale wt h (b - a) * tentQ h (Z.of_nat t) k.
Proof. exact step_conv. Qed.

Example C11_clean_step_example :
  let sg := step_signal 0 (-1) 40 80 in
  let r := haar_seg (fun _ => 2) (fun _ => 2) (fun _ => []) (fun _ => false) sg None (1 # 10000) in
  hr_breaks r = [40%Z] /\ hr_size r = [40%Z; 40%Z] /\ hr_mean r = [0; -1] /\
  qnth (haar_conv sg None 4 1) 38 = -2 /\ qnth (haar_conv sg None 4 1) 40 = -4 /\ tent 4 40 38 = 2%Z.
Proof. vm_compute. repeat split; reflexivity. Qed.

(* SegmentByPeaks, for ANY breakpoint list (strictly increasing, inside 0..n) and any weights of the
   data's length: the segments (0,p1), (p1,p2), ..., (pk,n) are non-empty, cover every bin, and every
   bin of a segment carries that segment's own mean -- the weighted mean of exactly the bins s..e-1
   when the segment's total weight is positive, their plain mean when it is not or no weights are given. *)
Theorem C11_segment_means : forall (data : list Q) (peaks : list Z) (wt : option (list Q)),
  data <> [] -> breaks_in (Zlength_nat data) peaks -> wt_len_ok data wt ->
  let n := Zlength_nat data in
  length (segment_by_peaks data peaks wt) = length data /\
  (forall i, (0 <= i < n)%Z -> exists s e, In (s, e) (segments_of 0 peaks n) /\ (s <= i < e)%Z) /\
  (forall s e, In (s, e) (segments_of 0 peaks n) ->
     (0 <= s < e)%Z /\ (e <= n)%Z /\
     exists m, is_segment_mean data wt s e m /\
               forall i, (s <= i < e)%Z -> qnth (segment_by_peaks data peaks wt) i = m).
Proof. exact segment_by_peaks_means. Qed.

(* The rows of the haarSeg result table, for every signal, weights and oracle values: row j is
   (start = s_j, end = e_j - 1, size = e_j - s_j, mean = the (weighted) mean of exactly the bins
   s_j..e_j-1) where (s_j, e_j) are the segments cut by the reported breakpoints; together with
   C11_sizes the rows tile 0..n-1. *)
Theorem C11_step_means : forall (scale_u scale_w : Z -> Q) (pvals : Z -> list Q) (absorb : Z -> bool)
    (sg : list Q) (wt : option (list Q)) (q : Q),
  sg <> [] -> wt_len_ok sg wt ->
  let r := haar_seg scale_u scale_w pvals absorb sg wt q in
  breaks_in (Zlength_nat sg) (hr_breaks r) /\
  rows_ok sg wt (segments_of 0 (hr_breaks r) (Zlength_nat sg)) (hr_start r) (hr_end r) (hr_size r) (hr_mean r).
Proof. exact haar_seg_rows. Qed.

(* Two well separated noiseless steps: a on 0..t1-1, b <> a on t1..t2-1, c <> b on t2..n-1, at least
   32 bins before the first, 64 between them and 32 after the second; no or uniform weights.  At every
   level the convolution is the sum of two disjoint tents and FindLocalPeaks returns exactly [t1; t2].
   With two peaks the FDR threshold is no longer trivially 0: it depends on the p-value oracle, and with a
   noiseless signal (sigma estimate 0) the code's fallback `x_sorted[0] + 1e-16` can reject the smaller or
   both peaks.  Proved for every oracle: the reported breakpoints are strictly increasing, are never
   anything but t1 and t2, and t_i is reported exactly when its peak passes the threshold of at least one
   level; when both do, the table is three segments 0..t1-1, t1..t2-1, t2..n-1 with means exactly a, b, c. *)
Theorem C11_two_steps : forall (scale_u scale_w : Z -> Q) (pvals : Z -> list Q) (absorb : Z -> bool),
  (forall h, ~ scale_u h == 0) -> (forall h, ~ scale_w h == 0) ->
  forall (a b c : Q) (t1 t2 n : nat) (wt : option (list Q)) (q : Q),
  ~ a == b -> ~ b == c -> uniform_weights n wt ->
  (32 <= t1)%nat -> (t1 + 64 <= t2)%nat -> (t2 + 32 <= n)%nat ->
  let sg := two_step_signal a b c t1 t2 n in
  let T1 := Z.of_nat t1 in
  let T2 := Z.of_nat t2 in
  let N := Z.of_nat n in
  let conv level := conv_level scale_u scale_w sg wt (2 ^ level) in
  let thr level := fdr_thres [qnth (conv level) T1; qnth (conv level) T2] q (pvals level) (absorb level) in
  let kept level x := Qle_bool (thr level) (Qabs (qnth (conv level) x)) in
  let r := haar_seg scale_u scale_w pvals absorb sg wt q in
  (forall level, (1 <= level <= 5)%Z ->
     let h := (2 ^ level)%Z in
     (forall k, (0 <= k < N)%Z ->
        qnth (conv level) k ==
        step_amp (match wt with None => scale_u h | Some _ => scale_w h end) wt h (b - a) * tentQ h T1 k
        + step_amp (match wt with None => scale_u h | Some _ => scale_w h end) wt h (c - b) * tentQ h T2 k) /\
     level_peaks scale_u scale_w sg wt level = [T1; T2] /\
     level_addon scale_u scale_w pvals absorb sg wt q level = filter (kept level) [T1; T2]) /\
  ssorted (hr_breaks r) /\
  (forall x, In x (hr_breaks r) <->
             (x = T1 \/ x = T2) /\ exists l, (1 <= l <= 5)%Z /\ kept l x = true) /\
  ((exists l, (1 <= l <= 5)%Z /\ kept l T1 = true) ->
   (exists l, (1 <= l <= 5)%Z /\ kept l T2 = true) ->
   hr_breaks r = [T1; T2] /\ hr_start r = [0; T1; T2]%Z /\ hr_end r = [T1 - 1; T2 - 1; N - 1]%Z /\
   hr_size r = [T1; T2 - T1; N - T2]%Z /\
   exists m1 m2 m3, hr_mean r = [m1; m2; m3] /\ m1 == a /\ m2 == b /\ m3 == c).
Proof. exact two_step_haar_seg. Qed.

(* both outcomes are real: with the absorption flag (|peak| >= 1 in the code) both equal steps are
   found; a pair of unequal steps without a passing p-value loses the smaller one *)
Example C11_two_steps_example :
  let sg := two_step_signal 0 1 0 40 110 150 in
  let sg2 := two_step_signal 0 1 (1 # 2) 40 110 150 in
  hr_breaks (haar_seg (fun _ => 2) (fun _ => 2) (fun _ => [1; 1]) (fun _ => true) sg None (1 # 10000))
    = [40%Z; 110%Z] /\
  hr_breaks (haar_seg (fun _ => 2) (fun _ => 2) (fun _ => [1; 1]) (fun _ => true) sg2 None (1 # 10000))
    = [40%Z] /\
  hr_breaks (haar_seg (fun _ => 2) (fun _ => 2) (fun _ => [1; 1]) (fun _ => false) sg2 None (1 # 10000))
    = [].
Proof. vm_compute. repeat split; reflexivity. Qed.

(* The table one_chrom builds from the bin coordinates (any signal, weights, oracle values, any
   coordinate columns): one row per segment of the reported breakpoints -- start = start coordinate of
   the segment's first bin, end = end coordinate of its last bin, log2 = the (weighted) mean of exactly
   its bins, probes = its number of bins; the probes column is the size column and sums to n. *)
Theorem C11_table : forall (scale_u scale_w : Z -> Q) (pvals : Z -> list Q) (absorb : Z -> bool)
    (sg : list Q) (wt : option (list Q)) (q : Q) (starts ends : list Z),
  sg <> [] -> wt_len_ok sg wt ->
  let r := haar_seg scale_u scale_w pvals absorb sg wt q in
  let rows := one_chrom_table starts ends r in
  table_ok sg wt starts ends (segments_of 0 (hr_breaks r) (Zlength_nat sg)) rows /\
  map (fun r : Z * Z * Q * Z => snd r) rows = hr_size r /\
  sumZ (map (fun r : Z * Z * Q * Z => snd r) rows) = Zlength_nat sg.
Proof. exact one_chrom_table_ok. Qed.

(* ... and for the clean step of C11_clean_step the table is exactly the two rows
   (start of bin 0, end of bin t-1, a, t) and (start of bin t, end of bin n-1, b, n-t). *)
Theorem C11_clean_step_table : forall (scale_u scale_w : Z -> Q) (pvals : Z -> list Q) (absorb : Z -> bool),
  (forall h, ~ scale_u h == 0) -> (forall h, ~ scale_w h == 0) ->
  forall (a b : Q) (t n : nat) (wt : option (list Q)) (q : Q) (starts ends : list Z),
  ~ a == b -> uniform_weights n wt -> (32 <= t)%nat -> (t + 32 <= n)%nat ->
  let r := haar_seg scale_u scale_w pvals absorb (step_signal a b t n) wt q in
  exists m1 m2,
    one_chrom_table starts ends r =
      [(nth 0 starts 0%Z, nth (t - 1) ends 0%Z, m1, Z.of_nat t);
       (nth t starts 0%Z, nth (n - 1) ends 0%Z, m2, (Z.of_nat n - Z.of_nat t)%Z)] /\
    m1 == a /\ m2 == b.
Proof. exact step_one_chrom_table. Qed.

Example C11_segment_means_example :
  segment_by_peaks [1; 3; 5; 7; 9] [2%Z] (Some [1; 1; 1; 3; 0]) = [2; 2; 13 # 2; 13 # 2; 13 # 2] /\
  range_wmean [1; 3; 5; 7; 9] [1; 1; 1; 3; 0] 2 5 == 13 # 2 /\ range_mean [1; 3; 5; 7; 9] 0 2 == 2.
Proof. vm_compute. repeat split; reflexivity. Qed.

(* ------------------------------------------------------------------------------------------------------
   Source tie of the loops (Gen/FnHaar*.v: ONE ITERATION of a loop of cnvlib/segmentation/haar.py,
   regenerated from the Python source on every run by tools/py2v_fn.py from tools/fnspecs/haar.py; proofs in
   Proofs/FnHaar.v).  Array reads are parameters of the generated steps; each theorem says which element of
   the model's list is passed, at the index the generated step itself returns.  The generated steps compute on
   unreduced rationals, the model reduces after each operation, hence `Qred (generated)`.  A store
   `result[k] = e` is a result of the step (the variable named `result[k]`).
   Not tied (translator cannot express them, see tools/fnspecs/haar.py): FindLocalPeaks' loop body,
   UnifyLevels' inner while body. *)
From CNV Require Import Gen.FnHaarConv Gen.FnHaarSegs Gen.FnHaarUnify Gen.FnHaarPulse Proofs.FnHaar.
Local Open Scope Z_scope.

(* HaarConv, weight is None, `for k in range(1, signalSize):` -- the generated iteration returns
   (highEnd, lowEnd, result[k]): the indices are the model's mirrored indices, and with the signal's elements at
   those indices passed for signal[highEnd] / signal[lowEnd] / signal[k - 1] and result[k - 1] = prev, one
   unfolding of the model's recursion conv_u_loop is the generated result[k] *)
Theorem C11_source_conv_step :
  forall (sqrt : Q -> Q) (sg : list Q) (n h : Z) (x : Q) (t : list Q) (k : Z) (prev : Q)
         (sh sl sp wh wl wp a b c d : Q),
  let '(hi, lo, r) := fn_haarconv_step_u sqrt k h n None prev sh sl sp wh wl wp a b c d in
  hi = mirror_hi n (k + h - 1) /\ lo = mirror_lo (k - h - 1) /\
  (sh = qnth sg hi -> sl = qnth sg lo -> sp = qnth sg (k - 1) ->
   conv_u_loop sg n h (x :: t) k prev = Qred r :: conv_u_loop sg n h t (k + 1) (Qred r)).
Proof. exact conv_u_step. Qed.

(* hence the whole recursion, and unweighted HaarConv, is the generated iteration run over k = 1, 2, ...
   (run_conv_u / src_conv_u_step: Proofs/FnHaar.v) *)
Theorem C11_source_conv_loop :
  forall (sqrt : Q -> Q) (sg : list Q) (h : Z) (scale : Q),
  haar_conv sg None h scale
  = let n := Zlength_nat sg in
    if n <? h then map (fun _ => 0%Q) sg
    else match sg with
         | [] => []
         | _ :: rest => 0%Q :: map (fun x => Qred (x / scale)) (run_conv_u (src_conv_u_step sqrt sg n h) rest 1 0%Q)
         end.
Proof. exact haar_conv_u_source. Qed.

(* HaarConv, weighted: the generated iteration returns (highEnd, lowEnd, lowNonNormed, highNonNormed, lowWeightSum,
   highWeightSum, result[k]) after the four `+=` and the store; they are the model's indices, running sums and
   output, for the factor the code uses: scale = math.sqrt(stepHalfSize / 2) (`sqrt` is the generated module's oracle) *)
Theorem C11_source_conv_step_weighted :
  forall (sqrt : Q -> Q) (sg wt : list Q) (n h : Z) (scale : Q) (x : Q) (t : list Q) (k : Z)
         (lowNN highNN lowW highW : Q) (w0 rp sh sl sp wh wl wp : Q),
  let '(hi, lo, a, b, c, d, r) :=
    fn_haarconv_step_w sqrt k h n (Some w0) rp sh sl sp wh wl wp lowNN highNN lowW highW in
  hi = mirror_hi n (k + h - 1) /\ lo = mirror_lo (k - h - 1) /\
  (sh = qnth sg hi -> sl = qnth sg lo -> sp = qnth sg (k - 1) ->
   wh = qnth wt hi -> wl = qnth wt lo -> wp = qnth wt (k - 1) ->
   (scale == sqrt (inject_Z h / inject_Z 2))%Q ->
   conv_w_loop sg wt n h scale (x :: t) k lowNN highNN lowW highW
   = Qred r :: conv_w_loop sg wt n h scale t (k + 1) (Qred a) (Qred b) (Qred c) (Qred d)).
Proof. exact conv_w_step. Qed.

(* hence weighted HaarConv is the generated iteration run over k = 1, 2, ... from the initial sums *)
Theorem C11_source_conv_loop_weighted :
  forall (sqrt : Q -> Q) (sg w : list Q) (h : Z) (scale : Q),
  (scale == sqrt (inject_Z h / inject_Z 2))%Q ->
  haar_conv sg (Some w) h scale
  = let n := Zlength_nat sg in
    if n <? h then map (fun _ => 0%Q) sg
    else match sg with
         | [] => []
         | _ :: rest =>
             let hw := qsum (firstn (Z.to_nat h) w) in
             let hn := qsum (firstn (Z.to_nat h) (qmul2 w sg)) in
             0%Q :: run_conv_w (src_conv_w_step sqrt sg w n h) rest 1 (Qred (- hn), hn, hw, hw)
         end.
Proof. exact haar_conv_w_source. Qed.

(* SegmentByPeaks, `for seg_start, seg_end in zip(...)`: per element i of segs, the statement pair
   `val = weighted mean if weights is not None and weights[s:e].sum() > 0 else mean; segs[s:e] = val`
   is the model's seg_mean stored by fill_from where s <= i < e *)
Theorem C11_source_segs_step :
  forall (data : list Q) (wt : option (list Q)) (s e : Z) (x : Q) (t : list Q) (i : Z),
  let d := slice data s e in
  let ws := match wt with Some w => slice w s e | None => [] end in
  fill_from (x :: t) i s e (seg_mean data wt s e)
  = fn_segs_step (match wt with Some _ => Some 0%Q | None => None end)
                 (qsum ws) (Qred (qsum (qmul2 d ws) / qsum ws)) (Qred (qsum d / inject_Z (Zlength_nat d)))
                 ((s <=? i) && (i <? e)) x
      :: fill_from t (i + 1) s e (seg_mean data wt s e).
Proof. exact segs_step. Qed.

Theorem C11_source_segs_loop :
  forall (data : list Q) (wt : option (list Q)) (s e : Z) (segs : list Q) (i : Z),
    let d := slice data s e in
    let ws := match wt with Some w => slice w s e | None => [] end in
    fill_from segs i s e (seg_mean data wt s e)
    = run_fill (fn_segs_step (match wt with Some _ => Some 0%Q | None => None end)
                             (qsum ws) (Qred (qsum (qmul2 d ws) / qsum ws)) (Qred (qsum d / inject_Z (Zlength_nat d))))
               segs i s e.
Proof. exact fill_from_source. Qed.

(* UnifyLevels: last_pos = baseLevel[-1] + windowSize if len(baseLevel) else -1, as used by unify_levels *)
Theorem C11_source_unify_last_pos :
  forall (base addon : list Z) (w : Z),
  unify_levels base addon w
  = match addon with
    | [] => base
    | _ => let '(joined, rest) := unify_loop base addon w in
           zsort (joined ++ drop_le (fn_unify_last_pos (last base 0) (Zlength_nat base) w) rest)
    end.
Proof. exact unify_levels_source. Qed.

(* PulseConv, `for k in range(pulseSize // 2, ...)`: the generated iteration returns (head, tail, result[n], n + 1) *)
Theorem C11_source_pulse_step :
  forall (sg : list Q) (n p : Z) (ph : Q) (x : Q) (t : list Q) (k : Z) (prev : Q) (nidx : Z) (sh st : Q),
  let '(hd, tl, r, nidx') := fn_pulseconv_step k nidx p n ph prev sh st in
  hd = mirror_hi n k /\ tl = mirror_lo (k - p) /\ nidx' = nidx + 1 /\
  (sh = qnth sg hd -> st = qnth sg tl ->
   pulse_loop sg n p ph (x :: t) k prev = Qred r :: pulse_loop sg n p ph t (k + 1) (Qred r)).
Proof. exact pulse_step. Qed.

(* the generated iterations run on a small signal reproduce the model: unweighted (sqrt is not consulted), and
   weighted with unit weights and h = 2, where sqrt (2/2) is supplied as 1 *)
Example C11_source_conv_example :
  run_conv_u (src_conv_u_step (fun q => q) [0; 0; 0; 1; 1; 1; 1]%Q 7 2) [0; 0; 1; 1; 1; 1]%Q 1 0%Q
  = [0; 1; 2; 1; 0; 0]%Q
  /\ run_conv_w (src_conv_w_step (fun _ => 1%Q) [0; 0; 0; 1; 1; 1; 1]%Q [1; 1; 1; 1; 1; 1; 1]%Q 7 2)
                [0; 0; 1; 1; 1; 1]%Q 1 (0, 0, 2, 2)%Q
     = [0; 1 # 2; 1; 1 # 2; 0; 0]%Q.
Proof. split; reflexivity. Qed.

(* ------------------------------------------------------------------------------------------------------
   Bounded noise: the DETERMINISTIC core of the property's statistical clause (proofs in Proofs/HaarNoise.v,
   definitions and constants in Spec/HaarNoise.v).  Exact rational arithmetic; any n; any step position t with
   at least h bins on both sides at the half-width h considered; any step a -> b with D = |b - a| > 0; the
   signal is ANY list within eps of the clean one in every bin (`noise_within eps clean sg`, i.e. noise e_i
   with |e_i| <= eps, no distributional assumption).  Constants (scale = sqrt(2h) unweighted, sqrt(h/2)
   weighted; only positivity is used):
     noise_bound_u h eps scale  = 2 h eps / scale        how far noise moves any unweighted convolution value
     peak_floor_u h D eps scale = (h D - 2 h eps) / scale   the least |conv| at the step position
     drop_per_bin_u D eps scale = (D - 4 eps) / scale    the least drop of |conv| per bin away from t (within h)
     noise_bound_w eps scale    = 2 eps scale            weighted (any positive weights)
     peak_floor_w D eps scale   = (D - 2 eps) scale
   The threshold  4 eps < D  is sharp: with D = 4 eps the noise e_(t-h) = e_(t+h) = eps, e_t = -eps makes
   conv(t+1) = conv(t).
   WHAT STAYS STATISTICAL (harness monitoring only, see harness/c11.py): Gaussian noise of sd 0.1 is not bounded
   by D/4 (0.146 for the +0.585 gain, 0.25 for a one-copy loss): a 400..800-bin profile almost surely has a bin
   beyond 2.5 sd, so the worst-case theorem does not cover the property's quantifier at sd 0.1 (it does cover
   every draw whose largest deviation stays below D/4, e.g. virtually all draws at sd <= 0.03); the FDR
   threshold is a function of normal-cdf p-values and of a noise estimate (an oracle here: theorems hold for
   every threshold value in the stated range); cnvkit's Savitzky-Golay pre-smoothing of log2 and everything
   about hmm-germline are outside the model. *)
From CNV Require Import Spec.HaarNoise Proofs.HaarNoise.
Local Open Scope Q_scope.

(* 1. Linearity + triangle inequality over the two windows: for ANY clean signal c, noise within eps moves the
   unweighted convolution at half-width h by at most 2 h eps / scale at EVERY position, mirrored edges included
   (nothing extra is needed near the ends: the mirrored index always lands inside the array when h <= n). *)
Theorem C11_noise_conv_bound : forall (eps : Q) (c sg : list Q) (h : Z) (scale : Q) (k : Z),
  noise_within eps c sg -> 0 < scale ->
  (1 <= h <= Z.of_nat (length c))%Z -> (0 <= k < Z.of_nat (length c))%Z ->
  Qabs (qnth (haar_conv sg None h scale) k - qnth (haar_conv c None h scale) k) <= noise_bound_u h eps scale.
Proof. exact noise_conv_bound_u. Qed.

(* ... weighted, any positive weights: each of the two weighted window means moves by at most eps, so the
   value moves by at most 2 eps scale (position 0 is 0 by definition in the code). *)
Theorem C11_noise_conv_bound_weighted : forall (eps : Q) (c sg w : list Q) (h : Z) (scale : Q) (k : Z),
  noise_within eps c sg -> length w = length c -> all_pos w -> 0 < scale ->
  (1 <= h <= Z.of_nat (length c))%Z -> (1 <= k < Z.of_nat (length c))%Z ->
  Qabs (qnth (haar_conv sg (Some w) h scale) k - qnth (haar_conv c (Some w) h scale) k) <= noise_bound_w eps scale.
Proof. exact noise_conv_bound_w. Qed.

(* 2. A step of height D = |b - a| with noise eps < D / 4, unweighted, at any half-width h with h bins on both
   sides: the convolution stays within the noise bound of the clean tent (b - a) / scale * max(0, h - |k - t|);
   |conv| at t is at least the peak floor, which exceeds the noise bound; beyond distance h only the noise term
   is left; within distance h the value has dropped by at least (D - 4 eps) / scale per bin of distance from t
   (the noise windows of neighbouring positions share all but four terms); hence the STRICT GLOBAL MAXIMUM of
   |conv| is EXACTLY at t -- not merely within d bins of it. *)
Theorem C11_noise_peak_location : forall (a b : Q) (t n : nat) (sg : list Q) (eps : Q) (h : Z) (scale : Q),
  noise_within eps (step_signal a b t n) sg -> 0 < scale ->
  (1 <= h <= Z.of_nat t)%Z -> (Z.of_nat t + h <= Z.of_nat n)%Z ->
  4 * eps < Qabs (b - a) ->
  let T := Z.of_nat t in
  let N := Z.of_nat n in
  let conv := haar_conv sg None h scale in
  let B := noise_bound_u h eps scale in
  let P := peak_floor_u h (Qabs (b - a)) eps scale in
  let dl := drop_per_bin_u (Qabs (b - a)) eps scale in
  (forall k, (0 <= k < N)%Z -> Qabs (qnth conv k - (b - a) / scale * tentQ h T k) <= B) /\
  B < P /\ P <= Qabs (qnth conv T) /\
  (forall k, (0 <= k < N)%Z -> (h <= Z.abs (k - T))%Z -> Qabs (qnth conv k) <= B) /\
  (forall k, (0 <= k < N)%Z -> (Z.abs (k - T) <= h)%Z ->
     Qabs (qnth conv k) + inject_Z (Z.abs (k - T)) * dl <= Qabs (qnth conv T)) /\
  (forall k, (0 <= k < N)%Z -> k <> T -> Qabs (qnth conv k) < Qabs (qnth conv T)).
Proof. exact noisy_step_conv. Qed.

(* the "within d" form (tent slope against twice the noise bound): 4 h eps < d D with 1 <= d <= h makes every
   position at distance >= d strictly smaller than the value at t.  Subsumed by the theorem above (the
   hypothesis implies 4 eps < D); kept because it is the inequality one reads off the tent. *)
Theorem C11_noise_peak_within_d : forall (a b : Q) (t n : nat) (sg : list Q) (eps : Q) (h : Z) (scale : Q) (d : Z),
  noise_within eps (step_signal a b t n) sg -> 0 < scale ->
  (1 <= h <= Z.of_nat t)%Z -> (Z.of_nat t + h <= Z.of_nat n)%Z ->
  (1 <= d <= h)%Z -> 4 * inject_Z h * eps < inject_Z d * Qabs (b - a) ->
  forall k, (0 <= k < Z.of_nat n)%Z -> (d <= Z.abs (k - Z.of_nat t))%Z ->
    Qabs (qnth (haar_conv sg None h scale) k) < Qabs (qnth (haar_conv sg None h scale) (Z.of_nat t)).
Proof. exact noisy_step_conv_d. Qed.

(* 3. What FindLocalPeaks returns on that convolution (whatever the noise, eps < D / 4): t itself; every other
   returned peak lies at distance >= h from t (inside the tent's support the noisy convolution is still strictly
   monotone on both ramps, so the peak finder's plateau logic cannot fire there) and its value is at most the
   noise bound.  The two bounds leave a gap: every threshold tau with  noise bound < tau <= peak floor  (or
   <= |conv t|) keeps exactly [t]; every threshold above the noise bound keeps [t] or nothing. *)
Theorem C11_noise_local_peaks : forall (a b : Q) (t n : nat) (sg : list Q) (eps : Q) (h : Z) (scale : Q),
  noise_within eps (step_signal a b t n) sg -> 0 < scale ->
  (1 <= h <= Z.of_nat t)%Z -> (Z.of_nat t + h <= Z.of_nat n)%Z -> (Z.of_nat t + 2 <= Z.of_nat n)%Z ->
  4 * eps < Qabs (b - a) ->
  let T := Z.of_nat t in
  let conv := haar_conv sg None h scale in
  let peaks := find_local_peaks conv in
  let B := noise_bound_u h eps scale in
  let P := peak_floor_u h (Qabs (b - a)) eps scale in
  In T peaks /\
  (forall x, In x peaks -> x <> T -> (h <= Z.abs (x - T))%Z /\ Qabs (qnth conv x) <= B) /\
  B < P /\ P <= Qabs (qnth conv T) /\
  (forall tau, B < tau -> tau <= P -> keep_ge conv tau peaks = [T]) /\
  (forall tau, B < tau -> tau <= Qabs (qnth conv T) -> keep_ge conv tau peaks = [T]) /\
  (forall tau, B < tau -> keep_ge conv tau peaks = [T] \/ keep_ge conv tau peaks = []).
Proof. exact noisy_step_peaks. Qed.

(* A FLAT profile (level c, any length, no weights or any positive weights) with noise within eps: every
   convolution value at every half-width is within the noise bound (2 h eps / sqrt(2h) unweighted,
   2 eps sqrt(h/2) weighted); so no peak survives any threshold above it; and if at each level 1..5 that has a
   peak at all the FDR threshold exceeds the bound, haarSeg reports no breakpoint and one segment 0..n-1 whose
   mean is within eps of c.  (With exactly ONE local peak at a level the code's threshold is 0 and that peak is
   kept -- `if M < 2: return 0` -- which is why the hypothesis is about the threshold, not about the noise.) *)
Theorem C11_noise_flat : forall (scale_u scale_w : Z -> Q) (pvals : Z -> list Q) (absorb : Z -> bool),
  (forall h, 0 < scale_u h) -> (forall h, 0 < scale_w h) ->
  forall (eps c : Q) (sg : list Q) (wt : option (list Q)) (q : Q),
  flat_within eps c sg -> weights_ok sg wt -> sg <> [] ->
  let n := Zlength_nat sg in
  let r := haar_seg scale_u scale_w pvals absorb sg wt q in
  (forall h k, (1 <= h)%Z -> (0 <= k < n)%Z ->
     Qabs (qnth (conv_level scale_u scale_w sg wt h) k) <= level_noise_bound scale_u scale_w wt eps h) /\
  (forall level tau, (0 <= level)%Z -> level_noise_bound scale_u scale_w wt eps (2 ^ level) < tau ->
     keep_ge (conv_level scale_u scale_w sg wt (2 ^ level)) tau (level_peaks scale_u scale_w sg wt level) = []) /\
  ((forall l, (1 <= l <= 5)%Z -> level_peaks scale_u scale_w sg wt l <> [] ->
      level_noise_bound scale_u scale_w wt eps (2 ^ l) < level_thres scale_u scale_w pvals absorb sg wt q l) ->
   hr_breaks r = [] /\ hr_start r = [0%Z] /\ hr_end r = [(n - 1)%Z] /\ hr_size r = [n] /\
   exists m, hr_mean r = [m] /\ Qabs (m - c) <= eps).
Proof. exact noisy_flat_all. Qed.

(* The whole of haarSeg on a noisy step (unweighted; at least 32 bins on each side; eps < D / 4), with the FDR
   threshold of each level as an oracle value `level_thres` (= FDRThres(convRes[peakLoc], q, sigma) of that
   level): if at every level with two or more peaks the threshold exceeds the noise bound (a single peak has
   threshold 0 and is t itself), and at some level it does not exceed |conv t|, the result is EXACTLY the one
   breakpoint t -- 0 bins off, where the property allows 5 -- two segments 0..t-1 and t..n-1, and their means
   are within eps of a and b (the property asks for 0.1). *)
Theorem C11_noise_step_seg : forall (scale_u scale_w : Z -> Q) (pvals : Z -> list Q) (absorb : Z -> bool),
  (forall h, 0 < scale_u h) ->
  forall (a b : Q) (t n : nat) (sg : list Q) (eps q : Q),
  noise_within eps (step_signal a b t n) sg -> (32 <= t)%nat -> (t + 32 <= n)%nat ->
  4 * eps < Qabs (b - a) ->
  (forall l, (1 <= l <= 5)%Z -> (2 <= length (level_peaks scale_u scale_w sg None l))%nat ->
     noise_bound_u (2 ^ l) eps (scale_u (2 ^ l)%Z) < level_thres scale_u scale_w pvals absorb sg None q l) ->
  (exists l, (1 <= l <= 5)%Z /\
     level_thres scale_u scale_w pvals absorb sg None q l
     <= Qabs (qnth (conv_level scale_u scale_w sg None (2 ^ l)) (Z.of_nat t))) ->
  let r := haar_seg scale_u scale_w pvals absorb sg None q in
  let T := Z.of_nat t in
  let N := Z.of_nat n in
  hr_breaks r = [T] /\ hr_start r = [0; T]%Z /\ hr_end r = [T - 1; N - 1]%Z /\ hr_size r = [T; N - T]%Z /\
  exists m1 m2, hr_mean r = [m1; m2] /\ Qabs (m1 - a) <= eps /\ Qabs (m2 - b) <= eps.
Proof. exact noisy_step_seg. Qed.

(* one level of it: the add-on peaks of a level are [t] or nothing, and [t] when the threshold is <= |conv t| *)
Theorem C11_noise_level_addon : forall (scale_u scale_w : Z -> Q) (pvals : Z -> list Q) (absorb : Z -> bool),
  (forall h, 0 < scale_u h) ->
  forall (a b : Q) (t n : nat) (sg : list Q) (eps q : Q) (level : Z),
  noise_within eps (step_signal a b t n) sg -> (32 <= t)%nat -> (t + 32 <= n)%nat ->
  4 * eps < Qabs (b - a) -> (1 <= level <= 5)%Z ->
  ((2 <= length (level_peaks scale_u scale_w sg None level))%nat ->
   noise_bound_u (2 ^ level) eps (scale_u (2 ^ level)%Z) < level_thres scale_u scale_w pvals absorb sg None q level) ->
  (level_addon scale_u scale_w pvals absorb sg None q level = [Z.of_nat t] \/
   level_addon scale_u scale_w pvals absorb sg None q level = []) /\
  (level_thres scale_u scale_w pvals absorb sg None q level
   <= Qabs (qnth (conv_level scale_u scale_w sg None (2 ^ level)) (Z.of_nat t)) ->
   level_addon scale_u scale_w pvals absorb sg None q level = [Z.of_nat t]).
Proof. exact noisy_step_addon. Qed.

(* 4. The property's own numbers: a step between 0 and -1, +0.585 or +1 (height at least 0.585) with at least
   100 bins on each side, and ANY noise with |e_i| <= 0.146 (4 * 0.146 < 0.585; for the one-copy loss and the
   +1 gain the same holds up to 0.25 by C11_noise_peak_location): at every level 1..5 the strict maximum of
   |conv| is at t, so a maximiser is within 5 bins (it is t); t is a local peak; every other local peak is at
   least 2^level bins away, noise-sized, and strictly smaller.  Gaussian noise of sd 0.1 exceeds 0.146 in about
   14 % of the bins, so this does NOT decide the property's quantifier at sd 0.1: that part stays sampled. *)
Theorem C11_noise_property_numbers : forall (scale_u scale_w : Z -> Q),
  (forall h, 0 < scale_u h) ->
  forall (a b : Q) (t n : nat) (sg : list Q) (eps : Q) (level : Z),
  noise_within eps (step_signal a b t n) sg -> (100 <= t)%nat -> (t + 100 <= n)%nat ->
  585 # 1000 <= Qabs (b - a) -> eps <= 146 # 1000 -> (1 <= level <= 5)%Z ->
  let T := Z.of_nat t in
  let conv := conv_level scale_u scale_w sg None (2 ^ level) in
  (forall k, (0 <= k < Z.of_nat n)%Z -> k <> T -> Qabs (qnth conv k) < Qabs (qnth conv T)) /\
  (forall k, (0 <= k < Z.of_nat n)%Z -> Qabs (qnth conv T) <= Qabs (qnth conv k) -> (Z.abs (k - T) <= 5)%Z) /\
  In T (level_peaks scale_u scale_w sg None level) /\
  (forall x, In x (level_peaks scale_u scale_w sg None level) -> x <> T ->
     (2 ^ level <= Z.abs (x - T))%Z /\
     Qabs (qnth conv x) <= noise_bound_u (2 ^ level) eps (scale_u (2 ^ level)%Z) /\
     Qabs (qnth conv x) < Qabs (qnth conv T)).
Proof. exact noisy_step_property_numbers. Qed.

(* Weighted step (ANY positive weights, e.g. the property's [0.5, 1]), absolute bounds: the noisy convolution is
   within 2 eps scale of  scale (b - a) weighted_tent;  at t it is at least (D - 2 eps) scale; at distance >= h
   at most 2 eps scale; with eps < D / 4 every position at distance >= h is strictly smaller than the value at
   t, so the global maximum of |conv| lies within h - 1 bins of t (1 bin at level 1).  The sharper "exactly at
   t" of the unweighted case is not proved for unequal weights (neighbouring weighted window means do not
   differ by only four noise terms). *)
Theorem C11_noise_step_weighted : forall (a b : Q) (t n : nat) (w sg : list Q) (eps : Q) (h : Z) (scale : Q),
  noise_within eps (step_signal a b t n) sg -> length w = n -> all_pos w -> 0 < scale ->
  (1 <= h <= Z.of_nat t)%Z -> (Z.of_nat t + h <= Z.of_nat n)%Z ->
  let T := Z.of_nat t in
  let N := Z.of_nat n in
  let conv := haar_conv sg (Some w) h scale in
  let B := noise_bound_w eps scale in
  let P := peak_floor_w (Qabs (b - a)) eps scale in
  (forall k, (0 <= k < N)%Z -> Qabs (qnth conv k - scale * (b - a) * weighted_tent w T h k) <= B) /\
  P <= Qabs (qnth conv T) /\
  (forall k, (0 <= k < N)%Z -> (h <= Z.abs (k - T))%Z -> Qabs (qnth conv k) <= B) /\
  (4 * eps < Qabs (b - a) -> B < P /\
     forall k, (0 <= k < N)%Z -> (h <= Z.abs (k - T))%Z -> Qabs (qnth conv k) < Qabs (qnth conv T)).
Proof. exact noisy_step_level_w. Qed.

(* FindLocalPeaks on ANY sequence: a strict signed extremum is always reported, and whatever is reported is a
   strict signed extremum or the first position of a plateau of the right sign (candT, Proofs/HaarNoise.v). *)
Theorem C11_local_peaks_sound : forall (l : list Q) (x : Z),
  (In x (find_local_peaks l) ->
   (1 <= x <= Z.of_nat (length l) - 2)%Z /\ candT (qnth l (x - 1)) (qnth l x) (qnth l (x + 1))) /\
  ((1 <= x <= Z.of_nat (length l) - 2)%Z -> peakT (qnth l (x - 1)) (qnth l x) (qnth l (x + 1)) ->
   In x (find_local_peaks l)).
Proof. exact (fun l x => conj (peaks_cand l x) (peaks_has_peak l x)). Qed.

(* hypotheses are satisfiable, with concrete numbers: a step 0 -> 1 at t = 80 of 160 bins with noise
   +1/8, -1/8, +1/16 repeating (eps = 1/8 < 1/4); oracles: scale 2, no passing p-value, absorbed fallback
   threshold (the code's regime for |peak| >= 1).  The thresholds lie in the gap at every level and the result
   is the breakpoint 80 with means within 1/8. *)
Example C11_noise_step_example :
  let noise := map (fun i => match (i mod 3)%nat with O => 1 # 8 | S O => - (1 # 8) | _ => 1 # 16 end) (seq 0 160) in
  let sg := map (fun p => Qred (fst p + snd p)) (combine (step_signal 0 1 80 160) noise) in
  let su := fun _ : Z => 2 in
  let pv := fun _ : Z => @nil Q in
  let ab := fun _ : Z => true in
  noise_within (1 # 8) (step_signal 0 1 80 160) sg /\
  4 * (1 # 8) < Qabs (1 - 0) /\
  (forall l, In l [1; 2; 3; 4; 5]%Z ->
     noise_bound_u (2 ^ l) (1 # 8) 2 < level_thres su su pv ab sg None (1 # 10000) l /\
     level_thres su su pv ab sg None (1 # 10000) l <= Qabs (qnth (conv_level su su sg None (2 ^ l)) 80)) /\
  hr_breaks (haar_seg su su pv ab sg None (1 # 10000)) = [80%Z] /\
  find_local_peaks (conv_level su su sg None 2) <> [80%Z].
Proof.
  cbv zeta. split; [apply noise_within_check; vm_compute; reflexivity|].
  split; [vm_compute; reflexivity|]. split.
  - intros l Hl. cbn [In] in Hl.
    repeat (destruct Hl as [<-|Hl]; [split; vm_compute; first [reflexivity | discriminate]|]). destruct Hl.
  - split; [vm_compute; reflexivity|vm_compute; discriminate].
Qed.

Example C11_noise_flat_example :
  let sg := map (fun i => match (i mod 3)%nat with O => 1 # 8 | S O => - (1 # 8) | _ => 1 # 16 end) (seq 0 40) in
  flat_within (1 # 8) 0 sg /\
  Qabs (qnth (haar_conv sg None 4 2) 7) <= noise_bound_u 4 (1 # 8) 2 /\
  noise_bound_u 4 (1 # 8) 2 == 1 # 2.
Proof.
  cbv zeta. split.
  - intros i Hi. rewrite map_length, seq_length in Hi. assert (Hn : noise_within (1 # 8) (repeat 0 40)
        (map (fun i => match (i mod 3)%nat with O => 1 # 8 | S O => - (1 # 8) | _ => 1 # 16 end) (seq 0 40))).
    { apply noise_within_check; vm_compute; reflexivity. }
    destruct Hn as [_ Hb]. rewrite repeat_length in Hb. specialize (Hb i Hi). unfold at_ in Hb at 2.
    rewrite nth_repeat_lt in Hb by lia. exact Hb.
  - split; vm_compute; first [reflexivity | discriminate].
Qed.

(* ------------------------------------------------------------------------------------------------------
   The FDR threshold in its fallback branch.  FDRThres returns  x_sorted[0] + 1e-16  when no p-value passes
   (`level_no_pass`: the scan over the sorted |peak values| finds no p_i <= (i+1)/M q) -- which is what the code
   does for every step of height <= 1, i.e. on the whole domain of the property (the p-values are computed with
   the noise estimate as the LOCATION of the normal cdf).  In binary64 the 1e-16 is absorbed exactly when the
   largest |peak| is >= 1 (`absorb level`, supplied by the harness from the code's floats).  In that regime the
   bounded-noise theorems need NO assumption on the size of the threshold. *)

(* ANY signal, any weights: a level with two or more peaks, no passing p-value and an unabsorbed 1e-16 keeps no
   peak; if every level that has a peak at all is of that kind, haarSeg reports no breakpoint. *)
Theorem C11_fdr_fallback_level : forall (scale_u scale_w : Z -> Q) (pvals : Z -> list Q) (absorb : Z -> bool)
    (sg : list Q) (wt : option (list Q)) (q : Q) (level : Z),
  (2 <= length (level_peaks scale_u scale_w sg wt level))%nat ->
  level_no_pass scale_u scale_w pvals sg wt q level -> absorb level = false ->
  level_addon scale_u scale_w pvals absorb sg wt q level = [].
Proof. exact fallback_addon_none. Qed.

Theorem C11_fdr_fallback_none : forall (scale_u scale_w : Z -> Q) (pvals : Z -> list Q) (absorb : Z -> bool)
    (sg : list Q) (wt : option (list Q)) (q : Q),
  (forall l, (1 <= l <= 5)%Z -> level_peaks scale_u scale_w sg wt l <> [] ->
     (2 <= length (level_peaks scale_u scale_w sg wt l))%nat /\
     level_no_pass scale_u scale_w pvals sg wt q l /\ absorb l = false) ->
  hr_breaks (haar_seg scale_u scale_w pvals absorb sg wt q) = [].
Proof. exact fallback_no_breaks. Qed.

(* the noisy step (eps < D / 4, unweighted, >= 32 bins per side) at one level in that regime: the add-on peaks
   are exactly [t] when the 1e-16 is absorbed or t is the only peak, and nothing otherwise *)
Theorem C11_noise_level_addon_fallback : forall (scale_u scale_w : Z -> Q) (pvals : Z -> list Q) (absorb : Z -> bool),
  (forall h, 0 < scale_u h) ->
  forall (a b : Q) (t n : nat) (sg : list Q) (eps q : Q) (level : Z),
  noise_within eps (step_signal a b t n) sg -> (32 <= t)%nat -> (t + 32 <= n)%nat ->
  4 * eps < Qabs (b - a) -> (1 <= level <= 5)%Z ->
  ((2 <= length (level_peaks scale_u scale_w sg None level))%nat -> level_no_pass scale_u scale_w pvals sg None q level) ->
  level_addon scale_u scale_w pvals absorb sg None q level =
  (if (length (level_peaks scale_u scale_w sg None level) <? 2)%nat || absorb level then [Z.of_nat t] else []).
Proof. exact noisy_step_addon_fallback. Qed.

(* ... hence the whole of haarSeg: exactly the breakpoint t (means within eps of a and b) as soon as one level
   absorbs the 1e-16 or has t as its only peak; no breakpoint when no level does.  The FDR procedure enters only
   through "no p-value passes"; nothing is assumed about the value of the threshold. *)
Theorem C11_noise_step_seg_fallback : forall (scale_u scale_w : Z -> Q) (pvals : Z -> list Q) (absorb : Z -> bool),
  (forall h, 0 < scale_u h) ->
  forall (a b : Q) (t n : nat) (sg : list Q) (eps q : Q),
  noise_within eps (step_signal a b t n) sg -> (32 <= t)%nat -> (t + 32 <= n)%nat ->
  4 * eps < Qabs (b - a) ->
  (forall l, (1 <= l <= 5)%Z -> (2 <= length (level_peaks scale_u scale_w sg None l))%nat ->
     level_no_pass scale_u scale_w pvals sg None q l) ->
  let r := haar_seg scale_u scale_w pvals absorb sg None q in
  let T := Z.of_nat t in
  let N := Z.of_nat n in
  ((exists l, (1 <= l <= 5)%Z /\
      ((length (level_peaks scale_u scale_w sg None l) < 2)%nat \/ absorb l = true)) ->
   hr_breaks r = [T] /\ hr_start r = [0; T]%Z /\ hr_end r = [T - 1; N - 1]%Z /\ hr_size r = [T; N - T]%Z /\
   exists m1 m2, hr_mean r = [m1; m2] /\ Qabs (m1 - a) <= eps /\ Qabs (m2 - b) <= eps) /\
  ((forall l, (1 <= l <= 5)%Z ->
      (2 <= length (level_peaks scale_u scale_w sg None l))%nat /\ absorb l = false) ->
   hr_breaks r = []).
Proof. exact noisy_step_seg_fallback. Qed.

(* a flat profile with noise within eps (any positive weights or none) in that regime: one segment 0..n-1 whose
   mean is within eps of the level *)
Theorem C11_noise_flat_fallback : forall (scale_u scale_w : Z -> Q) (pvals : Z -> list Q) (absorb : Z -> bool)
    (eps c : Q) (sg : list Q) (wt : option (list Q)) (q : Q),
  flat_within eps c sg -> weights_ok sg wt -> sg <> [] ->
  (forall l, (1 <= l <= 5)%Z -> level_peaks scale_u scale_w sg wt l <> [] ->
     (2 <= length (level_peaks scale_u scale_w sg wt l))%nat /\
     level_no_pass scale_u scale_w pvals sg wt q l /\ absorb l = false) ->
  let n := Zlength_nat sg in
  let r := haar_seg scale_u scale_w pvals absorb sg wt q in
  hr_breaks r = [] /\ hr_start r = [0%Z] /\ hr_end r = [(n - 1)%Z] /\ hr_size r = [n] /\
  exists m, hr_mean r = [m] /\ Qabs (m - c) <= eps.
Proof. exact noisy_flat_seg_fallback. Qed.

(* the regime is inhabited: with no passing p-value (empty p-value list) the noisy step of C11_noise_step_example is
   found at 80 when the fallback is absorbed and lost when it is not *)
Example C11_noise_fallback_example :
  let noise := map (fun i => match (i mod 3)%nat with O => 1 # 8 | S O => - (1 # 8) | _ => 1 # 16 end) (seq 0 160) in
  let sg := map (fun p => Qred (fst p + snd p)) (combine (step_signal 0 1 80 160) noise) in
  let su := fun _ : Z => 2 in
  let pv := fun _ : Z => @nil Q in
  (forall l, In l [1; 2; 3; 4; 5]%Z ->
     level_no_pass su su pv sg None (1 # 10000) l /\ (2 <= length (level_peaks su su sg None l))%nat) /\
  hr_breaks (haar_seg su su pv (fun _ => true) sg None (1 # 10000)) = [80%Z] /\
  hr_breaks (haar_seg su su pv (fun _ => false) sg None (1 # 10000)) = [].
Proof.
  cbv zeta. split.
  - intros l Hl. cbn [In] in Hl.
    repeat (destruct Hl as [<-|Hl]; [split; [vm_compute; reflexivity|vm_compute; lia]|]). destruct Hl.
  - split; vm_compute; reflexivity.
Qed.

(* Unequal weights, the "within d" inequality (tent slope against the noise at both ends).  Weights anywhere in
   [wmin, wmax] with 0 < wmin (the property's weights: wmin = 1/2, wmax = 1).  Inside its support the weighted
   tent of C11_clean_step_weighted is at most  1 - |k - t| wmin / (h wmax)  (each bin between k and t carries at
   least wmin of a window whose weight is at most h wmax), the noise moves a value by at most 2 eps sqrt(h/2), so
     4 h eps wmax < d D wmin   (1 <= d <= h)
   puts every position at distance >= d strictly below the value at t: the maximum of |conv| lies within d - 1
   bins of t.  With weights in [1/2, 1]: 8 h eps < d D -- level 1 (h = 2), d = 1: eps < D / 16 gives the maximum
   exactly at t; level 5 (h = 32), d = 6 (within 5 bins): eps < 3 D / 128. *)
From CNV Require Import Proofs.HaarNoiseW.
Theorem C11_noise_peak_within_d_weighted :
  forall (a b : Q) (t n : nat) (w sg : list Q) (eps : Q) (h : Z) (scale wmin wmax : Q) (d : Z),
  noise_within eps (step_signal a b t n) sg -> length w = n -> 0 < wmin -> weights_between wmin wmax w ->
  0 < scale -> (1 <= h <= Z.of_nat t)%Z -> (Z.of_nat t + h <= Z.of_nat n)%Z ->
  (1 <= d <= h)%Z -> 4 * inject_Z h * eps * wmax < inject_Z d * Qabs (b - a) * wmin ->
  forall k, (0 <= k < Z.of_nat n)%Z -> (d <= Z.abs (k - Z.of_nat t))%Z ->
    Qabs (qnth (haar_conv sg (Some w) h scale) k) < Qabs (qnth (haar_conv sg (Some w) h scale) (Z.of_nat t)).
Proof. exact noisy_step_weighted_d. Qed.

(* the slope of the clean weighted tent on its own *)
Theorem C11_weighted_tent_slope : forall (w : list Q) (t n : nat) (h : Z) (wmin wmax : Q),
  length w = n -> 0 < wmin -> weights_between wmin wmax w ->
  (1 <= h <= Z.of_nat t)%Z -> (Z.of_nat t + h <= Z.of_nat n)%Z ->
  forall k, (0 <= k < Z.of_nat n)%Z ->
  0 <= weighted_tent w (Z.of_nat t) h k /\
  weighted_tent w (Z.of_nat t) h k
  <= 1 - inject_Z (Z.min h (Z.abs (k - Z.of_nat t))) * (wmin / (inject_Z h * wmax)).
Proof. exact wtent_bounds. Qed.

Example C11_noise_weighted_example :
  weights_between (1 # 2) 1 [1; 1 # 2; 3 # 4; 1] /\ 4 * inject_Z 2 * (1 # 100) * 1 < inject_Z 1 * Qabs (1 - 0) * (1 # 2).
Proof.
  split; [|vm_compute; reflexivity].
  unfold weights_between. repeat (apply Forall_cons; [split; vm_compute; discriminate|]). apply Forall_nil.
Qed.
