(* C09 -- coverage reports mean per-base depth of the counted reads in every bin.
   Property theorems only; proofs live in Proofs/Coverage.v.  The statements use
   the property text's literal numbers (flag bits 4/256/512/1024 = unmapped /
   secondary / QC-fail / duplicate, log2 -20, placeholder name "-"); the model
   takes its constants from Gen/*.v, so a changed constant in /repo breaks these.

   `log2o` is the logarithm oracle (math.log(.,2) / numpy.log2): every theorem
   holds for every function log2o.  `cov_of Count = aligned_at` (the read has an
   M/=/X base at the position), `cov_of Pileup = spanned_at` (the position lies
   in the read's reference span, deleted/skipped positions included -- what
   samtools bedcov was measured to count); C09_spanned_is_aligned /
   C09_pileup_counts_aligned_bases show they coincide on reads without D/N. *)
From CNV Require Import Base.Prelude Base.Str Gen.Params Gen.CoverageDefaults
  Model.Coverage Spec.Coverage Proofs.Coverage Gen.FnCoverage Proofs.FnCoverage.

(* the generated constants the statements below rely on *)
Example C09_null_log2_is_minus_20 : NULL_LOG2_COVERAGE = (-20 # 1)%Q := eq_refl.
Example C09_count_log_base_is_2 : COUNT_LOG_BASE = 2 := eq_refl.
Example C09_missing_name_is_dash : MISSING_GENE_NAME = "-"%string := eq_refl.

(* depth = (bases of counted reads inside the bin, summed position by position)
   / bin length, and log2 = log2(depth), or -20 when the depth is 0 *)
Theorem C09_depth : forall (log2o : Q -> Q) alg cut reads c lo hi rest,
  Forall wf_read reads -> lo < hi ->
  let r := row_of log2o alg cut reads (c, lo, hi, rest) in
  (row_depth r == inject_Z (spec_bases (cov_of alg) cut c lo hi reads) / inject_Z (hi - lo))%Q /\
  row_log2 r = (if Qeq_bool (row_depth r) 0 then (-20 # 1)%Q else log2o (row_depth r)).
Proof. exact depth_clause. Qed.

(* on reads without D/N the pileup's per-position sums are the aligned bases *)
Theorem C09_pileup_counts_aligned_bases : forall cut c lo hi reads,
  Forall wf_read reads -> Forall no_refskip reads ->
  spec_bases spanned_at cut c lo hi reads = spec_bases aligned_at cut c lo hi reads.
Proof. exact spec_bases_pileup_aligned. Qed.

Theorem C09_spanned_is_aligned : forall r x,
  wf_read r -> no_refskip r -> spanned_at r x = aligned_at r x.
Proof. exact spanned_is_aligned. Qed.

(* zero-width (or reversed) bins: depth 0, log2 -20 *)
Theorem C09_zero_width : forall (log2o : Q -> Q) alg cut reads c lo hi rest,
  hi <= lo ->
  let r := row_of log2o alg cut reads (c, lo, hi, rest) in
  row_depth r = 0%Q /\ row_log2 r = (-20 # 1)%Q.
Proof. exact zero_width_clause. Qed.

(* depth 0 and log2 -20 exactly for the bins no counted read overlaps *)
Theorem C09_empty : forall (log2o : Q -> Q) alg cut reads c lo hi rest,
  Forall wf_read reads ->
  let r := row_of log2o alg cut reads (c, lo, hi, rest) in
  ((row_depth r == 0)%Q /\ row_log2 r = (-20 # 1)%Q) <-> no_base_in_bin (cov_of alg) cut c lo hi reads.
Proof. exact empty_clause. Qed.

(* a read flagged unmapped / secondary / QC-fail / duplicate, or with mapping
   quality below the cut-off, changes no row of the table, wherever it sits *)
Theorem C09_filters : forall (log2o : Q -> Q) alg cut l1 r l2 bins,
  filtered_out cut r ->
  coverage log2o alg cut (l1 ++ r :: l2) bins = coverage log2o alg cut (l1 ++ l2) bins.
Proof. exact coverage_drop. Qed.

(* and the filter of the model is the property's filter *)
Theorem C09_counted_iff : forall cut r, counted cut r = true <-> is_counted cut r.
Proof. exact counted_iff. Qed.

(* reads without D/N: the pileup and the --count tables are identical *)
Theorem C09_algorithms_agree : forall (log2o : Q -> Q) cut reads bins,
  Forall wf_read reads -> Forall no_refskip reads ->
  coverage log2o Pileup cut reads bins = coverage log2o Count cut reads bins.
Proof. exact coverage_agree. Qed.

(* the double-counting identity behind it: sum over reads of |block /\ bin| =
   sum over the bin's positions of the number of covering reads *)
Theorem C09_double_counting : forall cut c lo hi reads,
  Forall wf_read reads ->
  bases_count cut c lo hi reads = spec_bases aligned_at cut c lo hi reads.
Proof. exact bases_count_spec. Qed.

(* any chunk size k >= 1: the chunked table is the unchunked one *)
Theorem C09_chunks : forall (log2o : Q -> Q) k alg cut reads bins,
  (1 <= k)%nat ->
  coverage_chunks log2o k alg cut reads bins = coverage log2o alg cut reads bins.
Proof. exact coverage_chunks_eq. Qed.

(* more generally any split of the regions into consecutive parts *)
Theorem C09_any_split : forall (log2o : Q -> Q) alg cut reads parts,
  coverage_split log2o alg cut reads parts = coverage log2o alg cut reads (concat parts).
Proof. exact coverage_split_concat. Qed.

(* every row keeps its bin's chromosome, start, end and name ("-" for a
   3-column line, the 4th column otherwise, whatever follows it), in order *)
Theorem C09_rows_keep_bins : forall (log2o : Q -> Q) alg cut reads bins,
  map row_key (coverage log2o alg cut reads bins) = map bin_key bins.
Proof. exact coverage_keys. Qed.

(* the hypotheses are satisfiable, and the model computes what one expects *)
Definition ex_reads : list read :=
  [ mkRead "chr1" 0 60 100 [(0, 50)];                 (* 50M *)
    mkRead "chr1" 1024 60 100 [(0, 50)];              (* duplicate *)
    mkRead "chr1" 16 5 120 [(4, 5); (0, 30)];         (* 5S30M, MAPQ 5 *)
    mkRead "chr1" 0 60 130 [(0, 10); (1, 3); (7, 10); (4, 2)];   (* 10M3I10=2S *)
    mkRead "chr2" 0 60 100 [(0, 50)] ]%string.

Definition ex_bins : list bedline :=
  [ ("chr1", 100, 150, ["geneA"; "0"; "+"]); ("chr1", 150, 150, []); ("chr1", 140, 200, ["NA"]) ]%string.

Example C09_ex_wf : Forall wf_read ex_reads.
Proof. repeat constructor; cbn; lia. Qed.

Example C09_ex_no_refskip : Forall no_refskip ex_reads.
Proof. repeat constructor. Qed.

Example C09_ex_filtered : filtered_out 10 (mkRead "chr1" 1024 60 100 [(0, 50)]).
Proof. unfold filtered_out; cbn. lia. Qed.

Example C09_ex_rows_count :
  map (fun r => (row_key r, row_depth r)) (coverage (fun _ => 0%Q) Count 10 ex_reads ex_bins)
  = [ (("chr1", 100, 150, "geneA"), (7 # 5)%Q); (("chr1", 150, 150, "-"), 0%Q);
      (("chr1", 140, 200, "NA"), (1 # 3)%Q) ]%string.
Proof. vm_compute. reflexivity. Qed.

Example C09_ex_rows_pileup :
  coverage (fun _ => 0%Q) Pileup 10 ex_reads ex_bins = coverage (fun _ => 0%Q) Count 10 ex_reads ex_bins.
Proof. vm_compute. reflexivity. Qed.

Example C09_ex_chunks :
  chunks 2 [1; 2; 3; 4; 5] = [[1; 2]; [3; 4]; [5]].
Proof. reflexivity. Qed.

(* ---- source tie: the read filter of the count algorithm, translated from the Python
   source of coverage.region_depth_count.filter_read on every run (Gen/FnCoverage.v), is the
   model's `counted`, pysam's is_duplicate / is_secondary / is_unmapped / is_qcfail being the
   SAM flag bits 0x400 / 0x100 / 0x4 / 0x200. *)
Theorem C09_source_filter_read :
  forall cut r,
    fn_filter_read (flag_bit (r_flag r) 1024) (flag_bit (r_flag r) 256) (flag_bit (r_flag r) 4)
                   (flag_bit (r_flag r) 512) (r_mapq r) cut
    = counted cut r.
Proof. exact fn_filter_read_eq. Qed.
