(* C09 -- coverage reports mean per-base depth of the counted reads in every bin.
   Property theorems only; proofs live in Proofs/Coverage.v.  The statements use
   the property text's literal numbers (flag bits 4/256/512/1024 = unmapped /
   secondary / QC-fail / duplicate, log2 -20, placeholder name "-"); the model
   takes its constants from Gen/*.v, so a changed constant in /repo breaks these.

   `log2o` is the logarithm oracle (math.log(.,2) / numpy.log2): every theorem
   holds for every function log2o.  `cov_of Count = aligned_at` (the read has an
   M/=/X base at the position), `cov_of Pileup = spanned_at` (the position lies
   in the read's reference span, deleted/skipped positions included -- what
   samtools bedcov was measured to count); C09_spanned_is_aligned /
   C09_pileup_counts_aligned_bases show they coincide on reads without D/N. *)
From Coq Require Import Permutation Sorting.Sorted.
From CNV Require Import Base.Prelude Base.Str Gen.Params Gen.CoverageDefaults Model.Chromsort
  Model.Coverage Spec.Coverage Proofs.Coverage Gen.FnCoverage Proofs.FnCoverage.
From CNV Require Gen.FnCoverageLoop Proofs.FnCoverageLoop.

(* the generated constants the statements below rely on *)
Example C09_null_log2_is_minus_20 : NULL_LOG2_COVERAGE = (-20 # 1)%Q := eq_refl.
Example C09_count_log_base_is_2 : COUNT_LOG_BASE = 2 := eq_refl.
Example C09_missing_name_is_dash : MISSING_GENE_NAME = "-"%string := eq_refl.

(* depth = (bases of counted reads inside the bin, summed position by position)
   / bin length, and log2 = log2(depth), or -20 when the depth is 0 *)
Theorem C09_depth : forall (log2o : Q -> Q) alg cut reads c lo hi rest,
  Forall wf_read reads -> lo < hi ->
  let r := row_of log2o alg cut reads (c, lo, hi, rest) in
  (row_depth r == inject_Z (spec_bases (cov_of alg) cut c lo hi reads) / inject_Z (hi - lo))%Q /\
  row_log2 r = (if Qeq_bool (row_depth r) 0 then (-20 # 1)%Q else log2o (row_depth r)).
Proof. exact depth_clause. Qed.

(* on reads without D/N the pileup's per-position sums are the aligned bases *)
Theorem C09_pileup_counts_aligned_bases : forall cut c lo hi reads,
  Forall wf_read reads -> Forall no_refskip reads ->
  spec_bases spanned_at cut c lo hi reads = spec_bases aligned_at cut c lo hi reads.
Proof. exact spec_bases_pileup_aligned. Qed.

Theorem C09_spanned_is_aligned : forall r x,
  wf_read r -> no_refskip r -> spanned_at r x = aligned_at r x.
Proof. exact spanned_is_aligned. Qed.

(* zero-width (or reversed) bins: depth 0, log2 -20 *)
Theorem C09_zero_width : forall (log2o : Q -> Q) alg cut reads c lo hi rest,
  hi <= lo ->
  let r := row_of log2o alg cut reads (c, lo, hi, rest) in
  row_depth r = 0%Q /\ row_log2 r = (-20 # 1)%Q.
Proof. exact zero_width_clause. Qed.

(* depth 0 and log2 -20 exactly for the bins no counted read overlaps *)
Theorem C09_empty : forall (log2o : Q -> Q) alg cut reads c lo hi rest,
  Forall wf_read reads ->
  let r := row_of log2o alg cut reads (c, lo, hi, rest) in
  ((row_depth r == 0)%Q /\ row_log2 r = (-20 # 1)%Q) <-> no_base_in_bin (cov_of alg) cut c lo hi reads.
Proof. exact empty_clause. Qed.

(* a read flagged unmapped / secondary / QC-fail / duplicate, or with mapping
   quality below the cut-off, changes no row of the table, wherever it sits *)
Theorem C09_filters : forall (log2o : Q -> Q) alg cut l1 r l2 bins,
  filtered_out cut r ->
  coverage log2o alg cut (l1 ++ r :: l2) bins = coverage log2o alg cut (l1 ++ l2) bins.
Proof. exact coverage_drop. Qed.

(* and the filter of the model is the property's filter *)
Theorem C09_counted_iff : forall cut r, counted cut r = true <-> is_counted cut r.
Proof. exact counted_iff. Qed.

(* reads without D/N: the pileup and the --count tables are identical *)
Theorem C09_algorithms_agree : forall (log2o : Q -> Q) cut reads bins,
  Forall wf_read reads -> Forall no_refskip reads ->
  coverage log2o Pileup cut reads bins = coverage log2o Count cut reads bins.
Proof. exact coverage_agree. Qed.

(* the double-counting identity behind it: sum over reads of |block /\ bin| =
   sum over the bin's positions of the number of covering reads *)
Theorem C09_double_counting : forall cut c lo hi reads,
  Forall wf_read reads ->
  bases_count cut c lo hi reads = spec_bases aligned_at cut c lo hi reads.
Proof. exact bases_count_spec. Qed.

(* any chunk size k >= 1: the chunked table is the unchunked one *)
Theorem C09_chunks : forall (log2o : Q -> Q) k alg cut reads bins,
  (1 <= k)%nat ->
  coverage_chunks log2o k alg cut reads bins = coverage log2o alg cut reads bins.
Proof. exact coverage_chunks_eq. Qed.

(* more generally any split of the regions into consecutive parts *)
Theorem C09_any_split : forall (log2o : Q -> Q) alg cut reads parts,
  coverage_split log2o alg cut reads parts = coverage log2o alg cut reads (concat parts).
Proof. exact coverage_split_concat. Qed.

(* every row keeps its bin's chromosome, start, end and name ("-" for a
   3-column line, the 4th column otherwise, whatever follows it), in order *)
Theorem C09_rows_keep_bins : forall (log2o : Q -> Q) alg cut reads bins,
  map row_key (coverage log2o alg cut reads bins) = map bin_key bins.
Proof. exact coverage_keys. Qed.

(* the hypotheses are satisfiable, and the model computes what one expects *)
Definition ex_reads : list read :=
  [ mkRead "chr1" 0 60 100 [(0, 50)];                 (* 50M *)
    mkRead "chr1" 1024 60 100 [(0, 50)];              (* duplicate *)
    mkRead "chr1" 16 5 120 [(4, 5); (0, 30)];         (* 5S30M, MAPQ 5 *)
    mkRead "chr1" 0 60 130 [(0, 10); (1, 3); (7, 10); (4, 2)];   (* 10M3I10=2S *)
    mkRead "chr2" 0 60 100 [(0, 50)] ]%string.

Definition ex_bins : list bedline :=
  [ ("chr1", 100, 150, ["geneA"; "0"; "+"]); ("chr1", 150, 150, []); ("chr1", 140, 200, ["NA"]) ]%string.

Example C09_ex_wf : Forall wf_read ex_reads.
Proof. repeat constructor; cbn; lia. Qed.

Example C09_ex_no_refskip : Forall no_refskip ex_reads.
Proof. repeat constructor. Qed.

Example C09_ex_filtered : filtered_out 10 (mkRead "chr1" 1024 60 100 [(0, 50)]).
Proof. unfold filtered_out; cbn. lia. Qed.

Example C09_ex_rows_count :
  map (fun r => (row_key r, row_depth r)) (coverage (fun _ => 0%Q) Count 10 ex_reads ex_bins)
  = [ (("chr1", 100, 150, "geneA"), (7 # 5)%Q); (("chr1", 150, 150, "-"), 0%Q);
      (("chr1", 140, 200, "NA"), (1 # 3)%Q) ]%string.
Proof. vm_compute. reflexivity. Qed.

Example C09_ex_rows_pileup :
  coverage (fun _ => 0%Q) Pileup 10 ex_reads ex_bins = coverage (fun _ => 0%Q) Count 10 ex_reads ex_bins.
Proof. vm_compute. reflexivity. Qed.

Example C09_ex_chunks :
  chunks 2 [1; 2; 3; 4; 5] = [[1; 2]; [3; 4]; [5]].
Proof. reflexivity. Qed.

(* ---- source tie: the read filter of the count algorithm, translated from the Python
   source of coverage.region_depth_count.filter_read on every run (Gen/FnCoverage.v), is the
   model's `counted`, pysam's is_duplicate / is_secondary / is_unmapped / is_qcfail being the
   SAM flag bits 0x400 / 0x100 / 0x4 / 0x200. *)
Theorem C09_source_filter_read :
  forall cut r,
    fn_filter_read (flag_bit (r_flag r) 1024) (flag_bit (r_flag r) 256) (flag_bit (r_flag r) 4)
                   (flag_bit (r_flag r) 512) (r_mapq r) cut
    = counted cut r.
Proof. exact fn_filter_read_eq. Qed.

(* ---- source tie: the scalar tail of region_depth_count, translated as a fragment of the
   function on every run (Gen/FnCoverage.v: fn_region_tail bases start end log2_depth NULL =
   (depth, 5th element of the row tuple)):
     depth = bases / (end - start) if end > start else 0
     row   = (chrom, start, end, gene, math.log(depth, 2) if depth else NULL_LOG2_COVERAGE, depth)
   `bases` (the loop's accumulator) and the value of math.log(depth, 2) are inputs;
   fn_region_depth bases lo hi is the first component.  tools/fnspecs/coverage.py also checks
   the other five elements of the row tuple and that the function returns (count, row). *)
Theorem C09_source_depth : forall bases lo hi,
  (fn_region_depth bases lo hi == count_depth bases lo hi)%Q /\
  (lo < hi -> (fn_region_depth bases lo hi == inject_Z bases / inject_Z (hi - lo))%Q) /\
  (hi <= lo -> fn_region_depth bases lo hi = 0%Q) /\
  Qeq_bool (fn_region_depth bases lo hi) 0 = Qeq_bool (count_depth bases lo hi) 0.
Proof. exact fn_region_depth_clause. Qed.

(* the row's log2 is log2(depth) of the code's own depth, or -20 when that depth is 0 *)
Theorem C09_source_log2 : forall (log2o : Q -> Q) bases lo hi,
  let d := fn_region_depth bases lo hi in
  snd (fn_region_tail bases lo hi (log2o d) (-20 # 1)%Q) = count_log2 log2o d /\
  fst (fn_region_tail bases lo hi (log2o d) (-20 # 1)%Q) = d.
Proof. exact fn_region_log2_clause. Qed.

(* ---- the text layer of the pileup path ------------------------------------------ *)

(* for every well-formed bedcov text of a k-column BED (k = 3, 4, 5, 6, ...: any k >= 3;
   fields without tab / line end, and -- under pandas' default quoting -- not beginning with a
   double quote) the table bedcov() reads carries, line by line, that bin's chromosome, start,
   end, its name (4th column; none for k = 3) and the base count; whatever the quoting mode q *)
Theorem C09_bedcov_parse : forall q ncols bins counts,
  bins <> [] -> length counts = length bins -> Forall (wf_bedline q ncols) bins ->
  parse_bedcov_q q (bedcov_text bins counts) = Some (map parsed_of (combine bins counts)).
Proof. exact bedcov_parse_ok. Qed.

(* the columns detect_bedcov_columns names for 3, 4 and 6 tabs in the first line *)
Example C09_detect_3 : detect_bedcov_columns (chars "c	1	2	0
") = DetectCols ["chromosome"; "start"; "end"; "basecount"]%string.
Proof. reflexivity. Qed.
Example C09_detect_4 : detect_bedcov_columns (chars "c	1	2	g	0
") = DetectCols ["chromosome"; "start"; "end"; "gene"; "basecount"]%string.
Proof. reflexivity. Qed.
Example C09_detect_6 : detect_bedcov_columns (chars "c	1	2	g	0	+	7
") = DetectCols ["chromosome"; "start"; "end"; "gene"; "_1"; "_2"; "basecount"]%string.
Proof. reflexivity. Qed.
Example C09_detect_bad : detect_bedcov_columns (chars "c	1	2
") = DetectBadLine.
Proof. reflexivity. Qed.

(* the mode the code uses is csv.QUOTE_NONE (quoting=3 in bedcov's read_csv since /repo
   0ba5218): names are kept verbatim whatever quote characters they hold -- no condition on
   quotes at all *)
Example C09_quoting_is_quote_none : BEDCOV_QUOTING = 3 := eq_refl.

Theorem C09_names_verbatim : forall ncols bins counts,
  bins <> [] -> length counts = length bins -> Forall (plain_bedline ncols) bins ->
  parse_bedcov (bedcov_text bins counts) = Some (map parsed_of (combine bins counts)).
Proof. exact bedcov_parse_verbatim. Qed.

(* samtools' text for the regions of a part, parsed and assembled (depth = basecount / span,
   log2, "-" for a missing name, zero-span rows), is the pileup table of the part; over any
   split of the regions into non-empty parts, concatenated in order, the text pipeline
   yields the pileup table of all the regions *)
Theorem C09_pileup_text : forall (log2o : Q -> Q) cut reads ncols parts,
  Forall (fun part => part <> [] /\ Forall (plain_bedline ncols) part) parts ->
  pileup_via_text log2o cut reads parts = Some (coverage log2o Pileup cut reads (concat parts)).
Proof. exact pileup_via_text_verbatim. Qed.

Theorem C09_pileup_text_chunks : forall (log2o : Q -> Q) cut reads ncols k bins,
  (1 <= k)%nat -> Forall (plain_bedline ncols) bins ->
  pileup_via_text log2o cut reads (chunks k bins) = Some (coverage log2o Pileup cut reads bins).
Proof. exact pileup_via_text_chunks_verbatim. Qed.

(* why the mode matters: under pandas' default quoting (mode 0, the code before /repo 0ba5218)
   a name beginning with a double quote is NOT kept *)
Theorem C09_quoted_name_refuted :
  exists b n, Forall plain_field (bed_chrom b :: match b with (_, _, _, rest) => rest end) /\
              parse_bedcov_q 0 (bedcov_text [b] [n]) <> Some [parsed_of (b, n)].
Proof. exact quoted_name_refuted. Qed.

(* with csv.QUOTE_NONE (mode 3) plain fields are all that is needed *)
Theorem C09_quote_none_verbatim : forall ncols b, plain_bedline ncols b -> wf_bedline 3 ncols b.
Proof. exact wf_quote_none. Qed.

Example C09_ex_wf_bedline : wf_bedline 0 6 ("chr1", 100, 150, ["a""b"; "0"; "+"])%string.
Proof. split; [reflexivity|]. repeat constructor; right; reflexivity. Qed.

Example C09_ex_plain_bedline : plain_bedline 4 ("chr1", 100, 150, ["""TP53"""])%string.
Proof. split; [reflexivity|]. repeat constructor. Qed.

Example C09_ex_parse :
  parse_bedcov (bedcov_text [("chr1", 100, 150, ["NA"; "0"; "+"]); ("1", 7, 7, ["""007"""; "1e3"; "-"])]%string [80; 0])
  = Some [("chr1", 100, 150, Some "NA", 80); ("1", 7, 7, Some """007""", 0)]%string.
Proof. vm_compute. reflexivity. Qed.

(* ---- parallel.to_chunks ------------------------------------------------------------ *)

(* the pieces concatenate to the file's lines without the comment lines, in order; every
   piece has between 1 and chunk_size lines, all but the last exactly chunk_size *)
Theorem C09_to_chunks : forall k lines,
  (1 <= k)%nat ->
  concat (to_chunks_lines k lines) = filter keep_line lines /\
  Forall (fun piece => (1 <= length piece <= k)%nat) (to_chunks_lines k lines) /\
  Forall (fun piece => length piece = k) (removelast (to_chunks_lines k lines)).
Proof. exact to_chunks_clause. Qed.

(* the dropped lines are exactly those whose first character is "#" *)
Theorem C09_to_chunks_comment : forall l, keep_line l = false <-> exists t, l = String "#"%char t.
Proof. exact keep_line_hash. Qed.

Example C09_ex_to_chunks :
  to_chunks_lines 2 ["#h"; "a"; "b"; "#c"; ""; "d"; "e"]%string = [["a"; "b"]; [""; "d"]; ["e"]]%string.
Proof. reflexivity. Qed.

(* C09_chunks at the level of the regions FILE: whatever samtools' BED line reader is, as
   long as it skips the "#" lines that to_chunks drops, the chunked pileup table (pieces of
   chunk_size lines, tables concatenated in order) is the table of the whole file, and its
   rows carry the bins' identities in the order of the file's lines *)
Theorem C09_pileup_order : forall (log2o : Q -> Q) (bed_of_line : string -> option bedline) k cut reads lines,
  (forall l, keep_line l = false -> bed_of_line l = None) -> (1 <= k)%nat ->
  pileup_file_chunked log2o bed_of_line k cut reads lines = pileup_file log2o bed_of_line cut reads lines /\
  map row_key (pileup_file log2o bed_of_line cut reads lines) = map bin_key (bins_of_lines bed_of_line lines).
Proof. exact pileup_order_clause. Qed.

(* ---- row order of the --count table --------------------------------------------------- *)

(* the table holds every region exactly once; the rows of each chromosome are those of the
   table sorted by (chromosome key, start, end) -- stable --, in that order; every row
   keeps its bin's identity *)
Theorem C09_count_order : forall (log2o : Q -> Q) cut reads bins,
  Permutation (count_order bins) bins /\
  (forall c, rows_of_chrom c (count_order bins) = rows_of_chrom c (sort_regions bed_region bins)) /\
  region_sorted (sort_regions bed_region bins) /\
  map row_key (coverage_count_table log2o cut reads bins) = map bin_key (count_order bins).
Proof. exact count_order_clause. Qed.

(* when distinct chromosome names have distinct sort keys (always, unless the file mixes
   e.g. "chr1" and "1") the table is exactly the sorted one *)
Theorem C09_count_order_sorted : forall bins,
  keys_separate_names bins ->
  count_order bins = sort_regions bed_region bins /\ region_sorted (count_order bins).
Proof. exact count_order_sorted_clause. Qed.

Example C09_ex_count_order :
  map bin_key (count_order [("chr2", 5, 6, ["a"]); ("chr1", 9, 10, []); ("1", 3, 4, ["z"]); ("chr1", 1, 2, ["q"])]%string)
  = [("chr1", 1, 2, "q"); ("chr1", 9, 10, "-"); ("1", 3, 4, "z"); ("chr2", 5, 6, "a")]%string.
Proof. vm_compute. reflexivity. Qed.

(* reads without D/N: the --count table is the pileup table with its rows in --count order *)
Theorem C09_tables_agree : forall (log2o : Q -> Q) cut reads bins,
  Forall wf_read reads -> Forall no_refskip reads ->
  coverage_count_table log2o cut reads bins = coverage log2o Pileup cut reads (count_order bins).
Proof. exact count_table_is_pileup. Qed.

(* ---- min_mapq across both algorithms ---------------------------------------------------- *)

(* min_mapq = 0: both algorithms count every read without one of the four flags;
   min_mapq = q > 0: both count exactly those with mapping quality >= q (the pileup passes
   -Q q to samtools only then) *)
Theorem C09_min_mapq : forall q r,
  0 <= r_mapq r ->
  (q = 0 -> counted q r = negb (flag_excluded (r_flag r)) /\
            counted (pileup_cut q) r = negb (flag_excluded (r_flag r))) /\
  (0 < q -> counted q r = negb (flag_excluded (r_flag r)) && (q <=? r_mapq r) /\
            counted (pileup_cut q) r = negb (flag_excluded (r_flag r)) && (q <=? r_mapq r)) /\
  pileup_cut q = (if 0 <? q then q else 0).
Proof. exact min_mapq_clause. Qed.

(* the supplementary flag 0x800 (and the pairing flags) are not among the excluded ones *)
Example C09_supplementary_counted : counted 0 (mkRead "chr1" 2048 0 100 [(0, 50)]) = true.
Proof. reflexivity. Qed.
Example C09_paired_counted : counted 30 (mkRead "chr1" (1 + 2 + 32 + 64 + 2048) 30 100 [(0, 50)]) = true.
Proof. reflexivity. Qed.

(* ---- loop tie: ONE ITERATION of region_depth_count's `for read in bamfile.fetch(...)` loop, translated from the
   Python source on every run (Gen/FnCoverageLoop.v fn_read_step) *)
Theorem C09_source_read_step : forall count bases passes rb,
  Gen.FnCoverageLoop.fn_read_step count bases passes rb = if passes then (count + 1, bases + rb) else (count, bases).
Proof. exact Proofs.FnCoverageLoop.source_read_step. Qed.

(* ... and the step folded over the reads the fetch hands over (those of the contig), from (0, 0), gives the number
   of counted reads and the model's base count *)
Theorem C09_source_read_loop : forall cut c lo hi reads,
  Proofs.FnCoverageLoop.read_loop cut lo hi (filter (on_contig c) reads) (0, 0)
  = (Z.of_nat (length (filter (fun r => on_contig c r && counted cut r) reads)),
     bases_count cut c lo hi reads).
Proof. exact Proofs.FnCoverageLoop.source_read_loop. Qed.

(* ---- source tie: bedcov's samtools command line ("cmd = [bed_fname, bam_fname]", "if min_mapq and min_mapq > 0:
   cmd.extend(["-Q", str(min_mapq)])"), translated from the Python source on every run (Gen/FnCoverageCmd.v
   fn_bedcov_cmd): the -Q option is absent exactly when the model's pileup_cut is samtools' default 0, and otherwise
   names pileup_cut min_mapq *)
From CNV Require Model.Decimal Gen.FnCoverageCmd Proofs.FnCoverageCmd.

Theorem C09_source_bedcov_cmd : forall bed bam cut,
  Gen.FnCoverageCmd.fn_bedcov_cmd bed bam cut = Proofs.FnCoverageCmd.cmd_for_cut bed bam (pileup_cut cut).
Proof. exact Proofs.FnCoverageCmd.source_bedcov_cmd. Qed.

Theorem C09_source_bedcov_cmd_cases : forall bed bam cut,
  (0 < cut -> Gen.FnCoverageCmd.fn_bedcov_cmd bed bam cut = [bed; bam; "-Q"%string; Model.Decimal.print_Z cut] /\ pileup_cut cut = cut) /\
  (cut <= 0 -> Gen.FnCoverageCmd.fn_bedcov_cmd bed bam cut = [bed; bam] /\ pileup_cut cut = 0).
Proof. exact Proofs.FnCoverageCmd.source_bedcov_cmd_cases. Qed.

(* ---- source tie: detect_bedcov_columns, the WHOLE function, translated from the Python source on every run
   (Gen/FnCoverageDetect.v fn_detect_cols: the column names as a function of the first line, its tab count and the filler
   names).  With the model's tab count and filler names it is the model's detect_bedcov_columns on every text with a line
   end and at least 3 tabs in its first line; below 3 tabs the model reports the RuntimeError the translation records as
   a guard *)
From CNV Require Gen.FnCoverageDetect Proofs.FnCoverageDetect.

Theorem C09_source_detect_columns : forall (text first : list ascii),
  before_char EOLC text = Some first ->
  3 <= count_char TABC first ->
  detect_bedcov_columns text
  = DetectCols (Gen.FnCoverageDetect.fn_detect_cols (unchars first) (count_char TABC first)
                                                    (filler_names (count_char TABC first))).
Proof. exact Proofs.FnCoverageDetect.source_detect_columns. Qed.

Theorem C09_source_detect_bad_line : forall (text first : list ascii),
  before_char EOLC text = Some first ->
  count_char TABC first < 3 ->
  detect_bedcov_columns text = DetectBadLine.
Proof. exact Proofs.FnCoverageDetect.source_detect_bad_line. Qed.

(* ---- source tie: interval_coverages_pileup's per-row depth / log2 code ("spans = table.end - table.start; ok_idx = spans > 0;
   table = table.assign(depth=0.0, log2=NULL_LOG2_COVERAGE); table.loc[ok_idx, 'depth'] = basecount / spans; ok_idx =
   table['depth'] > 0; table.loc[ok_idx, 'log2'] = np.log2(depth)"), translated from the Python source on every run
   (Gen/FnCoveragePileup.v fn_pileup_row): the depth is the model's pileup_depth (exactly 0 on a zero-width or reversed bin,
   basecount / span otherwise) and the log2 is the model's pileup_log2 of the code's own depth *)
From CNV Require Gen.FnCoveragePileup Proofs.FnCoveragePileup.

Theorem C09_source_pileup_depth : forall (log2o : Q -> Q) (bases lo hi : Z),
  (Proofs.FnCoveragePileup.fn_pileup_depth log2o bases lo hi == pileup_depth bases lo hi)%Q /\
  (lo < hi -> Proofs.FnCoveragePileup.fn_pileup_depth log2o bases lo hi = (inject_Z bases / inject_Z (hi - lo))%Q) /\
  (hi <= lo -> Proofs.FnCoveragePileup.fn_pileup_depth log2o bases lo hi = 0%Q).
Proof.
  intros log2o bases lo hi.
  exact (conj (Proofs.FnCoveragePileup.source_pileup_depth log2o bases lo hi)
              (Proofs.FnCoveragePileup.source_pileup_depth_cases log2o bases lo hi)).
Qed.

Theorem C09_source_pileup_log2 : forall (log2o : Q -> Q) (bases lo hi : Z),
  snd (Gen.FnCoveragePileup.fn_pileup_row log2o hi lo bases (-20 # 1)%Q)
  = pileup_log2 log2o (Proofs.FnCoveragePileup.fn_pileup_depth log2o bases lo hi).
Proof. exact Proofs.FnCoveragePileup.source_pileup_log2. Qed.
