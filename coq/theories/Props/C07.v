(* C07 -- range queries return exactly the overlapping / contained / clipped rows.
   Property theorems only; proofs live in Proofs/RangesLib.v, Proofs/Ranges.v,
   Proofs/RangesTables.v, Proofs/Into.v.

   Preconditions, everywhere: the table's rows of one chromosome are sorted by
   start (`sorted_lo`; implied by the property's sort by (start, end), see
   C07_sorted_pre) and are genomic intervals `0 <= lo < hi` (`valid_row`); for
   whole-table queries the query table has each chromosome's rows contiguous
   (`grouped`, true of every sorted table).  Nothing else is assumed about the
   queries (they may repeat, overlap, nest, be unsorted within a chromosome, be
   empty or inverted) nor about the ends of the rows (rows may nest, repeat, abut). *)
From CNV Require Import Base.Prelude Model.Ranges Model.Into Spec.RangeQuery
  Proofs.RangesLib Proofs.Ranges Proofs.RangesTables Proofs.Into.

(* ---- the preconditions are satisfiable: nested, duplicated, abutting rows ------ *)
Example ex_table : list row :=
  [mkRow 0 0 10; mkRow 1 1 2; mkRow 2 1 2; mkRow 3 2 4; mkRow 4 4 9; mkRow 5 5 6].
Example ex_table_pre :
  sorted_lex ex_table /\ sorted_lo ex_table /\ Forall valid_row ex_table /\
  is_monotonic (map r_hi ex_table) = false.
Proof.
  split; [|split; [|split; [|reflexivity]]].
  - unfold sorted_lex, ex_table. repeat constructor; cbn; lia.
  - unfold sorted_lo, ex_table. repeat constructor; cbn; lia.
  - unfold ex_table. repeat constructor; cbn; lia.
Qed.
Example ex_outer :
  iter_ranges ex_table (Some [0; 2; 2; 9]) (Some [2; 5; 5; 12]) QOuter =
  [[mkRow 0 0 10; mkRow 1 1 2; mkRow 2 1 2];
   [mkRow 0 0 10; mkRow 3 2 4; mkRow 4 4 9];
   [mkRow 0 0 10; mkRow 3 2 4; mkRow 4 4 9];
   [mkRow 0 0 10]].
Proof. vm_compute. reflexivity. Qed.

Example ex_source : list trow :=
  map (fun r => ("chr1"%string, r)) ex_table ++ [("chr2"%string, mkRow 6 3 8)].
Example ex_dest : list trow :=
  [("chr1"%string, mkRow 0 0 2); ("chr1"%string, mkRow 1 0 2); ("chr1"%string, mkRow 2 9 12);
   ("chr3"%string, mkRow 3 0 5); ("chr2"%string, mkRow 4 8 9)].
Example ex_tables_pre : table_ok ex_source /\ grouped ex_dest.
Proof.
  split; [|reflexivity].
  intros c. unfold rows_of, of_chrom, ex_source, ex_table. cbn [map app filter fst].
  destruct (String.eqb "chr1" c) eqn:E1; destruct (String.eqb "chr2" c) eqn:E2;
    try (apply String.eqb_eq in E1; apply String.eqb_eq in E2; congruence);
    cbn [map snd]; split; unfold sorted_lo; repeat constructor; cbn; lia.
Qed.
Example ex_by_ranges :
  map (fun x => (r_id (snd (fst x)), map r_id (snd x))) (ga_by_ranges ex_source ex_dest QInner true) =
  [(0, [1; 2]); (1, [1; 2]); (2, []); (3, []); (4, [])].
Proof. vm_compute. reflexivity. Qed.

(* the property's sort order implies the precondition used below *)
Theorem C07_sorted_pre : forall t, sorted_lex t -> sorted_lo t.
Proof. exact sorted_lex_lo. Qed.

(* numpy's (unchecked) binary search is the count of smaller / not-larger
   elements whenever the array is sorted -- the only fact about searchsorted used *)
Theorem C07_searchsorted : forall s arr keys, StronglySorted Z.le arr ->
  searchsorted s arr keys = map (count_side s arr) keys.
Proof. exact searchsorted_sorted. Qed.

(* OUTER: for every query, in query order, exactly the rows sharing at least one
   base with it, in table order -- whichever index path idx_ranges takes *)
Theorem C07_outer : forall t (qs : list (Z * Z)),
  sorted_lo t -> Forall valid_row t -> t <> [] -> qs <> [] ->
  iter_ranges t (Some (map fst qs)) (Some (map snd qs)) QOuter =
  map (fun q => outer_spec (fst q) (snd q) t) qs.
Proof. exact (iter_ranges_spec QOuter). Qed.

(* INNER: exactly the rows wholly contained in the query *)
Theorem C07_inner : forall t (qs : list (Z * Z)),
  sorted_lo t -> Forall valid_row t -> t <> [] -> qs <> [] ->
  iter_ranges t (Some (map fst qs)) (Some (map snd qs)) QInner =
  map (fun q => inner_spec (fst q) (snd q) t) qs.
Proof. exact (iter_ranges_spec QInner). Qed.

(* TRIM: the overlapping rows, clipped to the query *)
Theorem C07_trim : forall t (qs : list (Z * Z)),
  sorted_lo t -> Forall valid_row t -> t <> [] -> qs <> [] ->
  iter_ranges t (Some (map fst qs)) (Some (map snd qs)) QTrim =
  map (fun q => trim_spec (fst q) (snd q) t) qs.
Proof. exact (iter_ranges_spec QTrim). Qed.

(* each path on its own: the binary-search path needs the ends sorted as well
   (that is its path condition), the mask path does not *)
Theorem C07_simple_path : forall im t (qs : list (Z * Z)),
  sorted_lo t -> sorted_hi t -> qs <> [] ->
  map (fun x => apply_sel (fst (fst x)) t)
      (irange_simple t (Some (map fst qs)) (Some (map snd qs)) im) =
  map (fun q => sel_spec im (fst q) (snd q) t) qs.
Proof. exact simple_path_spec. Qed.

Theorem C07_nested_path : forall im t (qs : list (Z * Z)),
  sorted_lo t -> Forall valid_row t ->
  map (fun x => apply_sel (fst (fst x)) t)
      (irange_nested t (map fst qs) (map Some (map snd qs)) im) =
  map (fun q => sel_spec im (fst q) (snd q) t) qs.
Proof. exact nested_path_spec. Qed.

(* the path switch is irrelevant to the result *)
Theorem C07_paths_agree : forall im t (qs : list (Z * Z)),
  sorted_lo t -> sorted_hi t -> Forall valid_row t -> qs <> [] ->
  map (fun x => apply_sel (fst (fst x)) t)
      (irange_simple t (Some (map fst qs)) (Some (map snd qs)) im) =
  map (fun x => apply_sel (fst (fst x)) t)
      (irange_nested t (map fst qs) (map Some (map snd qs)) im).
Proof. exact paths_agree. Qed.

(* QUERIES: GenomicArray.by_ranges yields one (query row, selection) per query row,
   in query order -- also for repeated and overlapping queries --, each selection
   being the spec of its mode on the query's own chromosome; with keep_empty off
   exactly the empty selections are dropped *)
Theorem C07_queries : forall table other m ke,
  table_ok table -> grouped other ->
  ga_by_ranges table other m ke =
  filter (fun x => ke || nonempty_sel x) (answers m table other).
Proof. exact ga_by_ranges_answers. Qed.

(* without the grouping precondition (chromosomes interleaved in the query table) the
   same holds with the queries taken chromosome by chromosome, in order of first
   appearance: the order of pandas' groupby(sort = False) *)
Theorem C07_queries_ungrouped : forall table other m ke,
  table_ok table ->
  ga_by_ranges table other m ke =
  filter (fun x => ke || nonempty_sel x) (answers m table (regroup other)).
Proof. exact ga_by_ranges_regroup. Qed.

(* MISSING CHROMOSOME: a query on a chromosome the table lacks selects nothing (its
   entry is kept iff keep_empty, by C07_queries); a chromosome the queries lack
   contributes nothing: every entry belongs to a query row *)
Theorem C07_missing_chrom : forall table other m ke,
  table_ok table -> grouped other ->
  (forall b sub, In (b, sub) (ga_by_ranges table other m ke) ->
     In b other /\ (has_chrom (fst b) table = false -> sub = [] /\ ke = true)) /\
  (forall b, In b other -> has_chrom (fst b) table = false ->
     ke = true -> In (b, []) (ga_by_ranges table other m ke)).
Proof. exact missing_chrom_spec. Qed.

(* the same selections behind iter_slices, intersection and iter_ranges_of *)
Theorem C07_slices : forall table other im ke,
  table_ok table -> grouped other ->
  iter_slices table other im ke =
  map snd (filter (fun x => ke || nonempty_sel x) (answers (qm_of im) table other)).
Proof. exact iter_slices_answers. Qed.

Theorem C07_intersection : forall table other m,
  table_ok table -> grouped other ->
  intersection table other m = concat (map snd (answers m table other)).
Proof. exact intersection_answers. Qed.

Theorem C07_ranges_of : forall table other m ke,
  table_ok table -> grouped other ->
  iter_ranges_of table other m ke =
  map snd (filter (fun x => ke || nonempty_sel x) (answers m table other)).
Proof. exact iter_ranges_of_answers. Qed.

(* NONE BOUNDS: start = None selects from 0, end = None to the end of the
   chromosome, in every mode, also when rows nest; a chromosome the table lacks
   (empty filter) gives the empty table *)
Theorem C07_none_bounds : forall t chrom qs qe m,
  sorted_lo (chrom_filter chrom t) -> Forall valid_row (chrom_filter chrom t) ->
  in_range t chrom qs qe m = select_spec_opt m qs qe (chrom_filter chrom t).
Proof. exact in_range_spec. Qed.

Theorem C07_in_ranges : forall t chrom (qs : list (Z * Z)) m,
  sorted_lo (chrom_filter chrom t) -> Forall valid_row (chrom_filter chrom t) -> qs <> [] ->
  in_ranges t chrom (Some (map fst qs)) (Some (map snd qs)) m =
  Some (concat (map (fun q => select_spec m (fst q) (snd q) (chrom_filter chrom t)) qs)).
Proof. exact in_ranges_spec. Qed.

(* INTO: one value per query row, in query order: the default where nothing
   overlaps, the value itself for a single hit, otherwise the summary of the
   overlapping rows' values (in table order) -- for any supplied function F *)
Theorem C07_into : forall (V : Type) (source dest : list trow) (col : Z -> V) default (F : list V -> V),
  dest <> [] -> table_ok source -> grouped dest ->
  into_ranges source dest col default (fun h => Some (F (map snd h))) =
  Some (map (fun b => Some (summary_spec default F (map snd (hits_of source col b)))) dest).
Proof. exact @into_ranges_summary. Qed.

(* the default summaries: strings -> the distinct strings, in order of first appearance,
   joined by ","; floats -> the median of the values that are not NaN (NaN when there
   is none) *)
Theorem C07_into_strings : forall hits,
  join_strings hits = Some (String.concat "," (unique_scan (map snd hits))) /\
  is_distinct_of (unique_scan (map snd hits)) (map snd hits).
Proof. exact into_strings_spec. Qed.

Theorem C07_into_median : forall hits,
  nanmedian hits = Some (medianQ (somes (map snd hits))) /\
  (forall m, medianQ (somes (map snd hits)) = Some m -> is_median m (somes (map snd hits))) /\
  (medianQ (somes (map snd hits)) = None <-> somes (map snd hits) = []).
Proof. exact into_median_spec. Qed.

(* the type default for other columns (integers): first_of, the first overlapping
   row's value by position *)
Theorem C07_into_first : forall (V : Type) (hits : list (Z * V)),
  first_of hits = option_map snd (hd_error hits).
Proof. exact @first_of_spec. Qed.

(* ==== EXTENSION: into_ranges complete, keep_empty everywhere, error outcomes, pairing,
   labels ============================================================================== *)
From CNV Require Import Proofs.RangesLib2 Proofs.RangesErrors Proofs.RangesLabels Proofs.RangesInto Proofs.RangesFn.
From CNV Require Gen.RangeDefaults Gen.FnRanges.

(* INTO, summary_func None: the summary is chosen by the type of the FIRST element of the
   column -- a column of strings: join_strings; of floats: nanmedian; of integers / booleans:
   first_of -- and the result is that of the typed model C07_into .. C07_into_first speak about *)
Theorem C07_into_default_str : forall source dest (col : Z -> string) d,
  into_ranges_full source dest (fun l => ICStr (col l)) (ICStr d) ISNone =
  option_map (map (option_map ICStr)) (into_ranges source dest col d join_strings).
Proof. exact into_full_default_str. Qed.

Theorem C07_into_default_float : forall source dest (col : Z -> option Q) d,
  into_ranges_full source dest (fun l => ICFloat (col l)) (ICFloat d) ISNone =
  option_map (map (option_map ICFloat)) (into_ranges source dest col d nanmedian).
Proof. exact into_full_default_float. Qed.

Theorem C07_into_default_int : forall source dest (col : Z -> Z) d,
  into_ranges_full source dest (fun l => ICInt (col l)) (ICInt d) ISNone =
  option_map (map (option_map ICInt)) (into_ranges source dest col d first_of).
Proof. exact into_full_default_int. Qed.

Theorem C07_into_default_bool : forall source dest (col : Z -> bool) d,
  into_ranges_full source dest (fun l => ICBool (col l)) (ICBool d) ISNone =
  option_map (map (option_map ICBool)) (into_ranges source dest col d first_of).
Proof. exact into_full_default_bool. Qed.

(* a non-callable summary_func: the constant; a callable: itself; a missing column: the default
   for every range -- whatever the column holds *)
Theorem C07_into_const : forall source dest (col : Z -> icell) d v,
  into_ranges_full source dest col d (ISConst v) = into_ranges source dest col d (const_of v).
Proof. exact into_full_const. Qed.

Theorem C07_into_func : forall source dest (col : Z -> icell) d f,
  into_ranges_full source dest col d (ISFunc f) = into_ranges source dest col d f.
Proof. exact into_full_func. Qed.

Theorem C07_into_missing_column : forall source dest (col : Z -> icell) d s,
  ga_into_ranges false source dest col d s = Some (map (fun _ => Some d) dest).
Proof. exact ga_into_missing. Qed.

(* exactly one value per query row *)
Theorem C07_into_one_per_query : forall (V : Type) (source dest : list trow) (col : Z -> V) default f,
  dest <> [] -> table_ok source -> grouped dest ->
  exists l, into_ranges source dest col default f = Some l /\ length l = length dest.
Proof. exact @into_one_per_query. Qed.

(* KEEP_EMPTY on every entry point.  True: exactly one entry per query row, in query order;
   False: the same entries without the empty selections (none of the remaining ones is empty).
   intersection passes False and into_ranges True (generated from the source). *)
Theorem C07_keep_empty_on : forall table other m,
  table_ok table -> grouped other ->
  map fst (ga_by_ranges table other m true) = other /\
  length (iter_slices table other (imode_of m) true) = length other /\
  length (iter_ranges_of table other m true) = length other.
Proof. exact keep_empty_on. Qed.

Theorem C07_keep_empty_off : forall table other m,
  table_ok table -> grouped other ->
  ga_by_ranges table other m false = filter nonempty_sel (ga_by_ranges table other m true) /\
  iter_slices table other (imode_of m) false =
    filter (fun sub => match sub with [] => false | _ => true end) (iter_slices table other (imode_of m) true) /\
  iter_ranges_of table other m false =
    filter (fun sub => match sub with [] => false | _ => true end) (iter_ranges_of table other m true) /\
  Forall (fun x => snd x <> []) (ga_by_ranges table other m false).
Proof. exact keep_empty_off. Qed.

Theorem C07_keep_empty_fixed :
  RangeDefaults.intersection_slices_keep_empty = false /\
  RangeDefaults.intersection_trim_keep_empty = false /\
  RangeDefaults.into_slices_keep_empty = true /\
  RangeDefaults.into_slices_mode = "outer"%string.
Proof. exact fixed_keep_empty_flags. Qed.

(* ERROR OUTCOMES (empty query lists, starts / ends of unequal length): nothing is outside the
   model.  (1) whenever the index step returns, it returns the error-free model's ranges, so every
   theorem above applies; (2) on a non-empty table with a bound given, which arguments raise what:
   the mask path raises TypeError for an empty `starts` with `ends` None and AssertionError for
   lists of unequal length or no query at all, the binary-search path zips (truncates) and never
   raises; (3) in_ranges adds ValueError exactly for "nothing to concatenate": the binary-search
   path with no query at all; (4) non-empty lists of equal length never raise. *)
Theorem C07_errors_ok : forall t s e m r, idx_ranges_e t s e m = RqOk r -> idx_ranges t s e m = r.
Proof. exact idx_ranges_e_ok. Qed.

Theorem C07_errors_cases : forall t s e m,
  t <> [] -> ~ (s = None /\ e = None) ->
  idx_ranges_e t s e m =
  if is_monotonic (map r_hi t) then RqOk (irange_simple t s e m)
  else match given s, e with
       | None, None => RqRaises "TypeError"
       | None, Some el =>
           match el with
           | [] => RqRaises "AssertionError"
           | _ => RqOk (irange_nested t (repeat 0 (length el)) (map Some el) m)
           end
       | Some ss, _ =>
           match given e with
           | None => RqOk (irange_nested t ss (repeat None (length ss)) m)
           | Some es => if Nat.eqb (length ss) (length es)
                        then RqOk (irange_nested t ss (map Some es) m)
                        else RqRaises "AssertionError"
           end
       end.
Proof. exact idx_ranges_e_cases. Qed.

Theorem C07_in_ranges_outcome : forall t chrom s e m,
  in_ranges_e t chrom s e m =
  match idx_ranges_e (chrom_filter chrom t) s e (imode_of m) with
  | RqRaises x => RqRaises x
  | RqOk _ => match in_ranges t chrom s e m with Some l => RqOk l | None => RqRaises "ValueError" end
  end.
Proof. exact in_ranges_e_eq. Qed.

Theorem C07_in_ranges_valueerror : forall t chrom s e m,
  in_ranges_e t chrom s e m = RqRaises "ValueError" <->
  chrom_filter chrom t <> [] /\ is_monotonic (map r_hi (chrom_filter chrom t)) = true /\
  given s = None /\ e = Some [].
Proof. exact in_ranges_e_valueerror. Qed.

Theorem C07_in_ranges_no_error : forall t chrom (qs : list (Z * Z)) m,
  sorted_lo (chrom_filter chrom t) -> Forall valid_row (chrom_filter chrom t) -> qs <> [] ->
  in_ranges_e t chrom (Some (map fst qs)) (Some (map snd qs)) m =
  RqOk (concat (map (fun q => select_spec m (fst q) (snd q) (chrom_filter chrom t)) qs)).
Proof. exact in_ranges_e_spec. Qed.

Example C07_error_examples :
  let nested := [("a"%string, mkRow 0 0 10); ("a"%string, mkRow 1 1 2); ("a"%string, mkRow 2 3 4)] in
  let simple := [("a"%string, mkRow 0 0 3); ("a"%string, mkRow 1 2 5)] in
  in_ranges_e nested (Some "a"%string) (Some []) None QOuter = RqRaises "TypeError" /\
  in_ranges_e nested (Some "a"%string) (Some [1; 2]) (Some [4]) QOuter = RqRaises "AssertionError" /\
  in_ranges_e nested (Some "a"%string) (Some []) (Some []) QInner = RqRaises "AssertionError" /\
  in_ranges_e simple (Some "a"%string) (Some []) (Some []) QTrim = RqRaises "ValueError" /\
  in_ranges_e simple (Some "a"%string) (Some [1; 2]) (Some [4]) QTrim = RqOk [mkRow 0 1 3; mkRow 1 2 4].
Proof. vm_compute. repeat split; reflexivity. Qed.

(* CHROMOSOME PAIRING: the single-chromosome shortcut of by_shared_chroms is the general rule;
   one group per chromosome of the first table that the second has too (with keep_empty: per
   chromosome of the first table), in order of first appearance, carrying ALL rows of that
   chromosome of either table *)
Theorem C07_shared_chroms : forall table other ke,
  by_shared_chroms table other ke = shared_groups table other ke /\
  map (fun g => fst (fst g)) (shared_groups table other ke) =
    filter (fun c => has_chrom c other || ke) (chroms table) /\
  Forall (fun g => let '(c, tr, o) := g in
            tr = of_chrom c table /\
            o = (if has_chrom c other then Some (of_chrom c other) else None))
         (shared_groups table other ke).
Proof. exact shared_chroms_all. Qed.

(* LABELS: iter_slices yields index labels.  With unique labels, the rows found under the labels
   of each slice (table.loc[labels], column[labels]) are exactly the slice's rows, and
   table.loc[np.concatenate(slices)] is the concatenation of the slices (intersection); with the
   default labels 0..n-1 a label lookup is the positional lookup; with other labels it is NOT
   (rows_loc_not_iloc: a table that lost its first row) *)
Theorem C07_labels : forall table other im ke,
  table_ok table -> grouped other -> NoDup (map r_id (map snd table)) ->
  Forall (fun sub => rows_loc (map snd table) (map r_id sub) = sub) (iter_slices table other im ke) /\
  rows_loc (map snd table) (concat (iter_slice_labels table other im ke)) =
    concat (iter_slices table other im ke).
Proof. exact iter_slices_loc. Qed.

Theorem C07_labels_default : forall (t : list row) (ls : list Z),
  (forall k r, nth_error t k = Some r -> r_id r = Z.of_nat k) ->
  rows_loc t ls = rows_iloc t ls.
Proof. exact rows_loc_default. Qed.

Theorem C07_labels_unique : forall (t sub : list row),
  NoDup (map r_id t) -> (forall r, In r sub -> In r t) -> rows_loc t (map r_id sub) = sub.
Proof. exact rows_loc_unique. Qed.

(* SOURCE TIE (tools/fnspecs/intervals.py -> Gen/FnRanges.v): the two conditional clips of
   iter_ranges(mode="trim"), tests and clipped columns taken from the source text, are the model's
   trim_rows: `if start_val:` / `if end_val:` are truthiness tests *)
Theorem C07_source_trim : forall (dummy sv ev : Z) (rows : list row),
  trim_rows (Some sv) (Some ev) rows =
  map (fun r => mkRow (r_id r)
                      (fst (Gen.FnRanges.fn_trim_row dummy (r_lo r) (r_hi r) sv ev))
                      (snd (Gen.FnRanges.fn_trim_row dummy (r_lo r) (r_hi r) sv ev))) rows.
Proof. exact fn_trim_rows_eq. Qed.

(* ==== LOOP TIES (function-body translator, tools/fnspecs/ranges_loops.py) ==============
   Loop bodies of skgenome/intersect.py translated ONE ITERATION at a time from the source text
   on every run (Gen/FnRangesNested.v, FnRangesIter.v, FnRangesSlices.v, FnRangesInto.v). *)
From CNV Require Import Proofs.FnRangesNested Proofs.FnRangesIter Proofs.FnRangesSlices Proofs.FnRangesInto.
From CNV Require Gen.FnRangesNested Gen.FnRangesIter Gen.FnRangesSlices Gen.FnRangesInto.
From CNV Require Import Model.Into.

(* _irange_nested, one iteration read for one row of the table (position k of n): the row's bit
   of region_mask and the bounds yielded with it, as generated *)
Theorem C07_source_nested_elem : forall (k n : Z) (mode : string) (qs : Z) (qe : option Z) (si ei row_end : Z),
  Gen.FnRangesNested.fn_nested_elem k n mode qs qe si ei row_end
  = [(src_bit k n (String.eqb mode "inner") qs qe si ei row_end, qs, qe)].
Proof. exact source_nested_elem. Qed.

(* nested_mask IS the generated bit, row by row, with the model's searchsorted1 for the two
   searches (numpy's binary search never answers a negative position, so the slice bounds are
   read as they stand) *)
Theorem C07_source_nested_mask : forall (t : list row) (m : imode) (qs : Z) (qe : option Z),
  nested_mask t m qs qe = map_pos (src_row_bit t m qs qe) 0 t.
Proof. exact source_nested_mask. Qed.

Theorem C07_source_nested : forall (t : list row) (starts : list Z) (ends : list (option Z)) (m : imode),
  irange_nested t starts ends m =
  map (fun '(qs, qe) => (SelMask (map_pos (src_row_bit t m qs qe) 0 t), Some qs, qe)) (combine starts ends).
Proof. exact source_irange_nested. Qed.

(* iter_ranges, one iteration read for one row of the selection: for every mode and every
   start_val / end_val (None and 0 included) the selection as yielded is the generated row
   function mapped over it *)
Theorem C07_source_iter_row : forall (m : qmode) (sv ev : option Z) (d1 d2 : Z) (sub : list row),
  (match m with QTrim => trim_rows sv ev sub | _ => sub end) = map (src_iter_row m sv ev d1 d2) sub.
Proof. exact source_iter_ranges. Qed.

Theorem C07_source_iter_ranges : forall (t : list row) (starts ends : option (list Z)) (m : qmode) (d1 d2 : Z),
  iter_ranges t starts ends m =
  map (fun '(s, sv, ev) => map (src_iter_row m sv ev d1 d2) (apply_sel s t))
      (idx_ranges t starts ends (imode_of m)).
Proof. exact source_iter_ranges_all. Qed.

(* iter_slices, one iteration: `if keep_empty or len(indices): yield indices` *)
Theorem C07_source_slices_step : forall (keep_empty : bool) (labels : list Z),
  Gen.FnRangesSlices.fn_slices_step keep_empty labels =
  if keep_empty || negb (Z.of_nat (length labels) =? 0) then [labels] else [].
Proof. exact source_slices_step. Qed.

Theorem C07_source_slices : forall (t : list row) (starts ends : option (list Z)) (m : imode) (keep_empty : bool),
  map (map r_id)
      (filter (fun sub => match sub with [] => keep_empty | _ => true end)
              (map (fun '(s, _, _) => apply_sel s t) (idx_ranges t starts ends m))) =
  flat_map (fun '(s, _, _) => Gen.FnRangesSlices.fn_slices_step keep_empty (map r_id (apply_sel s t)))
           (idx_ranges t starts ends m).
Proof. exact source_slices_chrom. Qed.

(* into_ranges' per-range summary series2value IS the generated function *)
Theorem C07_source_series2value : forall (d : string) (f : list (Z * string) -> option string)
                                         (hits : list (Z * string)),
  series2value d f hits =
  option_map (Gen.FnRangesInto.fn_series2value (zlen hits) d (first_value d hits))
             (if zlen hits <=? 1 then Some d else f hits).
Proof. exact source_series2value. Qed.

(* ==== LOOP TIES, wave e4 (tools/fnspecs/c07_e4.py) ====
   intersect.by_shared_chroms and intersect.by_ranges, one iteration each translated from the source text on every run
   (Gen/FnRangesShared.v, Gen/FnRangesByRanges.v): what a chromosome absent from the other table gets (keep_empty). *)
From CNV Require Import Proofs.FnRangesShared Proofs.FnRangesByRanges.
From CNV Require Gen.FnRangesShared Gen.FnRangesByRanges.

(* by_shared_chroms, one iteration: the pair of row groups when the chromosome is in both tables, the table's group
   with None when it is not and keep_empty, nothing otherwise *)
Theorem C07_source_shared_step : forall (table other : list trow) (keep_empty : bool) (c : string),
  py_shared_iter table other keep_empty c =
  if has_chrom c other then [(c, of_chrom c table, Some (of_chrom c other))]
  else if keep_empty then [(c, of_chrom c table, None)] else [].
Proof. exact source_shared_step. Qed.

(* ... and shared_groups IS that generated iteration over the table's chromosomes in order of first appearance *)
Theorem C07_source_shared_groups : forall (table other : list trow) (keep_empty : bool),
  shared_groups table other keep_empty = concat (map (py_shared_iter table other keep_empty) (chroms table)).
Proof. exact source_shared_groups. Qed.

(* by_ranges, one iteration: the bins paired with their selections, or one empty result per bin *)
Theorem C07_source_by_ranges_step : forall (m : qmode) (keep_empty : bool) (c : string) (bins : list trow)
    (src : option (list trow)),
  py_by_ranges_iter m keep_empty (c, bins, src) =
  match src with
  | Some src_rows => combine bins (iter_ranges (map snd src_rows) (Some (starts_of bins)) (Some (ends_of bins)) m)
  | None => if keep_empty then map (fun b => (b, [])) bins else []
  end.
Proof. exact source_by_ranges_step. Qed.

(* ... and by_ranges IS that generated iteration over the groups of by_shared_chroms *)
Theorem C07_source_by_ranges : forall (table other : list trow) (m : qmode) (keep_empty : bool),
  by_ranges table other m keep_empty =
  concat (map (py_by_ranges_iter m keep_empty) (by_shared_chroms other table keep_empty)).
Proof. exact source_by_ranges. Qed.
