(* C07 -- range queries return exactly the overlapping / contained / clipped rows.
   Property theorems only; proofs live in Proofs/RangesLib.v, Proofs/Ranges.v,
   Proofs/RangesTables.v, Proofs/Into.v.

   Preconditions, everywhere: the table's rows of one chromosome are sorted by
   start (`sorted_lo`; implied by the property's sort by (start, end), see
   C07_sorted_pre) and are genomic intervals `0 <= lo < hi` (`valid_row`); for
   whole-table queries the query table has each chromosome's rows contiguous
   (`grouped`, true of every sorted table).  Nothing else is assumed about the
   queries (they may repeat, overlap, nest, be unsorted within a chromosome, be
   empty or inverted) nor about the ends of the rows (rows may nest, repeat, abut). *)
From CNV Require Import Base.Prelude Model.Ranges Model.Into Spec.RangeQuery
  Proofs.RangesLib Proofs.Ranges Proofs.RangesTables Proofs.Into.

(* ---- the preconditions are satisfiable: nested, duplicated, abutting rows ------ *)
Example ex_table : list row :=
  [mkRow 0 0 10; mkRow 1 1 2; mkRow 2 1 2; mkRow 3 2 4; mkRow 4 4 9; mkRow 5 5 6].
Example ex_table_pre :
  sorted_lex ex_table /\ sorted_lo ex_table /\ Forall valid_row ex_table /\
  is_monotonic (map r_hi ex_table) = false.
Proof.
  split; [|split; [|split; [|reflexivity]]].
  - unfold sorted_lex, ex_table. repeat constructor; cbn; lia.
  - unfold sorted_lo, ex_table. repeat constructor; cbn; lia.
  - unfold ex_table. repeat constructor; cbn; lia.
Qed.
Example ex_outer :
  iter_ranges ex_table (Some [0; 2; 2; 9]) (Some [2; 5; 5; 12]) QOuter =
  [[mkRow 0 0 10; mkRow 1 1 2; mkRow 2 1 2];
   [mkRow 0 0 10; mkRow 3 2 4; mkRow 4 4 9];
   [mkRow 0 0 10; mkRow 3 2 4; mkRow 4 4 9];
   [mkRow 0 0 10]].
Proof. vm_compute. reflexivity. Qed.

Example ex_source : list trow :=
  map (fun r => ("chr1"%string, r)) ex_table ++ [("chr2"%string, mkRow 6 3 8)].
Example ex_dest : list trow :=
  [("chr1"%string, mkRow 0 0 2); ("chr1"%string, mkRow 1 0 2); ("chr1"%string, mkRow 2 9 12);
   ("chr3"%string, mkRow 3 0 5); ("chr2"%string, mkRow 4 8 9)].
Example ex_tables_pre : table_ok ex_source /\ grouped ex_dest.
Proof.
  split; [|reflexivity].
  intros c. unfold rows_of, of_chrom, ex_source, ex_table. cbn [map app filter fst].
  destruct (String.eqb "chr1" c) eqn:E1; destruct (String.eqb "chr2" c) eqn:E2;
    try (apply String.eqb_eq in E1; apply String.eqb_eq in E2; congruence);
    cbn [map snd]; split; unfold sorted_lo; repeat constructor; cbn; lia.
Qed.
Example ex_by_ranges :
  map (fun x => (r_id (snd (fst x)), map r_id (snd x))) (ga_by_ranges ex_source ex_dest QInner true) =
  [(0, [1; 2]); (1, [1; 2]); (2, []); (3, []); (4, [])].
Proof. vm_compute. reflexivity. Qed.

(* the property's sort order implies the precondition used below *)
Theorem C07_sorted_pre : forall t, sorted_lex t -> sorted_lo t.
Proof. exact sorted_lex_lo. Qed.

(* numpy's (unchecked) binary search is the count of smaller / not-larger
   elements whenever the array is sorted -- the only fact about searchsorted used *)
Theorem C07_searchsorted : forall s arr keys, StronglySorted Z.le arr ->
  searchsorted s arr keys = map (count_side s arr) keys.
Proof. exact searchsorted_sorted. Qed.

(* OUTER: for every query, in query order, exactly the rows sharing at least one
   base with it, in table order -- whichever index path idx_ranges takes *)
Theorem C07_outer : forall t (qs : list (Z * Z)),
  sorted_lo t -> Forall valid_row t -> t <> [] -> qs <> [] ->
  iter_ranges t (Some (map fst qs)) (Some (map snd qs)) QOuter =
  map (fun q => outer_spec (fst q) (snd q) t) qs.
Proof. exact (iter_ranges_spec QOuter). Qed.

(* INNER: exactly the rows wholly contained in the query *)
Theorem C07_inner : forall t (qs : list (Z * Z)),
  sorted_lo t -> Forall valid_row t -> t <> [] -> qs <> [] ->
  iter_ranges t (Some (map fst qs)) (Some (map snd qs)) QInner =
  map (fun q => inner_spec (fst q) (snd q) t) qs.
Proof. exact (iter_ranges_spec QInner). Qed.

(* TRIM: the overlapping rows, clipped to the query *)
Theorem C07_trim : forall t (qs : list (Z * Z)),
  sorted_lo t -> Forall valid_row t -> t <> [] -> qs <> [] ->
  iter_ranges t (Some (map fst qs)) (Some (map snd qs)) QTrim =
  map (fun q => trim_spec (fst q) (snd q) t) qs.
Proof. exact (iter_ranges_spec QTrim). Qed.

(* each path on its own: the binary-search path needs the ends sorted as well
   (that is its path condition), the mask path does not *)
Theorem C07_simple_path : forall im t (qs : list (Z * Z)),
  sorted_lo t -> sorted_hi t -> qs <> [] ->
  map (fun x => apply_sel (fst (fst x)) t)
      (irange_simple t (Some (map fst qs)) (Some (map snd qs)) im) =
  map (fun q => sel_spec im (fst q) (snd q) t) qs.
Proof. exact simple_path_spec. Qed.

Theorem C07_nested_path : forall im t (qs : list (Z * Z)),
  sorted_lo t -> Forall valid_row t ->
  map (fun x => apply_sel (fst (fst x)) t)
      (irange_nested t (map fst qs) (map Some (map snd qs)) im) =
  map (fun q => sel_spec im (fst q) (snd q) t) qs.
Proof. exact nested_path_spec. Qed.

(* the path switch is irrelevant to the result *)
Theorem C07_paths_agree : forall im t (qs : list (Z * Z)),
  sorted_lo t -> sorted_hi t -> Forall valid_row t -> qs <> [] ->
  map (fun x => apply_sel (fst (fst x)) t)
      (irange_simple t (Some (map fst qs)) (Some (map snd qs)) im) =
  map (fun x => apply_sel (fst (fst x)) t)
      (irange_nested t (map fst qs) (map Some (map snd qs)) im).
Proof. exact paths_agree. Qed.

(* QUERIES: GenomicArray.by_ranges yields one (query row, selection) per query row,
   in query order -- also for repeated and overlapping queries --, each selection
   being the spec of its mode on the query's own chromosome; with keep_empty off
   exactly the empty selections are dropped *)
Theorem C07_queries : forall table other m ke,
  table_ok table -> grouped other ->
  ga_by_ranges table other m ke =
  filter (fun x => ke || nonempty_sel x) (answers m table other).
Proof. exact ga_by_ranges_answers. Qed.

(* without the grouping precondition (chromosomes interleaved in the query table) the
   same holds with the queries taken chromosome by chromosome, in order of first
   appearance: the order of pandas' groupby(sort = False) *)
Theorem C07_queries_ungrouped : forall table other m ke,
  table_ok table ->
  ga_by_ranges table other m ke =
  filter (fun x => ke || nonempty_sel x) (answers m table (regroup other)).
Proof. exact ga_by_ranges_regroup. Qed.

(* MISSING CHROMOSOME: a query on a chromosome the table lacks selects nothing (its
   entry is kept iff keep_empty, by C07_queries); a chromosome the queries lack
   contributes nothing: every entry belongs to a query row *)
Theorem C07_missing_chrom : forall table other m ke,
  table_ok table -> grouped other ->
  (forall b sub, In (b, sub) (ga_by_ranges table other m ke) ->
     In b other /\ (has_chrom (fst b) table = false -> sub = [] /\ ke = true)) /\
  (forall b, In b other -> has_chrom (fst b) table = false ->
     ke = true -> In (b, []) (ga_by_ranges table other m ke)).
Proof. exact missing_chrom_spec. Qed.

(* the same selections behind iter_slices, intersection and iter_ranges_of *)
Theorem C07_slices : forall table other im ke,
  table_ok table -> grouped other ->
  iter_slices table other im ke =
  map snd (filter (fun x => ke || nonempty_sel x) (answers (qm_of im) table other)).
Proof. exact iter_slices_answers. Qed.

Theorem C07_intersection : forall table other m,
  table_ok table -> grouped other ->
  intersection table other m = concat (map snd (answers m table other)).
Proof. exact intersection_answers. Qed.

Theorem C07_ranges_of : forall table other m ke,
  table_ok table -> grouped other ->
  iter_ranges_of table other m ke =
  map snd (filter (fun x => ke || nonempty_sel x) (answers m table other)).
Proof. exact iter_ranges_of_answers. Qed.

(* NONE BOUNDS: start = None selects from 0, end = None to the end of the
   chromosome, in every mode, also when rows nest; a chromosome the table lacks
   (empty filter) gives the empty table *)
Theorem C07_none_bounds : forall t chrom qs qe m,
  sorted_lo (chrom_filter chrom t) -> Forall valid_row (chrom_filter chrom t) ->
  in_range t chrom qs qe m = select_spec_opt m qs qe (chrom_filter chrom t).
Proof. exact in_range_spec. Qed.

Theorem C07_in_ranges : forall t chrom (qs : list (Z * Z)) m,
  sorted_lo (chrom_filter chrom t) -> Forall valid_row (chrom_filter chrom t) -> qs <> [] ->
  in_ranges t chrom (Some (map fst qs)) (Some (map snd qs)) m =
  Some (concat (map (fun q => select_spec m (fst q) (snd q) (chrom_filter chrom t)) qs)).
Proof. exact in_ranges_spec. Qed.

(* INTO: one value per query row, in query order: the default where nothing
   overlaps, the value itself for a single hit, otherwise the summary of the
   overlapping rows' values (in table order) -- for any supplied function F *)
Theorem C07_into : forall (V : Type) (source dest : list trow) (col : Z -> V) default (F : list V -> V),
  dest <> [] -> table_ok source -> grouped dest ->
  into_ranges source dest col default (fun h => Some (F (map snd h))) =
  Some (map (fun b => Some (summary_spec default F (map snd (hits_of source col b)))) dest).
Proof. exact @into_ranges_summary. Qed.

(* the default summaries: strings -> the distinct strings, in order of first appearance,
   joined by ","; floats -> the median of the values that are not NaN (NaN when there
   is none) *)
Theorem C07_into_strings : forall hits,
  join_strings hits = Some (String.concat "," (unique_scan (map snd hits))) /\
  is_distinct_of (unique_scan (map snd hits)) (map snd hits).
Proof. exact into_strings_spec. Qed.

Theorem C07_into_median : forall hits,
  nanmedian hits = Some (medianQ (somes (map snd hits))) /\
  (forall m, medianQ (somes (map snd hits)) = Some m -> is_median m (somes (map snd hits))) /\
  (medianQ (somes (map snd hits)) = None <-> somes (map snd hits) = []).
Proof. exact into_median_spec. Qed.

(* the type default for other columns (integers): first_of, the first overlapping
   row's value by position *)
Theorem C07_into_first : forall (V : Type) (hits : list (Z * V)),
  first_of hits = option_map snd (hd_error hits).
Proof. exact @first_of_spec. Qed.
