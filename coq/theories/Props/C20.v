(* C20 -- exports state exactly the calls they were given.
   Property theorems only; proofs live in Proofs/Export*.v.  The model (Model/Export.v)
   mirrors cnvlib/export.py column-wise; the statements below are row-wise, with the
   literal strings and numbers of the property text and the class table of Spec/Call.v
   (reference / expected copies per chromosome class, reference sex, sample sex, PAR).
   A segment carries e = 2^log2 (s_e), supplied as in C01; with a cn column it is unused.

   Hypotheses shared by the BED / VCF theorems: the table is consistently named in style
   st (first row "chr"-prefixed iff X is called chrX) and the PAR build is absent or one
   of grch37 / grch38 (any letter case). *)
From Coq Require Import Qabs.
From CNV Require Import Base.Prelude Base.Str Model.Decimal.
From CNV Require Import Model.Call Spec.Call Proofs.Call Model.Export Spec.Export.
From CNV Require Import Proofs.ExportBed Proofs.ExportSeg Proofs.ExportMatrix Proofs.ExportLabel.
From CNV Require Import Proofs.ExportRound Proofs.ExportCi Proofs.ExportText Proofs.ExportOgt Proofs.ExportTheta
  Proofs.FnExport Proofs.FnExportVcf.
From CNV Require Import Model.Ranges Spec.RangeQuery.
From CNV Require Model.Formats Model.Vcf Model.VBaf Gen.FnCall Gen.ExportDefaults Gen.FnExportVcf.

Local Open Scope Z_scope.

(* ------------------------------------------------------------------ BED *)

(* show = all: every segment, in order, with 0-based start, end, label and integer copy number *)
Theorem C20_bed_all :
  forall st c rows,
    consistent st (seg_first rows) -> build_ok (c_build c) -> forall label,
    export_bed c label "all" rows
    = Some (sp_bed st (lower_build (c_build c)) (c_k c) (c_hapx c) (c_female c) (c_has_cn c) label (fun _ => true) rows).
Proof. exact bed_all. Qed.

(* show = ploidy: exactly the segments whose copy number differs from the ploidy *)
Theorem C20_bed_ploidy :
  forall st c rows,
    consistent st (seg_first rows) -> build_ok (c_build c) -> forall label,
    export_bed c label "ploidy" rows
    = Some (sp_bed st (lower_build (c_build c)) (c_k c) (c_hapx c) (c_female c) (c_has_cn c) label
                   (sp_off_ploidy st (lower_build (c_build c)) (c_k c) (c_hapx c) (c_female c) (c_has_cn c)) rows).
Proof. exact bed_ploidy. Qed.

(* show = variant: exactly those differing from the copies expected for their chromosome
   class and the sample's sex *)
Theorem C20_bed_variant :
  forall st c rows,
    consistent st (seg_first rows) -> build_ok (c_build c) -> forall label,
    export_bed c label "variant" rows
    = Some (sp_bed st (lower_build (c_build c)) (c_k c) (c_hapx c) (c_female c) (c_has_cn c) label
                   (sp_variant st (lower_build (c_build c)) (c_k c) (c_hapx c) (c_female c) (c_has_cn c)) rows).
Proof. exact bed_variant. Qed.

(* without a cn column the copy number is THE integer nearest to r * 2^log2 (r the reference
   copies of the property's class table), the even one on an exact tie: `half_even n x` is
   |n - x| <= 1/2 together with (|n - x| = 1/2 -> n even)
   [strengthened: the statement used to be `nearest` alone] *)
Theorem C20_ncopies_nearest :
  forall st c s,
    c_has_cn c = false ->
    half_even (sp_ncopies st (lower_build (c_build c)) (c_k c) (c_hapx c) (c_female c) (c_has_cn c) s)
              (inject_Z (sp_reference st (lower_build (c_build c)) (c_k c) (c_hapx c) (c_female c) s) * s_e s).
Proof. exact ncopies_half_even_cfg. Qed.

(* that rule determines the integer, and it is numpy's round (round half to even), the
   model's round_he *)
Theorem C20_round_half_even : forall n x, half_even n x <-> n = round_he x.
Proof. exact half_even_iff. Qed.

(* so the ncopies column the exports compute is, row by row and exactly, round_he (r * 2^log2) *)
Theorem C20_ncopies_round_he :
  forall st c rows,
    consistent st (seg_first rows) -> build_ok (c_build c) -> c_has_cn c = false ->
    ncopies_col c (seg_first rows) rows
    = map (fun s => round_he (inject_Z (sp_reference st (lower_build (c_build c)) (c_k c) (c_hapx c) (c_female c) s) * s_e s)) rows.
Proof. exact ncopies_col_round_he. Qed.

(* source tie: the value that is rounded is the body of call._log2_ratio_to_absolute as
   translated from the Python source (Gen/FnCall.v), at the exports' purity literal 1.0,
   for every exp2 supplying the segment's ratio *)
Theorem C20_source_ncopies :
  forall (exp2 : Q -> Q) s r x,
    (s_e s == exp2 (s_v s))%Q ->
    round_he (Gen.FnCall.fn_log2_ratio_to_absolute exp2 (s_v s) r x (Some 1%Q)) = round_he (absolute_one s r x).
Proof. exact fn_export_ncopies. Qed.

(* ------------------------------------------------------------------ VCF *)

(* whatever CI columns are attached: the records are, in order, one per segment whose copy
   number differs from the expected one (and whose probe count prints as digits) and no
   others, each with the fields of the property: POS = start (1 where 0), END, DEL iff below /
   DUP iff above, ALT, SVLEN = +-(end - start), FORMAT and the sample field (CN for gains) *)
Theorem C20_vcf_fields :
  forall st c rows,
    consistent st (seg_first rows) -> build_ok (c_build c) -> forall ci recs,
    segments2vcf c rows ci = VcfOk recs ->
    Forall2 (vcf_fields st (lower_build (c_build c)) (c_k c) (c_hapx c) (c_female c) (c_has_cn c))
            (sp_vcf_rows st (lower_build (c_build c)) (c_k c) (c_hapx c) (c_female c) (c_has_cn c) rows) recs.
Proof. exact vcf_spec. Qed.

(* hence the records name exactly those segments, one each, in table order *)
Theorem C20_vcf_rows :
  forall st c rows,
    consistent st (seg_first rows) -> build_ok (c_build c) -> forall ci recs,
    segments2vcf c rows ci = VcfOk recs ->
    map (fun r => (v_chrom r, v_end r)) recs
    = map (fun s => (s_chrom s, s_hi s))
          (sp_vcf_rows st (lower_build (c_build c)) (c_k c) (c_hapx c) (c_female c) (c_has_cn c) rows).
Proof. exact vcf_rows_keys. Qed.

(* and when every probe count is numeric they are the segments of BED's `variant` listing *)
Theorem C20_vcf_matches_bed :
  forall st c rows,
    consistent st (seg_first rows) -> build_ok (c_build c) -> forall ci recs label bed,
    Forall (fun s => sp_numeric s = true) rows ->
    segments2vcf c rows ci = VcfOk recs -> export_bed c label "variant" rows = Some bed ->
    map (fun r => (v_chrom r, v_end r)) recs = map (fun b : bed_row => let '(ch, _, hi, _, _) := b in (ch, hi)) bed.
Proof. exact vcf_matches_bed. Qed.

(* the export succeeds when no .cnr is attached *)
Theorem C20_vcf_total :
  forall st c rows,
    consistent st (seg_first rows) -> build_ok (c_build c) -> exists recs, segments2vcf c rows None = VcfOk recs.
Proof. exact vcf_total. Qed.

(* ------------------------------------------------------------------ CIPOS / CIEND *)

(* assign_ci_start_end, against the range-query specification of C07: for every segment, in
   table order, the end of the first and the start of the last of the .cnr bins that share a
   base with it on its own chromosome (`outer_spec`), (None, None) = (nan, nan) when there is
   no such bin.  Preconditions as in C07: the .cnr sorted by start within each chromosome with
   proper intervals (table_ok), the segments' chromosomes contiguous (grouped). *)
Theorem C20_vcf_ci_bins :
  forall bins rows,
    table_ok (to_trows 0 bins) -> grouped (to_trows 0 (map seg_region rows)) ->
    assign_ci bins rows
    = map (fun s => match outer_spec (s_lo s) (s_hi s) (rows_of (s_chrom s) (to_trows 0 bins)) with
                    | [] => (None, None)
                    | b :: t => (Some (r_hi b), Some (r_lo (last t b)))
                    end) rows.
Proof. exact assign_ci_answers. Qed.

(* with a .cnr: the record of the i-th segment carries CIPOS = (-(right margin of row i-1), left
   margin of row i) and CIEND = (right margin of row i, left margin of row i+1), 0 at the table's
   ends, where the left margin is (end of the segment's first bin) - start and the right margin
   end - (start of its last bin); a segment without bins has missing margins (sp_ci) *)
Theorem C20_vcf_ci :
  forall st c rows,
    consistent st (seg_first rows) -> build_ok (c_build c) -> forall sid tid bins recs,
    bins <> [] -> table_ok (to_trows 0 bins) -> grouped (to_trows 0 (map seg_region rows)) ->
    snd (export_vcf c sid tid rows (Some bins)) = VcfOk recs ->
    map v_ci recs
    = map (fun i => Some (sp_ci bins rows i))
          (filter (fun i => sp_variant st (lower_build (c_build c)) (c_k c) (c_hapx c) (c_female c) (c_has_cn c)
                                       (nth i rows dflt_seg)
                            && sp_numeric (nth i rows dflt_seg))
                  (seq 0 (length rows))).
Proof. exact vcf_ci_spec. Qed.

(* the records carry CIPOS / CIEND iff a non-empty .cnr is given -- for every table and configuration *)
Theorem C20_vcf_ci_iff :
  forall c sid tid rows bins recs,
    snd (export_vcf c sid tid rows bins) = VcfOk recs ->
    Forall (fun r => (exists q, v_ci r = Some q) <-> cnr_given bins = true) recs.
Proof. exact vcf_ci_iff. Qed.

(* ------------------------------------------------------------------ VCF text *)

(* the header: the fixed VCFv4.2 lines; only the date and the version vary *)
Theorem C20_vcf_text_header :
  forall date version,
    vcf_header_lines date version =
    ["##fileformat=VCFv4.2";
     "##fileDate=" ++ date;
     "##source=CNVkit v" ++ version;
     "##INFO=<ID=CIEND,Number=2,Type=Integer,Description=""Confidence interval around END for imprecise variants"">";
     "##INFO=<ID=CIPOS,Number=2,Type=Integer,Description=""Confidence interval around POS for imprecise variants"">";
     "##INFO=<ID=END,Number=1,Type=Integer,Description=""End position of the variant described in this record"">";
     "##INFO=<ID=IMPRECISE,Number=0,Type=Flag,Description=""Imprecise structural variation"">";
     "##INFO=<ID=SVLEN,Number=1,Type=Integer,Description=""Difference in length between REF and ALT alleles"">";
     "##INFO=<ID=SVTYPE,Number=1,Type=String,Description=""Type of structural variant"">";
     "##INFO=<ID=FOLD_CHANGE,Number=1,Type=Float,Description=""Fold change"">";
     "##INFO=<ID=FOLD_CHANGE_LOG,Number=1,Type=Float,Description=""Log fold change"">";
     "##INFO=<ID=PROBES,Number=1,Type=Integer,Description=""Number of probes in CNV"">";
     "##ALT=<ID=DEL,Description=""Deletion"">";
     "##ALT=<ID=DUP,Description=""Duplication"">";
     "##ALT=<ID=CNV,Description=""Copy number variable region"">";
     "##FORMAT=<ID=GT,Number=1,Type=String,Description=""Genotype"">";
     "##FORMAT=<ID=GQ,Number=1,Type=Float,Description=""Genotype quality"">";
     "##FORMAT=<ID=CN,Number=1,Type=Integer,Description=""Copy number genotype for imprecise events"">";
     "##FORMAT=<ID=CNQ,Number=1,Type=Float,Description=""Copy number genotype quality for imprecise events"">"]%string.
Proof. exact vcf_header_spec. Qed.

(* the column line: the nine fixed VCF columns, then the given sample id (the table's when none
   / an empty one is given), tab-separated *)
Theorem C20_vcf_text_columns :
  forall c sample_id table_id rows bins toks body,
    export_vcf_text c sample_id table_id rows bins toks = TextOk body ->
    hd_error body = Some (sp_vcf_column_line (match sample_id with
                                               | Some s => if String.eqb s "" then table_id else s
                                               | None => table_id
                                               end)).
Proof. exact vcf_text_columns. Qed.

(* every record line: chrom, POS, ".", "N", <SVTYPE>, ".", ".", INFO, FORMAT, sample joined by tabs,
   INFO = IMPRECISE;SVTYPE=..;END=..;SVLEN=..;FOLD_CHANGE=..;FOLD_CHANGE_LOG=..;PROBES=..[;CIPOS=..;CIEND=..]
   (tok = the two float texts, cit = the CI texts when there are any) *)
Theorem C20_vcf_text_line :
  forall c rows ci recs,
    segments2vcf c rows ci = VcfOk recs ->
    forall r, In r recs -> forall tok cit, vcf_line r tok cit = sp_vcf_line r tok cit.
Proof. exact vcf_text_line. Qed.

(* the CI texts when every segment of the table has a bin: CIPOS=(a,b) / CIEND=(c,d) with the
   margins of C20_vcf_ci printed as integers *)
Theorem C20_vcf_text_ci :
  forall st c rows,
    consistent st (seg_first rows) -> build_ok (c_build c) -> forall bins,
    bins <> [] -> rows <> [] ->
    table_ok (to_trows 0 bins) -> grouped (to_trows 0 (map seg_region rows)) ->
    Forall (fun s => sp_bins_in bins s <> []) rows ->
    vcf_ci_texts c rows (vcf_ci_source (Some bins) rows)
    = map (fun i => Some (sp_ci_text (sp_ci bins rows i)))
          (filter (fun i => sp_variant st (lower_build (c_build c)) (c_k c) (c_hapx c) (c_female c) (c_has_cn c)
                                       (nth i rows dflt_seg)
                            && sp_numeric (nth i rows dflt_seg))
                  (seq 0 (length rows))).
Proof. exact vcf_ci_texts_spec. Qed.

(* ------------------------------------------------------------------ SEG *)

(* every sample's segments under its id, 1-based starts, ends, probes, means, in order;
   chromosome names kept by default / chrom_ids=False, enumerated (1-based position among
   the first sample's distinct names) for chrom_ids None / True *)
Theorem C20_seg :
  forall samples, samples <> [] -> export_seg None samples = Some (sp_seg_rows false samples).
Proof. exact export_seg_default. Qed.

Theorem C20_seg_ids :
  forall arg samples, samples <> [] -> export_seg (Some arg) samples = Some (sp_seg_rows (enumerates arg) samples).
Proof. exact export_seg_arg. Qed.

(* the text of these rows is the SEG writer of the format model (C08: write-then-read is lossless) *)
Theorem C20_seg_text :
  forall show sid rows,
    map (seg_out_line show) (format_seg [] sid rows) = Formats.write_seg_rows sid (map (to_format_row show) rows).
Proof. exact seg_text_is_formats_writer. Qed.

(* ------------------------------------------------------------------ CDT / JTV / nexus *)

(* merge_samples succeeds exactly when the samples' bins carry the same labels and the ids
   are distinct (and none collides with a table column); the merged table then has one row
   per bin with its label and each sample's log2 in its own column, sample order kept *)
Theorem C20_matrix :
  forall samples, samples <> [] -> sp_same_bins samples -> sp_ids_ok samples ->
    merge_samples samples = MergeOk (merged_of samples) /\
    map fst (m_cols (merged_of samples)) = map fst samples /\
    merged_rows (merged_of samples) = sp_matrix samples.
Proof. exact matrix_ok. Qed.

Theorem C20_matrix_refuses :
  forall samples, ~ (sp_same_bins samples /\ sp_ids_ok samples) -> forall m, merge_samples samples <> MergeOk m.
Proof. exact merge_samples_refuses. Qed.

(* same labels = same bins (chromosome, start, end, gene), for names without ':' *)
Theorem C20_matrix_labels :
  forall l1 l2, Forall bin_ok l1 -> Forall bin_ok l2 ->
    map sp_label l1 = map sp_label l2 -> map bin_key l1 = map bin_key l2.
Proof. exact labels_injective. Qed.

Theorem C20_cdt :
  forall ids m,
    fmt_cdt ids m =
    ((["GID"; "CLID"; "NAME"; "GWEIGHT"]%string ++ ids),
     ((["AID"; ""; ""; ""]%string
       ++ map (fun i => ("ARRY" ++ zfill 3 (print_Z (Z.of_nat i)) ++ "X")%string) (seq 0 (length ids))),
      (["EWEIGHT"; ""; ""; ""]%string ++ map (fun _ => "1"%string) ids)),
     map (fun p : nat * (string * list Q) => sp_cdt_row (fst p) (snd p))
         (combine (seq 0 (length (merged_rows m))) (merged_rows m))).
Proof. exact fmt_cdt_spec. Qed.

Theorem C20_jtv :
  forall ids m,
    fmt_jtv ids m = ((["CloneID"; "Name"]%string ++ ids),
                     map (fun r : string * list Q => ("IMAGE:"%string, fst r, snd r)) (merged_rows m)).
Proof. exact fmt_jtv_spec. Qed.

Theorem C20_nexus_basic : forall bins, export_nexus_basic bins = map sp_nexus_row bins.
Proof. exact nexus_spec. Qed.

(* ------------------------------------------------------------------ nexus-ogt *)

(* one row per bin that passes the weight threshold (dropped iff a threshold is given, the table
   has weights and the bin's weight is a number below it), in order: chromosome, start (0-based,
   as in the table), end, log2 and the bin's OWN B-allele frequency -- C18's per-range summary
   (C18_baf) of the heterozygous variants sharing a base with the bin, majority direction *)
Theorem C20_nexus_ogt :
  forall paired vrows mw hw bins,
    filter (sp_ogt_keeps mw hw) bins <> [] ->
    export_nexus_ogt paired vrows mw hw bins
    = Some (map (fun b => (o_chrom b, o_lo b, o_hi b, o_v b,
                           VBaf.series2value None (VBaf.hits_of (VBaf.heterozygous vrows) (o_chrom b, o_lo b, o_hi b))))
                (filter (sp_ogt_keeps mw hw) bins)).
Proof. exact nexus_ogt_spec. Qed.

(* the row set and the coordinates, for every outcome *)
Theorem C20_nexus_ogt_rows :
  forall paired vrows mw hw bins out,
    export_nexus_ogt paired vrows mw hw bins = Some out ->
    map (fun r : ogt_row => fst r) out
    = map (fun b => (o_chrom b, o_lo b, o_hi b, o_v b)) (filter (sp_ogt_keeps mw hw) bins).
Proof. exact nexus_ogt_rows. Qed.

(* threshold 0 (the default) or no weight column: every bin is listed *)
Theorem C20_nexus_ogt_all :
  forall mw hw bins, (mw == 0)%Q \/ hw = false -> filter (sp_ogt_keeps mw hw) bins = bins.
Proof. exact ogt_keeps_all. Qed.

(* ------------------------------------------------------------------ THetA *)

(* the autosome test is the regular expression the code holds, read as: an integer name with an
   optional "chr" prefix *)
Theorem C20_theta_autosome_name :
  Gen.ExportDefaults.theta_autosome_pattern = "(chr)?\d+$"%string /\ forall s, is_auto_name s = sp_is_auto s.
Proof. exact theta_autosome_name. Qed.

(* without a normal / reference (None or an empty table): one row per autosomal segment (the whole
   table when no chromosome has an integer name), in order, with #ID start_<chrm>_<start>:end_<chrm>_<end>,
   chrm = 1-based rank of the chromosome's first appearance, the 0-based start and the end as in
   the table; tumorCount = round(nbins * 200 * (2^log2 * 500) / 100), normalCount the same at ratio 1 *)
Theorem C20_theta_rows :
  forall hp hw rows normal en,
    rows <> [] -> normal = None \/ normal = Some [] ->
    exists out,
      export_theta hp hw rows normal en = ThetaOk out /\
      map row_key out = map (sp_theta_key (sp_theta_kept rows)) (sp_theta_kept rows) /\
      map row_counts out
      = combine (map2 (fun s nb => round_he (sp_theta_value (t_e s) nb)) (sp_theta_kept rows)
                      (theta_nbins hp hw (sp_theta_kept rows)))
                (map (fun nb => round_he (sp_theta_value 1 nb)) (theta_nbins hp hw (sp_theta_kept rows))).
Proof. exact theta_plain. Qed.

(* the bin counts used there are the specification's (sp_theta_nbins), up to ==; m is the largest weight *)
Theorem C20_theta_nbins :
  forall hp hw segs,
    Forall2 Qeq (theta_nbins hp hw segs) (sp_theta_nbins hp hw (qmaxl (map t_weight segs)) segs).
Proof. exact theta_nbins_spec. Qed.

Theorem C20_theta_max :
  forall l, l <> [] -> In (qmaxl l) l /\ Forall (fun x => (x <= qmaxl l)%Q) l.
Proof. exact qmaxl_spec. Qed.

(* with a normal / reference and a probes column: the same rows; tumorCount from the probe count,
   normalCount from the probe count and 2^(reference mean) (en, supplied per kept segment), 0 for a
   segment none of the normal's autosomal bins overlaps *)
Theorem C20_theta_normal :
  forall hw rows nb en,
    rows <> [] -> nb <> [] -> length en = length (sp_theta_kept rows) ->
    table_ok (to_trows 0 (map nb_region (sp_theta_normal nb))) ->
    grouped (to_trows 0 (map tseg_region (sp_theta_kept rows))) ->
    exists out,
      export_theta true hw rows (Some nb) en = ThetaOk out /\
      map row_key out = map (sp_theta_key (sp_theta_kept rows)) (sp_theta_kept rows) /\
      map row_counts out
      = map2 (fun s e => (round_he (sp_theta_value (t_e s) (inject_Z (t_probes s))),
                          match sp_normal_log2 (sp_theta_normal nb) s with
                          | [] => 0
                          | _ => round_he (sp_theta_value e (inject_Z (t_probes s)))
                          end))
             (sp_theta_kept rows) en.
Proof. exact theta_with_normal. Qed.

(* the reference mean of a segment: the mean of the log2 of the normal's bins sharing a base with
   it on its chromosome (C07 outer selection), missing when there is none *)
Theorem C20_theta_ref_means :
  forall normal segs,
    table_ok (to_trows 0 (map nb_region normal)) -> grouped (to_trows 0 (map tseg_region segs)) ->
    theta_ref_means normal segs
    = map (fun s => match sp_normal_log2 normal s with [] => None | l => Some (qmean l) end) segs
    /\ forall l, (qmean l == sp_mean l)%Q.
Proof. exact theta_ref_means_full. Qed.

(* ------------------------------------------------------------------ examples *)

Definition ex_cfg : cfg := mkCfg 2 true false (Some "grch37"%string) false.
Definition ex_rows : list seg :=
  [mkSeg "chr1" 0 100 "A" 1 2 0 (Some 3);
   mkSeg "chrX" 100000 200000 "P" 0 1 0 (Some 2);      (* PAR1 of X: reference and expected copies 2 *)
   mkSeg "chrX" 3000000 3100000 "G" (-1) (1 # 2) 0 (Some 7);
   mkSeg "chrY" 100000 200000 "Q" 0 1 0 (Some 2)]%string.

(* hypotheses are satisfiable *)
Example C20_ex_hyps : consistent ChrStyle (seg_first ex_rows) /\ build_ok (c_build ex_cfg).
Proof. split; [reflexivity | left; reflexivity]. Qed.

(* the repaired defect (export_bed ignored the PAR build): PAR rows with log2 0 are neutral,
   BED `variant` and VCF name the same two segments *)
Example C20_ex_variant :
  export_bed ex_cfg None "variant" ex_rows
  = Some [("chr1", 0, 100, "A", 4); ("chrX", 3000000, 3100000, "G", 0)]%string.
Proof. vm_compute. reflexivity. Qed.

Example C20_ex_vcf :
  match segments2vcf ex_cfg ex_rows None with
  | VcfOk [r1; r2] =>
      (v_pos r1, v_svtype r1, v_svlen r1, v_sample r1) = (1, "DUP", 100, "0/1:0:4:3")%string /\
      (v_pos r2, v_svtype r2, v_svlen r2, v_sample r2) = (3000000, "DEL", -100000, "1/1:7")%string
  | _ => False
  end.
Proof. vm_compute. split; reflexivity. Qed.

Example C20_ex_seg :
  export_seg (Some IdsTrue) [("S1", [mkSeg "chr2" 0 10 "-" 1 2 0 (Some 4); mkSeg "chr1" 5 9 "-" 0 1 0 None])]%string
  = Some [("S1", "1", 1, 10, Some 4, 1%Q); ("S1", "2", 6, 9, None, 0%Q)]%string.
Proof. vm_compute. reflexivity. Qed.

Example C20_ex_matrix :
  let a := [mkBin "chr1" 0 10 "g" 1; mkBin "chr1" 10 20 "-" 2]%string in
  let b := [mkBin "chr1" 0 10 "g" 3; mkBin "chr1" 10 20 "-" 4]%string in
  sp_same_bins [("s1", a); ("s2", b)]%string /\
  sp_matrix [("s1", a); ("s2", b)]%string = [("chr1:0-10:g", [1; 3]%Q); ("chr1:10-20:-", [2; 4]%Q)]%string /\
  merge_samples [("s1", a); ("s1", b)]%string = MergeDuplicate "s1" /\
  merge_samples [("s1", a); ("s2", [mkBin "chr1" 0 11 "g" 3])]%string = MergeMismatch 1.
Proof. vm_compute. repeat split; try reflexivity. constructor; [reflexivity | constructor]. Qed.

(* CIPOS / CIEND: the preconditions of C20_vcf_ci are satisfiable; the margins of a small table
   (the first segment of chr2 inherits -80 from the last segment of chr1: rows, not chromosomes) *)
Definition ex_ci_rows : list seg :=
  [mkSeg "chr1" 0 100 "-" 1 2 3 (Some 5); mkSeg "chr1" 100 200 "-" 0 1 2 (Some 4); mkSeg "chr2" 0 50 "-" 1 2 4 (Some 2)]%string.
Definition ex_ci_bins : list (string * Z * Z) := [("chr1", 0, 100); ("chr1", 120, 200); ("chr2", 10, 20)]%string.

Example C20_ex_ci_pre : table_ok (to_trows 0 ex_ci_bins) /\ grouped (to_trows 0 (map seg_region ex_ci_rows)).
Proof.
  split; [|reflexivity].
  intros c. unfold rows_of, of_chrom, ex_ci_bins. cbn [to_trows map filter fst].
  destruct (String.eqb "chr1" c) eqn:E1; destruct (String.eqb "chr2" c) eqn:E2;
    try (apply String.eqb_eq in E1; apply String.eqb_eq in E2; congruence);
    cbn [map snd]; split; unfold sorted_lo; repeat constructor; cbn; lia.
Qed.

Example C20_ex_ci :
  map (sp_ci ex_ci_bins ex_ci_rows) [0; 1; 2]%nat
  = [((Some 0, Some 100), (Some 100, Some 100)); ((Some (-100), Some 100), (Some 80, Some 20));
     ((Some (-80), Some 20), (Some 40, Some 0))] /\
  map sp_ci_text (map (sp_ci ex_ci_bins ex_ci_rows) [1]%nat) = [("CIPOS=(-100,100)", "CIEND=(80,20)")]%string /\
  assign_ci ex_ci_bins ex_ci_rows = [(Some 100, Some 0); (Some 200, Some 120); (Some 20, Some 10)].
Proof. vm_compute. repeat split; reflexivity. Qed.

(* a record line of the text layer *)
Example C20_ex_text :
  export_vcf_text ex_cfg (Some "S1"%string) "tbl" [mkSeg "chr1" 0 100 "A" 1 2 0 (Some 3)]%string None [("2.0", "1.0")]%string
  = TextOk [sp_vcf_column_line "S1";
            ("chr1" ++ sp_tab ++ "1" ++ sp_tab ++ "." ++ sp_tab ++ "N" ++ sp_tab ++ "<DUP>" ++ sp_tab ++ "." ++ sp_tab ++ "."
             ++ sp_tab ++ "IMPRECISE;SVTYPE=DUP;END=100;SVLEN=100;FOLD_CHANGE=2.0;FOLD_CHANGE_LOG=1.0;PROBES=3"
             ++ sp_tab ++ "GT:GQ:CN:CNQ" ++ sp_tab ++ "0/1:0:4:3")%string].
Proof. vm_compute. reflexivity. Qed.

(* nexus-ogt: the bin below the threshold is dropped (the canonical input of the repaired
   defect, here without variants) *)
Example C20_ex_ogt :
  export_nexus_ogt false [] (1 # 2) true [mkObin "chr1" 0 100 0 (Some (1 # 10)); mkObin "chr1" 100 200 0 (Some 1%Q)]%string
  = Some [("chr1", 100, 200, 0%Q, Vcf.XNaN)]%string.
Proof. vm_compute. reflexivity. Qed.

(* THetA: sex chromosomes dropped, chrm = rank of first appearance, 62.5 rounds to 62 (even);
   with a normal but no probes column the export fails *)
Example C20_ex_theta :
  export_theta true false [mkTseg "chr3" 0 100 (1 # 16) 1 1; mkTseg "chr1" 300 400 1 3 1; mkTseg "chrX" 0 1000 1 7 1]%string None []
  = ThetaOk [("start_1_0:end_1_100", 1, 0, 100, 62, 1000); ("start_2_300:end_2_400", 2, 300, 400, 3000, 3000)]%string /\
  export_theta false false [mkTseg "chr3" 0 100 1 1 1]%string (Some [("chr3", 0, 50, 0%Q)]%string) [1%Q] = ThetaAttr.
Proof. vm_compute. split; reflexivity. Qed.

(* ---- source ties of segments2vcf: the per-row columns and ONE ITERATION of the record loop, translated
   from the Python source on every run (Gen/FnExportVcf.v) *)

(* out_dframe["start"] = segments.start.replace(0, 1) *)
Theorem C20_source_vcf_start : forall lo, Gen.FnExportVcf.fn_vcf_start lo = vcf_pos lo.
Proof. exact source_vcf_start. Qed.

(* idx_losses, svlen (negated on losses), svtype (DUP / DEL) and format (GT:GQ:CN:CNQ / GT:GQ), per row *)
Theorem C20_source_vcf_columns : forall n x lo hi,
  Gen.FnExportVcf.fn_vcf_columns n x lo hi
  = let l := n <? x in
    (l, (let d := hi - lo in if l then d * Gen.ExportDefaults.svlen_loss_sign else d),
     (if l then Gen.ExportDefaults.svtype_loss else Gen.ExportDefaults.svtype_gain),
     (if l then Gen.ExportDefaults.format_loss else Gen.ExportDefaults.format_gain)).
Proof. exact source_vcf_columns. Qed.

(* one iteration of the record loop: a row is skipped iff its copy number is the expected one or its
   probes are not a non-negative integer; otherwise it yields exactly the ten fields vcf_line joins
   (the record vcf_one + the INFO text), for every CI text and every float text *)
Theorem C20_source_vcf_step :
  forall (s : seg) (n x p svlen : Z) (q : option ciquad) (tok : string * string)
         (has_ci : bool) (a1 a2 b1 b2 : string),
  let loss := n <? x in
  let r := vcf_one s n x loss svlen q p in
  Gen.FnExportVcf.fn_vcf_step (s_chrom s) (vcf_pos (s_lo s)) (s_hi s) n x p (v_svtype r) svlen (v_format r)
              (fst tok) (snd tok) has_ci a1 a2 b1 b2
  = if (n =? x) || negb (0 <=? p) then [] else [vcf_line_fields r tok (ci_texts has_ci a1 a2 b1 b2)].
Proof. exact source_vcf_step. Qed.

(* ... and the model's loop is those iterations one after the other *)
Theorem C20_source_vcf_loop : forall rows nc ex svlen cis,
  vcf_loop rows nc ex (map2 (fun n x => n <? x) nc ex) svlen cis = gen_vcf rows nc ex svlen cis.
Proof. exact source_vcf_loop. Qed.

(* ---- source tie of theta_read_counts, per element (Gen/FnExportTheta.v, regenerated from the Python source on every
   run): with the source's defaults it is the model's theta_count on a finite ratio, 0 on a missing one *)
From CNV Require Gen.FnExportTheta Proofs.FnExportTheta.
Theorem C20_source_theta_count : forall (exp2 : Q -> Q) v nb,
  Gen.FnExportTheta.fn_theta_count exp2 (Some v) nb Gen.ExportDefaults.theta_depth Gen.ExportDefaults.theta_bin_width
                                   Gen.ExportDefaults.theta_read_len
  = theta_count (exp2 v) nb.
Proof. exact Proofs.FnExportTheta.source_theta_count. Qed.

Theorem C20_source_theta_count_nan : forall (exp2 : Q -> Q) nb d w l,
  Gen.FnExportTheta.fn_theta_count exp2 None nb d w l = Gen.ExportDefaults.theta_nan_count.
Proof. exact Proofs.FnExportTheta.source_theta_count_nan. Qed.

(* ---- source tie of export_bed's dispatch on "show" (Gen/FnExportBedShow.v fn_bed_keep, regenerated from the Python source
   on every run: the statements "if show == 'ploidy': out = out[out['ncopies'] != ploidy] elif show == 'variant': ...
   out = out[out['ncopies'] != exp_copies]" read per row as "the row stays in out"): per row it is the mask the model's
   export_bed selects by *)
From CNV Require Gen.FnExportBedShow Proofs.FnExportBedShow Gen.FnExportOgtMask Proofs.FnExportOgtMask.

Theorem C20_source_bed_show : forall (shw : string) (n k x : Z),
  Gen.FnExportBedShow.fn_bed_keep shw n k x
  = match show_of shw with
    | ShowPloidy => negb (n =? k)
    | ShowVariant => negb (n =? x)
    | ShowOther => true
    end.
Proof. exact Proofs.FnExportBedShow.source_bed_show. Qed.

Theorem C20_source_bed_show_ploidy_mask : forall (shw : string) (k : Z) (nc : list Z),
  show_of shw = ShowPloidy ->
  map (fun n => negb (n =? k)) nc = map (fun n => Gen.FnExportBedShow.fn_bed_keep shw n k 0) nc.
Proof. exact Proofs.FnExportBedShow.source_bed_show_ploidy_mask. Qed.

(* ---- source tie of export_nexus_ogt's low-weight filter (Gen/FnExportOgtMask.v fn_ogt_keep, regenerated from the Python
   source on every run: "if min_weight and 'weight' in cnarr: mask_low_weight = cnarr['weight'] < min_weight; cnarr =
   cnarr[~mask_low_weight]" read per row as "the bin stays in cnarr"): the model's ogt_kept keeps exactly the bins whose
   generated bit is on *)
Theorem C20_source_ogt_keep : forall (min_weight : Q) (has_weight : bool) (b : obin),
  Gen.FnExportOgtMask.fn_ogt_keep min_weight has_weight (o_w b)
  = if negb (Qeq_bool min_weight 0) && has_weight then negb (ogt_low min_weight b) else true.
Proof. exact Proofs.FnExportOgtMask.source_ogt_keep. Qed.

Theorem C20_source_ogt_kept : forall (min_weight : Q) (has_weight : bool) (bins : list obin),
  ogt_kept min_weight has_weight bins
  = filter (fun b => Gen.FnExportOgtMask.fn_ogt_keep min_weight has_weight (o_w b)) bins.
Proof. exact Proofs.FnExportOgtMask.source_ogt_kept. Qed.

(* ---- source tie of export_theta's row identifier (Gen/FnExportThetaId.v fn_theta_id, regenerated from the Python source on
   every run: the statement "table['#ID'] = [f'start_{row.chrm}_{row.start}:end_{row.chrm}_{row.end}' for row in
   table.itertuples(index=False)]" read per row): it is the model's theta_id, the #ID of every theta_rows row *)
From CNV Require Gen.FnExportThetaId Proofs.FnExportThetaId.

Theorem C20_source_theta_id : forall chrm lo hi : Z,
  Gen.FnExportThetaId.fn_theta_id chrm lo hi = theta_id chrm lo hi.
Proof. exact Proofs.FnExportThetaId.source_theta_id. Qed.

Theorem C20_source_theta_rows : forall (segs : list tseg) (tc nc : list Z),
  theta_rows segs tc nc
  = let names := Model.Formats.distinct_names [] (map t_chrom segs) in
    map3 (fun s t n => let ch := index_from (t_chrom s) names Gen.ExportDefaults.theta_first_chrm in
                       (Gen.FnExportThetaId.fn_theta_id ch (t_lo s) (t_hi s), ch, t_lo s, t_hi s, t, n)) segs tc nc.
Proof. exact Proofs.FnExportThetaId.source_theta_rows. Qed.

(* ---- source tie of export_bed's label and ncopies columns per row (Gen/FnExportBedCols.v fn_bed_columns, regenerated from
   the Python source on every run: "out['label'] = label if label else segments['gene']" and "out['ncopies'] = segments['cn']
   if 'cn' in segments else absolute_dataframe(...)['absolute'].round().astype('int')"): the label is the model's bed_label,
   the ncopies cell is the element rule of the model's ncopies_col *)
From CNV Require Gen.FnExportBedCols Proofs.FnExportBedCols.

Theorem C20_source_bed_label : forall (label : option string) (s : seg) (has_cn : bool) (cn : Z) (a : Q),
  fst (Gen.FnExportBedCols.fn_bed_columns (Proofs.FnExportBedCols.label_text label) (s_gene s) has_cn cn a)
  = bed_label label s.
Proof. exact Proofs.FnExportBedCols.source_bed_label. Qed.

Theorem C20_source_bed_ncopies : forall (l g : string) (has_cn : bool) (cn : Z) (a : Q),
  snd (Gen.FnExportBedCols.fn_bed_columns l g has_cn cn a) = if has_cn then cn else round_he a.
Proof. exact Proofs.FnExportBedCols.source_bed_ncopies. Qed.

Theorem C20_source_bed_ncopies_col : forall (has_cn : bool) (cns : list Z) (abs : list Q) (l g : string),
  (if has_cn then cns else map round_he abs)
  = if has_cn then map (fun cn => snd (Gen.FnExportBedCols.fn_bed_columns l g true cn 0%Q)) cns
    else map (fun a => snd (Gen.FnExportBedCols.fn_bed_columns l g false 0 a)) abs.
Proof. exact Proofs.FnExportBedCols.source_bed_ncopies_col. Qed.
