(* C20 -- exports state exactly the calls they were given.
   Property theorems only; proofs live in Proofs/Export*.v.  The model (Model/Export.v)
   mirrors cnvlib/export.py column-wise; the statements below are row-wise, with the
   literal strings and numbers of the property text and the class table of Spec/Call.v
   (reference / expected copies per chromosome class, reference sex, sample sex, PAR).
   A segment carries e = 2^log2 (s_e), supplied as in C01; with a cn column it is unused.

   Hypotheses shared by the BED / VCF theorems: the table is consistently named in style
   st (first row "chr"-prefixed iff X is called chrX) and the PAR build is absent or one
   of grch37 / grch38 (any letter case). *)
From Coq Require Import Qabs.
From CNV Require Import Base.Prelude Base.Str Model.Decimal.
From CNV Require Import Model.Call Spec.Call Proofs.Call Model.Export Spec.Export.
From CNV Require Import Proofs.ExportBed Proofs.ExportSeg Proofs.ExportMatrix Proofs.ExportLabel.
From CNV Require Model.Formats.

Local Open Scope Z_scope.

(* ------------------------------------------------------------------ BED *)

(* show = all: every segment, in order, with 0-based start, end, label and integer copy number *)
Theorem C20_bed_all :
  forall st c rows,
    consistent st (seg_first rows) -> build_ok (c_build c) -> forall label,
    export_bed c label "all" rows
    = Some (sp_bed st (lower_build (c_build c)) (c_k c) (c_hapx c) (c_female c) (c_has_cn c) label (fun _ => true) rows).
Proof. exact bed_all. Qed.

(* show = ploidy: exactly the segments whose copy number differs from the ploidy *)
Theorem C20_bed_ploidy :
  forall st c rows,
    consistent st (seg_first rows) -> build_ok (c_build c) -> forall label,
    export_bed c label "ploidy" rows
    = Some (sp_bed st (lower_build (c_build c)) (c_k c) (c_hapx c) (c_female c) (c_has_cn c) label
                   (sp_off_ploidy st (lower_build (c_build c)) (c_k c) (c_hapx c) (c_female c) (c_has_cn c)) rows).
Proof. exact bed_ploidy. Qed.

(* show = variant: exactly those differing from the copies expected for their chromosome
   class and the sample's sex *)
Theorem C20_bed_variant :
  forall st c rows,
    consistent st (seg_first rows) -> build_ok (c_build c) -> forall label,
    export_bed c label "variant" rows
    = Some (sp_bed st (lower_build (c_build c)) (c_k c) (c_hapx c) (c_female c) (c_has_cn c) label
                   (sp_variant st (lower_build (c_build c)) (c_k c) (c_hapx c) (c_female c) (c_has_cn c)) rows).
Proof. exact bed_variant. Qed.

(* without a cn column the copy number is a nearest integer to r * 2^log2, r the reference
   copies of the property's class table *)
Theorem C20_ncopies_nearest :
  forall st c s,
    c_has_cn c = false ->
    nearest (sp_ncopies st (lower_build (c_build c)) (c_k c) (c_hapx c) (c_female c) (c_has_cn c) s)
            (inject_Z (sp_reference st (lower_build (c_build c)) (c_k c) (c_hapx c) (c_female c) s) * s_e s).
Proof. exact ncopies_nearest. Qed.

(* ------------------------------------------------------------------ VCF *)

(* whatever CI columns are attached: the records are, in order, one per segment whose copy
   number differs from the expected one (and whose probe count prints as digits) and no
   others, each with the fields of the property: POS = start (1 where 0), END, DEL iff below /
   DUP iff above, ALT, SVLEN = +-(end - start), FORMAT and the sample field (CN for gains) *)
Theorem C20_vcf_fields :
  forall st c rows,
    consistent st (seg_first rows) -> build_ok (c_build c) -> forall ci recs,
    segments2vcf c rows ci = VcfOk recs ->
    Forall2 (vcf_fields st (lower_build (c_build c)) (c_k c) (c_hapx c) (c_female c) (c_has_cn c))
            (sp_vcf_rows st (lower_build (c_build c)) (c_k c) (c_hapx c) (c_female c) (c_has_cn c) rows) recs.
Proof. exact vcf_spec. Qed.

(* hence the records name exactly those segments, one each, in table order *)
Theorem C20_vcf_rows :
  forall st c rows,
    consistent st (seg_first rows) -> build_ok (c_build c) -> forall ci recs,
    segments2vcf c rows ci = VcfOk recs ->
    map (fun r => (v_chrom r, v_end r)) recs
    = map (fun s => (s_chrom s, s_hi s))
          (sp_vcf_rows st (lower_build (c_build c)) (c_k c) (c_hapx c) (c_female c) (c_has_cn c) rows).
Proof. exact vcf_rows_keys. Qed.

(* and when every probe count is numeric they are the segments of BED's `variant` listing *)
Theorem C20_vcf_matches_bed :
  forall st c rows,
    consistent st (seg_first rows) -> build_ok (c_build c) -> forall ci recs label bed,
    Forall (fun s => sp_numeric s = true) rows ->
    segments2vcf c rows ci = VcfOk recs -> export_bed c label "variant" rows = Some bed ->
    map (fun r => (v_chrom r, v_end r)) recs = map (fun b : bed_row => let '(ch, _, hi, _, _) := b in (ch, hi)) bed.
Proof. exact vcf_matches_bed. Qed.

(* the export succeeds when no .cnr is attached *)
Theorem C20_vcf_total :
  forall st c rows,
    consistent st (seg_first rows) -> build_ok (c_build c) -> exists recs, segments2vcf c rows None = VcfOk recs.
Proof. exact vcf_total. Qed.

(* ------------------------------------------------------------------ SEG *)

(* every sample's segments under its id, 1-based starts, ends, probes, means, in order;
   chromosome names kept by default / chrom_ids=False, enumerated (1-based position among
   the first sample's distinct names) for chrom_ids None / True *)
Theorem C20_seg :
  forall samples, samples <> [] -> export_seg None samples = Some (sp_seg_rows false samples).
Proof. exact export_seg_default. Qed.

Theorem C20_seg_ids :
  forall arg samples, samples <> [] -> export_seg (Some arg) samples = Some (sp_seg_rows (enumerates arg) samples).
Proof. exact export_seg_arg. Qed.

(* the text of these rows is the SEG writer of the format model (C08: write-then-read is lossless) *)
Theorem C20_seg_text :
  forall show sid rows,
    map (seg_out_line show) (format_seg [] sid rows) = Formats.write_seg_rows sid (map (to_format_row show) rows).
Proof. exact seg_text_is_formats_writer. Qed.

(* ------------------------------------------------------------------ CDT / JTV / nexus *)

(* merge_samples succeeds exactly when the samples' bins carry the same labels and the ids
   are distinct (and none collides with a table column); the merged table then has one row
   per bin with its label and each sample's log2 in its own column, sample order kept *)
Theorem C20_matrix :
  forall samples, samples <> [] -> sp_same_bins samples -> sp_ids_ok samples ->
    merge_samples samples = MergeOk (merged_of samples) /\
    map fst (m_cols (merged_of samples)) = map fst samples /\
    merged_rows (merged_of samples) = sp_matrix samples.
Proof. exact matrix_ok. Qed.

Theorem C20_matrix_refuses :
  forall samples, ~ (sp_same_bins samples /\ sp_ids_ok samples) -> forall m, merge_samples samples <> MergeOk m.
Proof. exact merge_samples_refuses. Qed.

(* same labels = same bins (chromosome, start, end, gene), for names without ':' *)
Theorem C20_matrix_labels :
  forall l1 l2, Forall bin_ok l1 -> Forall bin_ok l2 ->
    map sp_label l1 = map sp_label l2 -> map bin_key l1 = map bin_key l2.
Proof. exact labels_injective. Qed.

Theorem C20_cdt :
  forall ids m,
    fmt_cdt ids m =
    ((["GID"; "CLID"; "NAME"; "GWEIGHT"]%string ++ ids),
     ((["AID"; ""; ""; ""]%string
       ++ map (fun i => ("ARRY" ++ zfill 3 (print_Z (Z.of_nat i)) ++ "X")%string) (seq 0 (length ids))),
      (["EWEIGHT"; ""; ""; ""]%string ++ map (fun _ => "1"%string) ids)),
     map (fun p : nat * (string * list Q) => sp_cdt_row (fst p) (snd p))
         (combine (seq 0 (length (merged_rows m))) (merged_rows m))).
Proof. exact fmt_cdt_spec. Qed.

Theorem C20_jtv :
  forall ids m,
    fmt_jtv ids m = ((["CloneID"; "Name"]%string ++ ids),
                     map (fun r : string * list Q => ("IMAGE:"%string, fst r, snd r)) (merged_rows m)).
Proof. exact fmt_jtv_spec. Qed.

Theorem C20_nexus_basic : forall bins, export_nexus_basic bins = map sp_nexus_row bins.
Proof. exact nexus_spec. Qed.

(* ------------------------------------------------------------------ examples *)

Definition ex_cfg : cfg := mkCfg 2 true false (Some "grch37"%string) false.
Definition ex_rows : list seg :=
  [mkSeg "chr1" 0 100 "A" 1 2 0 (Some 3);
   mkSeg "chrX" 100000 200000 "P" 0 1 0 (Some 2);      (* PAR1 of X: reference and expected copies 2 *)
   mkSeg "chrX" 3000000 3100000 "G" (-1) (1 # 2) 0 (Some 7);
   mkSeg "chrY" 100000 200000 "Q" 0 1 0 (Some 2)]%string.

(* hypotheses are satisfiable *)
Example C20_ex_hyps : consistent ChrStyle (seg_first ex_rows) /\ build_ok (c_build ex_cfg).
Proof. split; [reflexivity | left; reflexivity]. Qed.

(* the repaired defect (export_bed ignored the PAR build): PAR rows with log2 0 are neutral,
   BED `variant` and VCF name the same two segments *)
Example C20_ex_variant :
  export_bed ex_cfg None "variant" ex_rows
  = Some [("chr1", 0, 100, "A", 4); ("chrX", 3000000, 3100000, "G", 0)]%string.
Proof. vm_compute. reflexivity. Qed.

Example C20_ex_vcf :
  match segments2vcf ex_cfg ex_rows None with
  | VcfOk [r1; r2] =>
      (v_pos r1, v_svtype r1, v_svlen r1, v_sample r1) = (1, "DUP", 100, "0/1:0:4:3")%string /\
      (v_pos r2, v_svtype r2, v_svlen r2, v_sample r2) = (3000000, "DEL", -100000, "1/1:7")%string
  | _ => False
  end.
Proof. vm_compute. split; reflexivity. Qed.

Example C20_ex_seg :
  export_seg (Some IdsTrue) [("S1", [mkSeg "chr2" 0 10 "-" 1 2 0 (Some 4); mkSeg "chr1" 5 9 "-" 0 1 0 None])]%string
  = Some [("S1", "1", 1, 10, Some 4, 1%Q); ("S1", "2", 6, 9, None, 0%Q)]%string.
Proof. vm_compute. reflexivity. Qed.

Example C20_ex_matrix :
  let a := [mkBin "chr1" 0 10 "g" 1; mkBin "chr1" 10 20 "-" 2]%string in
  let b := [mkBin "chr1" 0 10 "g" 3; mkBin "chr1" 10 20 "-" 4]%string in
  sp_same_bins [("s1", a); ("s2", b)]%string /\
  sp_matrix [("s1", a); ("s2", b)]%string = [("chr1:0-10:g", [1; 3]%Q); ("chr1:10-20:-", [2; 4]%Q)]%string /\
  merge_samples [("s1", a); ("s1", b)]%string = MergeDuplicate "s1" /\
  merge_samples [("s1", a); ("s2", [mkBin "chr1" 0 11 "g" 3])]%string = MergeMismatch 1.
Proof. vm_compute. repeat split; try reflexivity. constructor; [reflexivity | constructor]. Qed.
