(* C15 -- centring is a uniform shift zeroing the autosomes; sample sex is inferred right.
   Property theorems only; proofs live in Proofs/Center*.v and Proofs/Sex*.v.
   Tables of any size, any estimator function unless said otherwise; Q is exact arithmetic. *)
From CNV Require Import Base.Prelude Base.Str Base.QNum Gen.CenterDefaults Model.Center Model.Sex
  Spec.Center Proofs.CenterLib Proofs.Center Proofs.CenterGroups Proofs.CenterCall Proofs.SexLib Proofs.Sex
  Proofs.FnCnary Gen.FnCnaryFlat Gen.FnCnaryShift Gen.FnCnaryLow Gen.FnCnarySex.
From CNV Require Model.Call Model.Descriptives Proofs.CenterDesc.
Import Proofs.CenterDesc.
Local Open Scope Q_scope.

(* ============================================================================================== *)
(* center_all adds one constant to every bin and leaves everything else alone *)

(* whatever the estimator function, the options and the table: row i of the result is row i of the
   input (same chromosome, start, end, gene, depth, weight -- same row order, same number of rows)
   with one constant c added to log2; c is the shift the model reports (0 when nothing is selected) *)
Theorem C15_uniform_shift : forall (est : list Q -> Q) by_chrom skip_low build t,
  exists c, uniform_shift c t (center_all est by_chrom skip_low build t) /\
            c == match center_shift est by_chrom skip_low build t with Some s => s | None => 0 end.
Proof. exact center_all_uniform. Qed.

(* hence differences between bins are untouched *)
Theorem C15_differences : forall c t t', uniform_shift c t t' ->
  forall i j d, (i < length t)%nat -> (j < length t)%nat ->
    b_log2 (nth i t' d) - b_log2 (nth j t' d) == b_log2 (nth i t d) - b_log2 (nth j t d).
Proof. exact uniform_shift_diff. Qed.

(* ============================================================================================== *)
(* ... so that the chosen estimator of the autosomal bins becomes zero *)

(* the estimators: median, mean and biweight location move with the data (no oracle involved) *)
Theorem C15_estimators_equivariant :
  translation_equivariant median /\ translation_equivariant qmean /\ translation_equivariant biweight.
Proof. exact (conj median_te (conj qmean_te biweight_te)). Qed.

(* the biweight location used here is the one of Model/Descriptives.v (C19's model of descriptives.py) *)
Theorem C15_biweight_is_c19 : forall x y l,
  Descriptives.biweight_location (x :: y :: l) None = Some (Descriptives.biweight_location_core (x :: y :: l) None) /\
  Descriptives.biweight_location_core (x :: y :: l) None == biweight (x :: y :: l).
Proof. exact biweight_same. Qed.

(* median / mean / biweight x by_chrom (two-level) or flat x skip_low on/off x PAR build or none:
   whenever a bin is selected (center_shift = Some _), the chosen estimator of the RESULT's
   autosomal bins -- the result rows at the positions that are not null-coverage in the input when
   skip_low is on, then the autosomes rule -- is 0 *)
Theorem C15_zero : forall kde e, e <> EMode -> forall by_chrom skip_low build t s,
  center_shift (est_fun kde e) by_chrom skip_low build t = Some s ->
  center_stat (est_fun kde e) by_chrom
    (autosomes (kept_rows skip_low t (center_all (est_fun kde e) by_chrom skip_low build t)) build) == 0.
Proof. exact center_zero_named. Qed.

(* mode: the same for every KDE arg-max index function within its contract (index in range,
   unchanged when all sorted values move by one constant) *)
Theorem C15_zero_mode : forall kde, kde_contract kde -> forall by_chrom skip_low build t s,
  center_shift (mode_of kde) by_chrom skip_low build t = Some s ->
  center_stat (mode_of kde) by_chrom
    (autosomes (kept_rows skip_low t (center_all (mode_of kde) by_chrom skip_low build t)) build) == 0.
Proof. exact center_zero_mode. Qed.

(* and for any callable estimator that moves with the data *)
Theorem C15_zero_any : forall est, translation_equivariant est -> forall by_chrom skip_low build t s,
  center_shift est by_chrom skip_low build t = Some s ->
  center_stat est by_chrom (autosomes (kept_rows skip_low t (center_all est by_chrom skip_low build t)) build) == 0.
Proof. exact center_zero_any. Qed.

(* the contract of the mode oracle is satisfiable *)
Example C15_kde_contract_satisfiable : kde_contract (fun _ => O).
Proof. exact kde_contract_first. Qed.

(* a shift is applied exactly when some bin is selected; otherwise the table is returned as it is *)
Theorem C15_shift_iff_selected : forall est by_chrom skip_low build t,
  (exists s, center_shift est by_chrom skip_low build t = Some s) <-> center_selection skip_low build t <> [].
Proof. exact center_shift_some_iff. Qed.

Theorem C15_nothing_selected : forall est by_chrom skip_low build t,
  center_shift est by_chrom skip_low build t = None -> center_all est by_chrom skip_low build t = t.
Proof. exact center_nothing. Qed.

(* "per chromosome first, then across chromosomes": the model's estimate is the estimator of the
   per-chromosome estimates, chromosomes in order of first appearance, each with the log2 of its own
   rows (rows of one chromosome need not be adjacent); flat: the estimator of all selected log2 *)
Theorem C15_two_level : forall est by_chrom sel,
  center_stat est by_chrom sel = if by_chrom then two_level est sel else flat_level_est est sel.
Proof. exact center_stat_spec. Qed.

Theorem C15_per_chromosome_names : forall t c,
  In c (first_names [] t) <-> exists b, In b t /\ b_chrom b = c.
Proof. exact per_chromosome_names. Qed.

(* ============================================================================================== *)
(* which bins are autosomal *)

(* named like an autosome = an optional "chr", then one or more decimal digits, nothing else *)
Theorem C15_autosome_names : forall s, is_auto_name s = true <-> numeric_name s.
Proof. exact is_auto_name_spec. Qed.

(* null-coverage = log2 below -15 or a depth of 0 *)
Theorem C15_null_coverage : forall b, is_low b = true <-> null_coverage b.
Proof. exact is_low_iff. Qed.

(* no chromosome named like an autosome: all (usable) rows are used, whatever the PAR build *)
Theorem C15_no_autosomes : forall skip_low build t,
  (forall b, In b t -> ~ numeric_name (b_chrom b)) ->
  center_selection skip_low build t = if skip_low then drop_low t else t.
Proof. exact center_selection_none. Qed.

(* otherwise: exactly the rows named like autosomes, plus -- with a PAR build -- the chrX rows inside
   PAR1X / PAR2X, in table order *)
Theorem C15_autosomes_some : forall t build,
  (exists b, In b t /\ is_auto_name (b_chrom b) = true) ->
  autosomes t build = filter (fun b => is_auto_name (b_chrom b) ||
                                       match build with Some p => parx_filter t p b | None => false end) t.
Proof. exact autosomes_some. Qed.

(* with skip_low no selected bin is a null-coverage bin; selected bins are rows of the table *)
Theorem C15_selection_skips_low : forall build t b,
  In b (center_selection true build t) -> In b t /\ ~ null_coverage b.
Proof. exact center_selection_skips_low. Qed.

(* the chrX / chrY / PAR row masks of this model are the chromosome classes of Model/Call.v (C01's model
   of the same cnary.py masks, PAR table from Gen/Params.v); b0 is the table's first row *)
Theorem C15_classes_agree_call : forall name p b0 t b,
  resolve_build name = Some p ->
  Call.row_class (Some name) (b_chrom b0) (b_chrom b) (b_start b) (b_end b) = center_class (b0 :: t) p b.
Proof. exact classes_agree. Qed.

Theorem C15_classes_agree_call_nobuild : forall b0 t b,
  Call.row_class None (b_chrom b0) (b_chrom b) (b_start b) (b_end b) = center_class_nobuild (b0 :: t) b.
Proof. exact classes_agree_nobuild. Qed.

Theorem C15_builds_agree_call : forall name,
  Call.build_supported name = true <-> exists p, resolve_build name = Some p.
Proof. exact builds_agree. Qed.

Example C15_center_example :
  let t := [mkBin "chr1" 0 100 "g" (1 # 2) None None; mkBin "chr1" 100 200 "g" (1 # 4) None None;
            mkBin "chr2" 0 100 "g" (-20) None None; mkBin "chrX" 0 100 "g" (-1) None None] in
  map b_log2 (center_all median true true None t) = [1 # 8; -1 # 8; -163 # 8; -11 # 8].
Proof. vm_compute. reflexivity. Qed.

(* ============================================================================================== *)
(* shift_xx *)

(* every chrX bin -- outside PAR1X / PAR2X when a PAR build is given -- moves by minus the level expected
   for the sample's sex against the reference (+1 female on a male reference, -1 male on a female
   reference, 0 otherwise); no other bin and no other column changes.  Any build. *)
Theorem C15_shift_xx : forall hap xx build t,
  Forall2 (fun b b' => if chr_x_filter t build b
                       then same_but_log2 (- x_offset xx hap) b b' else b' = b)
          t (shift_xx hap (Some xx) build t).
Proof. exact shift_xx_spec. Qed.

(* so a chrX sitting at the expected level comes to the autosomal level, in all four cases ... *)
Theorem C15_shift_xx_level : forall hap xx build t a,
  (forall b, In b t -> chr_x_filter t build b = true -> b_log2 b == a + x_offset xx hap) ->
  forall b', In b' (shift_xx hap (Some xx) build t) -> chr_x_filter t build b' = true -> b_log2 b' == a.
Proof. exact shift_xx_level. Qed.

(* ... and the PAR-X bins, which are there already, are never moved (nor is anything off chrX) *)
Theorem C15_shift_xx_parx_fixed : forall hap xx p t,
  Forall2 (fun b b' => (parx_filter t p b = true \/ b_chrom b <> x_label t) -> b' = b)
          t (shift_xx hap (Some xx) (Some p) t).
Proof. exact shift_xx_parx_fixed. Qed.

(* the two identity cases (female on female reference, male on male reference), any build *)
Theorem C15_shift_xx_identity : forall hap xx build t, xx = negb hap -> shift_xx hap (Some xx) build t = t.
Proof. exact shift_xx_identity. Qed.

(* the input of the repaired defect dff7a3e *)
Example C15_shift_xx_parx_example :
  let t := [mkBin "chr1" 0 100 "g" 0 None None; mkBin "chrX" 60000 60100 "g" 0 None None;
            mkBin "chrX" 5000000 5000100 "g" (-1) None None] in
  exists p, resolve_build "grch37" = Some p /\
            map (parx_filter t p) t = [false; true; false] /\
            map b_log2 (shift_xx false (Some false) (Some p) t) = [0; 0; 0].
Proof. exact shift_xx_keeps_parx. Qed.

Example C15_x_offset_table :
  x_offset true true == 1 /\ x_offset false false == -1 /\ x_offset true false == 0 /\ x_offset false true == 0.
Proof. repeat split; reflexivity. Qed.

(* ============================================================================================== *)
(* expect_flat_log2 *)

(* 0 on autosomes (and other contigs; PAR-X with a PAR build), -1 on Y, -1 on X only for a male
   reference -- for every table in which no bin lies inside PAR1Y/PAR2Y while the reference is male and
   a PAR build is given (the open finding c15-flat-pary-male-ref, next theorem) *)
Theorem C15_flat : forall hap build t,
  no_pary_under_male_ref hap build t ->
  expect_flat hap build t =
  map (fun b => flat_level hap (String.eqb (b_chrom b) (x_label t)) (String.eqb (b_chrom b) (y_label t))
                           (match build with Some p => parx_filter t p b | None => false end)) t.
Proof. exact expect_flat_spec. Qed.

(* ... in that situation a chrY bin gets 0, not -1 *)
Theorem C15_flat_pary_refuted :
  exists p, resolve_build "grch37" = Some p /\
    exists b, nth_error pary_witness 1 = Some b /\ b_chrom b = y_label pary_witness /\
              nth_error (expect_flat true (Some p) pary_witness) 1 = Some 0 /\ ~ (0 == -1).
Proof. exact expect_flat_pary_refuted. Qed.

Example C15_flat_levels :
  flat_level true true false false == -1 /\ flat_level false true false false == 0 /\
  flat_level true false true false == -1 /\ flat_level false false true false == -1 /\
  flat_level true false false false == 0 /\ flat_level true true false true == 0.
Proof. repeat split; reflexivity. Qed.

(* ============================================================================================== *)
(* chromosomal sex *)

(* a noise-free sample at the expected levels (autosomes at a, chrX at a + x_offset, a male sample's
   chrY -- if it has any chrY bin -- at a; weights -- if any -- non-negative; any number of bins, any
   other contigs), in all four sample-sex x reference-sex cases: whatever G statistic the median
   test reports for whatever table, the decision is the true sex, guess_xx says so, and so does the
   `sex` report *)
Theorem C15_sex_idealised : forall (gstat : mtable -> Q) a female hap t,
  idealised a female hap t ->
  sex_decision gstat hap None t = Some (negb female) /\
  guess_xx gstat hap None t = Some female /\
  fst (do_sex_row gstat hap None t) = (if female then "Female" else "Male")%string.
Proof. exact idealised_all. Qed.

(* the hypotheses are satisfiable: a male sample on a female reference, with chrY and weights *)
Example C15_idealised_example :
  idealised 0 false false
    [mkBin "1" 0 10 "g" 0 None (Some 1); mkBin "2" 0 10 "g" 0 None (Some (1 # 2));
     mkBin "X" 0 10 "g" (-1) None (Some 1); mkBin "Y" 0 10 "g" 0 None (Some 0)].
Proof.
  constructor.
  - eexists. split; [left; reflexivity|reflexivity].
  - eexists. split; [right; right; left; reflexivity|reflexivity].
  - intros b [<-|[<-|[<-|[<-|[]]]]]; simpl; intros H; try discriminate; reflexivity.
  - intros b [<-|[<-|[<-|[<-|[]]]]]; simpl; intros H; try discriminate; reflexivity.
  - intros _ b [<-|[<-|[<-|[<-|[]]]]]; simpl; intros H; try discriminate; reflexivity.
  - intros b w [<-|[<-|[<-|[<-|[]]]]]; simpl; intros H; injection H as <-; unfold Qle; simpl; lia.
Qed.

(* the same for every combination of reference sex and PAR build (or none): the levels are those of the bins the
   code's filters select -- numerically named chromosomes and PAR1X / PAR2X at a, chrX outside them at a + x_offset,
   a male sample's chrY outside PAR1Y / PAR2Y at a; PAR-Y bins are unconstrained *)
Theorem C15_sex_idealised_build : forall (gstat : mtable -> Q) a female hap build t,
  idealised_build a female hap build t ->
  sex_decision gstat hap build t = Some (negb female) /\
  guess_xx gstat hap build t = Some female /\
  fst (do_sex_row gstat hap build t) = (if female then "Female" else "Male")%string.
Proof. exact idealised_build_all. Qed.

Theorem C15_sex_idealised_is_build : forall a female hap t,
  idealised a female hap t -> idealised_build a female hap None t.
Proof. exact idealised_is_build. Qed.

(* satisfiable with a build: a female sample on a male reference, grch37: autosome and PAR1X at 0, chrX at +1, a
   (null-coverage) PAR1Y bin and a noisy chrY bin anywhere *)
Example C15_idealised_build_example :
  exists p, resolve_build "grch37" = Some p /\
  idealised_build 0 true true (Some p)
    [mkBin "chr1" 0 10 "g" 0 None None; mkBin "chrX" 60000 60100 "g" 0 None None;
     mkBin "chrX" 5000000 5000100 "g" 1 None None; mkBin "chrY" 20000 20100 "g" (-20) None None;
     mkBin "chrY" 5000000 5000100 "g" (-7) None None].
Proof.
  eexists. split; [vm_compute; reflexivity|]. constructor.
  - eexists. split; [left; reflexivity|reflexivity].
  - eexists. split; [right; right; left; reflexivity|reflexivity].
  - intros b [<-|[<-|[<-|[<-|[<-|[]]]]]]; vm_compute; intros H; try discriminate; reflexivity.
  - intros b [<-|[<-|[<-|[<-|[<-|[]]]]]]; vm_compute; intros H; try discriminate; reflexivity.
  - intros H; discriminate.
  - intros b w [<-|[<-|[<-|[<-|[<-|[]]]]]]; simpl; intros H; discriminate.
Qed.

(* the `sex` report end to end (commands.do_sex, Model/Sex.v do_sex_table): one row per input table in the order
   given, carrying the table's name; sex = "Male" exactly when compare_sex_chromosomes says so ("Female" also when
   there is no decision); the two ratios are "NA" exactly when there is no decision (empty table / no chrX bin),
   otherwise the (weighted, when there is a weight column with a non-zero entry) mean log2 of chrX minus that of the
   autosomes, and the same for chrY -- NaN when chrY has no bin *)
Theorem C15_do_sex_row : forall gstat hap build inputs i name t,
  nth_error inputs i = Some (name, t) ->
  exists label ratios,
    nth_error (do_sex_table gstat hap build inputs) i = Some (name, (label, ratios)) /\
    label = (match sex_decision gstat hap build t with Some true => "Male" | _ => "Female" end)%string /\
    match compare_sex gstat hap build t with
    | None => ratios = None
    | Some (_, st) =>
        ratios = Some (s_x_ratio st, s_y_ratio st) /\
        let use := has_weight t in
        let mean l := match segment_mean use l with Some m => m | None => 0 end in
        s_x_ratio st = qsub (mean (filter (chr_x_filter t build) t)) (mean (autosomes t build)) /\
        s_y_ratio st = match filter (chr_y_filter t build) t with
                       | [] => None
                       | chry => Some (qsub (mean chry) (mean (autosomes t build)))
                       end
    end.
Proof. exact do_sex_table_row. Qed.

Theorem C15_do_sex_rows : forall gstat hap build inputs,
  length (do_sex_table gstat hap build inputs) = length inputs.
Proof. exact do_sex_table_length. Qed.

(* the columns, as named in the source, and the sign prefix of the printed ratios *)
Theorem C15_do_sex_columns : do_sex_header = ["sample"; "sex"; "X_logratio"; "Y_logratio"]%string.
Proof. exact do_sex_header_lit. Qed.

Theorem C15_do_sex_sign : forall q, strsign_plus q = true <-> 0 < q.
Proof. exact strsign_plus_spec. Qed.

(* the decision arithmetic, for every outcome of the four median tests:
   one chromosome's ratio exceeds 1 exactly when the female-hypothesis statistic exceeds both the
   male-hypothesis statistic and the floor 0.01 (both tests succeeded) ... *)
Theorem C15_sex_arith_stats : forall f m fd md,
  1 < lr_of (Some f) (Some m) fd md <-> (m < f /\ lr_denominator_floor < f).
Proof. exact lr_of_stats. Qed.

(* ... stays below 1 when the female-hypothesis statistic is the smaller one ... *)
Theorem C15_sex_arith_stats_female : forall f m fd md, 0 <= f -> f < m -> lr_of (Some f) (Some m) fd md < 1.
Proof. exact lr_of_stats_female. Qed.

(* ... and the same with the differences of medians when a test failed *)
Theorem C15_sex_arith_diffs : forall fs ms fd md, (fs = None \/ ms = None) ->
  (1 < lr_of fs ms fd md <-> (md < fd /\ lr_denominator_floor < fd)).
Proof. exact lr_of_diffs. Qed.

(* chrX (and chrY if it has bins) speaking for male gives male; chrX speaking for female and chrY not
   speaking for male gives female *)
Theorem C15_sex_decision_male : forall x y,
  1 < x -> (match y with Some v => 1 < v | None => True end) -> is_xy_of (score_of x y) = true.
Proof. exact decision_male. Qed.

Theorem C15_sex_decision_female : forall x y,
  0 <= x -> x < 1 -> (match y with Some v => 0 <= v /\ v <= 1 | None => True end) ->
  is_xy_of (score_of x y) = false.
Proof. exact decision_female. Qed.

(* constant samples give the median test nothing to count: no statistic, whatever the oracle *)
Theorem C15_mood_constant : forall gstat v s1 s2,
  const_list v s1 -> const_list v s2 -> mood_stat gstat s1 s2 = None.
Proof. exact mood_stat_const. Qed.

(* ============================================================================================== *)
(* source ties (DESIGN 9.4): bodies translated from cnvlib/cnary.py on every run *)

(* expect_flat_log2 per bin: -1 where the mask chosen by the reference sex holds, else np.zeros' 0 *)
Theorem C15_source_flat : forall hap build t,
  expect_flat hap build t =
  map (fun b => fn_expect_flat 0 hap (chr_x_filter t build b) (chr_y_filter t build b) (chr_y_filter t None b)) t.
Proof. exact fn_expect_flat_eq. Qed.

(* shift_xx per bin: the if / elif on (is_xx, is_haploid_x_reference) with the masked -1.0 / +1.0, every other
   column untouched (is_xx = None after a failed guess reads as false) *)
Theorem C15_source_shift_xx : forall hap is_xx build t,
  Forall2 (fun b b' => other_columns_same b b' /\
                       b_log2 b' == fn_shift_xx_bin (xx_of is_xx) hap (chr_x_filter t build b) (b_log2 b))
          t (shift_xx hap is_xx build t).
Proof. exact fn_shift_xx_eq. Qed.

(* drop_low_coverage's per-row test *)
Theorem C15_source_low_coverage : forall b,
  is_low b = fn_drop_idx (b_log2 b) (has_depth_of b) (depth_of b) null_log2_coverage min_ref_coverage.
Proof. exact fn_is_low_eq. Qed.

(* compare_chrom: ratio of the two median-test statistics over max(., 0.01), else of the median differences *)
Theorem C15_source_compare_chrom : forall fs ms fd md,
  lr_of fs ms fd md == fn_compare_chrom fs (some_of ms) (val_of ms) fd md.
Proof. exact fn_compare_chrom_eq. Qed.

(* the combined score (chrY factor when chrY has bins) and the decision `combined_score > 1.0` *)
Theorem C15_source_sex_score : forall x_lr y_lr,
  score_of x_lr y_lr == fst (fn_sex_score x_lr (val_of y_lr) (some_of y_lr)) /\
  is_xy_of (score_of x_lr y_lr) = snd (fn_sex_score x_lr (val_of y_lr) (some_of y_lr)).
Proof. exact fn_sex_score_eq. Qed.
