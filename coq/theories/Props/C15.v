(* C15 -- centring is a uniform shift zeroing the autosomes; sample sex is inferred right.
   Property theorems only; proofs live in Proofs/Center*.v and Proofs/Sex*.v.
   Tables of any size, any estimator function unless said otherwise; Q is exact arithmetic. *)
From CNV Require Import Base.Prelude Base.Str Base.QNum Gen.CenterDefaults Model.Center Model.Sex
  Spec.Center Proofs.CenterLib Proofs.Center Proofs.CenterGroups Proofs.CenterCall Proofs.SexLib Proofs.Sex
  Proofs.FnCnary Gen.FnCnaryFlat Gen.FnCnaryShift Gen.FnCnaryLow Gen.FnCnarySex.
From CNV Require Model.Call Model.Descriptives Proofs.CenterDesc.
Import Proofs.CenterDesc.
Local Open Scope Q_scope.

(* ============================================================================================== *)
(* center_all adds one constant to every bin and leaves everything else alone *)

(* whatever the estimator function, the options and the table: row i of the result is row i of the
   input (same chromosome, start, end, gene, depth, weight -- same row order, same number of rows)
   with one constant c added to log2; c is the shift the model reports (0 when nothing is selected) *)
Theorem C15_uniform_shift : forall (est : list Q -> Q) by_chrom skip_low build t,
  exists c, uniform_shift c t (center_all est by_chrom skip_low build t) /\
            c == match center_shift est by_chrom skip_low build t with Some s => s | None => 0 end.
Proof. exact center_all_uniform. Qed.

(* hence differences between bins are untouched *)
Theorem C15_differences : forall c t t', uniform_shift c t t' ->
  forall i j d, (i < length t)%nat -> (j < length t)%nat ->
    b_log2 (nth i t' d) - b_log2 (nth j t' d) == b_log2 (nth i t d) - b_log2 (nth j t d).
Proof. exact uniform_shift_diff. Qed.

(* ============================================================================================== *)
(* ... so that the chosen estimator of the autosomal bins becomes zero *)

(* the estimators: median, mean and biweight location move with the data (no oracle involved) *)
Theorem C15_estimators_equivariant :
  translation_equivariant median /\ translation_equivariant qmean /\ translation_equivariant biweight.
Proof. exact (conj median_te (conj qmean_te biweight_te)). Qed.

(* the biweight location used here is the one of Model/Descriptives.v (C19's model of descriptives.py) *)
Theorem C15_biweight_is_c19 : forall x y l,
  Descriptives.biweight_location (x :: y :: l) None = Some (Descriptives.biweight_location_core (x :: y :: l) None) /\
  Descriptives.biweight_location_core (x :: y :: l) None == biweight (x :: y :: l).
Proof. exact biweight_same. Qed.

(* median / mean / biweight x by_chrom (two-level) or flat x skip_low on/off x PAR build or none:
   whenever a bin is selected (center_shift = Some _), the chosen estimator of the RESULT's
   autosomal bins -- the result rows at the positions that are not null-coverage in the input when
   skip_low is on, then the autosomes rule -- is 0 *)
Theorem C15_zero : forall kde e, e <> EMode -> forall by_chrom skip_low build t s,
  center_shift (est_fun kde e) by_chrom skip_low build t = Some s ->
  center_stat (est_fun kde e) by_chrom
    (autosomes (kept_rows skip_low t (center_all (est_fun kde e) by_chrom skip_low build t)) build) == 0.
Proof. exact center_zero_named. Qed.

(* mode: the same for every KDE arg-max index function within its contract (index in range,
   unchanged when all sorted values move by one constant) *)
Theorem C15_zero_mode : forall kde, kde_contract kde -> forall by_chrom skip_low build t s,
  center_shift (mode_of kde) by_chrom skip_low build t = Some s ->
  center_stat (mode_of kde) by_chrom
    (autosomes (kept_rows skip_low t (center_all (mode_of kde) by_chrom skip_low build t)) build) == 0.
Proof. exact center_zero_mode. Qed.

(* and for any callable estimator that moves with the data *)
Theorem C15_zero_any : forall est, translation_equivariant est -> forall by_chrom skip_low build t s,
  center_shift est by_chrom skip_low build t = Some s ->
  center_stat est by_chrom (autosomes (kept_rows skip_low t (center_all est by_chrom skip_low build t)) build) == 0.
Proof. exact center_zero_any. Qed.

(* the contract of the mode oracle is satisfiable *)
Example C15_kde_contract_satisfiable : kde_contract (fun _ => O).
Proof. exact kde_contract_first. Qed.

(* a shift is applied exactly when some bin is selected; otherwise the table is returned as it is *)
Theorem C15_shift_iff_selected : forall est by_chrom skip_low build t,
  (exists s, center_shift est by_chrom skip_low build t = Some s) <-> center_selection skip_low build t <> [].
Proof. exact center_shift_some_iff. Qed.

Theorem C15_nothing_selected : forall est by_chrom skip_low build t,
  center_shift est by_chrom skip_low build t = None -> center_all est by_chrom skip_low build t = t.
Proof. exact center_nothing. Qed.

(* "per chromosome first, then across chromosomes": the model's estimate is the estimator of the
   per-chromosome estimates, chromosomes in order of first appearance, each with the log2 of its own
   rows (rows of one chromosome need not be adjacent); flat: the estimator of all selected log2 *)
Theorem C15_two_level : forall est by_chrom sel,
  center_stat est by_chrom sel = if by_chrom then two_level est sel else flat_level_est est sel.
Proof. exact center_stat_spec. Qed.

Theorem C15_per_chromosome_names : forall t c,
  In c (first_names [] t) <-> exists b, In b t /\ b_chrom b = c.
Proof. exact per_chromosome_names. Qed.

(* ============================================================================================== *)
(* which bins are autosomal *)

(* named like an autosome = an optional "chr", then one or more decimal digits, nothing else *)
Theorem C15_autosome_names : forall s, is_auto_name s = true <-> numeric_name s.
Proof. exact is_auto_name_spec. Qed.

(* null-coverage = log2 below -15 or a depth of 0 *)
Theorem C15_null_coverage : forall b, is_low b = true <-> null_coverage b.
Proof. exact is_low_iff. Qed.

(* no chromosome named like an autosome: all (usable) rows are used, whatever the PAR build *)
Theorem C15_no_autosomes : forall skip_low build t,
  (forall b, In b t -> ~ numeric_name (b_chrom b)) ->
  center_selection skip_low build t = if skip_low then drop_low t else t.
Proof. exact center_selection_none. Qed.

(* otherwise: exactly the rows named like autosomes, plus -- with a PAR build -- the chrX rows inside
   PAR1X / PAR2X, in table order *)
Theorem C15_autosomes_some : forall t build,
  (exists b, In b t /\ is_auto_name (b_chrom b) = true) ->
  autosomes t build = filter (fun b => is_auto_name (b_chrom b) ||
                                       match build with Some p => parx_filter t p b | None => false end) t.
Proof. exact autosomes_some. Qed.

(* with skip_low no selected bin is a null-coverage bin; selected bins are rows of the table *)
Theorem C15_selection_skips_low : forall build t b,
  In b (center_selection true build t) -> In b t /\ ~ null_coverage b.
Proof. exact center_selection_skips_low. Qed.

(* the chrX / chrY / PAR row masks of this model are the chromosome classes of Model/Call.v (C01's model
   of the same cnary.py masks, PAR table from Gen/Params.v); b0 is the table's first row *)
Theorem C15_classes_agree_call : forall name p b0 t b,
  resolve_build name = Some p ->
  Call.row_class (Some name) (b_chrom b0) (b_chrom b) (b_start b) (b_end b) = center_class (b0 :: t) p b.
Proof. exact classes_agree. Qed.

Theorem C15_classes_agree_call_nobuild : forall b0 t b,
  Call.row_class None (b_chrom b0) (b_chrom b) (b_start b) (b_end b) = center_class_nobuild (b0 :: t) b.
Proof. exact classes_agree_nobuild. Qed.

Theorem C15_builds_agree_call : forall name,
  Call.build_supported name = true <-> exists p, resolve_build name = Some p.
Proof. exact builds_agree. Qed.

Example C15_center_example :
  let t := [mkBin "chr1" 0 100 "g" (1 # 2) None None; mkBin "chr1" 100 200 "g" (1 # 4) None None;
            mkBin "chr2" 0 100 "g" (-20) None None; mkBin "chrX" 0 100 "g" (-1) None None] in
  map b_log2 (center_all median true true None t) = [1 # 8; -1 # 8; -163 # 8; -11 # 8].
Proof. vm_compute. reflexivity. Qed.

(* ============================================================================================== *)
(* shift_xx *)

(* every chrX bin -- outside PAR1X / PAR2X when a PAR build is given -- moves by minus the level expected
   for the sample's sex against the reference (+1 female on a male reference, -1 male on a female
   reference, 0 otherwise); no other bin and no other column changes.  Any build. *)
Theorem C15_shift_xx : forall hap xx build t,
  Forall2 (fun b b' => if chr_x_filter t build b
                       then same_but_log2 (- x_offset xx hap) b b' else b' = b)
          t (shift_xx hap (Some xx) build t).
Proof. exact shift_xx_spec. Qed.

(* so a chrX sitting at the expected level comes to the autosomal level, in all four cases ... *)
Theorem C15_shift_xx_level : forall hap xx build t a,
  (forall b, In b t -> chr_x_filter t build b = true -> b_log2 b == a + x_offset xx hap) ->
  forall b', In b' (shift_xx hap (Some xx) build t) -> chr_x_filter t build b' = true -> b_log2 b' == a.
Proof. exact shift_xx_level. Qed.

(* ... and the PAR-X bins, which are there already, are never moved (nor is anything off chrX) *)
Theorem C15_shift_xx_parx_fixed : forall hap xx p t,
  Forall2 (fun b b' => (parx_filter t p b = true \/ b_chrom b <> x_label t) -> b' = b)
          t (shift_xx hap (Some xx) (Some p) t).
Proof. exact shift_xx_parx_fixed. Qed.

(* the two identity cases (female on female reference, male on male reference), any build *)
Theorem C15_shift_xx_identity : forall hap xx build t, xx = negb hap -> shift_xx hap (Some xx) build t = t.
Proof. exact shift_xx_identity. Qed.

(* the input of the repaired defect dff7a3e *)
Example C15_shift_xx_parx_example :
  let t := [mkBin "chr1" 0 100 "g" 0 None None; mkBin "chrX" 60000 60100 "g" 0 None None;
            mkBin "chrX" 5000000 5000100 "g" (-1) None None] in
  exists p, resolve_build "grch37" = Some p /\
            map (parx_filter t p) t = [false; true; false] /\
            map b_log2 (shift_xx false (Some false) (Some p) t) = [0; 0; 0].
Proof. exact shift_xx_keeps_parx. Qed.

Example C15_x_offset_table :
  x_offset true true == 1 /\ x_offset false false == -1 /\ x_offset true false == 0 /\ x_offset false true == 0.
Proof. repeat split; reflexivity. Qed.

(* ============================================================================================== *)
(* expect_flat_log2 *)

(* 0 on autosomes (and other contigs; PAR-X with a PAR build), -1 on Y, -1 on X only for a male
   reference -- for every table in which no bin lies inside PAR1Y/PAR2Y while the reference is male and
   a PAR build is given (the open finding c15-flat-pary-male-ref, next theorem) *)
Theorem C15_flat : forall hap build t,
  no_pary_under_male_ref hap build t ->
  expect_flat hap build t =
  map (fun b => flat_level hap (String.eqb (b_chrom b) (x_label t)) (String.eqb (b_chrom b) (y_label t))
                           (match build with Some p => parx_filter t p b | None => false end)) t.
Proof. exact expect_flat_spec. Qed.

(* ... in that situation a chrY bin gets 0, not -1 *)
Theorem C15_flat_pary_refuted :
  exists p, resolve_build "grch37" = Some p /\
    exists b, nth_error pary_witness 1 = Some b /\ b_chrom b = y_label pary_witness /\
              nth_error (expect_flat true (Some p) pary_witness) 1 = Some 0 /\ ~ (0 == -1).
Proof. exact expect_flat_pary_refuted. Qed.

Example C15_flat_levels :
  flat_level true true false false == -1 /\ flat_level false true false false == 0 /\
  flat_level true false true false == -1 /\ flat_level false false true false == -1 /\
  flat_level true false false false == 0 /\ flat_level true true false true == 0.
Proof. repeat split; reflexivity. Qed.

(* ============================================================================================== *)
(* chromosomal sex *)

(* a noise-free sample at the expected levels (autosomes at a, chrX at a + x_offset, a male sample's
   chrY -- if it has any chrY bin -- at a; weights -- if any -- non-negative; any number of bins, any
   other contigs), in all four sample-sex x reference-sex cases: whatever G statistic the median
   test reports for whatever table, the decision is the true sex, guess_xx says so, and so does the
   `sex` report *)
Theorem C15_sex_idealised : forall (gstat : mtable -> Q) a female hap t,
  idealised a female hap t ->
  sex_decision gstat hap None t = Some (negb female) /\
  guess_xx gstat hap None t = Some female /\
  fst (do_sex_row gstat hap None t) = (if female then "Female" else "Male")%string.
Proof. exact idealised_all. Qed.

(* the hypotheses are satisfiable: a male sample on a female reference, with chrY and weights *)
Example C15_idealised_example :
  idealised 0 false false
    [mkBin "1" 0 10 "g" 0 None (Some 1); mkBin "2" 0 10 "g" 0 None (Some (1 # 2));
     mkBin "X" 0 10 "g" (-1) None (Some 1); mkBin "Y" 0 10 "g" 0 None (Some 0)].
Proof.
  constructor.
  - eexists. split; [left; reflexivity|reflexivity].
  - eexists. split; [right; right; left; reflexivity|reflexivity].
  - intros b [<-|[<-|[<-|[<-|[]]]]]; simpl; intros H; try discriminate; reflexivity.
  - intros b [<-|[<-|[<-|[<-|[]]]]]; simpl; intros H; try discriminate; reflexivity.
  - intros _ b [<-|[<-|[<-|[<-|[]]]]]; simpl; intros H; try discriminate; reflexivity.
  - intros b w [<-|[<-|[<-|[<-|[]]]]]; simpl; intros H; injection H as <-; unfold Qle; simpl; lia.
Qed.

(* the same for every combination of reference sex and PAR build (or none): the levels are those of the bins the
   code's filters select -- numerically named chromosomes and PAR1X / PAR2X at a, chrX outside them at a + x_offset,
   a male sample's chrY outside PAR1Y / PAR2Y at a; PAR-Y bins are unconstrained *)
Theorem C15_sex_idealised_build : forall (gstat : mtable -> Q) a female hap build t,
  idealised_build a female hap build t ->
  sex_decision gstat hap build t = Some (negb female) /\
  guess_xx gstat hap build t = Some female /\
  fst (do_sex_row gstat hap build t) = (if female then "Female" else "Male")%string.
Proof. exact idealised_build_all. Qed.

Theorem C15_sex_idealised_is_build : forall a female hap t,
  idealised a female hap t -> idealised_build a female hap None t.
Proof. exact idealised_is_build. Qed.

(* satisfiable with a build: a female sample on a male reference, grch37: autosome and PAR1X at 0, chrX at +1, a
   (null-coverage) PAR1Y bin and a noisy chrY bin anywhere *)
Example C15_idealised_build_example :
  exists p, resolve_build "grch37" = Some p /\
  idealised_build 0 true true (Some p)
    [mkBin "chr1" 0 10 "g" 0 None None; mkBin "chrX" 60000 60100 "g" 0 None None;
     mkBin "chrX" 5000000 5000100 "g" 1 None None; mkBin "chrY" 20000 20100 "g" (-20) None None;
     mkBin "chrY" 5000000 5000100 "g" (-7) None None].
Proof.
  eexists. split; [vm_compute; reflexivity|]. constructor.
  - eexists. split; [left; reflexivity|reflexivity].
  - eexists. split; [right; right; left; reflexivity|reflexivity].
  - intros b [<-|[<-|[<-|[<-|[<-|[]]]]]]; vm_compute; intros H; try discriminate; reflexivity.
  - intros b [<-|[<-|[<-|[<-|[<-|[]]]]]]; vm_compute; intros H; try discriminate; reflexivity.
  - intros H; discriminate.
  - intros b w [<-|[<-|[<-|[<-|[<-|[]]]]]]; simpl; intros H; discriminate.
Qed.

(* the `sex` report end to end (commands.do_sex, Model/Sex.v do_sex_table): one row per input table in the order
   given, carrying the table's name; sex = "Male" exactly when compare_sex_chromosomes says so ("Female" also when
   there is no decision); the two ratios are "NA" exactly when there is no decision (empty table / no chrX bin),
   otherwise the (weighted, when there is a weight column with a non-zero entry) mean log2 of chrX minus that of the
   autosomes, and the same for chrY -- NaN when chrY has no bin *)
Theorem C15_do_sex_row : forall gstat hap build inputs i name t,
  nth_error inputs i = Some (name, t) ->
  exists label ratios,
    nth_error (do_sex_table gstat hap build inputs) i = Some (name, (label, ratios)) /\
    label = (match sex_decision gstat hap build t with Some true => "Male" | _ => "Female" end)%string /\
    match compare_sex gstat hap build t with
    | None => ratios = None
    | Some (_, st) =>
        ratios = Some (s_x_ratio st, s_y_ratio st) /\
        let use := has_weight t in
        let mean l := match segment_mean use l with Some m => m | None => 0 end in
        s_x_ratio st = qsub (mean (filter (chr_x_filter t build) t)) (mean (autosomes t build)) /\
        s_y_ratio st = match filter (chr_y_filter t build) t with
                       | [] => None
                       | chry => Some (qsub (mean chry) (mean (autosomes t build)))
                       end
    end.
Proof. exact do_sex_table_row. Qed.

Theorem C15_do_sex_rows : forall gstat hap build inputs,
  length (do_sex_table gstat hap build inputs) = length inputs.
Proof. exact do_sex_table_length. Qed.

(* the columns, as named in the source, and the sign prefix of the printed ratios *)
Theorem C15_do_sex_columns : do_sex_header = ["sample"; "sex"; "X_logratio"; "Y_logratio"]%string.
Proof. exact do_sex_header_lit. Qed.

Theorem C15_do_sex_sign : forall q, strsign_plus q = true <-> 0 < q.
Proof. exact strsign_plus_spec. Qed.

(* the decision arithmetic, for every outcome of the four median tests:
   one chromosome's ratio exceeds 1 exactly when the female-hypothesis statistic exceeds both the
   male-hypothesis statistic and the floor 0.01 (both tests succeeded) ... *)
Theorem C15_sex_arith_stats : forall f m fd md,
  1 < lr_of (Some f) (Some m) fd md <-> (m < f /\ lr_denominator_floor < f).
Proof. exact lr_of_stats. Qed.

(* ... stays below 1 when the female-hypothesis statistic is the smaller one ... *)
Theorem C15_sex_arith_stats_female : forall f m fd md, 0 <= f -> f < m -> lr_of (Some f) (Some m) fd md < 1.
Proof. exact lr_of_stats_female. Qed.

(* ... and the same with the differences of medians when a test failed *)
Theorem C15_sex_arith_diffs : forall fs ms fd md, (fs = None \/ ms = None) ->
  (1 < lr_of fs ms fd md <-> (md < fd /\ lr_denominator_floor < fd)).
Proof. exact lr_of_diffs. Qed.

(* chrX (and chrY if it has bins) speaking for male gives male; chrX speaking for female and chrY not
   speaking for male gives female *)
Theorem C15_sex_decision_male : forall x y,
  1 < x -> (match y with Some v => 1 < v | None => True end) -> is_xy_of (score_of x y) = true.
Proof. exact decision_male. Qed.

Theorem C15_sex_decision_female : forall x y,
  0 <= x -> x < 1 -> (match y with Some v => 0 <= v /\ v <= 1 | None => True end) ->
  is_xy_of (score_of x y) = false.
Proof. exact decision_female. Qed.

(* constant samples give the median test nothing to count: no statistic, whatever the oracle *)
Theorem C15_mood_constant : forall gstat v s1 s2,
  const_list v s1 -> const_list v s2 -> mood_stat gstat s1 s2 = None.
Proof. exact mood_stat_const. Qed.

(* ============================================================================================== *)
(* source ties (DESIGN 9.4): bodies translated from cnvlib/cnary.py on every run *)

(* expect_flat_log2 per bin: -1 where the mask chosen by the reference sex holds, else np.zeros' 0 *)
Theorem C15_source_flat : forall hap build t,
  expect_flat hap build t =
  map (fun b => fn_expect_flat 0 hap (chr_x_filter t build b) (chr_y_filter t build b) (chr_y_filter t None b)) t.
Proof. exact fn_expect_flat_eq. Qed.

(* shift_xx per bin: the if / elif on (is_xx, is_haploid_x_reference) with the masked -1.0 / +1.0, every other
   column untouched (is_xx = None after a failed guess reads as false) *)
Theorem C15_source_shift_xx : forall hap is_xx build t,
  Forall2 (fun b b' => other_columns_same b b' /\
                       b_log2 b' == fn_shift_xx_bin (xx_of is_xx) hap (chr_x_filter t build b) (b_log2 b))
          t (shift_xx hap is_xx build t).
Proof. exact fn_shift_xx_eq. Qed.

(* drop_low_coverage's per-row test *)
Theorem C15_source_low_coverage : forall b,
  is_low b = fn_drop_idx (b_log2 b) (has_depth_of b) (depth_of b) null_log2_coverage min_ref_coverage.
Proof. exact fn_is_low_eq. Qed.

(* compare_chrom: ratio of the two median-test statistics over max(., 0.01), else of the median differences *)
Theorem C15_source_compare_chrom : forall fs ms fd md,
  lr_of fs ms fd md == fn_compare_chrom fs (some_of ms) (val_of ms) fd md.
Proof. exact fn_compare_chrom_eq. Qed.

(* the combined score (chrY factor when chrY has bins) and the decision `combined_score > 1.0` *)
Theorem C15_source_sex_score : forall x_lr y_lr,
  score_of x_lr y_lr == fst (fn_sex_score x_lr (val_of y_lr) (some_of y_lr)) /\
  is_xy_of (score_of x_lr y_lr) = snd (fn_sex_score x_lr (val_of y_lr) (some_of y_lr)).
Proof. exact fn_sex_score_eq. Qed.

(* ============================================================================================== *)
(* chromosomal sex under BOUNDED noise: the deterministic core of "sex inferred right for samples whose chrX / chrY bins
   sit at the expected levels with bin noise up to sd 0.3 and at least 40 chrX bins".

   Which decisions of compare_sex_chromosomes depend on what (Model/Sex.v lr_of / score_of / is_xy_of, tied to the source
   by C15_source_compare_chrom / C15_source_sex_score):
     - per chromosome (X; Y when it has bins) the "maleness" ratio is female_stat / max(male_stat, 0.01) when BOTH median
       tests yield a statistic -- the only place the oracle (scipy's G statistic of Mood's test) enters -- and otherwise
       f_diff / max(m_diff, 0.01), the two |median(autosomes) - median(shifted chromosome)| (weighted medians when the
       table has weights): medians only;
     - whether a test yields a statistic (ValueError: an empty row / column of the contingency table; stat == 0 with a
       0 in the table) depends on the exact contingency table and, for the second rule, on the oracle being 0;
     - score = X ratio (times the Y ratio when chrY has bins), is_xy = score > 1, guess_xx = not is_xy,
       do_sex label, shift_xx: arithmetic on the above. *)
From CNV Require Import Proofs.SexNoise.
From Coq Require Import Qabs.

(* the median of values within eps of a level is within eps of it (the 1-Lipschitz fact, from QNumLemmas.median_bounds),
   and so is descriptives.weighted_median for any non-negative weights (from C19's range lemma) *)
Theorem C15_median_near : forall eps c l, l <> [] -> (forall x, In x l -> near eps c x) -> near eps c (median l).
Proof. exact median_near. Qed.

Theorem C15_weighted_median_near : forall eps c a w, a <> [] -> length w = length a -> (forall x, In x w -> 0 <= x) ->
  (forall x, In x a -> near eps c x) -> near eps c (wmed a w).
Proof. exact wmed_near. Qed.

(* both medians move with a shift of the values, so the two differences compare_to_auto computes are
   |A - (V + female_shift)| and |A - (V + male_shift)| for the centre A of the autosomes and V of the chromosome *)
Theorem C15_med_diff_shift : forall auto_l auto_w vals w s, vals <> [] -> ok_weights vals w ->
  med_diff auto_l auto_w (map (fun x => qadd x s) vals) w ==
  Qabs (centre_a auto_l auto_w w - (centre_v vals auto_w w + s)).
Proof. exact med_diff_shift. Qed.

(* THE THEOREM.  For every oracle gstat, every eps < 1/4, every reference sex, PAR build (or none), with or without chrY
   bins, with or without weights: a sample whose autosomal bins are all within eps of a level a, whose chrX bins are
   within eps of a + x_offset (0 / +1 / -1 by sex and reference) and whose chrY bins are within eps of a (male) or at or
   below a - 3 + eps (female: "deep negative") is called by its true sex -- provided the oracle meets the contract
   [sex_contract] AT THAT SAMPLE: whenever both median tests of a chromosome yield statistics f (female shift) and
   m (male shift), both are non-negative, the hypothesis whose shifted chromosome median is CLOSER to the autosomes'
   (smaller difference of medians as compare_to_auto computes it) has the SMALLER statistic -- f <= m when the female
   shift is the closer one (equality does occur: a female sample's chrY is below the autosomes under either shift, the
   two tests see the same table), m < f when the male shift is, and then f also exceeds the floor 0.01 of the
   denominator.  The contract asks nothing when a test yields no
   statistic.  1/4 because the levels are 1 apart: the centres are within eps of their levels, so the aligned shift
   leaves a difference of medians of at most 2 eps and the other one of at least 1 - 2 eps. *)
Theorem C15_sex_bounded_noise : forall (gstat : mtable -> Q) eps a female hap build t,
  eps < 1 # 4 -> bounded_noise eps a female hap build t -> sex_contract gstat hap build t ->
  sex_decision gstat hap build t = Some (negb female) /\
  guess_xx gstat hap build t = Some female /\
  fst (do_sex_row gstat hap build t) = (if female then "Female" else "Male")%string.
Proof. exact bounded_noise_all. Qed.

(* the contract, spelled out (one chromosome: autosomal values, chromosome values, their weights, the two shifts) *)
Theorem C15_sex_contract_def : forall gstat auto_l auto_w vals w fs ms,
  stat_contract gstat auto_l auto_w vals w fs ms <->
  (forall f m,
     mood_stat gstat auto_l (map (fun x => qadd x fs) vals) = Some f ->
     mood_stat gstat auto_l (map (fun x => qadd x ms) vals) = Some m ->
     0 <= f /\ 0 <= m /\
     (med_diff auto_l auto_w (map (fun x => qadd x fs) vals) w < med_diff auto_l auto_w (map (fun x => qadd x ms) vals) w ->
      f <= m) /\
     (med_diff auto_l auto_w (map (fun x => qadd x ms) vals) w < med_diff auto_l auto_w (map (fun x => qadd x fs) vals) w ->
      m < f /\ lr_denominator_floor < f)).
Proof. exact stat_contract_def. Qed.

(* on the route where the oracle returns no statistic (for each chromosome at least one of the two tests has none) the
   decision rests on medians only and NO contract is needed *)
Theorem C15_sex_bounded_noise_nostat : forall (gstat : mtable -> Q) eps a female hap build t,
  eps < 1 # 4 -> bounded_noise eps a female hap build t -> sex_stat_absent gstat hap build t ->
  sex_decision gstat hap build t = Some (negb female) /\
  guess_xx gstat hap build t = Some female /\
  fst (do_sex_row gstat hap build t) = (if female then "Female" else "Male")%string.
Proof. exact bounded_noise_nostat. Qed.

(* what the decision really rests on: only the CENTRES (median, or weighted median when the table has weights) of the
   autosomal, chrX and chrY bins need be within eps of their levels; single bins may lie anywhere.  This is the form
   that speaks about Gaussian noise of sd 0.3: single bins leave the band, the median of 40 or more of them hardly does *)
Theorem C15_sex_centred_noise : forall (gstat : mtable -> Q) eps a female hap build t,
  eps < 1 # 4 -> centred_noise (sex_centre t) eps a female hap build t -> sex_contract gstat hap build t ->
  sex_decision gstat hap build t = Some (negb female) /\
  guess_xx gstat hap build t = Some female /\
  fst (do_sex_row gstat hap build t) = (if female then "Female" else "Male")%string.
Proof. exact centred_noise_all. Qed.

Theorem C15_bounded_is_centred : forall eps a female hap build t,
  bounded_noise eps a female hap build t -> centred_noise (sex_centre t) eps a female hap build t.
Proof. exact bounded_is_centred. Qed.

(* the hypotheses as executable tests (run by the harness on every generated sample, fed with scipy's statistics):
   a sample that passes [noise_check] is under the theorem *)
Theorem C15_sex_noise_check : forall gstat eps a female hap build t,
  noise_check gstat eps a female hap build t = true ->
  sex_decision gstat hap build t = Some (negb female) /\
  guess_xx gstat hap build t = Some female /\
  fst (do_sex_row gstat hap build t) = (if female then "Female" else "Male")%string.
Proof. exact noise_check_sound. Qed.

Theorem C15_noise_tests_sound : forall gstat eps a female hap build t,
  (bounded_noise_b eps a female hap build t = true -> bounded_noise eps a female hap build t) /\
  (centred_noise_b (sex_centre t) eps a female hap build t = true -> centred_noise (sex_centre t) eps a female hap build t) /\
  (sex_contract_x_b gstat hap build t = true -> sex_contract_y_b gstat build t = true -> sex_contract gstat hap build t) /\
  (sex_route_x gstat hap build t = 0%Z -> sex_route_y gstat build t = 0%Z -> sex_stat_absent gstat hap build t).
Proof. exact noise_tests_sound. Qed.

(* the entry c15_noise_check evaluates contract and route of a chromosome in one pass; it is the pair of the two tests *)
Theorem C15_noise_entry_tie : forall gstat hap build t,
  sex_contract_route_x gstat hap build t = (sex_contract_x_b gstat hap build t, sex_route_x gstat hap build t) /\
  sex_contract_route_y gstat build t = (sex_contract_y_b gstat build t, sex_route_y gstat build t).
Proof. exact sex_contract_route_eq. Qed.

(* shift_xx then brings chrX to the autosomal level: every chrX bin (outside PAR-X) of the result is within eps of the
   AUTOSOMAL level a, the autosomal bins are untouched, so chrX is within 2 eps of every autosomal bin -- with the true
   sex given, and equally when shift_xx guesses it (is_xx=None) *)
Theorem C15_shift_xx_bounded_noise : forall eps a female hap build t,
  bounded_noise eps a female hap build t ->
  forall b', In b' (shift_xx hap (Some female) build t) ->
    (chr_x_filter t build b' = true -> near eps a (b_log2 b')) /\
    (auto_sel t build b' = true -> near eps a (b_log2 b')).
Proof. exact bounded_shift_xx. Qed.

Theorem C15_shift_xx_bounded_noise_guessed : forall (gstat : mtable -> Q) eps a female hap build t,
  eps < 1 # 4 -> bounded_noise eps a female hap build t -> sex_contract gstat hap build t ->
  shift_xx hap (guess_xx gstat hap build t) build t = shift_xx hap (Some female) build t /\
  (forall b', In b' (shift_xx hap (guess_xx gstat hap build t) build t) ->
     (chr_x_filter t build b' = true -> near eps a (b_log2 b')) /\
     (auto_sel t build b' = true -> near eps a (b_log2 b'))) /\
  (forall bx ba, In bx (shift_xx hap (guess_xx gstat hap build t) build t) ->
     In ba (shift_xx hap (guess_xx gstat hap build t) build t) ->
     chr_x_filter t build bx = true -> auto_sel t build ba = true -> Qabs (b_log2 bx - b_log2 ba) <= 2 * eps).
Proof. exact bounded_shift_xx_guessed. Qed.

(* THE PROPERTY'S SETTING, as far as a deterministic statement goes: all bins within 0.24 of their level => the true sex
   from compare_sex_chromosomes / guess_xx / the `sex` report, and shift_xx leaves chrX within 0.48 of every autosomal
   bin -- any number of chrX bins (the "at least 40" of the text is not needed for bounded noise), any reference sex, PAR
   build, with or without chrY, with or without weights, for every oracle within the contract at the sample.
   WHAT REMAINS STATISTICAL: (i) Gaussian noise is not bounded -- at sd s a bin leaves the 0.24 band with probability
   2(1 - Phi(0.24/s)) (about 0.42 at sd 0.3, 1.6e-2 at sd 0.1, below 1e-5 at sd 0.05), so for sd above ~0.06 some bin of
   a few hundred does; C15_sex_centred_noise then still applies as long as the three (weighted) medians stay within 1/4 --
   for 40 or more chrX bins at sd 0.3 the median has sd ~ 0.06, a 4-sigma event -- and that tail is only sampled;
   (ii) that scipy's G statistic meets the contract at the sample: it does NOT for every bounded-noise sample
   (C15_sex_contract_needed), it does for typical ones; the harness evaluates the contract with scipy's statistics on
   every generated sample and reports how often it held. *)
Theorem C15_sex_bounded_noise_corollary : forall (gstat : mtable -> Q) a female hap build t,
  bounded_noise (24 # 100) a female hap build t -> sex_contract gstat hap build t ->
  sex_decision gstat hap build t = Some (negb female) /\
  guess_xx gstat hap build t = Some female /\
  fst (do_sex_row gstat hap build t) = (if female then "Female" else "Male")%string /\
  (forall bx ba, In bx (shift_xx hap (guess_xx gstat hap build t) build t) ->
     In ba (shift_xx hap (guess_xx gstat hap build t) build t) ->
     chr_x_filter t build bx = true -> auto_sel t build ba = true -> Qabs (b_log2 bx - b_log2 ba) <= 48 # 100).
Proof. exact bounded_noise_024. Qed.

(* the contract is satisfiable on the route WITH statistics: ten bins of a male sample (female reference) within 1/8 of
   their levels, Pearson's chi-square as the oracle; both tests of chrX yield a statistic, the contract holds *)
Theorem C15_sex_contract_satisfiable :
  bounded_noise (1 # 8) 0 false false None contract_witness /\
  sex_route_x pearson false None contract_witness = 1%Z /\
  sex_contract pearson false None contract_witness /\
  sex_decision pearson false None contract_witness = Some true.
Proof. exact contract_satisfiable. Qed.

(* ... and it cannot be dropped: a male sample within 1/16 of its levels (autosomal bins all slightly high, chrX bins all
   slightly low) for which both shifts produce the SAME contingency table (4, 1, 0, 5); every oracle that is a function
   of the table and non-zero there gives f = m, ratio at most 1: called female.  The contract fails at that sample. *)
Theorem C15_sex_contract_needed :
  bounded_noise (1 # 16) 0 false false None adversarial_witness /\
  forall gstat : mtable -> Q, ~ gstat (4, 1, 0, 5)%Z == 0 ->
    sex_decision gstat false None adversarial_witness = Some false /\
    ~ sex_contract gstat false None adversarial_witness.
Proof. exact contract_needed. Qed.

(* ... and 1/4 is sharp: 3 autosomal bins at -1/4, 40 chrX bins of a male sample (female reference) at -1 + 1/4; no test
   yields a statistic, both differences of medians are 1/2, the ratio is exactly 1, not above 1: called female by every
   oracle *)
Theorem C15_sex_quarter_is_sharp :
  bounded_noise (1 # 4) 0 false false None quarter_witness /\
  forall gstat : mtable -> Q, sex_decision gstat false None quarter_witness = Some false.
Proof. exact quarter_is_sharp. Qed.

(* ============================================================================================== *)
(* loop ties / function-body ties, second batch (LOOP_TIES_GUIDE.md; specs tools/fnspecs/cnary_loops.py): whole bodies,
   dispatch code and per-row code of cnvlib/cnary.py translated on every run, each equal to the model's function *)
From CNV Require Proofs.FnCnaryXFilter Proofs.FnCnaryYFilter.

(* parx_filter, the whole function per row: on chrX (the table's label) and inside PAR1X or PAR2X of the build *)
Theorem C15_source_parx_filter : forall t p b gb,
  parx_filter t p b =
  let '(s1, e1, s2, e2) := par_x p in
  Gen.FnCnaryXFilter.fn_parx_filter (b_chrom b) (b_start b) (b_end b) gb (x_label t) s1 e1 s2 e2.
Proof. exact Proofs.FnCnaryXFilter.fn_parx_filter_eq. Qed.

(* chr_x_filter, the whole function per row: on chrX, and outside the PAR when a build is given -- the inner call is the
   generated parx_filter *)
Theorem C15_source_chr_x_filter : forall t build b gb,
  chr_x_filter t build b =
  Gen.FnCnaryXFilter.fn_chr_x_filter (b_chrom b) (x_label t) (Proofs.FnCnaryXFilter.has_build_x build)
                                     (Proofs.FnCnaryXFilter.fn_parx_of t build gb b).
Proof. exact Proofs.FnCnaryXFilter.fn_chr_x_filter_eq. Qed.

(* pary_filter / chr_y_filter likewise *)
Theorem C15_source_pary_filter : forall t p b gb,
  pary_filter t p b =
  let '(s1, e1, s2, e2) := par_y p in
  Gen.FnCnaryYFilter.fn_pary_filter (b_chrom b) (b_start b) (b_end b) gb (y_label t) s1 e1 s2 e2.
Proof. exact Proofs.FnCnaryYFilter.fn_pary_filter_eq. Qed.

Theorem C15_source_chr_y_filter : forall t build b gb,
  chr_y_filter t build b =
  Gen.FnCnaryYFilter.fn_chr_y_filter (b_chrom b) (y_label t) (Proofs.FnCnaryYFilter.has_build_y build)
                                     (Proofs.FnCnaryYFilter.fn_pary_of t build gb b).
Proof. exact Proofs.FnCnaryYFilter.fn_chr_y_filter_eq. Qed.

From CNV Require Proofs.FnCnaryMood Proofs.FnCnaryChrom.

(* compare_to_auto, the whole nested function (try / except ValueError / else around scipy's median_test, then the rule
   `stat == 0 and 0 in cont`): the model's mood_stat is its first result when median_test raises exactly where the model
   says (an empty sample, an empty row / column of the table), returns the oracle's statistic and `0 in cont` is
   table_has_zero ... *)
Theorem C15_source_mood_stat : forall gstat s1 s2 p med cont use wa wv ma mv,
  mood_stat gstat s1 s2 =
  fst (Gen.FnCnaryMood.fn_compare_to_auto (Proofs.FnCnaryMood.mood_raises s1 s2) (gstat (mood_table s1 s2)) p med cont
                                          (table_has_zero (mood_table s1 s2)) use wa wv ma mv).
Proof. exact Proofs.FnCnaryMood.fn_mood_stat_eq. Qed.

(* ... and med_diff its second result: |weighted median - weighted median| when the table has weights, else
   |median - median|, whatever the test did *)
Theorem C15_source_med_diff : forall raised st p med cont zc (use : bool) auto_l aw vals vw,
  med_diff auto_l (if use then Some aw else None) vals (if use then Some vw else None) ==
  snd (Gen.FnCnaryMood.fn_compare_to_auto raised st p med cont zc use (wmed auto_l aw) (wmed vals vw)
                                          (median auto_l) (median vals)).
Proof. exact Proofs.FnCnaryMood.fn_med_diff_eq. Qed.

(* compare_chrom, the whole nested function: the female-shift call first, the male-shift call second, then the ratio --
   the model's male_lr on the model's two compare_to_auto results *)
Theorem C15_source_male_lr : forall gstat auto_l auto_w vals w female_shift male_shift,
  male_lr gstat auto_l auto_w vals w female_shift male_shift ==
  Gen.FnCnaryChrom.fn_compare_chrom_whole
    (mood_stat gstat auto_l (Proofs.FnCnaryChrom.shifted vals female_shift))
    (med_diff auto_l auto_w (Proofs.FnCnaryChrom.shifted vals female_shift) w)
    (val_of (mood_stat gstat auto_l (Proofs.FnCnaryChrom.shifted vals male_shift)))
    (med_diff auto_l auto_w (Proofs.FnCnaryChrom.shifted vals male_shift) w)
    (some_of (mood_stat gstat auto_l (Proofs.FnCnaryChrom.shifted vals male_shift))).
Proof. exact Proofs.FnCnaryChrom.fn_male_lr_eq. Qed.

From CNV Require Proofs.FnCnaryCenter Proofs.FnCnaryEstimator.

(* center_all after the selection (`if cnarr: ... self.data["log2"] += shift`), per row: nothing selected -> untouched;
   otherwise log2 - estimator(per-chromosome estimates | selected values), by_chrom deciding which; no other column moves *)
Theorem C15_source_center_all : forall est by_chrom skip_low build t verbose,
  let sel := center_selection skip_low build t in
  Forall2 (fun b b' => other_columns_same b b' /\
                       b_log2 b' == Gen.FnCnaryCenter.fn_center_row (Proofs.FnCnaryCenter.nonempty sel) by_chrom verbose est
                                      (map est (group_log2 sel)) (map b_log2 sel) (b_log2 b))
          t (center_all est by_chrom skip_low build t).
Proof. exact Proofs.FnCnaryCenter.fn_center_all_eq. Qed.

(* the estimator dispatch: a known name selects the model's estimator out of the table est_funcs, a callable is itself,
   and the code raises ValueError exactly on the names the model does not know *)
Theorem C15_source_estimator_name : forall kde s e,
  est_of_name s = Some e ->
  Gen.FnCnaryEstimator.fn_center_estimator (inl s) qmean median (mode_of kde) biweight = est_fun kde e.
Proof. exact Proofs.FnCnaryEstimator.fn_center_estimator_name. Qed.

Theorem C15_source_estimator_callable : forall f m1 m2 m3 m4,
  Gen.FnCnaryEstimator.fn_center_estimator (inr f) m1 m2 m3 m4 = f.
Proof. exact Proofs.FnCnaryEstimator.fn_center_estimator_callable. Qed.

Theorem C15_source_estimator_known : forall s m1 m2 m3 m4,
  Gen.FnCnaryEstimator.fn_estimator_known s m1 m2 m3 m4 = match est_of_name s with Some _ => true | None => false end.
Proof. exact Proofs.FnCnaryEstimator.fn_estimator_known_eq. Qed.

From CNV Require Proofs.FnCnaryGuess Proofs.FnCnaryFlatWhole Proofs.FnSexCommand.

(* guess_xx, the whole function: no decision -> None, otherwise the decision negated (`~is_xy`) *)
Theorem C15_source_guess_xx : forall gstat hap build t keys verbose,
  guess_xx gstat hap build t = Gen.FnCnaryGuess.fn_guess_xx (sex_decision gstat hap build t) keys verbose.
Proof. exact Proofs.FnCnaryGuess.fn_guess_xx_eq. Qed.

(* expect_flat_log2, the whole function per bin: with the reference sex given ... *)
Theorem C15_source_flat_whole_given : forall hap build t g,
  expect_flat hap build t =
  map (fun b => Gen.FnCnaryFlatWhole.fn_expect_flat_whole (Some hap) g 0 (chr_x_filter t build b) (chr_y_filter t build b)
                                                         (chr_y_filter t None b)) t.
Proof. exact Proofs.FnCnaryFlatWhole.fn_expect_flat_whole_given. Qed.

(* ... and left out: `not self.guess_xx(diploid_parx_genome=..., verbose=False)` decides (a missing guess: haploid) *)
Theorem C15_source_flat_whole_guess : forall gstat build t,
  expect_flat_guess gstat build t =
  map (fun b => Gen.FnCnaryFlatWhole.fn_expect_flat_whole None (guess_xx gstat false build t) 0
                  (chr_x_filter t build b) (chr_y_filter t build b) (chr_y_filter t None b)) t.
Proof. exact Proofs.FnCnaryFlatWhole.fn_expect_flat_whole_guess. Qed.

(* commands.do_sex: strsign picks the "+" format exactly for a positive number (NaN: the plain one) *)
Theorem C15_source_strsign : forall q plus plain,
  Gen.FnSexCommand.fn_strsign (Some q) plus plain = (if strsign_plus q then plus else plain) /\
  Gen.FnSexCommand.fn_strsign None plus plain = plain.
Proof. exact Proofs.FnSexCommand.fn_strsign_eq. Qed.

(* commands.do_sex: one row (guess_and_format, whole) is the model's do_sex_row: the label, and the two ratios printed
   exactly when compare_sex_chromosomes returned statistics ("NA" otherwise) *)
Theorem C15_source_do_sex_row : forall gstat hap build t sample x_text y_text,
  let r := do_sex_row gstat hap build t in
  Gen.FnSexCommand.fn_guess_and_format (sex_decision gstat hap build t)
    (Proofs.FnSexCommand.stats_keys (Proofs.FnSexCommand.has_ratios r)) sample x_text y_text =
  (sample, fst r, if Proofs.FnSexCommand.has_ratios r then x_text else "NA"%string,
   if Proofs.FnSexCommand.has_ratios r then y_text else "NA"%string).
Proof. exact Proofs.FnSexCommand.fn_guess_and_format_eq. Qed.

Theorem C15_source_do_sex_columns : do_sex_header = Gen.FnSexCommand.fn_do_sex_columns.
Proof. exact Proofs.FnSexCommand.fn_do_sex_columns_eq. Qed.

From CNV Require Proofs.FnGaryAutosomes Proofs.FnCnaryAutosomes.

(* GenomicArray.autosomes (skgenome/gary.py), the whole function per row: the table itself when no chromosome has a numeric
   name, else the rows with a numeric name or an `also` bit -- the filter by the generated row function *)
Theorem C15_source_gary_autosomes : forall t also na aa,
  Proofs.FnGaryAutosomes.gary_autosomes t also = filter (Proofs.FnGaryAutosomes.gary_keep t also na aa) t.
Proof. exact Proofs.FnGaryAutosomes.fn_gary_autosomes_eq. Qed.

(* CopyNumArray.autosomes, the whole override: the model's autosome selection (what center_all centres on and
   compare_sex_chromosomes compares with) is the filter by the generated override around the generated base-class function *)
Theorem C15_source_autosomes : forall t build na aa,
  autosomes t build = filter (Proofs.FnCnaryAutosomes.cnary_keep t build na aa) t.
Proof. exact Proofs.FnCnaryAutosomes.fn_cnary_autosomes_eq. Qed.

(* ... and a caller's `also` mask is OR-ed with the PAR-X mask when a build is given *)
Theorem C15_source_autosomes_also : forall has_b also_bit parx base,
  Gen.FnCnaryAutosomes.fn_cnary_autosomes has_b (Some also_bit) parx true base =
  base (Some (if has_b then also_bit || parx else also_bit)).
Proof. exact Proofs.FnCnaryAutosomes.fn_cnary_autosomes_also. Qed.

From CNV Require Proofs.FnCnaryDropLow Proofs.FnCnaryShifts Proofs.FnCnarySexLib Proofs.FnCnaryYFactor Proofs.FnCnaryRatios.

(* drop_low_coverage, the whole function per row (`return self[~drop_idx]`): the model's drop_low is the filter by it *)
Theorem C15_source_drop_low : forall t verbose,
  drop_low t =
  filter (fun b => Gen.FnCnaryDropLow.fn_drop_low_keep (b_log2 b) (has_depth_of b) (depth_of b) verbose
                     null_log2_coverage min_ref_coverage) t.
Proof. exact Proofs.FnCnaryDropLow.fn_drop_low_eq. Qed.

(* compare_sex_chromosomes: the chrX shifts `(-1, 0) if is_haploid_x_reference else (0, +1)` *)
Theorem C15_source_x_shifts : forall hap,
  x_shifts hap = (inject_Z (fst (Gen.FnCnaryShifts.fn_x_shifts hap)), inject_Z (snd (Gen.FnCnaryShifts.fn_x_shifts hap))).
Proof. exact Proofs.FnCnaryShifts.fn_x_shifts_eq. Qed.

(* compare_sex_chromosomes: the whole chrY statement (`if len(chry): ... else: chry_male_lr = np.nan`) on the model's own
   result -- the chrY ratio exists exactly when chrY has bins, the score is the chrX ratio times it *)
Theorem C15_source_y_factor : forall gstat hap build t d st id id',
  compare_sex gstat hap build t = Some (d, st) ->
  let chry := filter (chr_y_filter t build) t in
  s_score st == fst (Gen.FnCnaryYFactor.fn_y_factor id id' (Z.of_nat (length chry)) (s_x_lr st) (val_of (s_y_lr st)) true) /\
  s_y_lr st = snd (Gen.FnCnaryYFactor.fn_y_factor id id' (Z.of_nat (length chry)) (s_x_lr st) (val_of (s_y_lr st)) true).
Proof. exact Proofs.FnCnaryYFactor.fn_y_factor_eq. Qed.

(* compare_sex_chromosomes: the two reported ratios (chrX / chrY mean minus the autosomal mean; the Y ratio missing when
   chrY has no bins) are the translated differences on the model's three means *)
Theorem C15_source_sex_ratios : forall gstat hap build t d st,
  compare_sex gstat hap build t = Some (d, st) ->
  let use := has_weight t in
  let r := Gen.FnCnaryRatios.fn_sex_ratios (Proofs.FnCnarySexLib.mean0 (segment_mean use (autosomes t build)))
             (Proofs.FnCnarySexLib.mean0 (segment_mean use (filter (chr_x_filter t build) t)))
             (segment_mean use (filter (chr_y_filter t build) t)) in
  s_x_ratio st == fst r /\ Proofs.FnCnaryRatios.opt_eqQ (s_y_ratio st) (snd r).
Proof. exact Proofs.FnCnaryRatios.fn_sex_ratios_eq. Qed.

From CNV Require Proofs.FnCnarySelection.

(* center_all's selection `(self.drop_low_coverage(..) if skip_low else self).autosomes(diploid_parx_genome=..)`, tables as
   ids (0 the table, 1 without its low bins, i + 2 the autosomes of table i): skip_low picks the table, then the autosomes *)
Theorem C15_source_center_selection : forall skip_low build t build_id,
  center_selection skip_low build t =
  Proofs.FnCnarySelection.table_of t build
    (Gen.FnCnarySelection.fn_center_selection 0 1 skip_low build_id (fun id _ => (id + 2)%Z)).
Proof. exact Proofs.FnCnarySelection.fn_center_selection_eq. Qed.
