(* C10 -- results depend only on arguments; inputs untouched; no overwrite.
   What is proved here: (a) the ensure_path discipline, completely, on the family of
   names p, p.1, p.2, ...; (b) the frame theorems that state precisely what the trace
   validation of harness/c10.py compares the real objects against. The refinement
   "the Python objects and global generators behave like this pure model" is runtime
   state: it is validated by traces, not proved (level: other). *)
From CNV Require Import Base.Prelude Model.World Proofs.World Model.Decimal Gen.FnCore Proofs.FnCore.

(* ensure_path always terminates within its fuel (pigeonhole on the finite directory). *)
Theorem C10_ensure_path_total : forall (f : @fs string), exists f', ensure_path f = Some f'.
Proof. exact ensure_path_total. Qed.

(* One "ensure_path(p); write p" round on ANY directory state: p holds the new content,
   the previous p is intact under the first free numbered suffix, every other file of
   the family is untouched. *)
Theorem C10_no_overwrite_round : forall (f f' : @fs string) c, write_round f c = Some f' ->
  lookup 0 f' = Some c /\
  match lookup 0 f with
  | None => forall j, j <> 0%nat -> lookup j f' = lookup j f
  | Some old => exists n, (1 <= n)%nat /\ lookup n f = None /\
                (forall j, (1 <= j < n)%nat -> lookup j f <> None) /\
                lookup n f' = Some old /\
                forall j, j <> 0%nat -> j <> n -> lookup j f' = lookup j f
  end.
Proof. exact write_round_spec. Qed.

(* k writes to a fresh path leave exactly k files: p = c_k and p.j = c_j for j < k. *)
Theorem C10_no_overwrite : forall cs : list string,
  exists f, write_rounds [] cs = Some f /\ layout cs f.
Proof. exact write_rounds_layout. Qed.

Example C10_three_writes :
  write_rounds [] ["a"; "b"; "c"]%string = Some [(0%nat, "c"); (2%nat, "b"); (1%nat, "a")]%string.
Proof. reflexivity. Qed.

Example C10_preexisting_suffix :
  write_rounds [(0%nat, "old"); (1%nat, "x")]%string ["new"]%string
  = Some [(0%nat, "new"); (2%nat, "old"); (1%nat, "x")]%string.
Proof. reflexivity. Qed.

(* Frame: every result of every history equals its operation applied to the INITIAL
   argument objects -- independent of what ran before, of the generator states set
   between calls, and of the reseeding done by stochastic operations. *)
Theorem C10_history_independent :
  forall (Obj : Type) (seed : Z) (d : Obj) (h : list (op * list nat * Z * Z)) (w : world),
  snd (run seed d w h) = map (fun '(o, ids, _, _) => op_fun o (pick ids (w_objs w) d)) h.
Proof. exact (@run_results). Qed.

(* Frame: the caller's objects are the same after any history. *)
Theorem C10_args_frame :
  forall (Obj : Type) (seed : Z) (d : Obj) (h : list (op * list nat * Z * Z)) (w : world),
  w_objs (fst (run seed d w h)) = w_objs w.
Proof. exact (@run_objs). Qed.

(* ---- source tie of ensure_path's backup-name search (Gen/FnCore.v, regenerated from cnvlib/core.py on every
   run): the first candidate is fname.1, one iteration of the while loop moves from fname.n to fname.(n+1) *)
Theorem C10_source_backup_first : forall fname, fn_backup_first fname = (1%Z, backup_name fname 1).
Proof. exact source_backup_first. Qed.

Theorem C10_source_backup_step : forall fname n,
  fn_backup_step fname (Z.of_nat n) (backup_name fname n) = (Z.of_nat (S n), backup_name fname (S n)).
Proof. exact source_backup_step. Qed.

(* different indices are different file names: indexing the family by the number loses nothing *)
Theorem C10_source_backup_names_distinct : forall fname n m,
  backup_name fname n = backup_name fname m -> n = m.
Proof. exact backup_name_inj. Qed.

(* the code's search (the generated step iterated while the candidate exists) IS the model's first_free, on
   the file system whose files of the family are exactly those bound in f *)
Theorem C10_source_backup_search : forall fname (f : @fs string) fuel n,
  search fname (fun nm => existsb (fun k => String.eqb nm (backup_name fname k)
                                            && match lookup k f with Some _ => true | None => false end)
                                  (map fst f)) fuel (Z.of_nat n) (backup_name fname n)
  = option_map (fun k => (Z.of_nat k, backup_name fname k)) (first_free fuel n f).
Proof. exact source_search. Qed.
