(* C08 -- every format is read to 0-based half-open, sorted; write-then-read is lossless.
   Property theorems only (field level: a line is the list of its tab-separated
   fields; tokenisation of bytes and %.6g are on the code's side, see DESIGN 5 C08).
   Proofs live in Proofs/FormatsLemmas.v, FormatsOrder.v, FormatsText.v, FormatsSniff.v,
   FormatsSeg.v, ChromsortLemmas.v.

   Format-inherent preconditions (stated in the theorems that need them):
   * BED: a line starting with "track" is a track line and one starting with
     "browser " a browser line, so chromosome names must not start that way;
   * interval list: "@" starts a header/comment; an empty label is read as "-";
   * chr:start-end text: re_label needs the name to start with a word character
     and continue with word characters or dots; coordinates are non-negative;
     nothing but the region is written (labels read back as "-");
   * SEG: sample ids distinct, every sample non-empty; labels are not carried ("-");
   * pandas' NA tokens as names/labels are the open finding C08-na-token-name
     (tokenisation, outside the field-level model). *)
From CNV Require Import Base.Prelude Base.Str.
From CNV Require Import Model.Decimal Model.Chromsort Model.Sniff Model.Formats.
From CNV Require Import Proofs.ChromsortLemmas Proofs.FormatsLemmas Proofs.FormatsOrder.
From CNV Require Import Proofs.FormatsText Proofs.FormatsRewrite Proofs.FormatsSniff Proofs.FormatsAuto Proofs.FormatsSeg.
From CNV Require Gen.Formats.

(* ---- conventions: textual (s, e) -> (s + off, e); off = 0 for BED and tab,
        -1 for interval list, text (C08_conventions_text), GFF, SEG, VCF, Picard ---- *)

Theorem C08_conventions_bed : forall c s e rest,
  read_bed_line (c :: print_Z s :: print_Z e :: rest)
  = Some ((c, s + 0, e), [nth 0 rest "-"%string; nth 2 rest "."%string]).
Proof. exact conv_bed. Qed.

Theorem C08_conventions_tab : forall c s e ex,
  read_tab_row (3 + length ex) 0 1 2 (c :: print_Z s :: print_Z e :: ex) = Some ((c, s + 0, e), ex).
Proof. exact conv_tab. Qed.

Theorem C08_conventions_interval : forall c s e strand gene,
  read_interval_line [c; print_Z s; print_Z e; strand; gene]
  = Some ((c, s + -1, e), [if String.eqb gene "" then "-"%string else gene; strand]).
Proof. exact conv_interval. Qed.

Theorem C08_conventions_gff : forall c src ty s e sc st ph attr,
  read_gff_line [c; src; ty; print_Z s; print_Z e; sc; st; ph; attr] = Some (c, s + -1, e).
Proof. exact conv_gff. Qed.

Theorem C08_conventions_seg : forall sid c s e rest,
  read_seg_line (4 + length rest) (sid :: c :: print_Z s :: print_Z e :: rest)
  = Some (sid, ((c, s + -1, e), rest ++ ["-"%string])).
Proof. exact conv_seg. Qed.

Theorem C08_conventions_vcf : forall c p rest,
  read_vcf_line Gen.Formats.off_read_vcf_simple (c :: print_Z p :: rest) = Some (c, p + -1) /\
  read_vcf_line Gen.Formats.off_read_vcf_sites (c :: print_Z p :: rest) = Some (c, p + -1).
Proof. exact (fun c p rest => conj (conv_vcf_simple c p rest) (conv_vcf_sites c p rest)). Qed.

Theorem C08_conventions_picard : forall c s e len name rest,
  read_picardhs_line (c :: print_Z s :: print_Z e :: len :: name :: rest)
  = Some ((c, s + -1, e), [name]).
Proof. exact conv_picardhs. Qed.

(* ---- every reader's result is sorted by (chromosome key, start, end) ---- *)

Theorem C08_sorted : forall ls : list line,
  (forall t, read_bed ls = Some t -> rows_sorted t) /\
  (forall t, read_bed3 ls = Some t -> rows_sorted t) /\
  (forall t, read_bed4 ls = Some t -> rows_sorted t) /\
  (forall h t, read_tab ls = Some (h, t) -> rows_sorted t) /\
  (forall t, read_interval ls = Some t -> rows_sorted t) /\
  (forall t, read_text ls = Some t -> rows_sorted t) /\
  (forall t, read_picardhs ls = Some t -> rows_sorted t) /\
  (forall t, read_seg_first ls = Some t -> rows_sorted t) /\
  (forall samples, import_seg ls = Some samples -> Forall (fun sr => rows_sorted (snd sr)) samples) /\
  (forall t, read_gff ls = Some t -> regions_sorted (fun g => g) t).
Proof.
  exact (fun ls => conj (read_bed_sorted ls) (conj (read_bed3_sorted ls) (conj (read_bed4_sorted ls)
    (conj (read_tab_sorted ls) (conj (read_interval_sorted ls) (conj (read_text_sorted ls)
    (conj (read_picardhs_sorted ls) (conj (read_seg_first_sorted ls) (conj (import_seg_sorted ls)
    (read_gff_sorted ls)))))))))).
Qed.

(* sortedness means: between two rows, in table order, the chromosome key
   increases, or it is the same and (start, end) does not decrease *)
Theorem C08_sorted_meaning : forall a b : row,
  region_leb row_region a b = true <->
  (ckey_ltb (chrom_key (fst (fst (fst a)))) (chrom_key (fst (fst (fst b)))) = true \/
   (chrom_key (fst (fst (fst a))) = chrom_key (fst (fst (fst b))) /\
    (snd (fst (fst a)) < snd (fst (fst b)) \/
     (snd (fst (fst a)) = snd (fst (fst b)) /\ snd (fst a) <= snd (fst b))))).
Proof. exact region_leb_rows. Qed.

(* ---- natural chromosome order ---- *)

Theorem C08_natural_order :
  key_lt "1" "2" /\ key_lt "2" "10" /\ key_lt "10" "X" /\ key_lt "X" "Y" /\ key_lt "Y" "M" /\
  key_lt "chr1" "chr2" /\ key_lt "chr2" "chr10" /\ key_lt "chr10" "chrX" /\
  key_lt "chrX" "chrY" /\ key_lt "chrY" "chrM".
Proof. exact order_of_the_property_text. Qed.

Theorem C08_natural_order_numeric : forall p1 p2 ds1 ds2 : list ascii,
  chr_or_none p1 -> chr_or_none p2 -> all_digits ds1 -> all_digits ds2 ->
  digits_val ds1 < digits_val ds2 ->
  ckey_ltb (chrom_key_chars (p1 ++ ds1)) (chrom_key_chars (p2 ++ ds2)) = true.
Proof. exact numeric_by_value. Qed.

Theorem C08_natural_order_prefix : forall a b c cs,
  lower [a; b; c] = chr_prefix -> has_chr_prefix cs = false ->
  chrom_key_chars (a :: b :: c :: cs) = chrom_key_chars cs.
Proof. exact chr_prefix_irrelevant. Qed.

Theorem C08_natural_order_classes : forall ds c d d' rest,
  all_digits ds -> digits_val ds < 1000 ->
  is_digit c = false -> is_XY [c] = false -> is_digit d = false ->
  ckey_ltb (key_body ds) (key_body ["X"%char]) = true /\
  ckey_ltb (key_body ["X"%char]) (key_body ["Y"%char]) = true /\
  ckey_ltb (key_body ["Y"%char]) (key_body [c]) = true /\
  ckey_ltb (key_body [c]) (key_body (d :: d' :: rest)) = true.
Proof. exact class_order. Qed.

(* the sort is a permutation, sorted, idempotent and stable (rows with the same
   key, start and end keep their order) *)
Theorem C08_sort : forall t : list row,
  Permutation t (sort_rows t) /\ rows_sorted (sort_rows t) /\
  sort_rows (sort_rows t) = sort_rows t /\
  (forall z, filter (equivb (region_leb row_region) z) (sort_rows t)
             = filter (equivb (region_leb row_region) z) t) /\
  (forall z y, equivb (region_leb row_region) z y = true
               <-> rkey_of (row_region z) = rkey_of (row_region y)).
Proof. exact sort_rows_facts. Qed.

(* ---- write-then-read = sort, on the columns the format carries ---- *)

Theorem C08_roundtrip_tab : forall (h : list string) (t : list row),
  Forall (fun r => length (snd r) = length h) t ->
  read_tab (write_tab h t) = Some (h, sort_rows t).
Proof. exact roundtrip_tab. Qed.

Theorem C08_roundtrip_bed3 : forall t : list row,
  Forall (fun r => bed_name_ok (fst (fst (fst r))) = true) t ->
  read_bed3 (write_bed3 t) = Some (sort_rows (map (fun r => (fst r, [])) t)).
Proof. exact roundtrip_bed3. Qed.

Theorem C08_roundtrip_bed4 : forall t : list row,
  Forall (fun r => bed_name_ok (fst (fst (fst r))) = true) t ->
  read_bed4 (write_bed4 t) = Some (sort_rows (map (fun r => (fst r, [nth 0 (snd r) "-"%string])) t)).
Proof. exact roundtrip_bed4. Qed.

Theorem C08_roundtrip_interval : forall t : list row,
  Forall (fun r => interval_row_ok r = true) t ->
  read_interval (write_interval t)
  = Some (sort_rows (map (fun r => (fst r, [interval_gene r; interval_strand r])) t)).
Proof. exact roundtrip_interval. Qed.

(* chr:start-end text: the region comes back exactly (the repaired writer adds 1
   once: off_write_text + off_to_label + off_from_label + off_read_text = 0) *)
Theorem C08_conventions_text : forall c s e,
  text_name_ok c = true -> 0 <= s + 1 -> 0 <= e ->
  parse_label (to_label (c, s, e)) = Some (Some c, Some (s + 1 + -1), Some e, EmptyString).
Proof. exact parse_label_to_label. Qed.

Theorem C08_roundtrip_text : forall t : list row,
  Forall (fun r => text_row_ok r = true) t ->
  read_text (write_text t) = Some (sort_rows (map (fun r => (fst r, ["-"%string])) t)).
Proof. exact roundtrip_text. Qed.

(* the input of the defect repaired in fb129d1 *)
Theorem C08_roundtrip_text_regression :
  write_text [(("chr1", 10, 100), [])]%string = [["chr1:11-100"]]%string /\
  read_text [["chr1:11-100"]]%string = Some [(("chr1", 10, 100), ["-"])]%string.
Proof. exact text_regression. Qed.

(* export seg -> import-seg: every sample comes back (ids distinct, samples
   non-empty, rows carry [log2] or [probes; log2]); parse_seg keeps file order,
   reading the imported .cns sorts; the label is "-" *)
Theorem C08_roundtrip_seg : forall probes samples,
  seg_ok probes samples ->
  parse_seg (write_seg probes samples)
  = Some (map (fun sr => (fst sr, map add_gene (snd sr))) samples) /\
  import_seg (write_seg probes samples)
  = Some (map (fun sr => (fst sr, sort_rows (map add_gene (snd sr)))) samples).
Proof.
  exact (fun probes samples H =>
           conj (roundtrip_parse_seg probes samples H) (roundtrip_import_seg probes samples H)).
Qed.

Example C08_roundtrip_seg_example :
  let s : list (string * list row) :=
    [("T1", [(("chr2", 10, 100), ["5"; "0.5"]); (("chr1", 0, 5), ["7"; "-1.25"])]);
     ("N2", [(("chrX", 9, 99), ["1"; "0"])])]%string in
  write_seg true s
  = [["ID"; "chrom"; "loc.start"; "loc.end"; "num.mark"; "seg.mean"];
     ["T1"; "chr2"; "11"; "100"; "5"; "0.5"]; ["T1"; "chr1"; "1"; "5"; "7"; "-1.25"];
     ["N2"; "chrX"; "10"; "99"; "1"; "0"]]%string /\
  import_seg (write_seg true s)
  = Some [("T1", [(("chr1", 0, 5), ["7"; "-1.25"; "-"]); (("chr2", 10, 100), ["5"; "0.5"; "-"])]);
          ("N2", [(("chrX", 9, 99), ["1"; "0"; "-"])])]%string.
Proof. split; vm_compute; reflexivity. Qed.

(* ---- writing the table that was read back = writing the sorted table ---- *)

Theorem C08_rewrite : forall (h : list string) (t : list row),
  (Forall (fun r => length (snd r) = length h) t ->
   option_map (fun ht => write_tab (fst ht) (snd ht)) (read_tab (write_tab h t))
   = Some (write_tab h (sort_rows t))) /\
  (Forall (fun r => bed_name_ok (fst (fst (fst r))) = true) t ->
   option_map write_bed3 (read_bed3 (write_bed3 t)) = Some (write_bed3 (sort_rows t)) /\
   option_map write_bed4 (read_bed4 (write_bed4 t)) = Some (write_bed4 (sort_rows t))) /\
  (Forall (fun r => interval_row_ok r = true) t ->
   option_map write_interval (read_interval (write_interval t)) = Some (write_interval (sort_rows t))) /\
  (Forall (fun r => text_row_ok r = true) t ->
   option_map write_text (read_text (write_text t)) = Some (write_text (sort_rows t))) /\
  (Sorted (fun a b => region_leb row_region a b = true) t -> sort_rows t = t).
Proof.
  exact (fun h t => conj (rewrite_tab h t) (conj (fun H => conj (rewrite_bed3 t H) (rewrite_bed4 t H))
    (conj (rewrite_interval t) (conj (rewrite_text t) (sort_rows_sorted_id t))))).
Qed.

(* ---- auto-detection: names of word characters (not starting with track/browser),
        non-negative coordinates, non-empty table: the writer's format is detected
        and the selected parser returns the format's own table ---- *)

Theorem C08_sniff_bed3 : forall r t,
  sniff_row_ok r = true ->
  Forall (fun r => bed_name_ok (fst (fst (fst r))) = true) (r :: t) ->
  sniff_lines None (write_bed3 (r :: t)) = Some (Fmt "bed") /\
  read_auto None (write_bed3 (r :: t))
  = AutoRows "bed" (sort_rows (map (fun r => (fst r, ["-"; "."]%string)) (r :: t))).
Proof. exact auto_bed3. Qed.

Theorem C08_sniff_bed4 : forall r t,
  sniff_row_ok r = true ->
  Forall (fun r => bed_name_ok (fst (fst (fst r))) = true) (r :: t) ->
  sniff_lines None (write_bed4 (r :: t)) = Some (Fmt "bed") /\
  read_auto None (write_bed4 (r :: t))
  = AutoRows "bed" (sort_rows (map (fun r => (fst r, [nth 0 (snd r) "-"; "."]%string)) (r :: t))).
Proof. exact auto_bed4. Qed.

Theorem C08_sniff_interval : forall r t,
  sniff_row_ok r = true ->
  all_in is_nonspace (interval_gene r) = true -> one_of ".+-" (interval_strand r) = true ->
  Forall (fun r => interval_row_ok r = true) (r :: t) ->
  sniff_lines None (write_interval (r :: t)) = Some (Fmt "interval") /\
  read_auto None (write_interval (r :: t))
  = AutoRows "interval" (sort_rows (map (fun r => (fst r, [interval_gene r; interval_strand r])) (r :: t))).
Proof. exact auto_interval. Qed.

Theorem C08_sniff_text : forall r t,
  sniff_row_ok r = true ->
  Forall (fun r => text_row_ok r = true) (r :: t) ->
  sniff_lines None (write_text (r :: t)) = Some (Fmt "text") /\
  read_auto None (write_text (r :: t))
  = AutoRows "text" (sort_rows (map (fun r => (fst r, ["-"%string])) (r :: t))).
Proof. exact auto_text. Qed.

(* a tab header is taken for GFF only if its first extra column name is all digits *)
Theorem C08_sniff_tab : forall h t,
  all_in is_digit (fld 0 h) = false ->
  Forall (fun r => length (snd r) = length h) t ->
  sniff_lines None (write_tab h t) = Some (Fmt "tab") /\
  read_auto None (write_tab h t) = AutoTab h (sort_rows t).
Proof. exact auto_tab. Qed.

Theorem C08_sniff_headers :
  sniff_line None ["##gff-version 3"]%string = Fmt "gff" /\
  sniff_line None ["chr1"; "src"; "exon"; "11"; "100"; "."; "+"; "."; "ID=x"]%string = Fmt "gff" /\
  sniff_line None ["##fileformat=VCFv4.2"]%string = Fmt "vcf" /\
  sniff_line None ["#CHROM"; "POS"; "ID"; "REF"; "ALT"; "QUAL"; "FILTER"; "INFO"]%string = Fmt "vcf" /\
  sniff_line None ["# comment"]%string = Skip /\ sniff_line None ["track name=x"]%string = Skip /\
  sniff_line None ["@HD"; "VN:1.4"]%string = Fmt "interval".
Proof. exact sniff_headers. Qed.

(* the regex sources Model/Sniff.v was written for: a changed pattern in
   skgenome/tabio/__init__.py or rangelabel.py breaks this equality *)
Theorem C08_sniff_sources :
  Gen.Formats.pattern_order = ["text"; "tab"; "interval"; "refflat"; "gff"; "bed"]%string /\
  Gen.Formats.pat_text = ["\w+:\d*-\d*.*"]%string /\
  Gen.Formats.pat_tab = ["chromosome"; "start"; "end"]%string /\
  Gen.Formats.pat_interval = ["\w+"; "\d+"; "\d+"; "[.+-]"; "\S+$"]%string /\
  Gen.Formats.pat_refflat = ["\S+"; "\S+"; "\w+"; "[+-]"; "\d+"; "\d+"; "\d+"; "\d+"; "\d+";
                             "(\d+,)+"; "(\d+,)+$"]%string /\
  Gen.Formats.pat_gff = ["\w+"; "\S+"; "\w+"; "\d+"; "\d+"; "\S+"; "[.?+-]"; "[012.]"; ".*"]%string /\
  Gen.Formats.pat_bed = ["\S+"; "\d+"; "\d+"]%string /\
  Gen.Formats.pat_label = "(\w[\w.]*)?:(\d+)?-(\d+)?\s*(\S+)?"%string.
Proof.
  exact (conj eq_refl (conj eq_refl (conj eq_refl (conj eq_refl (conj eq_refl
          (conj eq_refl (conj eq_refl eq_refl))))))).
Qed.

Example C08_roundtrip_example :
  let t : list row := [(("chr2", 10, 100), ["A,B"; "+"]); (("chr1", 0, 5), ["g-1"; "-"]);
                       (("chrX", 9, 99), ["x.y"; "+"])]%string in
  Forall (fun r => interval_row_ok r = true) t /\
  Forall (fun r => bed_name_ok (fst (fst (fst r))) = true) t /\
  write_interval t = [["chr2"; "11"; "100"; "+"; "A,B"]; ["chr1"; "1"; "5"; "-"; "g-1"];
                      ["chrX"; "10"; "99"; "+"; "x.y"]]%string.
Proof. vm_compute. repeat constructor. Qed.
