(* C08 -- every format is read to 0-based half-open, sorted; write-then-read is lossless.
   Property theorems only (field level: a line is the list of its tab-separated
   fields; tokenisation of bytes and %.6g are on the code's side, see DESIGN 5 C08).
   Proofs live in Proofs/FormatsLemmas.v, FormatsOrder.v, FormatsText.v, FormatsSniff.v,
   FormatsSeg.v, ChromsortLemmas.v; extension: FormatsLib.v (decimal text, uniqueness of the
   stable sort), FormatsGff.v, FormatsBed.v, FormatsSegIds.v, FormatsVcf.v, FnFormats.v (ties to
   the definitions generated from the Python function bodies).

   Format-inherent preconditions (stated in the theorems that need them):
   * BED: a line starting with "track" is a track line and one starting with
     "browser " a browser line, so chromosome names must not start that way; the name
     and strand columns are rstrip()ped by the reader, so a label must not END in white
     space (bed_gene_ok; the model now carries that rstrip, which the first version did not);
   * interval list: "@" starts a header/comment; an empty label is read as "-";
   * chr:start-end text: re_label needs the name to start with a word character
     and continue with word characters or dots; coordinates are non-negative;
     nothing but the region is written (labels read back as "-");
   * SEG: sample ids distinct, every sample non-empty; labels are not carried ("-");
   * pandas' NA tokens as names/labels are the open finding C08-na-token-name
     (tokenisation, outside the field-level model). *)
From CNV Require Import Base.Prelude Base.Str.
From CNV Require Import Model.Decimal Model.Chromsort Model.Sniff Model.Formats.
From CNV Require Import Proofs.ChromsortLemmas Proofs.FormatsLemmas Proofs.FormatsOrder.
From CNV Require Import Proofs.FormatsText Proofs.FormatsRewrite Proofs.FormatsSniff Proofs.FormatsAuto Proofs.FormatsSeg.
From CNV Require Import Proofs.FormatsLib Proofs.FormatsGff Proofs.FormatsBed Proofs.FormatsSegIds Proofs.FormatsVcf.
From CNV Require Import Proofs.FnFormats.
From CNV Require Gen.Formats Gen.FnFormatsBed Gen.FnFormatsPicard Gen.FnFormatsSeg Gen.FnFormatsVcfsimple
  Gen.FnFormatsVcfio Gen.FnFormatsChromsort.

(* ---- conventions: textual (s, e) -> (s + off, e); off = 0 for BED and tab,
        -1 for interval list, text (C08_conventions_text), GFF, SEG, VCF, Picard ---- *)

Theorem C08_conventions_bed : forall c s e rest,
  read_bed_line (c :: print_Z s :: print_Z e :: rest)
  = Some ((c, s + 0, e), [rstrip_ws (nth 0 rest "-"%string); rstrip_ws (nth 2 rest "."%string)]).
Proof. exact conv_bed. Qed.

Theorem C08_conventions_tab : forall c s e ex,
  read_tab_row (3 + length ex) 0 1 2 (c :: print_Z s :: print_Z e :: ex) = Some ((c, s + 0, e), ex).
Proof. exact conv_tab. Qed.

Theorem C08_conventions_interval : forall c s e strand gene,
  read_interval_line [c; print_Z s; print_Z e; strand; gene]
  = Some ((c, s + -1, e), [if String.eqb gene "" then "-"%string else gene; strand]).
Proof. exact conv_interval. Qed.

Theorem C08_conventions_gff : forall c src ty s e sc st ph attr,
  read_gff_line [c; src; ty; print_Z s; print_Z e; sc; st; ph; attr] = Some (c, s + -1, e).
Proof. exact conv_gff. Qed.

Theorem C08_conventions_seg : forall sid c s e rest,
  read_seg_line (4 + length rest) (sid :: c :: print_Z s :: print_Z e :: rest)
  = Some (sid, ((c, s + -1, e), rest ++ ["-"%string])).
Proof. exact conv_seg. Qed.

Theorem C08_conventions_vcf : forall c p rest,
  read_vcf_line Gen.Formats.off_read_vcf_simple (c :: print_Z p :: rest) = Some (c, p + -1) /\
  read_vcf_line Gen.Formats.off_read_vcf_sites (c :: print_Z p :: rest) = Some (c, p + -1).
Proof. exact (fun c p rest => conj (conv_vcf_simple c p rest) (conv_vcf_sites c p rest)). Qed.

Theorem C08_conventions_picard : forall c s e len name rest,
  read_picardhs_line (c :: print_Z s :: print_Z e :: len :: name :: rest)
  = Some ((c, s + -1, e), [name]).
Proof. exact conv_picardhs. Qed.

(* ---- every reader's result is sorted by (chromosome key, start, end) ---- *)

Theorem C08_sorted : forall ls : list line,
  (forall t, read_bed ls = Some t -> rows_sorted t) /\
  (forall t, read_bed3 ls = Some t -> rows_sorted t) /\
  (forall t, read_bed4 ls = Some t -> rows_sorted t) /\
  (forall h t, read_tab ls = Some (h, t) -> rows_sorted t) /\
  (forall t, read_interval ls = Some t -> rows_sorted t) /\
  (forall t, read_text ls = Some t -> rows_sorted t) /\
  (forall t, read_picardhs ls = Some t -> rows_sorted t) /\
  (forall t, read_seg_first ls = Some t -> rows_sorted t) /\
  (forall samples, import_seg ls = Some samples -> Forall (fun sr => rows_sorted (snd sr)) samples) /\
  (forall t, read_gff ls = Some t -> regions_sorted (fun g => g) t).
Proof.
  exact (fun ls => conj (read_bed_sorted ls) (conj (read_bed3_sorted ls) (conj (read_bed4_sorted ls)
    (conj (read_tab_sorted ls) (conj (read_interval_sorted ls) (conj (read_text_sorted ls)
    (conj (read_picardhs_sorted ls) (conj (read_seg_first_sorted ls) (conj (import_seg_sorted ls)
    (read_gff_sorted ls)))))))))).
Qed.

(* sortedness means: between two rows, in table order, the chromosome key
   increases, or it is the same and (start, end) does not decrease *)
Theorem C08_sorted_meaning : forall a b : row,
  region_leb row_region a b = true <->
  (ckey_ltb (chrom_key (fst (fst (fst a)))) (chrom_key (fst (fst (fst b)))) = true \/
   (chrom_key (fst (fst (fst a))) = chrom_key (fst (fst (fst b))) /\
    (snd (fst (fst a)) < snd (fst (fst b)) \/
     (snd (fst (fst a)) = snd (fst (fst b)) /\ snd (fst a) <= snd (fst b))))).
Proof. exact region_leb_rows. Qed.

(* ---- natural chromosome order ---- *)

Theorem C08_natural_order :
  key_lt "1" "2" /\ key_lt "2" "10" /\ key_lt "10" "X" /\ key_lt "X" "Y" /\ key_lt "Y" "M" /\
  key_lt "chr1" "chr2" /\ key_lt "chr2" "chr10" /\ key_lt "chr10" "chrX" /\
  key_lt "chrX" "chrY" /\ key_lt "chrY" "chrM".
Proof. exact order_of_the_property_text. Qed.

Theorem C08_natural_order_numeric : forall p1 p2 ds1 ds2 : list ascii,
  chr_or_none p1 -> chr_or_none p2 -> all_digits ds1 -> all_digits ds2 ->
  digits_val ds1 < digits_val ds2 ->
  ckey_ltb (chrom_key_chars (p1 ++ ds1)) (chrom_key_chars (p2 ++ ds2)) = true.
Proof. exact numeric_by_value. Qed.

Theorem C08_natural_order_prefix : forall a b c cs,
  lower [a; b; c] = chr_prefix -> has_chr_prefix cs = false ->
  chrom_key_chars (a :: b :: c :: cs) = chrom_key_chars cs.
Proof. exact chr_prefix_irrelevant. Qed.

Theorem C08_natural_order_classes : forall ds c d d' rest,
  all_digits ds -> digits_val ds < 1000 ->
  is_digit c = false -> is_XY [c] = false -> is_digit d = false ->
  ckey_ltb (key_body ds) (key_body ["X"%char]) = true /\
  ckey_ltb (key_body ["X"%char]) (key_body ["Y"%char]) = true /\
  ckey_ltb (key_body ["Y"%char]) (key_body [c]) = true /\
  ckey_ltb (key_body [c]) (key_body (d :: d' :: rest)) = true.
Proof. exact class_order. Qed.

(* the sort is a permutation, sorted, idempotent and stable (rows with the same
   key, start and end keep their order) *)
Theorem C08_sort : forall t : list row,
  Permutation t (sort_rows t) /\ rows_sorted (sort_rows t) /\
  sort_rows (sort_rows t) = sort_rows t /\
  (forall z, filter (equivb (region_leb row_region) z) (sort_rows t)
             = filter (equivb (region_leb row_region) z) t) /\
  (forall z y, equivb (region_leb row_region) z y = true
               <-> rkey_of (row_region z) = rkey_of (row_region y)).
Proof. exact sort_rows_facts. Qed.

(* ---- write-then-read = sort, on the columns the format carries ---- *)

Theorem C08_roundtrip_tab : forall (h : list string) (t : list row),
  Forall (fun r => length (snd r) = length h) t ->
  read_tab (write_tab h t) = Some (h, sort_rows t).
Proof. exact roundtrip_tab. Qed.

Theorem C08_roundtrip_bed3 : forall t : list row,
  Forall (fun r => bed_name_ok (fst (fst (fst r))) = true) t ->
  read_bed3 (write_bed3 t) = Some (sort_rows (map (fun r => (fst r, [])) t)).
Proof. exact roundtrip_bed3. Qed.

Theorem C08_roundtrip_bed4 : forall t : list row,
  Forall (fun r => bed_name_ok (fst (fst (fst r))) = true) t ->
  Forall (fun r => bed_gene_ok r = true) t ->
  read_bed4 (write_bed4 t) = Some (sort_rows (map (fun r => (fst r, [nth 0 (snd r) "-"%string])) t)).
Proof. exact roundtrip_bed4. Qed.

Theorem C08_roundtrip_interval : forall t : list row,
  Forall (fun r => interval_row_ok r = true) t ->
  read_interval (write_interval t)
  = Some (sort_rows (map (fun r => (fst r, [interval_gene r; interval_strand r])) t)).
Proof. exact roundtrip_interval. Qed.

(* chr:start-end text: the region comes back exactly (the repaired writer adds 1
   once: off_write_text + off_to_label + off_from_label + off_read_text = 0) *)
Theorem C08_conventions_text : forall c s e,
  text_name_ok c = true -> 0 <= s + 1 -> 0 <= e ->
  parse_label (to_label (c, s, e)) = Some (Some c, Some (s + 1 + -1), Some e, EmptyString).
Proof. exact parse_label_to_label. Qed.

Theorem C08_roundtrip_text : forall t : list row,
  Forall (fun r => text_row_ok r = true) t ->
  read_text (write_text t) = Some (sort_rows (map (fun r => (fst r, ["-"%string])) t)).
Proof. exact roundtrip_text. Qed.

(* the input of the defect repaired in fb129d1 *)
Theorem C08_roundtrip_text_regression :
  write_text [(("chr1", 10, 100), [])]%string = [["chr1:11-100"]]%string /\
  read_text [["chr1:11-100"]]%string = Some [(("chr1", 10, 100), ["-"])]%string.
Proof. exact text_regression. Qed.

(* export seg -> import-seg: every sample comes back (ids distinct, samples
   non-empty, rows carry [log2] or [probes; log2]); parse_seg keeps file order,
   reading the imported .cns sorts; the label is "-" *)
Theorem C08_roundtrip_seg : forall probes samples,
  seg_ok probes samples ->
  parse_seg (write_seg probes samples)
  = Some (map (fun sr => (fst sr, map add_gene (snd sr))) samples) /\
  import_seg (write_seg probes samples)
  = Some (map (fun sr => (fst sr, sort_rows (map add_gene (snd sr)))) samples).
Proof.
  exact (fun probes samples H =>
           conj (roundtrip_parse_seg probes samples H) (roundtrip_import_seg probes samples H)).
Qed.

Example C08_roundtrip_seg_example :
  let s : list (string * list row) :=
    [("T1", [(("chr2", 10, 100), ["5"; "0.5"]); (("chr1", 0, 5), ["7"; "-1.25"])]);
     ("N2", [(("chrX", 9, 99), ["1"; "0"])])]%string in
  write_seg true s
  = [["ID"; "chrom"; "loc.start"; "loc.end"; "num.mark"; "seg.mean"];
     ["T1"; "chr2"; "11"; "100"; "5"; "0.5"]; ["T1"; "chr1"; "1"; "5"; "7"; "-1.25"];
     ["N2"; "chrX"; "10"; "99"; "1"; "0"]]%string /\
  import_seg (write_seg true s)
  = Some [("T1", [(("chr1", 0, 5), ["7"; "-1.25"; "-"]); (("chr2", 10, 100), ["5"; "0.5"; "-"])]);
          ("N2", [(("chrX", 9, 99), ["1"; "0"; "-"])])]%string.
Proof. split; vm_compute; reflexivity. Qed.

(* ---- writing the table that was read back = writing the sorted table ---- *)

Theorem C08_rewrite : forall (h : list string) (t : list row),
  (Forall (fun r => length (snd r) = length h) t ->
   option_map (fun ht => write_tab (fst ht) (snd ht)) (read_tab (write_tab h t))
   = Some (write_tab h (sort_rows t))) /\
  (Forall (fun r => bed_name_ok (fst (fst (fst r))) = true) t ->
   option_map write_bed3 (read_bed3 (write_bed3 t)) = Some (write_bed3 (sort_rows t)) /\
   (Forall (fun r => bed_gene_ok r = true) t ->
    option_map write_bed4 (read_bed4 (write_bed4 t)) = Some (write_bed4 (sort_rows t)))) /\
  (Forall (fun r => interval_row_ok r = true) t ->
   option_map write_interval (read_interval (write_interval t)) = Some (write_interval (sort_rows t))) /\
  (Forall (fun r => text_row_ok r = true) t ->
   option_map write_text (read_text (write_text t)) = Some (write_text (sort_rows t))) /\
  (Sorted (fun a b => region_leb row_region a b = true) t -> sort_rows t = t).
Proof.
  exact (fun h t => conj (rewrite_tab h t) (conj (fun H => conj (rewrite_bed3 t H) (rewrite_bed4 t H))
    (conj (rewrite_interval t) (conj (rewrite_text t) (sort_rows_sorted_id t))))).
Qed.

(* ---- auto-detection: names of word characters (not starting with track/browser),
        non-negative coordinates, non-empty table: the writer's format is detected
        and the selected parser returns the format's own table ---- *)

Theorem C08_sniff_bed3 : forall r t,
  sniff_row_ok r = true ->
  Forall (fun r => bed_name_ok (fst (fst (fst r))) = true) (r :: t) ->
  sniff_lines None (write_bed3 (r :: t)) = Some (Fmt "bed") /\
  read_auto None (write_bed3 (r :: t))
  = AutoRows "bed" (sort_rows (map (fun r => (fst r, ["-"; "."]%string)) (r :: t))).
Proof. exact auto_bed3. Qed.

Theorem C08_sniff_bed4 : forall r t,
  sniff_row_ok r = true ->
  Forall (fun r => bed_name_ok (fst (fst (fst r))) = true) (r :: t) ->
  Forall (fun r => bed_gene_ok r = true) (r :: t) ->
  sniff_lines None (write_bed4 (r :: t)) = Some (Fmt "bed") /\
  read_auto None (write_bed4 (r :: t))
  = AutoRows "bed" (sort_rows (map (fun r => (fst r, [nth 0 (snd r) "-"; "."]%string)) (r :: t))).
Proof. exact auto_bed4. Qed.

Theorem C08_sniff_interval : forall r t,
  sniff_row_ok r = true ->
  all_in is_nonspace (interval_gene r) = true -> one_of ".+-" (interval_strand r) = true ->
  Forall (fun r => interval_row_ok r = true) (r :: t) ->
  sniff_lines None (write_interval (r :: t)) = Some (Fmt "interval") /\
  read_auto None (write_interval (r :: t))
  = AutoRows "interval" (sort_rows (map (fun r => (fst r, [interval_gene r; interval_strand r])) (r :: t))).
Proof. exact auto_interval. Qed.

Theorem C08_sniff_text : forall r t,
  sniff_row_ok r = true ->
  Forall (fun r => text_row_ok r = true) (r :: t) ->
  sniff_lines None (write_text (r :: t)) = Some (Fmt "text") /\
  read_auto None (write_text (r :: t))
  = AutoRows "text" (sort_rows (map (fun r => (fst r, ["-"%string])) (r :: t))).
Proof. exact auto_text. Qed.

(* a tab header is taken for GFF only if its first extra column name is all digits *)
Theorem C08_sniff_tab : forall h t,
  all_in is_digit (fld 0 h) = false ->
  Forall (fun r => length (snd r) = length h) t ->
  sniff_lines None (write_tab h t) = Some (Fmt "tab") /\
  read_auto None (write_tab h t) = AutoTab h (sort_rows t).
Proof. exact auto_tab. Qed.

Theorem C08_sniff_headers :
  sniff_line None ["##gff-version 3"]%string = Fmt "gff" /\
  sniff_line None ["chr1"; "src"; "exon"; "11"; "100"; "."; "+"; "."; "ID=x"]%string = Fmt "gff" /\
  sniff_line None ["##fileformat=VCFv4.2"]%string = Fmt "vcf" /\
  sniff_line None ["#CHROM"; "POS"; "ID"; "REF"; "ALT"; "QUAL"; "FILTER"; "INFO"]%string = Fmt "vcf" /\
  sniff_line None ["# comment"]%string = Skip /\ sniff_line None ["track name=x"]%string = Skip /\
  sniff_line None ["@HD"; "VN:1.4"]%string = Fmt "interval".
Proof. exact sniff_headers. Qed.

(* the regex sources Model/Sniff.v was written for: a changed pattern in
   skgenome/tabio/__init__.py or rangelabel.py breaks this equality *)
Theorem C08_sniff_sources :
  Gen.Formats.pattern_order = ["text"; "tab"; "interval"; "refflat"; "gff"; "bed"]%string /\
  Gen.Formats.pat_text = ["\w+:\d*-\d*.*"]%string /\
  Gen.Formats.pat_tab = ["chromosome"; "start"; "end"]%string /\
  Gen.Formats.pat_interval = ["\w+"; "\d+"; "\d+"; "[.+-]"; "\S+$"]%string /\
  Gen.Formats.pat_refflat = ["\S+"; "\S+"; "\w+"; "[+-]"; "\d+"; "\d+"; "\d+"; "\d+"; "\d+";
                             "(\d+,)+"; "(\d+,)+$"]%string /\
  Gen.Formats.pat_gff = ["\w+"; "\S+"; "\w+"; "\d+"; "\d+"; "\S+"; "[.?+-]"; "[012.]"; ".*"]%string /\
  Gen.Formats.pat_bed = ["\S+"; "\d+"; "\d+"]%string /\
  Gen.Formats.pat_label = "(\w[\w.]*)?:(\d+)?-(\d+)?\s*(\S+)?"%string.
Proof.
  exact (conj eq_refl (conj eq_refl (conj eq_refl (conj eq_refl (conj eq_refl
          (conj eq_refl (conj eq_refl eq_refl))))))).
Qed.

Example C08_roundtrip_example :
  let t : list row := [(("chr2", 10, 100), ["A,B"; "+"]); (("chr1", 0, 5), ["g-1"; "-"]);
                       (("chrX", 9, 99), ["x.y"; "+"])]%string in
  Forall (fun r => interval_row_ok r = true) t /\
  Forall (fun r => bed_name_ok (fst (fst (fst r))) = true) t /\
  write_interval t = [["chr2"; "11"; "100"; "+"; "A,B"]; ["chr1"; "1"; "5"; "-"; "g-1"];
                      ["chrX"; "10"; "99"; "+"; "x.y"]]%string.
Proof. vm_compute. repeat constructor. Qed.

(* ==================================================================================== *)
(* Extension                                                                            *)

(* ---- decimal text: the coordinate fields round-trip exactly ---- *)

(* every integer (negative, zero, positive) is read back from its printed text; the printed
   text is canonical (digits only after an optional '-', no leading zero, no '+', "0" for 0);
   a canonical text is the printed form of the value it parses to (so the text itself
   round-trips); and the left-fold value digits_val of Model/Chromsort.v is what the parser
   computes on digit strings *)
Theorem C08_decimal_roundtrip :
  (forall z, parse_Z (print_Z z) = Some z) /\
  (forall z, canonical_dec (print_Z z) = true) /\
  (forall s, canonical_dec s = true -> parse_Z s = Some (dec_value s) /\ print_Z (dec_value s) = s) /\
  (forall s z, canonical_dec s = true -> parse_Z s = Some z -> s = print_Z z) /\
  (forall ds, ds <> [] -> forallb is_digit ds = true -> parse_Z (unchars ds) = Some (digits_val ds)) /\
  (forall z, 0 <= z -> digits_val (chars (print_Z z)) = z) /\
  (forall a b, print_Z a = print_Z b -> a = b).
Proof.
  exact (conj parse_print (conj print_is_canonical (conj canonical_roundtrip (conj canonical_unique
          (conj parse_digits (conj digits_val_print print_Z_inj)))))).
Qed.

Theorem C08_decimal_rejects :
  parse_Z "+5" = None /\ parse_Z "" = None /\ parse_Z "-" = None /\ parse_Z " 5" = None /\
  parse_Z "5 " = None /\ parse_Z "1_000" = None /\ parse_Z "007" = Some 7 /\ parse_Z "-0" = Some 0.
Proof. exact parse_rejects. Qed.

(* a data line with canonical coordinate text is written back field for field: read_F then
   write_F is the identity on the text of BED3/BED4, tab, interval-list, SEG and
   chr:start-end lines *)
Theorem C08_text_fields_roundtrip : forall c ts te,
  canonical_dec ts = true /\ canonical_dec te = true ->
  option_map bed3_line (read_bed_line [c; ts; te]) = Some [c; ts; te] /\
  (forall g, rstrip_ws g = g ->
     option_map (fun r => bed4_line (keep_extras 1 r)) (read_bed_line [c; ts; te; g]) = Some [c; ts; te; g]) /\
  (forall ex, option_map tab_line (read_tab_row (3 + length ex) 0 1 2 (c :: ts :: te :: ex))
              = Some (c :: ts :: te :: ex)) /\
  (forall strand gene, gene <> EmptyString ->
     option_map interval_line (read_interval_line [c; ts; te; strand; gene]) = Some [c; ts; te; strand; gene]) /\
  (forall sid rest,
     option_map (fun p => seg_line (fst p) (fst (snd p), rest))
       (read_seg_line (4 + length rest) (sid :: c :: ts :: te :: rest))
     = Some (sid :: c :: ts :: te :: rest)).
Proof.
  exact (fun c ts te H => conj (text_fields_bed3 c ts te H) (conj (fun g => text_fields_bed4 c ts te g H)
    (conj (fun ex => text_fields_tab c ts te ex H) (conj (fun st g => text_fields_interval c ts te st g H)
    (fun sid rest => text_fields_seg sid c ts te rest H))))).
Qed.

Theorem C08_text_label_roundtrip : forall c ts te,
  text_name_ok c = true -> canonical_nat (chars ts) = true -> canonical_nat (chars te) = true ->
  option_map (fun r => text_line (keep_extras 0 r)) (read_text_line (c ++ ":" ++ ts ++ "-" ++ te))
  = Some [(c ++ ":" ++ ts ++ "-" ++ te)%string].
Proof. exact text_fields_label. Qed.

(* ---- GFF: gene label, type filter, pre-sort ---- *)

Theorem C08_conventions_gff_row : forall tags c src ty s e sc st ph attr,
  read_gff_row tags [c; src; ty; print_Z s; print_Z e; sc; st; ph; attr]
  = Some ((c, s + -1, e), [gff_gene tags attr; st; ty]).
Proof. exact conv_gff_row. Qed.

(* the gene label is the value of the first matching tag: at the leftmost position of the
   attribute column where a tag of the list is followed by '=' or ' ', an optional quote, a
   value and (optional quote) ';' or the end, with the earlier alternatives failing there,
   the label is that value -- plain or quoted *)
Theorem C08_gff_gene : forall (before after : list string) tg pre sep v term,
  gff_sep sep = true -> v <> [] -> forallb gff_plain v = true -> gff_term term = true ->
  let tags := before ++ tg :: after in
  let here := chars tg ++ sep :: v ++ term in
  let hereq := chars tg ++ sep :: dquote :: v ++ dquote :: term in
  ((forall i, (i < length pre)%nat -> gff_gene_at (map chars tags) (skipn i (pre ++ here)) = None) ->
   (forall t', In t' before -> gff_try_tag (chars t') here = None) ->
   gff_gene tags (unchars (pre ++ here)) = unchars v) /\
  ((forall i, (i < length pre)%nat -> gff_gene_at (map chars tags) (skipn i (pre ++ hereq)) = None) ->
   (forall t', In t' before -> gff_try_tag (chars t') hereq = None) ->
   gff_gene tags (unchars (pre ++ hereq)) = unchars v).
Proof. exact gff_gene_first_tag. Qed.

(* conversely the label is always a leftmost, first-alternative match, and '-' without one;
   in particular when no tag occurs in the column *)
Theorem C08_gff_gene_spec : forall tags attr,
  (forall g, gff_gene_search (map chars tags) (chars attr) = Some g ->
     gff_gene tags attr = unchars g /\
     exists pre suf, chars attr = pre ++ suf /\ gff_gene_at (map chars tags) suf = Some g /\
       forall i, (i < length pre)%nat -> gff_gene_at (map chars tags) (skipn i (chars attr)) = None) /\
  (gff_gene_search (map chars tags) (chars attr) = None -> gff_gene tags attr = "-"%string) /\
  ((forall tg, In tg tags -> str_infix tg attr = false) -> gff_gene tags attr = "-"%string).
Proof.
  exact (fun tags attr => conj (proj1 (gff_gene_spec tags attr))
           (conj (proj2 (gff_gene_spec tags attr)) (gff_gene_missing tags attr))).
Qed.

Theorem C08_gff_gene_examples :
  let tags := Gen.Formats.gff_default_tags in
  gff_gene tags "ID=gene0;Name=BRCA1;biotype=protein_coding" = "BRCA1"%string /\
  gff_gene tags "gene_id ""ENSG01""; transcript_id ""T1""; gene_name ""TP53"";" = "ENSG01"%string /\
  gff_gene tags "ID=x1;Parent=t1" = "-"%string /\
  gff_gene tags "ID=x;gene=A,B-1.2;Name=other" = "A,B-1.2"%string /\
  gff_gene tags "Name=""AB C"";gene=zz" = "zz"%string /\
  gff_gene tags "ID=x;my_gene=Y" = "Y"%string /\
  gff_gene tags "" = "-"%string /\
  gff_gene ["ID"]%string "ID=x1;Name=N" = "x1"%string.
Proof. exact gff_gene_examples. Qed.

(* the regular expression and default tag the matcher was written for *)
Theorem C08_gff_sources :
  Gen.Formats.gff_default_tags = ["Name"; "gene_id"; "gene_name"; "gene"]%string /\
  Gen.Formats.pat_gff_gene = "[= ]""?(?P<gene>\S+?)""?(;|$)"%string /\
  Gen.Formats.gff_default_gene = "-"%string.
Proof. exact (conj eq_refl (conj eq_refl eq_refl)). Qed.

(* sorted; keep_type returns the unfiltered table without the rows of other types; the
   pre-sort by chromosome string does not change the table when tied rows spell the
   chromosome alike *)
Theorem C08_gff_table : forall tags kt ls,
  (forall t, read_gff_full tags kt ls = Some t -> rows_sorted t) /\
  (forall t, read_gff_full tags None ls = Some t ->
     read_gff_full tags kt ls = Some (filter (gff_keep kt) t) /\
     (forall ty, kt = Some ty -> ty <> EmptyString -> Forall (fun r => gff_type r = ty) (filter (gff_keep kt) t))).
Proof.
  exact (fun tags kt ls => conj (read_gff_full_sorted tags kt ls) (gff_keep_type tags kt ls)).
Qed.

Theorem C08_gff_presort : forall t : list row,
  Permutation t (sort_rows (gff_presort t)) /\ rows_sorted (sort_rows (gff_presort t)) /\
  ((forall a b, In a t -> In b t -> rkey_of (row_region a) = rkey_of (row_region b) ->
      fst (fst (fst a)) = fst (fst (fst b))) ->
   sort_rows (gff_presort t) = sort_rows t).
Proof. exact gff_presort_harmless. Qed.

(* ---- BED variants ---- *)

(* the column-count rule: 3 columns -> ('-', '.'); 4 or 5 -> (name, '.'); 6 and more ->
   (name, strand); name and strand are rstrip()ped; nothing else is looked at *)
Theorem C08_bed_columns : forall c s e g sc st more,
  read_bed_line [c; print_Z s; print_Z e] = Some ((c, s + 0, e), ["-"; "."]%string) /\
  read_bed_line [c; print_Z s; print_Z e; g] = Some ((c, s + 0, e), [rstrip_ws g; "."%string]) /\
  read_bed_line [c; print_Z s; print_Z e; g; sc] = Some ((c, s + 0, e), [rstrip_ws g; "."%string]) /\
  read_bed_line (c :: print_Z s :: print_Z e :: g :: sc :: st :: more)
  = Some ((c, s + 0, e), [rstrip_ws g; rstrip_ws st]).
Proof. exact bed_columns. Qed.

Theorem C08_bed_extra_columns : forall c s e g sc st more,
  read_bed_line (c :: s :: e :: g :: sc :: st :: more) = read_bed_line [c; s; e; g; sc; st] /\
  read_bed_line [c; s; e; g; sc] = read_bed_line [c; s; e; g] /\
  (forallb is_nonspace (chars g) = true -> rstrip_ws g = g).
Proof.
  exact (fun c s e g sc st more =>
           conj (proj1 (bed_extra_columns_ignored c s e g sc st more))
             (conj (proj2 (bed_extra_columns_ignored c s e g sc st more)) (rstrip_nonspace g))).
Qed.

(* a leading browser line and a leading track line are skipped, reading stops at the next
   track line; the table does not depend on them *)
Theorem C08_bed_headers : forall (body : list line) brw trk more,
  Forall bed_plain_line body -> line_starts "browser " brw = true -> line_starts "track" trk = true ->
  read_bed (brw :: trk :: body) = read_bed body /\ read_bed (trk :: body) = read_bed body /\
  read_bed (brw :: body) = read_bed body /\
  read_bed (brw :: trk :: body ++ trk :: more) = read_bed body /\
  read_bed3 (brw :: trk :: body) = read_bed3 body /\ read_bed4 (brw :: trk :: body) = read_bed4 body.
Proof. exact read_bed_headers. Qed.

(* the generic "bed" writer keeps every column; read_bed finds name and strand in columns 4 and 6 *)
Theorem C08_roundtrip_bed : forall t : list row,
  Forall (fun r => bed_name_ok (fst (fst (fst r))) = true) t ->
  read_bed (write_bed t)
  = Some (sort_rows (map (fun r => (fst r, [rstrip_ws (nth 0 (snd r) "-"%string);
                                            rstrip_ws (nth 2 (snd r) "."%string)])) t)).
Proof. exact roundtrip_bed. Qed.

Theorem C08_roundtrip_bed6 : forall t : list row,
  Forall (fun r => bed_name_ok (fst (fst (fst r))) = true) t ->
  Forall (fun r => exists g sc st, snd r = [g; sc; st] /\ rstrip_ws g = g /\ rstrip_ws st = st) t ->
  read_bed (write_bed t)
  = Some (sort_rows (map (fun r => (fst r, [nth 0 (snd r) "-"%string; nth 2 (snd r) "."%string])) t)).
Proof. exact roundtrip_bed6. Qed.

(* ---- natural order: total preorder, ranking table, uniqueness of the sort ---- *)

Theorem C08_natural_order_preorder :
  (forall a, name_leb a a = true) /\
  (forall a b c, name_leb a b = true -> name_leb b c = true -> name_leb a c = true) /\
  (forall a b, name_leb a b = true \/ name_leb b a = true) /\
  (forall a b, name_leb a b = true /\ name_leb b a = true <-> chrom_key a = chrom_key b) /\
  (forall a b, key_lt a b <-> name_leb a b = true /\ name_leb b a = false).
Proof. exact name_preorder. Qed.

Theorem C08_row_order_preorder :
  (forall a : row, region_leb row_region a a = true) /\
  (forall a b c : row, region_leb row_region a b = true -> region_leb row_region b c = true ->
                       region_leb row_region a c = true) /\
  (forall a b : row, region_leb row_region a b = true \/ region_leb row_region b a = true) /\
  (forall a b : row, region_leb row_region a b = true /\ region_leb row_region b a = true
                     <-> rkey_of (row_region a) = rkey_of (row_region b)).
Proof. exact row_preorder. Qed.

Theorem C08_natural_order_ranking :
  (forall cs, has_chr_prefix cs = false -> chrom_key_chars cs = key_body cs) /\
  (forall a b c cs, lower [a; b; c] = chr_prefix -> chrom_key_chars (a :: b :: c :: cs) = key_body cs) /\
  (forall ds, forallb is_digit ds = true -> key_body ds = (digits_val ds, EmptyString)) /\
  key_body ["X"%char] = (1000, "X"%string) /\ key_body ["Y"%char] = (1000, "Y"%string) /\
  (forall ds c, forallb is_digit ds = true -> is_digit c = false -> is_XY (ds ++ [c]) = false ->
     key_body (ds ++ [c]) = (2000 + digits_val ds, unchars [c])) /\
  (forall ds c c' rest, forallb is_digit ds = true -> is_digit c = false ->
     key_body (ds ++ c :: c' :: rest) = (3000 + digits_val ds, unchars (c :: c' :: rest))) /\
  Gen.Formats.sorter_rank_xy = 1000 /\ Gen.Formats.sorter_rank_single = 2000 /\
  Gen.Formats.sorter_rank_long = 3000 /\ Gen.Formats.sorter_xy_names = ["X"; "Y"]%string.
Proof. exact ranking_table. Qed.

Theorem C08_natural_order_examples :
  chrom_key "chr1" = (1, "")%string /\ chrom_key "2" = (2, "")%string /\ chrom_key "chr10" = (10, "")%string /\
  chrom_key "chr22" = (22, "")%string /\ chrom_key "chrX" = (1000, "X")%string /\ chrom_key "Y" = (1000, "Y")%string /\
  chrom_key "chrM" = (2000, "M")%string /\ chrom_key "chrMT" = (3000, "MT")%string /\
  chrom_key "chrUn_gl000211" = (3000, "Un_gl000211")%string /\
  chrom_key "chr1_gl000191_random" = (3001, "_gl000191_random")%string /\
  chrom_key "GL000192.1" = (3000, "GL000192.1")%string /\ chrom_key "CHR7" = (7, "")%string /\
  chrom_key "chrx" = (2000, "x")%string /\ chrom_key "chr" = (0, "")%string /\ chrom_key "007" = (7, "")%string.
Proof. exact ranking_examples. Qed.

Theorem C08_natural_order_human :
  stable_sort name_leb (rev human_names) = human_names /\
  stable_sort name_leb
    ["chr1"; "chr10"; "chr11"; "chr12"; "chr13"; "chr14"; "chr15"; "chr16"; "chr17"; "chr18"; "chr19";
     "chr2"; "chr20"; "chr21"; "chr22"; "chr3"; "chr4"; "chr5"; "chr6"; "chr7"; "chr8"; "chr9";
     "chrM"; "chrX"; "chrY"]%string = human_names.
Proof. exact human_order. Qed.

(* decimal names sort by value: chr9 < chr10 < chr100, 9 < chr10, ... *)
Theorem C08_natural_order_decimal : forall (p1 p2 : list ascii) a b,
  chr_or_none p1 -> chr_or_none p2 -> 0 <= a < b ->
  ckey_ltb (chrom_key_chars (p1 ++ chars (print_Z a))) (chrom_key_chars (p2 ++ chars (print_Z b))) = true.
Proof. exact natural_order_decimal. Qed.

(* the sorted table is unique: whatever stable sorting algorithm the library uses, a result
   that is sorted and keeps tied rows in input order is the model's; and dropping rows
   commutes with sorting *)
Theorem C08_sort_unique : forall t l : list row,
  rows_sorted l ->
  (forall z, filter (equivb (region_leb row_region) z) l = filter (equivb (region_leb row_region) z) t) ->
  l = sort_rows t.
Proof. exact sort_rows_unique. Qed.

Theorem C08_sort_filter : forall (p : row -> bool) t, filter p (sort_rows t) = sort_rows (filter p t).
Proof. exact sort_rows_filter. Qed.

(* ---- SEG with enumerated chromosome ids ---- *)

(* the i-th distinct chromosome of the first sample is written as i+1, and reading the file
   through the inverse map (import-seg -c "1:name1,2:name2,...") returns every sample *)
Theorem C08_seg_ids : forall (first : list row),
  (forall n c, nth_error (first_names first) n = Some c ->
     lookup c (create_chrom_ids first) = print_Z (1 + Z.of_nat n)) /\
  (forall c, In c (map (fun r : row => fst (fst (fst r))) first) ->
     lookup (lookup c (create_chrom_ids first)) (seg_ids_inverse first) = c).
Proof. exact (fun first => conj (ids_are_positions first) (ids_roundtrip first)). Qed.

Theorem C08_roundtrip_seg_ids : forall probes samples,
  seg_ok probes samples -> ids_cover samples ->
  let inv := match samples with [] => [] | s :: _ => seg_ids_inverse (snd s) end in
  parse_seg_names inv "" (write_seg_ids probes samples)
  = Some (map (fun sr => (fst sr, map add_gene (snd sr))) samples) /\
  import_seg_names inv "" (write_seg_ids probes samples)
  = Some (map (fun sr => (fst sr, sort_rows (map add_gene (snd sr)))) samples).
Proof. exact roundtrip_seg_ids. Qed.

Example C08_seg_ids_example :
  let s : list (string * list row) :=
    [("T1", [(("chr2", 10, 100), ["0.5"]); (("chr1", 0, 5), ["-1.25"]); (("chr2", 200, 300), ["0"])]);
     ("N2", [(("chr1", 9, 99), ["0.1"])])]%string in
  write_seg_ids false s
  = [["ID"; "chrom"; "loc.start"; "loc.end"; "seg.mean"];
     ["T1"; "1"; "11"; "100"; "0.5"]; ["T1"; "2"; "1"; "5"; "-1.25"]; ["T1"; "1"; "201"; "300"; "0"];
     ["N2"; "2"; "10"; "99"; "0.1"]]%string /\
  seg_ids_inverse (snd (hd (EmptyString, []) s)) = [("1", "chr2"); ("2", "chr1")]%string.
Proof. exact seg_ids_example. Qed.

(* ---- Picard per-target table and VCF record ends ---- *)

Theorem C08_conventions_picard_full : forall c s e len name gc cov norm,
  read_picardhs_full_line [c; print_Z s; print_Z e; len; name; gc; cov; norm]
  = Some ((c, s + -1, e), [name; gc; cov; norm]).
Proof. exact conv_picardhs_full. Qed.

Theorem C08_roundtrip_picardhs : forall (hdr : line) (t : list row),
  read_picardhs (hdr :: write_picardhs_coords t)
  = Some (sort_rows (map (fun r => (fst r, [nth 0 (snd r) EmptyString])) t)) /\
  Forall2 (fun r f => nth 3 f EmptyString = print_Z (snd (fst r) - snd (fst (fst r)))) t (write_picardhs_coords t).
Proof. exact roundtrip_picardhs. Qed.

(* vcfio (pysam): start = POS - 1 and, where pysam offers no END, end = start + len(ALT):
   a one-base substitution at POS is [POS-1, POS); with END it is END *)
Theorem C08_vcf_end_vcfio : forall c p id ref alt rest,
  (forall posn e, vcfio_get_end (Some e) posn alt = e /\ vcfio_get_end None posn alt = posn + slen alt) /\
  (forallb (fun x => negb (Ascii.eqb x ","%char)) (chars alt) = true ->
   alt <> "."%string -> alt <> "<NON_REF>"%string ->
   read_vcfio_line None (c :: print_Z p :: id :: ref :: alt :: rest)
   = Some [((c, p + -1, p + -1 + slen alt), [ref; alt])]).
Proof.
  exact (fun c p id ref alt rest =>
           conj (fun posn e => vcfio_get_end_spec posn alt e) (conv_vcfio_line c p id ref alt rest)).
Qed.

(* vcf-simple / vcf-sites: start = POS - 1; the end is the first END=n of the INFO column,
   else start + max(0, len(ALT) - len(REF)) *)
Theorem C08_vcf_end_simple : forall start ref alt,
  (forall info, str_infix "END=" info = false ->
     vcf_simple_end start ref alt info = Some (start + Z.max 0 (slen alt - slen ref))) /\
  (forall pre n rest,
     (forall i, (i < length (chars pre))%nat ->
        prefixb (chars "END=") (skipn i (chars pre ++ chars "END=" ++ chars (print_Z n) ++ rest)) = false) ->
     gff_term rest = true -> n <> -1 ->
     vcf_simple_end start ref alt (unchars (chars pre ++ chars "END=" ++ chars (print_Z n) ++ rest)) = Some n) /\
  (forall off c p id q f info rest e, vcf_simple_end (p + off) ref alt info = Some e ->
     read_vcf_simple_row off (c :: print_Z p :: id :: ref :: alt :: q :: f :: info :: rest)
     = Some ((c, p + off, e), [ref; alt])).
Proof.
  exact (fun start ref alt =>
           conj (vcf_simple_end_no_END start ref alt)
             (conj (vcf_simple_end_END start ref alt)
                (fun off c p id q f info rest e => conv_vcf_simple_row off c p id ref alt q f info rest e))).
Qed.

(* observation (not a clause of the property text, which fixes only the start shift): these
   two readers give every substitution an EMPTY interval, end = start *)
Theorem C08_vcf_simple_snv_empty : forall start ref alt info,
  str_infix "END=" info = false -> slen alt = slen ref ->
  vcf_simple_end start ref alt info = Some start.
Proof. exact vcf_simple_snv_empty. Qed.

Theorem C08_vcf_end_examples :
  vcf_simple_end 99 "A" "G" "." = Some 99 /\
  vcf_simple_end 199 "ACG" "A" "." = Some 199 /\
  vcf_simple_end 299 "A" "ACG,AT" "." = Some 304 /\
  vcf_simple_end 399 "A" "<DEL>" "SVTYPE=DEL;END=500;CIEND=-5,5" = Some 500 /\
  vcf_simple_end 399 "A" "<DEL>" "CIEND=-5,5;END=500" = None /\
  vcf_simple_end 399 "A" "G" "END=-1" = Some 399.
Proof. exact vcf_simple_end_examples. Qed.

(* every new reader's table is sorted too *)
Theorem C08_sorted_more : forall ls : list line,
  (forall off t, read_vcf_simple_rows off ls = Some t -> rows_sorted t) /\
  (forall t, read_picardhs_full ls = Some t -> rows_sorted t) /\
  (forall lse t, read_vcfio lse = Some t -> rows_sorted t).
Proof.
  exact (fun ls => conj (fun off t => read_vcf_simple_rows_sorted off ls t)
           (conj (read_picardhs_full_sorted ls) read_vcfio_sorted)).
Qed.

(* ---- auto-detection with header lines; literals of the VCF end rules ---- *)

(* blank, browser and track lines are skipped by the detection; an empty file (or one with
   nothing but a track line) is read as an empty BED3 table; a BED table under a browser and
   a track line is detected and read to the same table *)
Theorem C08_sniff_skips_headers :
  (forall hint (f : line) (rest : list line),
     blank_line f = true \/ line_starts "track" f = true \/ line_starts "browser " f = true ->
     sniff_lines hint (f :: rest) = sniff_lines hint rest) /\
  (forall trk, line_starts "track" trk = true ->
     read_auto None [] = AutoRows "bed3" [] /\ read_auto None [trk] = AutoRows "bed3" []) /\
  (forall r t brw trk,
     sniff_row_ok r = true ->
     Forall (fun r => bed_name_ok (fst (fst (fst r))) = true) (r :: t) ->
     line_starts "browser " brw = true -> line_starts "track" trk = true ->
     sniff_lines None (brw :: trk :: write_bed3 (r :: t)) = Some (Fmt "bed") /\
     read_auto None (brw :: trk :: write_bed3 (r :: t))
     = AutoRows "bed" (sort_rows (map (fun r => (fst r, ["-"; "."]%string)) (r :: t)))).
Proof. exact (conj sniff_skip (conj read_auto_blank auto_bed3_with_headers)). Qed.

(* the literals of vcfsimple.parse_end_from_info / set_ends and vcfio._parse_records the
   model was written for *)
Theorem C08_vcf_sources :
  Gen.Formats.vcf_end_key = "END="%string /\ Gen.Formats.vcf_end_missing = -1 /\
  Gen.Formats.vcf_end_clip = 0 /\ Gen.Formats.vcf_nonref = "<NON_REF>"%string /\
  Gen.Formats.off_read_vcfio_after_pysam = 0.
Proof. exact (conj eq_refl (conj eq_refl (conj eq_refl (conj eq_refl eq_refl)))). Qed.

(* ---- second tie: definitions translated from the function BODIES (tools/fnspecs/formats.py) ---- *)

(* bedio.read_bed._parse_line: the generated column rule (gene = fields[3].rstrip() if
   len(fields) >= 4 else '-'; strand = fields[5].rstrip() if len(fields) >= 6 else '.')
   computes the extras of the model's reader *)
Theorem C08_source_bed_columns : forall (c s e : string) (rest : line) (s' e' : Z),
  parse_Z s = Some s' -> parse_Z e = Some e' ->
  let fields := c :: s :: e :: rest in
  let p := Gen.FnFormatsBed.fn_bed_gene_strand (Z.min 7 (Z.of_nat (length fields)))
             (rstrip_ws (nth 3 fields EmptyString)) (rstrip_ws (nth 5 fields EmptyString)) in
  read_bed_line fields = Some ((c, s' + Gen.Formats.off_read_bed, e'), [fst p; snd p]).
Proof. exact fn_bed_columns. Qed.

(* the `start -= 1` / `start += 1` statements of read_interval, read_picard_hs,
   write_interval, parse_seg, read_vcf_simple, read_vcf_sites *)
Theorem C08_source_start_offsets : forall s : Z,
  Gen.FnFormatsPicard.fn_read_interval_start s = s + -1 /\
  Gen.FnFormatsPicard.fn_read_picardhs_start s = s + -1 /\
  Gen.FnFormatsPicard.fn_write_interval_start s = s + 1 /\
  Gen.FnFormatsSeg.fn_parse_seg_start s = s + -1 /\
  Gen.FnFormatsVcfsimple.fn_read_vcf_simple_start s = s + -1 /\
  Gen.FnFormatsVcfsimple.fn_read_vcf_sites_start s = s + -1 /\
  Gen.FnFormatsPicard.fn_read_interval_start (Gen.FnFormatsPicard.fn_write_interval_start s) = s.
Proof.
  exact (fun s => match fn_start_offsets s with
                  | conj a (conj b (conj c (conj d (conj e f)))) =>
                      conj a (conj b (conj c (conj d (conj e (conj f (fn_interval_inverse s))))))
                  end).
Qed.

Theorem C08_source_get_end : forall posn (has_end : bool) info_end alt,
  Gen.FnFormatsVcfio.fn_get_end posn has_end info_end (slen alt)
  = vcfio_get_end (if has_end then Some info_end else None) posn alt.
Proof. exact fn_get_end_eq. Qed.

Theorem C08_source_sorter_nums : forall ds : list ascii,
  forallb is_digit ds = true ->
  Gen.FnFormatsChromsort.fn_sorter_nums (unchars ds)
    (match parse_Z (unchars ds) with Some z => z | None => 0 end) = digits_val ds.
Proof. exact fn_sorter_nums_eq. Qed.

(* ---- loop tie: ONE ITERATION of read_bed's track2track loop, translated from the Python source on every run
   (Gen/FnFormatsTrack.v fn_track_step): reading stops at the first track line; the raw lines handed on are exactly
   the prefix the model's until_track keeps *)
From CNV Require Gen.FnFormatsTrack Proofs.FnFormatsTrack.
Theorem C08_source_track_step : forall raw is_track,
  Gen.FnFormatsTrack.fn_track_step raw is_track = if is_track then ([], true) else ([raw], false).
Proof. exact Proofs.FnFormatsTrack.source_track_step. Qed.

Theorem C08_source_track_loop : forall l : list (string * Model.Formats.line),
  Proofs.FnFormatsTrack.gen_until l
  = firstn (length (Model.Formats.until_track (map snd l))) (map fst l)
  /\ Model.Formats.until_track (map snd l)
     = firstn (length (Model.Formats.until_track (map snd l))) (map snd l).
Proof. exact Proofs.FnFormatsTrack.source_track_loop. Qed.

(* ---- source tie: rangelabel.to_label, the WHOLE function (the f-string "{row.chromosome}:{row.start + 1}-{row.end}"),
   translated from the Python source on every run (Gen/FnFormatsToLabel.v fn_to_label): it is the model's to_label, and
   the model's write_text writes exactly the generated label of every row *)
From CNV Require Gen.FnFormatsToLabel Proofs.FnFormatsToLabel.

Theorem C08_source_to_label : forall (c : string) (s e : Z),
  Gen.FnFormatsToLabel.fn_to_label c s e = to_label (c, s, e).
Proof. exact Proofs.FnFormatsToLabel.source_to_label. Qed.

Theorem C08_source_write_text : forall t : list row,
  write_text t = map (fun r => let '(c, s, e) := fst r in [Gen.FnFormatsToLabel.fn_to_label c s e]) t.
Proof. exact Proofs.FnFormatsToLabel.source_write_text. Qed.

(* ---- loop tie: ONE ITERATION of seg.parse_seg's header scan "for line in handle:" (count the tabs; none: continue; 5 / 4:
   the six / five column names and break; else raise), translated from the Python source on every run
   (Gen/FnFormatsSegHeader.v fn_seg_header_step).  The step iterated over the lines, the two raises read as None, is the
   model's seg_find_header *)
From CNV Require Gen.FnFormatsSegHeader Proofs.FnFormatsSegHeader.

Theorem C08_source_seg_header : forall (cols : list string) (ls : list Model.Formats.line),
  Proofs.FnFormatsSegHeader.gen_find_header cols ls = seg_find_header ls.
Proof. exact Proofs.FnFormatsSegHeader.source_seg_header. Qed.

Theorem C08_source_seg_header_step : forall cols : list string,
  Gen.FnFormatsSegHeader.fn_seg_header_step cols 0 = (cols, false) /\
  Gen.FnFormatsSegHeader.fn_seg_header_step cols 5 = (["sample_id"; "chromosome"; "start"; "end"; "probes"; "log2"]%string, true) /\
  Gen.FnFormatsSegHeader.fn_seg_header_step cols 4 = (["sample_id"; "chromosome"; "start"; "end"; "log2"]%string, true).
Proof. exact Proofs.FnFormatsSegHeader.source_seg_header_step. Qed.

(* ---- source tie: gff.read_gff's keep_type filter ("if keep_type: ok_type = dframe['type'] == keep_type; dframe =
   dframe[ok_type]") read per row, translated from the Python source on every run (Gen/FnFormatsGffKeep.v fn_gff_keep): it is
   the model's gff_keep, the filter of read_gff_full *)
From CNV Require Gen.FnFormatsGffKeep Proofs.FnFormatsGffKeep.

Theorem C08_source_gff_keep : forall (keep_type : option string) (r : row),
  Gen.FnFormatsGffKeep.fn_gff_keep (Proofs.FnFormatsGffKeep.keep_text keep_type) (gff_type r) = gff_keep keep_type r.
Proof. exact Proofs.FnFormatsGffKeep.source_gff_keep. Qed.

Theorem C08_source_gff_filter : forall (keep_type : option string) (t : list row),
  filter (gff_keep keep_type) t
  = filter (fun r => Gen.FnFormatsGffKeep.fn_gff_keep (Proofs.FnFormatsGffKeep.keep_text keep_type) (gff_type r)) t.
Proof. exact Proofs.FnFormatsGffKeep.source_gff_filter. Qed.
