(* C17 -- segment statistics and bin tests match their definitions on the right bins.
   Property theorems only; proofs live in Proofs/SegmetricsLib.v, SegmetricsBins.v,
   Segmetrics.v, SegmetricsBivar.v, BintestBH.v, Bintest.v; extension: SegmetricsLib2.v,
   BintestTable.v, FnSegmetrics.v.

   Models: Model/Segmetrics.v (do_segmetrics; bins selected through the C07 model of
   iter_ranges_of, estimators of Model/Descriptives.v), Model/Bintest.v (residuals, z_prob,
   p_adjust_bh, do_bintest).  Textbook definitions: Spec/Stats17.v, Spec/Bintest.v,
   Spec/SegBins.v.  Preconditions on tables are C07's: per chromosome the bins are sorted
   by start with 0 <= start < end (`bins_ok`), the segment table lists each chromosome's
   segments contiguously (`segs_ok`); segments may be empty, single-bin, cut through bins.
   Oracles (KDE arg-max, Student-t tail, biweight location, bootstrap index matrix,
   smoothing noise, normal cdf) are universally quantified. *)
From CNV Require Import Base.Prelude Base.QNum Proofs.QNumLemmas
  Gen.SegmetricsDefaults Gen.DescDefaults Gen.Params
  Model.Ranges Model.Descriptives Model.Segmetrics Model.Bintest
  Spec.RangeQuery Spec.SegBins Spec.Stats17 Spec.Bintest
  Proofs.SegmetricsLib Proofs.SegmetricsBins Proofs.Segmetrics Proofs.SegmetricsBivar
  Proofs.BintestBH Proofs.Bintest Proofs.SegmetricsLib2 Proofs.BintestTable
  Gen.FnSegmetrics Gen.FnBintest Proofs.FnSegmetrics.
From Coq Require Import Qround Qabs Setoid Morphisms.
Local Open Scope Q_scope.

(* ---- the preconditions are satisfiable: gaps, a bin cut by a boundary, an empty and a
   single-bin segment, a segment on a chromosome without bins ------------------------- *)
Example ex_bins : list bin :=
  [mkBin "chr1" 0 100 "G1" 1 (1 # 2) None; mkBin "chr1" 100 200 "G1" 2 (1 # 4) None;
   mkBin "chr1" 250 300 "Antitarget" 4 1 None; mkBin "chr1" 600 700 "G2" (-1) (3 # 4) None].
Example ex_segs : list seg :=
  [mkSeg "chr1" 0 150 "-" (1 # 2) 2 1; mkSeg "chr1" 150 300 "-" 3 2 1; mkSeg "chr1" 300 500 "-" 0 0 0;
   mkSeg "chr1" 500 800 "-" 0 1 1; mkSeg "chr2" 0 100 "-" 0 0 0].
Example ex_pre : bins_ok ex_bins /\ segs_ok ex_segs.
Proof.
  split; [|reflexivity].
  intros c. unfold rows_of, of_chrom, ex_bins, tagged. cbn [length seq combine map bin_trow fst snd filter b_chr].
  destruct (String.eqb "chr1" c); cbn [map snd]; split; unfold sorted_lo; repeat constructor; cbn; lia.
Qed.
Example ex_selection :
  map (map fst) (segmetrics_bins (mkConfig [] [] [] (1 # 20) 100 false false) ex_bins ex_segs) =
  [[0; 1]; [1; 2]; []; [3]; []]%nat.
Proof. vm_compute. reflexivity. Qed.
Example ex_row :
  map snd (do_segmetrics (fun _ => mkOracles 0 0 (fun t _ => t) 40 (fun _ _ _ _ => []) (fun _ _ _ _ => []) (fun _ => 1) (fun x => x))
             (mkConfig ["mean"%string; "median"%string] ["mse"%string; "stdev"%string] ["pi"%string] (1 # 2) 100 false false)
             ex_bins (firstn 1 ex_segs)) =
  [[("mean"%string, Some (3 # 2)); ("median"%string, Some (3 # 2)); ("mse"%string, Some (5 # 4));
    ("stdev"%string, Some (1 # 4)); ("pi_lo"%string, Some (5 # 4)); ("pi_hi"%string, Some (7 # 4))]].
Proof. vm_compute. reflexivity. Qed.

(* ==== C17_bins: every statistic of a segment is computed over exactly the bins that
   overlap it -- the model's index-range / mask / label-lookup selection is the plain
   filter; segments with no bin or one bin included ==================================== *)
Theorem C17_bins_selection : forall cfg bins segs, bins_ok bins -> segs_ok segs ->
  segmetrics_bins cfg bins segs = map (overlapping_bins (used_bins cfg (tagged bins))) segs.
Proof. exact segmetrics_bins_spec. Qed.

Theorem C17_bins : forall Os cfg bins segs, bins_ok bins -> segs_ok segs ->
  do_segmetrics Os cfg bins segs =
  map (fun is => (snd is, row_of_bins (Os (fst is)) cfg (snd is)
                            (overlapping_bins (used_bins cfg (tagged bins)) (snd is))))
      (combine (seq 0 (length segs)) segs).
Proof. exact do_segmetrics_bins. Qed.

(* the spread statistics see the deviations log2_i - segment log2 *)
Theorem C17_deviations : forall seg_log2 vals,
  eqQ (map (fun x => qsub x seg_log2) vals) (map (fun x => x - seg_log2) vals).
Proof. exact deviations_eqQ. Qed.

(* no bin: NaN everywhere; one bin: the value / the decorators' default 0 / NaN for sem *)
Theorem C17_bins_empty : forall loc,
  st_mean [] = None /\ st_median [] = None /\ st_stdev_sq [] = None /\ st_mad [] = None /\
  st_mse [] = None /\ st_iqr [] = None /\ st_bivar_sq loc [] = None /\ st_sem_sq [] = None.
Proof. exact st_empty. Qed.

Theorem C17_bins_single : forall loc x,
  (exists v, st_mean [x] = Some v /\ v == x) /\ (exists v, st_median [x] = Some v /\ v == x) /\
  (exists v, st_stdev_sq [x] = Some v /\ v == 0) /\ st_mad [x] = Some 0 /\ st_mse [x] = Some 0 /\
  st_iqr [x] = Some 0 /\ (exists v, st_bivar_sq loc [x] = Some v /\ v == 0) /\ st_sem_sq [x] = None.
Proof. exact st_single. Qed.

(* ==== C17_defs: each statistic equals its textbook definition (Spec/Stats17.v); [d] is
   the list the code passes, [d'] any list of the same numbers (e.g. log2_i - seg log2) == *)
Theorem C17_defs_mean : forall d d', eqQ d d' -> d <> [] ->
  exists v, st_mean d = Some v /\ v == mean_def d'.
Proof. exact st_mean_def. Qed.

Theorem C17_defs_median : forall d d', eqQ d d' -> d <> [] ->
  exists v, st_median d = Some v /\ is_median v d'.
Proof. exact st_median_def. Qed.

(* the t statistic behind p_ttest (the Student-t tail itself is an oracle) *)
Theorem C17_defs_tstat : forall d d', eqQ d d' -> d <> [] -> t_squared d == t_sq_def d'.
Proof. exact t_squared_def. Qed.

Theorem C17_defs_stdev : forall d d', eqQ d d' -> d <> [] ->
  exists v, st_stdev_sq d = Some v /\ v == stdev_sq_def d'.
Proof. exact st_stdev_def. Qed.

Theorem C17_defs_sem : forall d d', eqQ d d' -> (2 <= length d)%nat ->
  exists v, st_sem_sq d = Some v /\ v == sem_sq_def d'.
Proof. exact st_sem_def. Qed.

(* MAD with the generated consistency constant, which is the float 1.4826 *)
Theorem C17_defs_mad : forall d d', eqQ d d' -> (2 <= length d)%nat ->
  exists v, st_mad d = Some v /\ is_mad MAD_SCALE v d'.
Proof. exact st_mad_def. Qed.
Example C17_mad_constant : Qabs (MAD_SCALE - (14826 # 10000)) < 1 # 1000000000000000.
Proof. vm_compute. reflexivity. Qed.

(* mse = the mean of the squared deviations from the segment log2 (after /repo 40f88ee;
   before it the column was the variance of the deviations) *)
Theorem C17_defs_mse : forall d d', eqQ d d' -> (2 <= length d)%nat ->
  exists v, st_mse d = Some v /\ v == mse_def d'.
Proof. exact st_mse_def. Qed.

(* IQR by numpy's linear-interpolated 25th and 75th percentiles *)
Theorem C17_defs_iqr : forall d d', eqQ d d' -> (2 <= length d)%nat ->
  exists v, st_iqr d = Some v /\ is_iqr v d'.
Proof. exact st_iqr_def. Qed.

(* biweight midvariance (c = 9) about the location it is given, unless no deviation is
   left inside the cut-off (then MAD * 1.4826); non-degenerate scale 9 MAD >= 1e-3 *)
Theorem C17_defs_bivar : forall loc d v, (2 <= length d)%nat ->
  BIVAR_EPS <= 9 * median (abs_all (sub_all loc d)) ->
  st_bivar_sq loc d = Some v ->
  (exists mad, is_median mad (map (fun x => Qabs (x - loc)) d) /\
     (forall x, In x (bw_kept 9 loc mad d) -> x == loc) /\
     v == (mad * BIVAR_MAD_SCALE) * (mad * BIVAR_MAD_SCALE))
  \/ is_bivar_sq 9 loc v d.
Proof. exact st_bivar_def. Qed.

(* ==== C17_pi_order: the prediction interval is the alpha/2 and 1 - alpha/2 percentiles
   and brackets the median ============================================================ *)
Theorem C17_pi_order : forall alpha vals lo hi, 0 < alpha -> alpha < 1 ->
  pi_func alpha vals = Some (lo, hi) ->
  lo <= median vals /\ median vals <= hi /\
  is_percentile (pi_pct_lo alpha) lo vals /\ is_percentile (pi_pct_hi alpha) hi vals.
Proof. exact pi_order. Qed.

Theorem C17_pi_percentages : forall alpha,
  pi_pct_lo alpha == 100 * (alpha / 2) /\ pi_pct_hi alpha == 100 * (1 - alpha / 2).
Proof. exact pi_pcts_text. Qed.

(* ==== C17_ci_order_range ============================================================== *)
(* ci_lo <= ci_hi, smoothed or not, whatever the resampling indices and the noise are *)
Theorem C17_ci_order : forall O alpha boots smoothed vals wts lo hi, 0 < alpha -> alpha < 1 ->
  ci_func O alpha boots smoothed vals wts = Some (lo, hi) -> lo <= hi.
Proof. exact ci_order. Qed.

(* un-smoothed bootstrap, positive weights: inside [min, max] of the bins' log2 for ANY
   index matrix with entries in [0, k) *)
Theorem C17_ci_order_range : forall O alpha boots vals wts lo hi, 0 < alpha -> alpha < 1 ->
  length wts = length vals -> (forall w, In w wts -> 0 < w) ->
  idx_contract (length vals) (ci_resamples O boots (length vals)) ->
  ci_func O alpha boots false vals wts = Some (lo, hi) ->
  lo <= hi /\ qmin vals <= lo /\ hi <= qmax vals.
Proof. exact ci_order_range. Qed.

Theorem C17_ci_range_is_min_max : forall l, l <> [] -> is_min (qmin l) l /\ is_max (qmax l) l.
Proof. intros l N. split; [now apply qmin_is_min|now apply qmax_is_max]. Qed.

Theorem C17_ci_percentages : forall alpha,
  ci_pct_lo alpha == 100 * (alpha / 2) /\ ci_pct_hi alpha == 100 * (1 - alpha / 2).
Proof. exact ci_pcts_text. Qed.

(* the smoothed bootstrap is NOT confined to the bins' range (open finding
   c17-smoothed-ci-leaves-range) *)
Theorem C17_ci_smoothed_range_refuted :
  exists O alpha boots vals wts lo,
    0 < alpha /\ alpha < 1 /\ length wts = length vals /\ (forall w, In w wts -> 0 < w) /\
    idx_contract (length vals) (ci_resamples O boots (length vals)) /\
    ci_func O alpha boots true vals wts = Some (lo, lo) /\ lo < qmin vals.
Proof. exact ci_smoothed_range_refuted. Qed.

(* reproducible run to run: the resampling is seeded with the constant 0xA5EED on every
   call, single-bin segments are never resampled (frame statement: C10) *)
(* strengthened: ... and the interval a call returns does not depend on the state numpy's global
   generator is in when the call is made (the state is explicit in [ci_run]); see
   C17_ci_seed_state / C17_ci_reproducible below *)
Theorem C17_ci_seed :
  (ci_seed = 679661%Z /\ ci_min_k = 2%Z) /\
  (forall St (G : rng St) O st st' alpha boots smoothed vals wts,
     fst (ci_run G O st alpha boots smoothed vals wts) = fst (ci_run G O st' alpha boots smoothed vals wts)).
Proof. exact ci_seed_strong. Qed.

(* ==== C17_columns_kept: the segment table's own columns come back unchanged ============ *)
Theorem C17_columns_kept : forall Os cfg bins segs, map fst (do_segmetrics Os cfg bins segs) = segs.
Proof. exact do_segmetrics_columns. Qed.

(* ==== C17_bh: p_adjust_bh is the Benjamini-Hochberg adjustment ========================= *)
Example ex_bh : bh [1 # 2; 1 # 4; 1 # 4; 1; 0] = [5 # 8; 5 # 12; 5 # 12; 1; 0].
Proof. vm_compute. reflexivity. Qed.

Theorem C17_bh_length : forall ps, length (bh ps) = length ps.
Proof. exact bh_length. Qed.

(* at every position: q = min 1 (min over the p_j >= p of n p_j / #{k | p_k <= p_j}) *)
Theorem C17_bh : forall ps, pvals ps ->
  forall i, (i < length ps)%nat -> nthq i (bh ps) == bh_val ps (nthq i ps).
Proof. exact bh_is_def. Qed.

(* which is the rank formula q_(r) = min 1 (min_{j >= r} n p_(j) / j) on the ascending
   vector, ties, 0 and 1 included *)
Theorem C17_bh_rank : forall s, sortedQ s -> pvals s ->
  forall r, (r < length s)%nat -> bh_rank s r == bh_val s (nthq r s).
Proof. exact bh_rank_is_val. Qed.

Theorem C17_bh_multiset : forall ps ps' p, Permutation ps ps' -> bh_val ps p == bh_val ps' p.
Proof. exact bh_val_perm. Qed.

(* monotone in rank, p <= q <= 1 *)
Theorem C17_bh_mono : forall ps p p', p <= p' -> bh_val ps p <= bh_val ps p'.
Proof. exact bh_val_mono. Qed.

Theorem C17_bh_bounds : forall ps p, pvals ps -> In p ps -> p <= bh_val ps p /\ bh_val ps p <= 1.
Proof. exact bh_val_bounds. Qed.

(* ==== residuals: inner selection, segment log2 subtracted, bins outside all segments
   dropped ============================================================================== *)
Theorem C17_residuals : forall bins segs, bins_ok bins -> segs_ok segs ->
  resid_segments (tagged bins) segs =
  concat (map (fun s => map (resid_of s) (contained_bins (tagged bins) s)) segs).
Proof. exact resid_segments_spec. Qed.

Theorem C17_residuals_in : forall bins segs c, bins_ok bins -> segs_ok segs ->
  (In c (resid_segments (tagged bins) segs) <->
   exists s, In s segs /\ In (fst c) (tagged bins) /\ seg_contains s (c_bin c) = true /\
             c_res c = qsub (b_log2 (c_bin c)) (s_log2 s)).
Proof. exact resid_segments_In. Qed.

(* z^2 = (log2 - segment mean)^2 / (1 - weight) *)
Theorem C17_zscore : forall r w, w < 1 -> exists z2, zsq r w = Zfin z2 /\ z2 == r * r / (1 - w).
Proof. exact zsq_spec. Qed.

(* ==== C17_hits: exactly the tested rows with adjusted p < alpha, in order; on-target only
   when asked; for every normal-cdf oracle with values in [0, 1/2] ====================== *)
Theorem C17_hits : forall phi, (forall z, 0 <= phi z /\ phi z <= 1 # 2) ->
  forall bins segs alpha target_only,
    let cs := candidates bins segs target_only in
    Forall (fun c => cand_z c <> Znan) cs ->
    do_bintest phi bins segs alpha target_only =
    map hit_of (filter (fun cq => qlt_b (snd cq) alpha) (combine cs (bh (map (raw_p phi) cs)))) /\
    (forall k, (k < length cs)%nat ->
       nthq k (bh (map (raw_p phi) cs)) ==
       bh_val (map (raw_p phi) cs) (raw_p phi (nth k cs (nth 0 cs (0%nat, mkBin "" 0 0 "" 0 0 None, 0))))).
Proof. exact do_bintest_spec. Qed.

Theorem C17_hits_target_only : forall bins segs,
  candidates bins segs true =
  filter (fun c => negb (existsb (String.eqb (b_gene (c_bin c))) ANTITARGET_ALIASES))
         (candidates bins segs false).
Proof. exact candidates_target_only. Qed.

(* an undefined z-score (weight 1, residual 0) makes every adjusted p NaN: no hit *)
Theorem C17_hits_nan : forall ps cs alpha, In None ps -> bintest_with ps cs alpha = [].
Proof. exact bintest_with_nan. Qed.

(* in order: the hits keep the order of the tested rows (C17_hits), and when the residuals
   cover every bin exactly once the tested rows come in the order of the bin table *)
Theorem C17_hits_order : forall bins segs,
  let r := match segs with
           | Some (s :: t) => resid_segments (tagged bins) (s :: t)
           | _ => resid_chromosomes (tagged bins)
           end in
  length r = length (dedupe [] r) -> length (dedupe [] r) = length bins ->
  map c_idx (candidates bins segs false) = map fst (filter (has_cand (dedupe [] r)) (tagged bins)).
Proof. exact candidates_table_order. Qed.

(* ======================================================================================== *)
(* ==== extension: the bootstrap machinery exactly ========================================= *)
(* the number of resamples: raised to ceil(2/alpha) when bootstraps <= 2/alpha, kept otherwise
   -- the least integer that is >= bootstraps and >= 2/alpha; q2a is the quotient 2/alpha as
   the code holds it *)
Theorem C17_ci_bootstraps : forall b q2a,
  n_boot b q2a = Z.max b (Qceiling q2a) /\
  (inject_Z b <= q2a -> n_boot b q2a = Qceiling q2a) /\ (q2a < inject_Z b -> n_boot b q2a = b) /\
  (b <= n_boot b q2a)%Z /\ q2a <= inject_Z (n_boot b q2a) /\
  (forall m, (b <= m)%Z -> q2a <= inject_Z m -> (n_boot b q2a <= m)%Z).
Proof. exact n_boot_summary. Qed.

(* for the exact quotient and alpha in (0,1): at least 3 resamples, at least one in each tail *)
Theorem C17_ci_bootstraps_alpha : forall b q2a alpha, 0 < alpha -> alpha < 1 -> q2a == 2 / alpha ->
  (3 <= n_boot b q2a)%Z /\ 1 <= inject_Z (n_boot b q2a) * (alpha / 2).
Proof. exact n_boot_alpha. Qed.
Example ex_n_boot : n_boot 100 40 = 100%Z /\ n_boot 40 40 = 40%Z /\ n_boot 10 (81 # 2) = 41%Z /\ n_boot 39 40 = 40%Z.
Proof. vm_compute. repeat split; reflexivity. Qed.

(* no bin: no interval; one bin (k < 2): the value twice, nothing drawn; otherwise the
   100 alpha/2 and 100 (1 - alpha/2) percentiles of the bootstrap distribution *)
Theorem C17_ci_cases : forall O alpha boots smoothed vals wts,
  match vals with
  | [] => ci_func O alpha boots smoothed vals wts = None
  | [x] => ci_func O alpha boots smoothed vals wts = Some (x, x)
  | _ => ci_func O alpha boots smoothed vals wts =
         Some (percentile (ci_pct_lo alpha) (ci_dist O boots smoothed vals wts),
               percentile (ci_pct_hi alpha) (ci_dist O boots smoothed vals wts))
  end.
Proof. exact ci_func_cases. Qed.

(* the index matrix is drawn after seed(0xA5EED) with shape (n_boot bootstraps) x k, entries in [0, k) *)
Theorem C17_ci_matrix_shape : forall O boots k, randint_contract (o_randint O) ->
  ci_resamples O boots k = o_randint O 679661%Z k (Z.to_nat (n_boot boots (o_q2a O))) k /\
  length (ci_resamples O boots k) = Z.to_nat (n_boot boots (o_q2a O)) /\
  Forall (fun r => length r = k /\ Forall (fun i => (i < k)%nat) r) (ci_resamples O boots k).
Proof. exact ci_matrix_shape. Qed.

(* un-smoothed: one textbook weighted mean per row, over the bins the row names *)
Theorem C17_ci_resample_means : forall O boots vals wts,
  eqQ (ci_dist O boots false vals wts)
      (map (fun idx => wmean_def (map (fun i => nth i vals 0) idx) (map (fun i => nth i wts 0) idx))
           (ci_resamples O boots (length vals))).
Proof. exact ci_dist_plain. Qed.

(* the un-smoothed interval lies in the bins' range for every generator meeting the contract *)
Theorem C17_ci_order_range_contract : forall O alpha boots vals wts lo hi, 0 < alpha -> alpha < 1 ->
  length wts = length vals -> (forall w, In w wts -> 0 < w) ->
  randint_contract (o_randint O) -> 0 < o_q2a O ->
  ci_func O alpha boots false vals wts = Some (lo, hi) ->
  lo <= hi /\ qmin vals <= lo /\ hi <= qmax vals.
Proof. exact ci_order_range_contract. Qed.

(* C17_ci_smoothed_formula: element c of resample r is v_i + bw * sqrt(1 - w_i) * z_rc (i the bin
   drawn at (r, c), bw the bandwidth oracle k^(-1/4) at k = number of bins, z the standard-normal
   draws, one vector per row); the mean of the row is weighted by the un-smoothed w_i *)
Theorem C17_ci_smoothed_formula : forall O boots vals wts, Proper (Qeq ==> Qeq) (o_sqrt O) ->
  eqQ (ci_dist O boots true vals wts)
      (map2 (fun idx z => wmean_def (smoothed_sample (o_sqrt O) (o_bw O (length vals)) vals wts idx z)
                                    (map (fun i => nth i wts 0) idx))
            (ci_resamples O boots (length vals)) (ci_normals O boots (length vals))).
Proof. exact ci_dist_smoothed. Qed.
(* the exponent of the bandwidth and the 1 of sqrt(1 - w) are the source's *)
Theorem C17_ci_smoothed_constants : (sm_bw_exp_num = 1 /\ sm_bw_exp_den = 4)%Z /\ sm_one == 1.
Proof. exact smoothed_constants. Qed.

(* bins of weight 1 get no noise (sqrt 0 = 0): with all weights 1 the smoothed interval is the
   plain one, hence inside the bins' range *)
Theorem C17_ci_smoothed_weight_one : forall O boots vals wts,
  Proper (Qeq ==> Qeq) (o_sqrt O) -> o_sqrt O 0 == 0 ->
  randint_contract (o_randint O) -> randn_contract (o_randn O) ->
  length wts = length vals -> (forall w, In w wts -> w == 1) ->
  eqQ (ci_dist O boots true vals wts) (ci_dist O boots false vals wts).
Proof. exact ci_dist_weight_one. Qed.

(* C17_ci_seed, strengthened: with numpy's hidden random state explicit, the interval a call
   returns is the seed-indexed one whatever state the process is in -- a function of (values,
   weights, alpha, bootstraps, smoothed) and the seed alone; the state it leaves behind does
   not depend on the state it found (k >= 2) or is that state untouched (k < 2); so does a
   whole pass over the segments, and a second pass in the same process repeats the first *)
Theorem C17_ci_seed_state : forall St (G : rng St) O st alpha boots smoothed vals wts,
  fst (ci_run G O st alpha boots smoothed vals wts) = ci_func (rng_oracles G O) alpha boots smoothed vals wts /\
  ((2 <= length vals)%nat -> forall st', snd (ci_run G O st alpha boots smoothed vals wts) =
                                          snd (ci_run G O st' alpha boots smoothed vals wts)) /\
  ((length vals < 2)%nat -> snd (ci_run G O st alpha boots smoothed vals wts) = st).
Proof. exact ci_seed_state. Qed.

Theorem C17_ci_reproducible : forall St (G : rng St) O st st' alpha boots smoothed segs,
  fst (calc_intervals_run G O st alpha boots smoothed segs) =
  fst (calc_intervals_run G O st' alpha boots smoothed segs) /\
  fst (calc_intervals_run G O (snd (calc_intervals_run G O st alpha boots smoothed segs)) alpha boots smoothed segs) =
  fst (calc_intervals_run G O st alpha boots smoothed segs) /\
  fst (calc_intervals_run G O st alpha boots smoothed segs) =
  map (fun vw => ci_func (rng_oracles G O) alpha boots smoothed (fst vw) (snd vw)) segs.
Proof. exact ci_reproducible. Qed.

(* ==== extension: assembly of the output table =========================================== *)
(* C17_table_columns: known, distinct names in each family -- the statistic columns are the
   requested location statistics in the requested order, then the requested spread statistics
   in the requested order, then ci_lo, ci_hi, then pi_lo, pi_hi (in that order whatever the
   order of interval_stats), and nothing else *)
Theorem C17_table_columns : forall O cfg sl vals wts, names_ok cfg ->
  map fst (row_of_values O cfg sl vals wts) =
  c_loc cfg ++ c_spread cfg ++
  (if has "ci" (c_ivl cfg) then ["ci_lo"; "ci_hi"]%string else []) ++
  (if has "pi" (c_ivl cfg) then ["pi_lo"; "pi_hi"]%string else []).
Proof. exact row_columns_ok. Qed.
Example ex_names_ok : names_ok (mkConfig ["p_ttest"; "mean"]%string ["sem"; "bivar"; "mad"]%string ["pi"; "ci"]%string (1 # 20) 100 false false).
Proof.
  repeat split; try (repeat constructor; cbn; intuition discriminate);
    intros n H; cbn in H; repeat destruct H as [<-|H]; try reflexivity; destruct H.
Qed.

(* any name lists (repeats, unknown names): every name once, at its first assignment; the same
   columns in every row of the table; no statistic column unless requested *)
Theorem C17_table_columns_general : forall Os cfg bins segs,
  Forall (fun r => map fst (snd r) = first_occurrences (requested_columns cfg)) (do_segmetrics Os cfg bins segs).
Proof. exact do_segmetrics_table_columns. Qed.

Theorem C17_table_only_requested : forall O cfg sl vals wts nm,
  In nm (map fst (row_of_values O cfg sl vals wts)) ->
  (In nm (c_loc cfg) /\ is_loc_name nm = true) \/ (In nm (c_spread cfg) /\ is_spread_name nm = true) \/
  (has "ci" (c_ivl cfg) = true /\ In nm ["ci_lo"; "ci_hi"]%string) \/
  (has "pi" (c_ivl cfg) = true /\ In nm ["pi_lo"; "pi_hi"]%string).
Proof. exact row_columns_only_requested. Qed.

(* and the value in a requested column is that statistic: of the bins' log2 (location), of the
   deviations from the segment log2 (spread) *)
Theorem C17_table_values : forall O cfg sl vals wts nm f, names_ok cfg ->
  (In nm (c_loc cfg) -> loc_stat O nm = Some f -> In (nm, f vals) (row_of_values O cfg sl vals wts)) /\
  (In nm (c_spread cfg) -> spread_stat O nm = Some f ->
   In (nm, f (map (fun x => qsub x sl) vals)) (row_of_values O cfg sl vals wts)).
Proof. exact table_values. Qed.

(* ==== extension: the t-test column ======================================================= *)
(* p_ttest depends on the bins only through t^2 and their number (contract of the tail oracle:
   a function of the numbers (t^2, df), 1 at t = 0) *)
Theorem C17_ttest_function_of_t2_n : forall tt a a', tt_contract tt -> (2 <= length a)%nat -> length a = length a' ->
  ~ var_ddof1 a == 0 -> ~ var_ddof1 a' == 0 -> t_squared a == t_squared a' ->
  exists p p', st_pttest tt a = Some p /\ st_pttest tt a' = Some p' /\ p == p'.
Proof. exact st_pttest_fun_t2_n. Qed.

(* mean 0, some spread: t = 0, the oracle is asked at 0, p = 1 *)
Theorem C17_ttest_zero_mean : forall tt a, tt_contract tt -> (2 <= length a)%nat -> ~ var_ddof1 a == 0 ->
  qmean a == 0 ->
  t_squared a == 0 /\ exists p, st_pttest tt a = Some p /\ p == tt 0 (length a - 1)%nat /\ p == 1.
Proof. exact st_pttest_zero_mean. Qed.

(* no bin, one bin: NaN; no spread (e.g. all bins equal): NaN if the mean is 0 too, else 0 *)
Theorem C17_ttest_degenerate : forall tt,
  st_pttest tt [] = None /\ (forall x, st_pttest tt [x] = None) /\
  (forall a, (2 <= length a)%nat -> var_ddof1 a == 0 ->
     st_pttest tt a = if qeq_b (qmean a) 0 then None else Some 0).
Proof. exact st_pttest_degenerate. Qed.

Theorem C17_ttest_all_equal : forall c a, a <> [] -> (forall x, In x a -> x == c) -> var_ddof1 a == 0.
Proof. exact var_ddof1_const. Qed.

(* ==== extension: do_bintest end to end =================================================== *)
(* C17_bintest_table: the returned table has the input's columns (log2 in place), then probes,
   then p_bintest; its (index, log2, p_bintest) columns are the hits; every row is the input
   bin carrying that index label with log2 := residual and nothing else changed, probes = 1 *)
Theorem C17_bintest_table : forall phi bins segs alpha target_only,
  map (fun h => (h_idx h, b_log2 (h_bin h), h_p h)) (do_bintest_table phi bins segs alpha target_only) =
  do_bintest phi bins segs alpha target_only /\
  Forall (fun h => (h_idx h < length bins)%nat /\
                   h_bin h = set_log2 (nth (h_idx h) bins dflt_bin) (b_log2 (h_bin h)) /\
                   h_probes h = 1%Z)
         (do_bintest_table phi bins segs alpha target_only).
Proof. exact bintest_table_summary. Qed.

Theorem C17_bintest_columns :
  bintest_columns false = ["chromosome"; "start"; "end"; "gene"; "log2"; "weight"; "probes"; "p_bintest"]%string /\
  bintest_columns true = ["chromosome"; "start"; "end"; "gene"; "log2"; "weight"; "depth"; "probes"; "p_bintest"]%string.
Proof. exact bintest_columns_text. Qed.

(* hits row order in general: table order when the residuals cover every bin exactly once;
   otherwise the order of the residuals (segment by segment as the segment table lists them,
   first occurrence of a bin kept, C17_residuals) *)
Theorem C17_hits_order_general : forall bins segs,
  let r := resid_rows bins segs in
  let r' := dedupe [] r in
  map c_idx (candidates bins segs false) =
  if Nat.eqb (length r) (length r') && Nat.eqb (length r') (length bins)
  then seq 0 (length bins) else map c_idx r'.
Proof. exact candidates_order_general. Qed.

(* segments listed in the table's order: the tested rows are the residual rows, by increasing
   index label = table order *)
Theorem C17_hits_order_sorted : forall bins segs,
  let r := resid_rows bins segs in
  StronglySorted lt (map c_idx r) ->
  StronglySorted lt (map c_idx (candidates bins segs false)) /\
  (forall i, In i (map c_idx (candidates bins segs false)) <-> In i (map c_idx r)).
Proof. exact candidates_sorted_order. Qed.

(* weights exactly 1: sqrt(1 - w) = 0, z = r/0 -- p = 0 for a non-zero residual (adjusted p 0:
   reported at every alpha > 0), NaN for a zero residual (then C17_hits_nan: no hit at all) *)
Theorem C17_zscore_weight_one : forall phi r w, w == 1 ->
  zsq r w = (if qeq_b r 0 then Znan else Zinf) /\
  p_of phi (zsq r w) = if qeq_b r 0 then None else Some 0.
Proof. exact zscore_weight_one_summary. Qed.

Theorem C17_bh_zero : forall ps, pvals ps -> In 0 ps -> bh_val ps 0 == 0.
Proof. exact bh_val_zero. Qed.

(* ==== extension: source ties (function bodies translated by tools/py2v_fn.py) ============ *)
Theorem C17_source_pi_pcts : forall alpha,
  fst (fn_pi_pcts alpha) == pi_pct_lo alpha /\ snd (fn_pi_pcts alpha) == pi_pct_hi alpha.
Proof. exact fn_pi_pcts_eq. Qed.

Theorem C17_source_new_boots : forall alpha, fn_new_boots alpha = Qceiling (2 / alpha).
Proof. exact fn_new_boots_eq. Qed.

Theorem C17_source_n_boot : forall b q2a alpha, q2a == 2 / alpha ->
  n_boot b q2a = if Qle_bool (inject_Z b) (2 / alpha) then fn_new_boots alpha else b.
Proof. exact n_boot_source. Qed.

Theorem C17_source_z_score : forall sd r w z2, w < 1 -> sd * sd == 1 - w -> zsq r w = Zfin z2 ->
  fn_z_score sd r * fn_z_score sd r == z2.
Proof. exact fn_z_score_eq. Qed.

Theorem C17_source_z_p : forall phi z2,
  p_of phi (Zfin z2) = Some (qmul z_two (phi z2)) /\ qmul z_two (phi z2) == fn_z_p (phi z2).
Proof. exact fn_z_p_eq. Qed.

(* ==== loop ties (one iteration / one row of the Python code, translated from /repo on every run; LOOP_TIES_GUIDE) ==== *)
From CNV Require Import Gen.FnSegCalcIntervals Gen.FnSegCiBoots Gen.FnSegIntervalCols Gen.FnBintestRow Gen.FnBintestBH
  Proofs.FnSegCalcIntervals Proofs.FnSegCiBoots Proofs.FnSegIntervalCols Proofs.FnBintestRow Proofs.FnBintestBH.

(* segmetrics.calc_intervals, one iteration of `for i, ser in enumerate(bins_log2s)`: entry i of the two output arrays is
   NaN for a segment without bins, else the pair func returns (first component low, second high) *)
Theorem C17_source_calc_step : forall i n r,
  py_calc_iter i n r = match n with O => None | S _ => Some r end.
Proof. exact source_calc_step. Qed.

(* ... the model's interval functions are that iteration, func being the bootstrap CI resp. the percentile pair *)
Theorem C17_source_calc_intervals_ci : forall O alpha bootstraps smoothed vals wts i,
  ci_func O alpha bootstraps smoothed vals wts
  = py_calc_iter i (length vals) (ci_values O alpha bootstraps smoothed vals wts).
Proof. exact source_calc_intervals_ci. Qed.

Theorem C17_source_calc_intervals_pi : forall alpha vals i,
  pi_func alpha vals = py_calc_iter i (length vals) (pi_values alpha vals).
Proof. exact source_calc_intervals_pi. Qed.

(* confidence_interval_bootstrap, the whole `if bootstraps <= 2 / alpha:` statement = the model's n_boot *)
Theorem C17_source_ci_bootstraps : forall b q2a alpha, q2a == 2 / alpha ->
  n_boot b q2a = fn_ci_bootstraps b alpha.
Proof. exact source_n_boot. Qed.

Theorem C17_source_ci_bootstraps_value : forall b alpha,
  fn_ci_bootstraps b alpha = if Qle_bool (inject_Z b) (2 / alpha) then Qceiling (2 / alpha) else b.
Proof. exact source_n_boot_value. Qed.

(* do_segmetrics, the interval columns of a segment row: ci_lo / ci_hi / pi_lo / pi_hi under the two requests *)
Theorem C17_source_interval_columns : forall O cfg seg_log2 vals wts,
  row_assignments O cfg seg_log2 vals wts
  = named_stats (loc_stat O) (c_loc cfg) vals
    ++ named_stats (spread_stat O) (c_spread cfg) (map (fun x => qsub x seg_log2) vals)
    ++ py_interval_cols O cfg vals wts.
Proof. exact source_interval_columns. Qed.

(* bintest.do_bintest per row: the hit mask `p_bintest < alpha` (NaN: no hit) and the stores log2 := resid, probes := 1
   give the model's hit table *)
Theorem C17_source_bintest_is_sig : forall q alpha,
  fn_bintest_is_sig q alpha = match q with Some x => qlt_b x alpha | None => false end.
Proof. exact source_bintest_is_sig. Qed.

Theorem C17_source_bintest_table : forall ps cs alpha,
  bintest_table_with ps cs alpha
  = concat (map (fun cq => if fn_bintest_is_sig (snd cq) alpha then [py_hit_row cq] else [])
                (combine cs (bh_opt ps))).
Proof. exact source_bintest_table. Qed.

Theorem C17_source_bintest_hits : forall ps cs alpha,
  bintest_with ps cs alpha
  = concat (map (fun cq => if fn_bintest_is_sig (snd cq) alpha
                           then [(c_idx (fst cq), fst (fn_bintest_stores (c_res (fst cq))), p_value (snd cq))]
                           else [])
                (combine cs (bh_opt ps))).
Proof. exact source_bintest_hits. Qed.

(* bintest.p_adjust_bh per element: steps = float(len(p)) / arange(len(p), 0, -1) and the cap min(1, running minimum) *)
Theorem C17_source_bh : forall ps,
  bh ps =
  let n := length ps in
  let d := by_descend ps in
  let q := map fn_bh_cap (cummin (py_steps_mul n n (map fst d))) in
  let tab := combine (map snd d) q in
  map (fun i => lookup_idx i tab) (seq 0 n).
Proof. exact source_bh. Qed.

(* ========================================================================== *)
(** * Source ties, further wave [loop ties e2] (tools/fnspecs/segmetrics_e2.py; one generated module per tie) *)
From CNV Require Gen.FnSegStatLoop Proofs.FnSegStatLoop Gen.FnSegCiTail Proofs.FnSegCiTail Gen.FnSegSmooth Proofs.FnSegSmooth.

(* do_segmetrics' statistic loops, one iteration read for one segment row: `func = stat_funcs[statname]` looks up exactly
   the statistic the model names, and it is applied to the row's bins (location) / deviations (spread) *)
Theorem C17_source_location_stat : forall O ci pi nm f vals,
  loc_stat O nm = Some f -> Proofs.FnSegStatLoop.src_location O ci pi nm vals = f vals.
Proof. exact Proofs.FnSegStatLoop.source_location_stat. Qed.
Theorem C17_source_spread_stat : forall O ci pi nm f devs,
  spread_stat O nm = Some f -> Proofs.FnSegStatLoop.src_spread O ci pi nm devs = f devs.
Proof. exact Proofs.FnSegStatLoop.source_spread_stat. Qed.
(* ... and the model's column assignments ARE the generated step, once per requested name, in order *)
Theorem C17_source_location_loop : forall O ci pi names vals,
  (forall nm, In nm names -> loc_stat O nm <> None) ->
  named_stats (loc_stat O) names vals = map (fun nm => (nm, Proofs.FnSegStatLoop.src_location O ci pi nm vals)) names.
Proof. exact Proofs.FnSegStatLoop.source_location_loop. Qed.
Theorem C17_source_spread_loop : forall O ci pi names devs,
  (forall nm, In nm names -> spread_stat O nm <> None) ->
  named_stats (spread_stat O) names devs = map (fun nm => (nm, Proofs.FnSegStatLoop.src_spread O ci pi nm devs)) names.
Proof. exact Proofs.FnSegStatLoop.source_spread_loop. Qed.

(* confidence_interval_bootstrap from `k = len(values)` on: the `k < 2` early return and the percentile selection
   100 * [alpha / 2, 1 - alpha / 2] over the bootstrap distribution *)
Theorem C17_source_ci_tail : forall O alpha boots smoothed x t wts,
  let vals := x :: t in
  eqQ (Proofs.FnSegCiTail.pair_list (ci_func O alpha boots smoothed vals wts))
      (Gen.FnSegCiTail.fn_ci_tail (Z.of_nat (length vals)) [x; x] alpha smoothed Proofs.FnSegCiTail.percentiles
                                  (ci_dist O boots smoothed vals wts)).
Proof. exact Proofs.FnSegCiTail.source_ci_tail. Qed.

(* _smooth_samples_by_weight's comprehension, one item / one element: v + bw * sqrt(1 - w) * z, the weight kept *)
Theorem C17_source_smooth_item : forall (sqrtf : Q -> Q) k bw v w z,
  (forall a b, a == b -> sqrtf a == sqrtf b) ->
  smooth_elem sqrtf bw v w z == fst (Gen.FnSegSmooth.fn_smooth_item sqrtf k bw v w z) /\
  snd (Gen.FnSegSmooth.fn_smooth_item sqrtf k bw v w z) = w.
Proof. exact Proofs.FnSegSmooth.source_smooth_item. Qed.
